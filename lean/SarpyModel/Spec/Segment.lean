/-
  Spec.Segment — data segments as index maps (DESIGN 3.2).

  An N-dimensional array is a shape together with an index function; a data segment is a term of `Seg`:
  stored leaf array (`leaf`: NumpyArraySegment / NumpyMemmapSegment; `fleaf`: the row-reading FileReadDataSegment),
  re-orientation (`orient`: reverse_axes + transpose_axes with the identity format function - the array segments
  themselves, ReorientationSegment, and the orientation of the aggregates), complex pairing (`cplx`:
  ComplexFormatFunction IQ / QI with the band axis collapsed), `subset` (with or without squeezed axes), band aggregate
  (`bands`), block aggregate (`blocks`, holes and overlaps allowed).  Every node has these semantics:

  * `full t`      : the whole formatted array, as the *documented* transform of the stored samples
                    (flip / transpose / numpy basic slicing / reshape / stack / paste into a fill canvas) - denotational;
  * `read t ts`   : what the Python computes for a normalised subscript `ts` (one normal slice per formatted
                    axis), written *the way the code does it*: transform the subscript into the subscript(s) of
                    what lies below (mirror, inverse permutation, block overlap, subset composition), read below,
                    then flip / transpose / pair / place the result;
  * `write t ts d`: the raw assignments `(stored array, raw index, sample)` the code performs for a formatted chunk `d`
                    addressed by `ts`, again routed the way the code routes it (inverse transpose / flip of the chunk,
                    the same subscript transforms, band and block routing).

  `Props/C01Seg.lean` proves `read t ts = (full t)[ts]`, `Props/C07Seg.lean` the dual statement for `write`, both by
  structural induction over arbitrary trees.  The model is generic in what a stored sample *is*: `L id idx` is the
  sample of leaf `id` at raw index `idx`, `F` the fill value, `Pairing.pair` forms a complex sample; instantiated with
  `Src.leaf` / `Src.fill` / `Src.pair` it computes provenance, which is what the driver prints and what the harness
  compares with the real sarpy segments.

  Extension (SEG2): raw-basis subsets over a parent with the identity format function (`subsetR`), block definitions
  with step -1 (`Blks.rcons`, served through `flipSlice` since the repair F1 of `_find_slice_overlap`),
  ComplexFormatFunction with the band dimension kept (`cplxK`; refuses a band step other than +1 and a reversed band
  axis), the orders MP / PM (`COrd`, the pixel value is the *named* function `Pairing.polar` of the two stored samples),
  SingleLUTFormatFunction with a 1-d (`lut1`) or 2-d (`lut2`) table (`Pairing.lut`), and writes through the complex
  format functions (the inverse splits a pixel into its two parts, `Parts.part`).
  `Seg.accepts t ts` is the set of normalised subscripts the code serves (it raises ValueError on the others);
  refinement is proved on that set.

  Not modelled: raw-basis subsets whose parent is itself a subset or has a complex / LUT format function,
  AmpScalingFunction (position dependent scaling), `read_raw` as an entry point of its own (it is modelled as the node
  below an `orient`).

  Line numbers refer to sarpy/io/general/data_segment.py (ds) and format_function.py (ff) at /repo commit a516c01;
  those of the SEG2 extension (fmtSub, rawSubK, dblSlice, flipSlice, pairKept, lutMap / lutCols, unpair / unpairK, the new
  constructors) at /repo commit dcdd97a.
  Import-free apart from the slice kernels.
-/
import SarpyModel.Spec.Slice

namespace Sarpy.Spec
open Sarpy

/-! ### N-dimensional arrays as index maps -/

/-- an index tuple; only the entries below the number of axes matter -/
abbrev Idx := Nat → Int

structure Arr (α : Type) where
  shape : List Nat
  get : Idx → α

def dimAt (shape : List Nat) (i : Nat) : Nat := shape.getD i 0
def sliceAt (ts : List NSlice) (i : Nat) : NSlice := ts.getD i default

/-- all index tuples of a shape in row-major (C) order -/
def allIdx : List Nat → List (List Int)
  | [] => [[]]
  | n :: ns => (List.range n).flatMap (fun (i : Nat) => (allIdx ns).map (fun r => (i : Int) :: r))

def ofList (l : List Int) : Idx := fun i => l.getD i 0

/-- the elements in row-major order (what `ndarray.ravel()` gives) -/
def Arr.toList {α : Type} (a : Arr α) : List α := (allIdx a.shape).map (fun l => a.get (ofList l))

def Arr.const {α : Type} (shape : List Nat) (v : α) : Arr α := ⟨shape, fun _ => v⟩

/-- the index each output position of a subscript selects: `start + k * step` per axis -/
def selIdx (ts : List NSlice) (idx : Idx) : Idx :=
  fun i => (sliceAt ts i).start + idx i * (sliceAt ts i).step

/-- numpy basic slicing with one normal slice per axis: `a[ts]` -/
def Arr.select {α : Type} (a : Arr α) (ts : List NSlice) : Arr α :=
  ⟨ts.map NSlice.count, fun idx => a.get (selIdx ts idx)⟩

/-- `verify_subscript(None, shape)`: the whole array (slice_parsing.py:107-131) -/
def fullSub (shape : List Nat) : List NSlice := shape.map (fun (n : Nat) => (⟨0, some (n : Int), 1⟩ : NSlice))

/-- `numpy.flip(a, axis=i)` for every `i` in `rev` (`_reverse_and_transpose`, ff:223-261; `reverse_axes` is a sorted set, ds:428-443) -/
def Arr.flip {α : Type} (rev : List Nat) (a : Arr α) : Arr α :=
  ⟨a.shape, fun idx => a.get (fun i => if i ∈ rev then (dimAt a.shape i : Int) - 1 - idx i else idx i)⟩

def gather (p : List Nat) (l : List Nat) : List Nat := p.map (fun i => l.getD i 0)

/-- `numpy.transpose(a, axes=q)`: `out.shape[j] = a.shape[q[j]]`, `out[idx] = a[idx ∘ qinv]`
    where `qinv` is the inverse permutation of `q` (ff:223-261) -/
def Arr.transpose {α : Type} (q qinv : List Nat) (a : Arr α) : Arr α :=
  ⟨gather q a.shape, fun idx => a.get (fun i => idx (qinv.getD i 0))⟩

/-- `_reverse_transpose_axes = tuple(value.index(i) for i in range(len(value)))` (ff:212) -/
def invPerm (perm : List Nat) : List Nat := (List.range perm.length).map (fun i => perm.idxOf i)

/-- `IdentityFunction.transform_formatted_slice` (ff:465-483): raw axis `i` gets the formatted slice at
    `inv[i]`, mirrored (`reformat_slice`, ff:24-85) when `i` is a reversed axis -/
def rawSub (rawShape rev inv : List Nat) (ts : List NSlice) : List NSlice :=
  (List.range inv.length).map (fun i =>
    let t := sliceAt ts (inv.getD i 0)
    if i ∈ rev then mirror (dimAt rawShape i) t else t)

/-- `IdentityFunction.transform_raw_slice` (ff:486-505): formatted axis `j` gets the raw slice at `perm[j]`,
    mirrored when that raw axis is reversed (`shape_limit = formatted_shape[j] = raw_shape[perm[j]]`) -/
def fmtSub (rawShape rev perm : List Nat) (rs : List NSlice) : List NSlice :=
  (List.range perm.length).map (fun j =>
    let t := sliceAt rs (perm.getD j 0)
    if perm.getD j 0 ∈ rev then mirror (dimAt rawShape (perm.getD j 0)) t else t)

/-- a slice with start and stop doubled (`2*temp_sl.start`, `2*temp_sl.stop`, ff:723-736) -/
def dblSlice (t : NSlice) : NSlice := ⟨2 * t.start, t.stop.map (2 * ·), t.step⟩

/-- `ComplexFormatFunction.transform_formatted_slice` with the band dimension kept (ff:698-736): as `rawSub`, and the
    entry of the raw axis that carries the band dimension `bd` (after the possible mirror, which the code takes with
    the raw, doubled, axis length) has start and stop doubled -/
def rawSubK (rawShape rev inv : List Nat) (bd : Nat) (ts : List NSlice) : List NSlice :=
  (List.range inv.length).map (fun i =>
    let t := sliceAt ts (inv.getD i 0)
    let m := if i ∈ rev then mirror (dimAt rawShape i) t else t
    if inv.getD i 0 = bd then dblSlice m else m)

/-- the subscript with entry `bd` doubled -/
def dblAt (bd : Nat) (ts : List NSlice) : List NSlice :=
  (List.range ts.length).map (fun j => if j = bd then dblSlice (sliceAt ts j) else sliceAt ts j)

def insAt {β : Type} (k : Nat) (x : β) (l : List β) : List β := l.take k ++ x :: l.drop k
def delAt {β : Type} (k : Nat) (l : List β) : List β := l.take k ++ l.drop (k + 1)

/-- the index tuple with axis `k` removed -/
def dropAx (k : Nat) (idx : Idx) : Idx := fun i => if i < k then idx i else idx (i + 1)

/-- which parent axes a `SubsetSegment` keeps (`_original_formatted_indices != -1`, ds:1151-1162): all of them, or with
    `squeeze=True` those whose definition selects more than one index -/
def keepAxes (sq : Bool) (defs : List NSlice) : List Bool := defs.map (fun d => !(sq && d.count == 1))

/-- the entries of `l` at the kept axes -/
def pick {β : Type} : List Bool → List β → List β
  | k :: ks, x :: xs => if k then x :: pick ks xs else pick ks xs
  | _, _ => []

/-- position of parent axis `i` among the kept axes (`out_index`) -/
def rank : List Bool → Nat → Nat
  | [], _ => 0
  | _ :: _, 0 => 0
  | k :: ks, i + 1 => (if k then 1 else 0) + rank ks i

/-- the kept parent axes, in order -/
def keptAxes : List Bool → List Nat
  | [] => []
  | k :: ks => (if k then [0] else []) ++ (keptAxes ks).map (· + 1)

/-- subset index -> parent-result index: 0 on the squeezed (length-1) axes -/
def unsq (keep : List Bool) (idx : Idx) : Idx := fun i => if keep.getD i false then idx (rank keep i) else 0

/-- parent-result index -> subset index -/
def sqIdx (keep : List Bool) (idx : Idx) : Idx := fun r => idx ((keptAxes keep).getD r 0)

/-- `numpy.reshape(data, use_shape)` dropping the squeezed length-1 axes (ds:1320-1328) -/
def Arr.squeeze {α : Type} (keep : List Bool) (a : Arr α) : Arr α :=
  ⟨pick keep a.shape, fun idx => a.get (unsq keep idx)⟩

/-- `numpy.reshape(data, parent_shape)` restoring the squeezed length-1 axes (ds:1391-1393) -/
def Arr.unsqueeze {α : Type} (keep : List Bool) (shape : List Nat) (a : Arr α) : Arr α :=
  ⟨shape, fun idx => a.get (sqIdx keep idx)⟩

/-- `SubsetSegment._get_parent_subscript` (ds:1176-1224): a squeezed axis gets the subset definition itself, a kept
    axis the composition (`compose`) of the definition with the next entry of the subscript -/
def composeSq : List Nat → List NSlice → List Bool → List NSlice → List NSlice
  | n :: ns, d :: ds, true :: ks, p :: ps => compose n d p :: composeSq ns ds ks ps
  | _ :: ns, d :: ds, false :: ks, ps => d :: composeSq ns ds ks ps
  | _, _, _, _ => []

/-- the per-axis loop of `BlockAggregateSegment.read_raw` (ds:1876-1890): `_find_slice_overlap` of every data
    slice with the block's interval; `none` as soon as one axis has no overlap.
    Result: (subscript relative to the child, positions in the output array) -/
def overlaps : List NSlice → List (Int × Int) → Option (List NSlice × List NSlice)
  | t :: ts, b :: bs =>
    match overlap t b.1 b.2 with
    | none => none
    | some (c, p) =>
      match overlaps ts bs with
      | none => none
      | some (cs, ps) => some (c :: cs, p :: ps)
  | _, _ => some ([], [])

/-- is the index inside the box `[lo_i, hi_i)` on the first `box.length` axes -/
def inBox (box : List (Int × Int)) (idx : Idx) : Bool :=
  (List.range box.length).all (fun i => decide ((box.getD i (0, 0)).1 ≤ idx i ∧ idx i < (box.getD i (0, 0)).2))

def boxLo (box : List (Int × Int)) (idx : Idx) : Idx := fun i => idx i - (box.getD i (0, 0)).1

/-- unit-step output slices as a box -/
def sliceBox (ps : List NSlice) : List (Int × Int) := ps.map (fun p => (p.start, p.stop.getD 0))

/-- `out[box] = d` for unit-step slices (numpy basic assignment): inside the box the sample comes from `d` -/
def Arr.paste {α : Type} (out : Arr α) (box : List (Int × Int)) (d : Arr α) : Arr α :=
  ⟨out.shape, fun idx => if inBox box idx then d.get (boxLo box idx) else out.get idx⟩

/-- position inside a block whose definition runs backwards (`slice(hi-1, lo-1, -1)`) on the axes flagged in `rv` -/
def boxLoR (box : List (Int × Int)) (rv : List Bool) (idx : Idx) : Idx :=
  fun i => if rv.getD i false then (box.getD i (0, 0)).2 - 1 - idx i else idx i - (box.getD i (0, 0)).1

/-- `out[entry] = d` where `entry` has step -1 on the axes flagged in `rv` (numpy basic assignment) -/
def Arr.pasteR {α : Type} (out : Arr α) (box : List (Int × Int)) (rv : List Bool) (d : Arr α) : Arr α :=
  ⟨out.shape, fun idx => if inBox box idx then d.get (boxLoR box rv idx) else out.get idx⟩

/-- `_find_slice_overlap(slice_in, ref_slice)` with `ref_slice.step < 0` (ds:140-153, as repaired by
    F1_block_reversed_definition): `c` is the overlap relative to the interval the definition covers (length `len`) and
    `p` the positions in the output, both as for a forward definition; the child is addressed backwards: position `r` of
    the interval is child index `len - 1 - r`, visited in the same order, so the step changes sign -/
def flipSlice (len : Int) (c p : NSlice) : NSlice :=
  let st := len - 1 - c.start
  let stp := -c.step
  let e := st + (p.stop.getD 0 - p.start) * stp
  ⟨st, (if stp > 0 then some (min e len) else if e < 0 then none else some e), stp⟩

/-- the per-axis loop of `BlockAggregateSegment.read_raw` (ds:1876-1890) for a block definition that runs backwards on the
    axes flagged in `rv` -/
def overlapsR : List NSlice → List (Int × Int) → List Bool → Option (List NSlice × List NSlice)
  | t :: ts, b :: bs, r :: rs =>
    match overlap t b.1 b.2 with
    | none => none
    | some (c, p) =>
      match overlapsR ts bs rs with
      | none => none
      | some (cs, ps) => some ((if r then flipSlice (b.2 - b.1) c p else c) :: cs, p :: ps)
  | _, _, _ => some ([], [])

/-! ### complex samples -/

/-- what it takes to form a formatted sample from stored samples: `pair re im` (orders IQ / QI),
    `polar magnitude phase` (orders MP / PM, `_forward_magnitude_theta`, also AmpLookupFunction),
    `lut c x` (entry `c` of row `x` of a lookup table).  The functions are names: the index theorems do not look
    inside them (their numerics are property C08's business). -/
class Pairing (α : Type) where
  pair : α → α → α
  polar : α → α → α
  lut : Nat → α → α

/-- the four orders of `ComplexFormatFunction` (ff:530) -/
inductive COrd where
  | IQ | QI | MP | PM
deriving DecidableEq, Repr, Inhabited

/-- the formatted sample from the stored samples at the even (`a0`) and the odd (`a1`) band position
    (`_forward_functional_step`, ff:799-820) -/
def comb {α : Type} [Pairing α] : COrd → α → α → α
  | .IQ, a0, a1 => Pairing.pair a0 a1
  | .QI, a0, a1 => Pairing.pair a1 a0
  | .MP, a0, a1 => Pairing.polar a0 a1
  | .PM, a0, a1 => Pairing.polar a1 a0

/-- what the inverse of a complex format function stores: `part 0` real, `part 1` imaginary, `part 2` magnitude,
    `part 3` phase of a formatted sample (names again) -/
class Parts (α : Type) where
  part : Nat → α → α

/-- which part goes to the even / odd band position (`_reverse_functional_step`, ff:879-889, `_reverse_magnitude_theta`) -/
def COrd.slot : COrd → Bool → Nat
  | .IQ, false => 0 | .IQ, true => 1
  | .QI, false => 1 | .QI, true => 0
  | .MP, false => 2 | .MP, true => 3
  | .PM, false => 3 | .PM, true => 2

/-- the index tuple with `k` inserted at axis `bd` -/
def insAx (bd : Nat) (k : Int) (idx : Idx) : Idx :=
  fun i => if i < bd then idx i else if i = bd then k else idx (i - 1)

/-- `ComplexFormatFunction._forward_functional_step` for orders IQ / QI with the band axis `bd` (length 2) collapsed
    (ff:779-810): `out.real = data.take([0], axis=bd)`, `out.imag = data.take([1], axis=bd)` for IQ, swapped for QI -/
def Arr.pairUp {α : Type} [Pairing α] (ord : COrd) (bd : Nat) (a : Arr α) : Arr α :=
  ⟨a.shape.take bd ++ a.shape.drop (bd + 1),
   fun idx => comb ord (a.get (insAx bd 0 idx)) (a.get (insAx bd 1 idx))⟩

/-- the shape with axis `bd` halved (`after_mapping_shape`, ff:657-659) -/
def halveAt (bd : Nat) (shape : List Nat) : List Nat :=
  (List.range shape.length).map (fun i => if i = bd then dimAt shape i / 2 else dimAt shape i)

/-- the index tuple with entry `bd` replaced by `2 * idx bd + s` -/
def dblAx (bd : Nat) (s : Int) (idx : Idx) : Idx := fun i => if i = bd then 2 * idx i + s else idx i

/-- the same step with the band dimension kept (ff:793-820): formatted band `k` is made of raw bands `2k`, `2k+1` -/
def Arr.pairKept {α : Type} [Pairing α] (ord : COrd) (bd : Nat) (a : Arr α) : Arr α :=
  ⟨halveAt bd a.shape, fun idx => comb ord (a.get (dblAx bd 0 idx)) (a.get (dblAx bd 1 idx))⟩

/-- elementwise application of a table column (`lookup_table[temp]`, ff:1022) -/
def Arr.lutMap {α : Type} [Pairing α] (a : Arr α) : Arr α := ⟨a.shape, fun idx => Pairing.lut 0 (a.get idx)⟩

/-- 2-d table with `m` columns: a new last axis (ff:1023-1027) -/
def Arr.lutCols {α : Type} [Pairing α] (m : Nat) (a : Arr α) : Arr α :=
  ⟨a.shape ++ [m], fun idx => Pairing.lut (idx a.shape.length).toNat (a.get idx)⟩

/-! ### equality of arrays -/

/-- the index tuple lies inside the shape -/
def InR (shape : List Nat) (idx : Idx) : Prop :=
  ∀ i, i < shape.length → 0 ≤ idx i ∧ idx i < (dimAt shape i : Int)

/-- same shape and same element at every in-range index: equality of N-d arrays -/
def Arr.Equiv {α : Type} (a b : Arr α) : Prop :=
  a.shape = b.shape ∧ ∀ idx, InR a.shape idx → a.get idx = b.get idx

/-- the array looks at its index tuple only below its number of axes -/
def Arr.Local {α : Type} (a : Arr α) : Prop :=
  ∀ idx idx' : Idx, (∀ i, i < a.shape.length → idx i = idx' i) → a.get idx = a.get idx'

def allSlicesNormal : List Nat → List NSlice → Bool
  | [], [] => true
  | n :: ns, t :: ts => decide (t.Normal n) && allSlicesNormal ns ts
  | _, _ => false

/-! ### segment trees -/

mutual
inductive Seg where
  /-- stored array `id` of the given raw shape (NumpyArraySegment / NumpyMemmapSegment storage,
      the bytes behind a FileReadDataSegment) -/
  | leaf (id : Nat) (shape : List Nat)
  /-- the same storage behind a `FileReadDataSegment` (read-only; it reads whole rows and slices them itself) -/
  | fleaf (id : Nat) (shape : List Nat)
  /-- `DataSegment.read` with an `IdentityFunction`: formatted = transpose(flip(raw)), where raw is what lies
      below (a leaf for the array segments, the parent's formatted data for a `ReorientationSegment`,
      the stack / mosaic for the aggregates) -/
  | orient (rev perm : List Nat) (p : Seg)
  /-- `DataSegment.read` with a `ComplexFormatFunction(order, band_dimension = bd)` whose band axis (length 2,
      position `bd` after the transpose) is collapsed: formatted = pairs(transpose(flip(raw))) -/
  | cplx (ord : COrd) (rev perm : List Nat) (bd : Nat) (p : Seg)
  /-- the same with the band dimension kept (raw_ndim = formatted_ndim): axis `bd` is halved -/
  | cplxK (ord : COrd) (rev perm : List Nat) (bd : Nat) (p : Seg)
  /-- `SingleLUTFormatFunction` with a one-dimensional table -/
  | lut1 (rev perm : List Nat) (p : Seg)
  /-- `SingleLUTFormatFunction` with a two-dimensional table of `m` columns (a new last axis of length `m`) -/
  | lut2 (m : Nat) (rev perm : List Nat) (p : Seg)
  /-- `SubsetSegment(parent, defs, 'formatted', squeeze=sq)` -/
  | subset (sq : Bool) (defs : List NSlice) (p : Seg)
  /-- `SubsetSegment(parent, rdefs, 'raw', squeeze=sq)` where the parent has the identity format function with
      `reverse_axes = rev`, `transpose_axes = perm` over the raw data `p` -/
  | subsetR (sq : Bool) (rdefs : List NSlice) (rev perm : List Nat) (p : Seg)
  /-- raw data of a `BandAggregateSegment`: children stacked along axis `bd` -/
  | bands (bd : Nat) (cs : Segs)
  /-- raw data of a `BlockAggregateSegment`: children pasted at `arr` into a canvas of `shape` filled with the
      missing-data value, in order -/
  | blocks (shape : List Nat) (cs : Blks)
inductive Segs where
  | nil
  | cons (c : Seg) (rest : Segs)
inductive Blks where
  | nil
  | cons (arr : List (Int × Int)) (c : Seg) (rest : Blks)
  /-- a block whose definition has step -1 on the axes flagged in `rv`: entry `slice(b1-1, b0-1, -1)` for the box `[b0, b1)`
      (served since the repair F1_block_reversed_definition; before it every subscript reaching such a block was refused) -/
  | rcons (arr : List (Int × Int)) (rv : List Bool) (c : Seg) (rest : Blks)
end

def Segs.length : Segs → Nat
  | .nil => 0
  | .cons _ r => r.length + 1

mutual
/-- the advertised `formatted_shape` -/
def Seg.fshape : Seg → List Nat
  | .leaf _ s => s
  | .fleaf _ s => s
  | .orient _ perm p => gather perm p.fshape                      -- ff:448-463 (formatted[i] = raw[trans[i]])
  | .cplx _ _ perm bd p => delAt bd (gather perm p.fshape)         -- ff:644-686
  | .cplxK _ _ perm bd p => halveAt bd (gather perm p.fshape)      -- ff:657-668
  | .lut1 _ perm p => gather perm p.fshape                         -- ff:944-959
  | .lut2 m _ perm p => gather perm p.fshape ++ [m]
  | .subset sq defs _ => pick (keepAxes sq defs) (defs.map NSlice.count)     -- ds:1151-1158
  | .subsetR sq rdefs rev perm p =>
    pick (keepAxes sq (fmtSub p.fshape rev perm rdefs)) ((fmtSub p.fshape rev perm rdefs).map NSlice.count)
  | .bands bd cs => insAt bd cs.length cs.headShape               -- ds:1587-1591
  | .blocks s _ => s
def Segs.headShape : Segs → List Nat
  | .nil => []
  | .cons c _ => c.fshape
end

section Sem
variable {α : Type} [Pairing α] (L : Nat → List Int → α) (F : α)

mutual
/-- **denotation**: the full formatted array as the documented transform of the stored samples -/
def Seg.full : Seg → Arr α
  | .leaf id s => ⟨s, fun idx => L id ((List.range s.length).map idx)⟩
  | .fleaf id s => ⟨s, fun idx => L id ((List.range s.length).map idx)⟩
  | .orient rev perm p => ((p.full).flip rev).transpose perm (invPerm perm)
  | .cplx ord rev perm bd p => (((p.full).flip rev).transpose perm (invPerm perm)).pairUp ord bd
  | .cplxK ord rev perm bd p => (((p.full).flip rev).transpose perm (invPerm perm)).pairKept ord bd
  | .lut1 rev perm p => (((p.full).flip rev).transpose perm (invPerm perm)).lutMap
  | .lut2 m rev perm p => (((p.full).flip rev).transpose perm (invPerm perm)).lutCols m
  | .subset sq defs p => ((p.full).select defs).squeeze (keepAxes sq defs)
  -- the formatted view of the parent, cut by the formatted form of the raw definition; `C01Seg.subsetR_full_raw`
  -- proves that this is the orientation of the raw selection `raw[rdefs]`
  | .subsetR sq rdefs rev perm p =>
    ((((p.full).flip rev).transpose perm (invPerm perm)).select (fmtSub p.fshape rev perm rdefs)).squeeze
      (keepAxes sq (fmtSub p.fshape rev perm rdefs))
  | .bands bd cs =>
    ⟨insAt bd cs.length cs.headShape, fun idx => (cs.fullNth (idx bd).toNat).get (dropAx bd idx)⟩   -- numpy.stack
  | .blocks s cs => cs.fullOnto (Arr.const s F)
/-- full image of the `n`-th child -/
def Segs.fullNth : Segs → Nat → Arr α
  | .nil, _ => Arr.const [] F
  | .cons c _, 0 => c.full
  | .cons _ r, n + 1 => r.fullNth n
/-- paste the children's full images, in order, onto a canvas -/
def Blks.fullOnto : Blks → Arr α → Arr α
  | .nil, acc => acc
  | .cons arr c r, acc => r.fullOnto (acc.paste arr c.full)
  | .rcons arr rv c r, acc => r.fullOnto (acc.pasteR arr rv c.full)
end

mutual
/-- **operation**: what the code computes for the normalised subscript `ts` (meaningful when `Seg.accepts t ts`) -/
def Seg.read : Seg → List NSlice → Arr α
  -- NumpyArraySegment.read_raw: `self._underlying_array[subscript]` (ds:2084-2098) - numpy itself
  | .leaf id s, ts => (Arr.mk s (fun idx => L id ((List.range s.length).map idx))).select ts
  -- FileReadDataSegment.read_raw (ds:2527-2571): reverse a negative-step first slice (`_reverse_slice`), read the
  --   contiguous rows [start, stop) of the file, slice them with (slice(None, None, step),) + subscript[1:],
  --   flip the first axis back if the slice was reversed
  | .fleaf id s, ts =>
    let init := sliceAt ts 0
    let ini := if init.step < 0 then reverseSlice init else init
    let rows := (ini.stop.getD 0 - ini.start).toNat
    let data : Arr α :=
      ⟨rows :: s.tail, fun idx => L id ((List.range s.length).map (fun i => if i = 0 then idx 0 + ini.start else idx i))⟩
    let out := data.select (⟨0, some (rows : Int), ini.step⟩ :: ts.tail)
    if init.step < 0 then out.flip [0] else out
  -- DataSegment.read (ds:608-635): raw_subscript = transform_formatted_slice(ts); read_raw; format_function(...)
  --   = _reverse_and_transpose (ff:223-261) then the identity functional step
  | .orient rev perm p, ts =>
    ((p.read (rawSub p.fshape rev (invPerm perm) ts)).flip rev).transpose perm (invPerm perm)
  -- the same with ComplexFormatFunction.transform_formatted_slice (ff:688-738, collapsed branch: the subscript is padded
  --   with slice(0, 2, 1) at the band dimension, then treated as the identity function does) and the pairing step
  | .cplx ord rev perm bd p, ts =>
    (((p.read (rawSub p.fshape rev (invPerm perm) (insAt bd ⟨0, some 2, 1⟩ ts))).flip rev).transpose perm
      (invPerm perm)).pairUp ord bd
  -- band dimension kept (ff:698-736 and 793-820)
  | .cplxK ord rev perm bd p, ts =>
    (((p.read (rawSubK p.fshape rev (invPerm perm) bd ts)).flip rev).transpose perm (invPerm perm)).pairKept ord bd
  -- SingleLUTFormatFunction (ff:961-981, 1008-1046)
  | .lut1 rev perm p, ts =>
    (((p.read (rawSub p.fshape rev (invPerm perm) ts)).flip rev).transpose perm (invPerm perm)).lutMap
  -- 2-d table: the last entry of the subscript is ignored by transform_formatted_slice and applied to the new axis
  --   afterwards (`array.take(arange(m)[subscript[-1]], axis=-1)`, ff:1036-1042)
  | .lut2 _ rev perm p, ts =>
    let o := ((p.read (rawSub p.fshape rev (invPerm perm) ts)).flip rev).transpose perm (invPerm perm)
    ⟨ts.map NSlice.count,
     fun idx => Pairing.lut (selIdx ts idx perm.length).toNat (o.get idx)⟩
  -- SubsetSegment.read (ds:1308-1328): parent.read(get_parent_formatted_subscript(ts), squeeze=False), reshaped
  | .subset sq defs p, ts =>
    (p.read (composeSq p.fshape defs (keepAxes sq defs) ts)).squeeze (keepAxes sq defs)
  -- the same; the formatted definition was computed from the raw one at construction (ds:1141-1143, 1014-1023)
  | .subsetR sq rdefs rev perm p, ts =>
    let fdefs := fmtSub p.fshape rev perm rdefs
    let pts := composeSq (gather perm p.fshape) fdefs (keepAxes sq fdefs) ts
    (((p.read (rawSub p.fshape rev (invPerm perm) pts)).flip rev).transpose perm (invPerm perm)).squeeze
      (keepAxes sq fdefs)
  -- BandAggregateSegment.read_raw (ds:1616-1638): band `out_index` of the output is
  --   children[arange(bands)[ts[bd]][out_index]].read(ts without axis bd)
  | .bands bd cs, ts =>
    ⟨ts.map NSlice.count,
     fun idx => (cs.readNth (((sliceAt ts bd).indices).getD (idx bd).toNat 0).toNat (delAt bd ts)).get (dropAx bd idx)⟩
  -- BlockAggregateSegment.read_raw (ds:1865-1895)
  | .blocks _ cs, ts => cs.readOnto ts (Arr.const (ts.map NSlice.count) F)
def Segs.readNth : Segs → Nat → List NSlice → Arr α
  | .nil, _, _ => Arr.const [] F
  | .cons c _, 0, ts => c.read ts
  | .cons _ r, n + 1, ts => r.readNth n ts
/-- the loop over `(entry, child)` of ds:1876-1890: later children overwrite earlier ones -/
def Blks.readOnto : Blks → List NSlice → Arr α → Arr α
  | .nil, _, out => out
  | .cons arr c r, ts, out =>
    match overlaps ts arr with
    | none => r.readOnto ts out
    | some (csub, psub) => r.readOnto ts (out.paste (sliceBox psub) (c.read csub))
  | .rcons arr rv c r, ts, out =>
    match overlapsR ts arr rv with
    | none => r.readOnto ts out
    | some (csub, psub) => r.readOnto ts (out.paste (sliceBox psub) (c.read csub))
end

end Sem

/-! ### the subscripts the code serves -/

/-- `transform_formatted_slice` of the segment (through `_subscript_to_raw`, ds:1000-1011) does not raise: evaluated by the
    constructor of a `SubsetSegment` on its definition -/
def Seg.rawOK : Seg → List NSlice → Bool
  | .cplxK _ _ _ bd _, ds => decide ((sliceAt ds bd).step = 1)
  | .subset sq defs p, ds => p.rawOK (composeSq p.fshape defs (keepAxes sq defs) ds)
  | _, _ => true

mutual
/-- **the supported set**: `read(ts)` / `write(.., subscript=ts)` returns normally (no ValueError) for the
    normalised subscript `ts` -/
def Seg.accepts : Seg → List NSlice → Bool
  | .leaf _ _, _ => true
  | .fleaf _ _, _ => true
  | .orient rev perm p, ts => p.accepts (rawSub p.fshape rev (invPerm perm) ts)
  | .cplx _ rev perm bd p, ts => p.accepts (rawSub p.fshape rev (invPerm perm) (insAt bd ⟨0, some 2, 1⟩ ts))
  -- ff:718-722: a step other than 1 along the band dimension raises; the doubled raw subscript is then verified
  --   against the raw shape by read_raw (a reversed band axis always fails there: `C01Seg.cplxK_reversed_refused`)
  | .cplxK _ rev perm bd p, ts =>
    decide ((sliceAt ts bd).step = 1) && allSlicesNormal p.fshape (rawSubK p.fshape rev (invPerm perm) bd ts) &&
      p.accepts (rawSubK p.fshape rev (invPerm perm) bd ts)
  | .lut1 rev perm p, ts => p.accepts (rawSub p.fshape rev (invPerm perm) ts)
  | .lut2 _ rev perm p, ts => p.accepts (rawSub p.fshape rev (invPerm perm) ts)
  | .subset sq defs p, ts => p.accepts (composeSq p.fshape defs (keepAxes sq defs) ts)
  | .subsetR sq rdefs rev perm p, ts =>
    p.accepts (rawSub p.fshape rev (invPerm perm)
      (composeSq (gather perm p.fshape) (fmtSub p.fshape rev perm rdefs) (keepAxes sq (fmtSub p.fshape rev perm rdefs)) ts))
  | .bands bd cs, ts => (sliceAt ts bd).indices.all (fun b => cs.acceptsNth b.toNat (delAt bd ts))
  | .blocks _ cs, ts => cs.acceptsOnto ts
def Segs.acceptsNth : Segs → Nat → List NSlice → Bool
  | .nil, _, _ => true
  | .cons c _, 0, ts => c.accepts ts
  | .cons _ r, n + 1, ts => r.acceptsNth n ts
def Blks.acceptsOnto : Blks → List NSlice → Bool
  | .nil, _ => true
  | .cons arr c r, ts =>
    (match overlaps ts arr with
     | none => true
     | some (csub, _) => c.accepts csub) && r.acceptsOnto ts
  | .rcons arr rv c r, ts =>
    (match overlapsR ts arr rv with
     | none => true
     | some (csub, _) => c.accepts csub) && r.acceptsOnto ts
end


/-! ### writes (C07): the raw assignments a formatted chunk is routed to -/

/-- `data[(slice(0, n0), ..., out_index, ..., slice(0, nk))]`: band `k` of the chunk along axis `bd` (ds:1693-1701) -/
def Arr.takeAx {α : Type} (bd : Nat) (k : Int) (a : Arr α) : Arr α :=
  ⟨delAt bd a.shape, fun idx => a.get (insAx bd k idx)⟩

/-- `ComplexFormatFunction._reverse_functional_step` with the band axis collapsed (ff:854-889): a new axis of length 2
    at `bd`; position 0 gets the first part of the sample, position 1 the second (`out[slice0]`, `out[slice1]`) -/
def Arr.unpair {α : Type} [Parts α] (ord : COrd) (bd : Nat) (a : Arr α) : Arr α :=
  ⟨insAt bd 2 a.shape, fun idx => Parts.part (ord.slot (decide (idx bd ≠ 0))) (a.get (dropAx bd idx))⟩

/-- the index tuple with entry `bd` halved -/
def halfAx (bd : Nat) (idx : Idx) : Idx := fun i => if i = bd then idx i / 2 else idx i

/-- the shape with axis `bd` doubled -/
def doubleAt (bd : Nat) (shape : List Nat) : List Nat :=
  (List.range shape.length).map (fun i => if i = bd then 2 * dimAt shape i else dimAt shape i)

/-- the same with the band dimension kept: axis `bd` doubles, even positions get the first part, odd the second -/
def Arr.unpairK {α : Type} [Parts α] (ord : COrd) (bd : Nat) (a : Arr α) : Arr α :=
  ⟨doubleAt bd a.shape, fun idx => Parts.part (ord.slot (decide (idx bd % 2 ≠ 0))) (a.get (halfAx bd idx))⟩

/-- the per-axis loop of `BlockAggregateSegment.write_raw` (ds:1948-1971): overlap of the data slice with the block,
    then `_find_slice_overlap(slice(0, lim, 1), par_entry)` to address the chunk itself.
    Result: (subscript relative to the child, subscript into the chunk) -/
def overlapsW : List Nat → List NSlice → List (Int × Int) → Option (List NSlice × List NSlice)
  | lim :: lims, t :: ts, b :: bs =>
    match overlap t b.1 b.2 with
    | none => none
    | some (c, p) =>
      match overlap ⟨0, some lim, 1⟩ p.start (p.stop.getD 0) with
      | none => none
      | some (_, dsl) =>
        match overlapsW lims ts bs with
        | none => none
        | some (cs, ds) => some (c :: cs, dsl :: ds)
  | _, _, _ => some ([], [])

/-- the same for a block definition that runs backwards on the axes flagged in `rv` -/
def overlapsWR : List Nat → List NSlice → List (Int × Int) → List Bool → Option (List NSlice × List NSlice)
  | lim :: lims, t :: ts, b :: bs, r :: rs =>
    match overlap t b.1 b.2 with
    | none => none
    | some (c, p) =>
      match overlap ⟨0, some lim, 1⟩ p.start (p.stop.getD 0) with
      | none => none
      | some (_, dsl) =>
        match overlapsWR lims ts bs rs with
        | none => none
        | some (cs, ds) => some ((if r then flipSlice (b.2 - b.1) c p else c) :: cs, dsl :: ds)
  | _, _, _, _ => some ([], [])

section Write
variable {α : Type} [Parts α]

mutual
/-- **operation**: the list of `(leaf id, raw index, sample)` assignments `write(data, subscript=ts)` performs
    (meaningful when `Seg.accepts t ts`) -/
def Seg.write : Seg → List NSlice → Arr α → List (Nat × List Int × α)
  -- NumpyArraySegment.write_raw (ds:2131-2141): `self._underlying_array[subscript] = data` - numpy itself
  | .leaf id s, ts, d =>
    (allIdx (ts.map NSlice.count)).map (fun l => (id, (List.range s.length).map (selIdx ts (ofList l)), d.get (ofList l)))
  -- FileReadDataSegment.write_raw (ds:2573-2582): NotImplementedError - nothing is stored
  | .fleaf _ _, _, _ => []
  -- DataSegment.write (ds:675-727): raw_data = format_function.inverse(data) = flips(transpose(data, inverse axes))
  --   (`inverse`, ff:295-326, 245-252), raw_subscript = transform_formatted_slice(ts), write_raw(raw_data, raw_subscript)
  | .orient rev perm p, ts, d =>
    p.write (rawSub p.fshape rev (invPerm perm) ts) ((d.transpose (invPerm perm) perm).flip rev)
  -- the same with the inverse of the complex format function in front (`_reverse_functional_step`, ff:847-892)
  | .cplx ord rev perm bd p, ts, d =>
    p.write (rawSub p.fshape rev (invPerm perm) (insAt bd ⟨0, some 2, 1⟩ ts))
      (((d.unpair ord bd).transpose (invPerm perm) perm).flip rev)
  | .cplxK ord rev perm bd p, ts, d =>
    p.write (rawSubK p.fshape rev (invPerm perm) bd ts) (((d.unpairK ord bd).transpose (invPerm perm) perm).flip rev)
  -- SingleLUTFormatFunction.has_inverse = False: `write` raises (ds:697-700), nothing is stored
  | .lut1 _ _ _, _, _ => []
  | .lut2 _ _ _ _, _, _ => []
  -- SubsetSegment.write (ds:1374-1396): parent.write(reshape(data, parent_shape), subscript=parent_subscript)
  | .subset sq defs p, ts, d =>
    let pts := composeSq p.fshape defs (keepAxes sq defs) ts
    p.write pts (d.unsqueeze (keepAxes sq defs) (pts.map NSlice.count))
  | .subsetR sq rdefs rev perm p, ts, d =>
    let fdefs := fmtSub p.fshape rev perm rdefs
    let pts := composeSq (gather perm p.fshape) fdefs (keepAxes sq fdefs) ts
    p.write (rawSub p.fshape rev (invPerm perm) pts)
      (((d.unsqueeze (keepAxes sq fdefs) (pts.map NSlice.count)).transpose (invPerm perm) perm).flip rev)
  -- BandAggregateSegment.write_raw (ds:1652-1703)
  | .bands bd cs, ts, d =>
    ((sliceAt ts bd).indices.zipIdx).flatMap
      (fun io => cs.writeNth io.1.toNat (delAt bd ts) (d.takeAx bd (io.2 : Nat)))
  -- BlockAggregateSegment.write_raw (ds:1909-1971)
  | .blocks s cs, ts, d => cs.writeOnto s ts d
def Segs.writeNth : Segs → Nat → List NSlice → Arr α → List (Nat × List Int × α)
  | .nil, _, _, _ => []
  | .cons c _, 0, ts, d => c.write ts d
  | .cons _ r, n + 1, ts, d => r.writeNth n ts d
/-- the loop over `(entry, child)` of ds:1948-1971: every block the chunk overlaps receives its part -/
def Blks.writeOnto : Blks → List Nat → List NSlice → Arr α → List (Nat × List Int × α)
  | .nil, _, _, _ => []
  | .cons arr c r, lims, ts, d =>
    (match overlapsW lims ts arr with
     | none => []
     | some (csub, dsub) => c.write csub (d.select dsub)) ++ r.writeOnto lims ts d
  | .rcons arr rv c r, lims, ts, d =>
    (match overlapsWR lims ts arr rv with
     | none => []
     | some (csub, dsub) => c.write csub (d.select dsub)) ++ r.writeOnto lims ts d
end

end Write

/-- the chunk whose element at `idx` is `idx` itself: writing it shows where every chunk element is stored -/
def idChunk (ts : List NSlice) : Arr (List Int) :=
  ⟨ts.map NSlice.count, fun idx => (List.range ts.length).map idx⟩

/-! ### well-formedness (what the constructors of the Python classes check) -/

/-- arrangement entry: `0 ≤ b0 < b1 ≤ n` per axis (verify_subscript + step 1, ds:1833-1848) and the child shape
    equals the extents (ds:1850-1855) -/
def boxOK : List Nat → List (Int × Int) → List Nat → Bool
  | [], [], [] => true
  | n :: ns, b :: bs, c :: cs => decide (0 ≤ b.1 ∧ b.1 < b.2 ∧ b.2 ≤ (n : Int) ∧ (c : Int) = b.2 - b.1) && boxOK ns bs cs
  | _, _, _ => false

def isPerm (perm : List Nat) (nd : Nat) : Bool :=
  decide (perm.length = nd) && perm.all (fun x => decide (x < nd)) && (List.range nd).all (fun i => decide (i ∈ perm))
    && decide perm.Nodup

mutual
def Seg.wf : Seg → Bool
  | .leaf _ _ => true
  | .fleaf _ s => decide (0 < s.length)
  | .orient rev perm p => p.wf && isPerm perm p.fshape.length && rev.all (fun i => decide (i < p.fshape.length))
  | .cplx _ rev perm bd p => p.wf && isPerm perm p.fshape.length && rev.all (fun i => decide (i < p.fshape.length))
      && decide (bd < p.fshape.length) && decide (dimAt (gather perm p.fshape) bd = 2)
  -- validate_shapes (ff:644-668): the band axis has even length
  | .cplxK _ rev perm bd p => p.wf && isPerm perm p.fshape.length && rev.all (fun i => decide (i < p.fshape.length))
      && decide (bd < p.fshape.length) && decide (dimAt (gather perm p.fshape) bd % 2 = 0)
  -- the forward step wants two-dimensional raw data (ff:1019-1020)
  | .lut1 rev perm p => p.wf && isPerm perm p.fshape.length && rev.all (fun i => decide (i < p.fshape.length))
  | .lut2 _ rev perm p => p.wf && isPerm perm p.fshape.length && rev.all (fun i => decide (i < p.fshape.length))
  -- the constructor maps the definition to raw coordinates through the parent (ds:1145-1146), which may raise
  | .subset _ defs p => p.wf && allSlicesNormal p.fshape defs && p.rawOK defs
  | .subsetR _ rdefs rev perm p => p.wf && isPerm perm p.fshape.length && rev.all (fun i => decide (i < p.fshape.length))
      && allSlicesNormal p.fshape rdefs
  | .bands bd cs => cs.wfAll cs.headShape && decide (bd ≤ cs.headShape.length) && decide (0 < cs.length)
  | .blocks s cs => cs.wfAll s
def Segs.wfAll : Segs → List Nat → Bool
  | .nil, _ => true
  | .cons c r, sh => c.wf && decide (c.fshape = sh) && r.wfAll sh
def Blks.wfAll : Blks → List Nat → Bool
  | .nil, _ => true
  | .cons arr c r, sh => c.wf && boxOK sh arr c.fshape && r.wfAll sh
  -- at least one reversed axis (a definition without one is a `cons`)
  | .rcons arr rv c r, sh => c.wf && boxOK sh arr c.fshape && decide (rv.length = sh.length) && rv.any id && r.wfAll sh
end


/-! ### tilings: block aggregates whose blocks do not overlap (every mosaic sarpy's writers build) -/

/-- two boxes are separated along some axis -/
def boxesDisjoint (a b : List (Int × Int)) : Bool :=
  (List.range a.length).any (fun i =>
    decide ((a.getD i (0, 0)).2 ≤ (b.getD i (0, 0)).1 ∨ (b.getD i (0, 0)).2 ≤ (a.getD i (0, 0)).1))

def Blks.allDisjointFrom : Blks → List (Int × Int) → Bool
  | .nil, _ => true
  | .cons arr _ r, a => boxesDisjoint a arr && r.allDisjointFrom a
  | .rcons arr _ _ r, a => boxesDisjoint a arr && r.allDisjointFrom a

mutual
/-- the tree can be written regularly: no read-only (file-read) storage, no format function without inverse,
    and every block aggregate is a tiling with holes, i.e. its blocks are pairwise disjoint -/
def Seg.writable : Seg → Bool
  | .leaf _ _ => true
  | .fleaf _ _ => false
  | .cplx _ _ _ _ p => p.writable
  | .cplxK _ _ _ _ p => p.writable
  | .lut1 _ _ _ => false
  | .lut2 _ _ _ _ => false
  | .orient _ _ p => p.writable
  | .subset _ _ p => p.writable
  | .subsetR _ _ _ _ p => p.writable
  | .bands _ cs => cs.writable
  | .blocks _ cs => cs.writable
def Segs.writable : Segs → Bool
  | .nil => true
  | .cons c r => c.writable && r.writable
def Blks.writable : Blks → Bool
  | .nil => true
  | .cons arr c r => c.writable && r.allDisjointFrom arr && r.writable
  | .rcons arr _ c r => c.writable && r.allDisjointFrom arr && r.writable
end

mutual
/-- `writable` and every pixel is one stored sample (no complex format function) -/
def Seg.tiled : Seg → Bool
  | .leaf _ _ => true
  | .fleaf _ _ => false
  | .cplx _ _ _ _ _ => false
  | .cplxK _ _ _ _ _ => false
  | .lut1 _ _ _ => false
  | .lut2 _ _ _ _ => false
  | .orient _ _ p => p.tiled
  | .subset _ _ p => p.tiled
  | .subsetR _ _ _ _ p => p.tiled
  | .bands _ cs => cs.tiled
  | .blocks _ cs => cs.tiled
def Segs.tiled : Segs → Bool
  | .nil => true
  | .cons c r => c.tiled && r.tiled
def Blks.tiled : Blks → Bool
  | .nil => true
  | .cons arr c r => c.tiled && r.allDisjointFrom arr && r.tiled
  | .rcons arr _ c r => c.tiled && r.allDisjointFrom arr && r.tiled
end

mutual
/-- no node of the tree ever refuses a normalised subscript: no kept-band complex format -/
def Seg.total : Seg → Bool
  | .leaf _ _ => true
  | .fleaf _ _ => true
  | .cplx _ _ _ _ p => p.total
  | .cplxK _ _ _ _ _ => false
  | .lut1 _ _ p => p.total
  | .lut2 _ _ _ p => p.total
  | .orient _ _ p => p.total
  | .subset _ _ p => p.total
  | .subsetR _ _ _ _ p => p.total
  | .bands _ cs => cs.total
  | .blocks _ cs => cs.total
def Segs.total : Segs → Bool
  | .nil => true
  | .cons c r => c.total && r.total
def Blks.total : Blks → Bool
  | .nil => true
  | .cons _ c r => c.total && r.total
  | .rcons _ _ c r => c.total && r.total
end

/-- `ts` is a normalised subscript for `shape`: one normal slice per axis -/
def NormalSub (shape : List Nat) (ts : List NSlice) : Prop := allSlicesNormal shape ts = true

instance (shape : List Nat) (ts : List NSlice) : Decidable (NormalSub shape ts) := by
  unfold NormalSub; infer_instance

/-! ### provenance instance -/

inductive Src where
  | fill : Src
  | leaf (id : Nat) (idx : List Int) : Src
  | pair (re im : Src) : Src
  | polar (mag ph : Src) : Src
  | lut (c : Nat) (x : Src) : Src
deriving DecidableEq, Repr, Inhabited

instance : Pairing Src := ⟨Src.pair, Src.polar, Src.lut⟩

/-- provenance of a written sample: chunk element `idx`, or part `k` of it -/
inductive WSrc where
  | elem (idx : List Int) : WSrc
  | part (k : Nat) (x : WSrc) : WSrc
deriving DecidableEq, Repr, Inhabited

instance : Parts WSrc := ⟨WSrc.part⟩

/-- row-major flat offset of a raw index -/
def flatOff : List Nat → List Int → Int
  | _ :: ns, i :: is => i * ((ns.foldl (· * ·) 1 : Nat) : Int) + flatOff ns is
  | _, _ => 0

mutual
/-- the stored arrays of a tree: (leaf id, raw shape) -/
def Seg.leaves : Seg → List (Nat × List Nat)
  | .leaf id s => [(id, s)]
  | .fleaf id s => [(id, s)]
  | .orient _ _ p => p.leaves
  | .cplx _ _ _ _ p => p.leaves
  | .cplxK _ _ _ _ p => p.leaves
  | .lut1 _ _ p => p.leaves
  | .lut2 _ _ _ p => p.leaves
  | .subset _ _ p => p.leaves
  | .subsetR _ _ _ _ p => p.leaves
  | .bands _ cs => cs.leaves
  | .blocks _ cs => cs.leaves
def Segs.leaves : Segs → List (Nat × List Nat)
  | .nil => []
  | .cons c r => c.leaves ++ r.leaves
def Blks.leaves : Blks → List (Nat × List Nat)
  | .nil => []
  | .cons _ c r => c.leaves ++ r.leaves
  | .rcons _ _ c r => c.leaves ++ r.leaves
end

def Seg.fullSrc (t : Seg) : Arr Src := t.full Src.leaf Src.fill
def Seg.readSrc (t : Seg) (ts : List NSlice) : Arr Src := t.read Src.leaf Src.fill ts

/-- the chunk of written-sample provenances -/
def idChunkW (ts : List NSlice) : Arr WSrc :=
  ⟨ts.map NSlice.count, fun idx => WSrc.elem ((List.range ts.length).map idx)⟩

end Sarpy.Spec
