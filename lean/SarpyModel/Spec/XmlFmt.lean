/-
  Spec.XmlFmt — the table-driven XML (and dict) codec of sarpy's metadata structures.
  Import-free, total, computable.  Recursion over the value tree is by fuel (no `partial`).

  Code anchors (sarpy/io/xml/base.py):
    Row / ClassTab = what `Serializable.to_node` (l.1010-1189) and `from_node` (l.910-1008) read from a class:
                     `_fields`, `_tag_override`, `_collections_tags`, `_set_as_attribute`, `_child_xml_ns_key`, `_required`
                     and the descriptor of each field (sarpy/io/xml/descriptors.py).
    serializeN     = `Serializable.to_node`: one node, attributes from the attribute rows, children from the element rows in
                     `_fields` order; `serialize_plain` (text node / nested to_node), `serialize_list` (repeated children),
                     `SerializableArray.to_node` (wrapper with optional `size`, one child per entry),
                     `ParametersCollection.to_node` (a list of a two-row class: attribute `name` + node text).
    parseN         = `Serializable.from_node`: `handle_attribute` (attrib.get), `handle_single` (find first child),
                     `handle_list` (findall; nothing found = field absent), `parse_serializable_array` (children of the wrapper).
    toDictN/ofDictN= `Serializable.to_dict` (l.1223-1319) / `from_dict` = `cls(**dict)`; `copy` = `from_dict (to_dict x)`.

  Constructs of the hand-written glue that are part of the format language (C05X):
    ClassTab.poly  = `Poly1DType` / `Poly2DType` (sicd_elements/blocks.py `to_node` / `from_node` / `to_dict`) and the SIDD filter
                     coefficient classes `_CustomType` (sidd2_elements/blocks.py): dimension attributes (`order1` = n - 1, or
                     `numPhasings` = n), one `<Coef exponent1=".." [exponent2=".."]>` child per coefficient, ALL coefficients
                     written, the reader starts from zeros and places every child AT ITS EXPONENTS (document order irrelevant,
                     absent coefficients are zero); optional inner wrapper node (`FilterCoefficients`).
    Kind.floatArr  = `FloatArrayDescriptor` + `serialize_array` (base.py l.1046-1079): `<tag size="n"><child index="i+base">`;
                     the reader requires `size` = number of children and takes the values IN DOCUMENT ORDER (`index` ignored).
    Kind.array     = `SerializableArrayDescriptor` / `SerializableCPArrayDescriptor`: `SerializableArray.to_node`,
                     `parse_serializable_array` (a `size` attribute, when present, must equal the number of children),
                     `set_array` (minimum / maximum length, else ValueError) and `_check_indices` (the container overwrites the
                     `index` field of entry k with k + 1, or with the corner label '1:FRFC' ...).
    Kind.params    = `ParametersDescriptor` / `ParametersCollection` / `parse_parameters_collection`: entries in insertion
                     order; the reader builds an OrderedDict (a repeated name keeps its first position and takes the last
                     value); optional wrapper element (`ErrorStatisticsType.AdditionalParms`).
    Kind.count / const / which = read-only properties listed in `_fields` (`NumACFs`, `Size`, `resourceElement`, `ImageType`):
                     written from the other fields, ignored by the constructor (`setattr` raises AttributeError, base.py
                     l.695-702) — they carry no information, their slot in a value is `absent`.
  Namespaces: the prefix a node inherits from its parent is resolved by the translator (translate/tables_xml.py), which emits
  one table per (python class, namespace context) with fully qualified tags; `tag` is what `to_node` writes, `ptag` what
  `from_node` looks up.  Qualified names, field names and primitive kinds are interned as numbers.
  Primitive text codecs (`'{0:0.17G}'.format`, `str`, `'true'/'false'`, `str(datetime64)+'Z'` and `float`, `int`,
  `numpy.datetime64`, ...) are an abstract parameter `Codec`.
-/
namespace Sarpy.Spec.XmlFmt

/-- qualified name: (namespace key id, local name id); namespace 0 = no prefix / default namespace -/
abbrev QName := Nat × Nat
abbrev ClassId := Nat
abbrev PrimId := Nat

/-- an XML element: tag, attributes, text, children (`S` = text) -/
inductive XmlNode (S : Type) where
  | mk (tag : QName) (attrs : List (QName × S)) (text : Option S) (children : List (XmlNode S))

namespace XmlNode
variable {S : Type}
def tag : XmlNode S → QName | mk t _ _ _ => t
def attrs : XmlNode S → List (QName × S) | mk _ a _ _ => a
def text : XmlNode S → Option S | mk _ _ x _ => x
def children : XmlNode S → List (XmlNode S) | mk _ _ _ c => c
end XmlNode

/-- parameters of an object array (`SerializableArray` and subclasses) -/
structure ArrSpec where
  /-- child tag written / looked up -/
  childTag : QName
  pChildTag : QName
  /-- size attribute written (`_set_size`, `_size_var_name`) -/
  sizeAttr : Option QName
  /-- size attribute the reader consults (`parse_serializable_array`: the literal `size`) -/
  pSizeAttr : QName
  minLen : Nat
  maxLen : Nat
  /-- position, in the child's table, of the field `_check_indices` overwrites (`none`: `_set_index` off, or no such field) -/
  idxPos : Option Nat
  /-- `[]`: entry k gets the integer k + 1; otherwise the constant ids of the labels ('1:FRFC', ...) -/
  idxLabels : List Nat
  /-- only the entries at positions below this are renumbered (`SerializableCPArray._check_indices` touches the first four) -/
  idxLimit : Nat
deriving DecidableEq

/-- parameters of a float array (`FloatArrayDescriptor`) -/
structure FArrSpec where
  prim : PrimId
  childTag : QName
  pChildTag : QName
  sizeAttr : QName
  pSizeAttr : QName
  idxAttr : QName
  /-- `index` of the first child: 0 for `Amplitude`, 1 otherwise -/
  base : Nat
deriving DecidableEq

/-- parameters of a coefficient array class (`Poly1DType`, `Poly2DType`, `_CustomType`) -/
structure PolySpec where
  two : Bool
  coefTag : QName
  pCoefTag : QName
  dim1 : QName
  pDim1 : QName
  dim2 : QName
  pDim2 : QName
  exp1 : QName
  pExp1 : QName
  exp2 : QName
  pExp2 : QName
  /-- dimension attribute = number of entries - dimOff (1: `order1`; 0: `numPhasings`) -/
  dimOff : Nat
  /-- inner node carrying the dimension attributes and the coefficients: (tag written, tag looked up) -/
  wrapper : Option (QName × QName)
  prim : PrimId
  /-- dict key (`Coefs`) -/
  dname : Nat
  /-- constant id of the fill value (the float 0.0 of `numpy.zeros`) -/
  fill : Nat
deriving DecidableEq

inductive Kind where
  /-- `<tag>text</tag>` (String/Integer/Float/Boolean/DateTime/Enum descriptors) -/
  | prim (p : PrimId)
  /-- `tag="text"` on the class node (`_set_as_attribute`) -/
  | attr (p : PrimId)
  /-- the text of the class node itself (value of a `Parameter`) -/
  | text (p : PrimId)
  /-- nested structure `<tag>…</tag>` (SerializableDescriptor, UnitVectorDescriptor, complex numbers) -/
  | child (c : ClassId)
  /-- repeated `<tag>…</tag>` directly under the class node (SerializableListDescriptor) -/
  | list (c : ClassId)
  /-- `<tag size="n"><childTag>…</childTag>*</tag>` (SerializableArrayDescriptor, SerializableCPArrayDescriptor) -/
  | array (c : ClassId) (a : ArrSpec)
  /-- repeated `<tag>text</tag>` (String/Integer/FloatListDescriptor) -/
  | primList (p : PrimId)
  /-- `<tag size="n"><childTag index="k">text</childTag>*</tag>` (FloatArrayDescriptor) -/
  | floatArr (f : FArrSpec)
  /-- name -> value collection: entries of the two-row class `c`; `wrap = none`: repeated `<tag name="..">` directly under the
      class node; `wrap = some (ct, pct)`: `<tag><ct name="..">..</ct>*</tag>` -/
  | params (c : ClassId) (wrap : Option (QName × QName))
  /-- derived: number of entries of the collection in row `src` (0 when absent) -/
  | count (p : PrimId) (src : Nat)
  /-- derived: a constant (element, or attribute when `asAttr`) -/
  | const (p : PrimId) (k : Nat) (asAttr : Bool)
  /-- derived: the constant paired with the first populated row among `alts`; nothing when none is -/
  | which (p : PrimId) (alts : List (Nat × Nat))
deriving DecidableEq

structure Row where
  name : Nat
  /-- qualified tag written by `to_node` (element tag, attribute name; for list kinds the child tag) -/
  tag : QName
  /-- qualified tag looked up by `from_node` -/
  ptag : QName
  kind : Kind
  required : Bool
deriving DecidableEq

inductive ClassTab where
  | rows (rs : List Row)
  /-- a class with hand-written XML logic: its node body is a black box for the generic machinery -/
  | custom
  /-- a coefficient array class -/
  | poly (s : PolySpec)

abbrev Tabs := List ClassTab

/-- values: `node` is a record (one entry per row of the class table, `absent` = None) or a collection (its items) -/
inductive Val (P S : Type) where
  | absent
  | prim (p : P)
  | node (kids : List (Val P S))
  | blob (attrs : List (QName × S)) (text : Option S) (children : List (XmlNode S))

/-- primitive text codecs, abstract: `toText k` renders, `ofText k` parses, `ok k` = values the descriptor of kind `k` holds;
    `sizeText n` = `str(n)` (size, index, exponent, order attributes), `ofSize` = `int(text)`;
    `natVal n` / `constVal k` = the integer n / the interned constant k as a field value; `peq` = equality of
    field values -/
structure Codec (P S : Type) where
  toText : PrimId → P → S
  ofText : PrimId → S → Option P
  ok : PrimId → P → Bool
  sizeText : Nat → S
  ofSize : S → Option Nat
  natVal : Nat → P
  constVal : Nat → P
  peq : P → P → Bool

/-- the round-trip law assumed of the primitive codecs (a hypothesis of the theorems, tested on the implementation) -/
def Codec.RoundTrip {P S : Type} (C : Codec P S) : Prop :=
  ∀ k p, C.ok k p = true → C.ofText k (C.toText k p) = some p

/-- everything the theorems assume of the codec: primitives round-trip, `int(str(n)) = n`, `peq` is equality -/
structure Codec.Laws {P S : Type} (C : Codec P S) : Prop where
  rt : C.RoundTrip
  size : ∀ n, C.ofSize (C.sizeText n) = some n
  peq : ∀ a b, C.peq a b = true ↔ a = b

/-- `mapM` for `Option`, spelled out -/
def mapOpt {α β : Type} (f : α → Option β) : List α → Option (List β)
  | [] => some []
  | a :: as => match f a with
    | none => none
    | some b => match mapOpt f as with
      | none => none
      | some bs => some (b :: bs)

def Kind.isElem : Kind → Bool
  | .prim _ | .child _ | .list _ | .array .. | .primList _ | .floatArr _ | .params .. | .count .. | .which .. => true
  | .const _ _ a => !a
  | .attr _ | .text _ => false
def Kind.isAttr : Kind → Bool | .attr _ => true | .const _ _ a => a | _ => false
def Kind.isText : Kind → Bool | .text _ => true | _ => false
/-- derived rows: written from the other fields, never read -/
def Kind.isDerived : Kind → Bool | .count .. | .const .. | .which .. => true | _ => false

/-! ### well-formed tables (decidable) -/

def pairwiseB {α : Type} (r : α → α → Bool) : List α → Bool
  | [] => true
  | a :: as => as.all (r a) && pairwiseB r as

/-- two rows of one class never compete for the same XML item -/
def Row.compat (a b : Row) : Bool :=
  !(a.kind.isElem && b.kind.isElem && a.tag == b.tag) &&
  !(a.kind.isAttr && b.kind.isAttr && a.tag == b.tag) &&
  !(a.kind.isText && b.kind.isText)

def ArrSpec.wf (a : ArrSpec) : Bool :=
  a.childTag == a.pChildTag && (match a.sizeAttr with | none => true | some q => q == a.pSizeAttr)

def FArrSpec.wf (f : FArrSpec) : Bool :=
  f.childTag == f.pChildTag && f.sizeAttr == f.pSizeAttr

def Row.wf (n : Nat) (r : Row) : Bool :=
  r.tag == r.ptag &&
  (match r.kind with
   | .child c | .list c => decide (c < n)
   | .array c a => decide (c < n) && a.wf
   | .floatArr f => f.wf
   | .params c none => decide (c < n)
   | .params c (some w) => decide (c < n) && w.1 == w.2
   | _ => true)

/-- writer and reader agree on every name; the two exponent attributes of a 2-D array differ; the dimension attributes differ -/
def PolySpec.wf (s : PolySpec) : Bool :=
  s.coefTag == s.pCoefTag && s.dim1 == s.pDim1 && s.exp1 == s.pExp1 &&
  (!s.two || (s.dim2 == s.pDim2 && s.exp2 == s.pExp2 && s.exp1 != s.exp2 && s.dim1 != s.dim2)) &&
  (match s.wrapper with | none => true | some w => w.1 == w.2)

def ClassTab.wf (n : Nat) : ClassTab → Bool
  | .custom => true
  | .rows rs => rs.all (Row.wf n) && pairwiseB Row.compat rs
  | .poly s => s.wf

def wfTabs (T : Tabs) : Bool := T.all (ClassTab.wf T.length)

/-- distinct effective element tags and attribute names per class, at most one text row, writer and reader agree on every
    qualified tag / attribute name, child classes exist (attribute rows are primitive by construction of `Kind`) -/
def WF (T : Tabs) : Prop := wfTabs T = true
instance (T : Tabs) : Decidable (WF T) := inferInstanceAs (Decidable (wfTabs T = true))

/-! ### helpers of the new constructs -/

section helpers
variable {P S : Type} (C : Codec P S)

/-- number of entries of a collection value (`len(x)`, 0 for None) -/
def lenOf : Val P S → Nat
  | .node items => items.length
  | _ => 0

def isPresent : Val P S → Bool
  | .absent => false
  | _ => true

/-- the constant of the first populated alternative -/
def whichOf (kids : List (Val P S)) (alts : List (Nat × Nat)) : Option Nat :=
  (alts.find? (fun a => isPresent (kids.getD a.1 .absent))).map (·.2)

/-- `int(node.attrib[q])` -/
def attrNat (x : XmlNode S) (q : QName) : Option Nat :=
  match x.attrs.find? (fun a => a.1 == q) with
  | none => none
  | some a => C.ofSize a.2

/-- the prims of a list of values (`none` unless all are prims) -/
def primsOf : List (Val P S) → Option (List P)
  | [] => some []
  | .prim x :: vs => (primsOf vs).map (x :: ·)
  | _ :: _ => none

/-- the rows of a 2-D value -/
def rowsOf : List (Val P S) → Option (List (List P))
  | [] => some []
  | .node r :: vs => match primsOf r, rowsOf vs with
    | some r', some rs => some (r' :: rs)
    | _, _ => none
  | _ :: _ => none

/-- `coefs[i] = v` for every entry in turn (IndexError = `none`) -/
def place {α : Type} (init : List α) : List (Nat × α) → Option (List α)
  | [] => some init
  | e :: es => if e.1 < init.length then place (init.set e.1 e.2) es else none

/-- `n` rows of width `w` cut from a flat list -/
def chunk {α : Type} : Nat → Nat → List α → List (List α)
  | 0, _, _ => []
  | n + 1, w, l => l.take w :: chunk n w (l.drop w)

/-- the field value `_check_indices` gives entry k -/
def idxVal (labels : List Nat) (k : Nat) : P :=
  match labels[k]? with
  | some l => C.constVal l
  | none => C.natVal (k + 1)

def setKid (pos : Nat) (x : Val P S) : Val P S → Val P S
  | .node kids => .node (kids.set pos x)
  | v => v

def reindexFrom (pos : Nat) (labels : List Nat) (lim : Nat) : Nat → List (Val P S) → List (Val P S)
  | _, [] => []
  | k, v :: vs => (if k < lim then setKid pos (.prim (idxVal C labels k)) v else v) :: reindexFrom pos labels lim (k + 1) vs

/-- `_check_indices`: the canonical form of the entries of an object array -/
def reindex (a : ArrSpec) (items : List (Val P S)) : List (Val P S) :=
  match a.idxPos with
  | none => items
  | some pos => reindexFrom C pos a.idxLabels a.idxLimit 0 items

/-- entry k already carries the index the container would give it -/
def idxOk (pos : Nat) (labels : List Nat) (k : Nat) : Val P S → Bool
  | .node kids => match kids[pos]? with
    | some (.prim x) => C.peq x (idxVal C labels k)
    | _ => false
  | _ => false

def idxOkFrom (pos : Nat) (labels : List Nat) (lim : Nat) : Nat → List (Val P S) → Bool
  | _, [] => true
  | k, v :: vs => (decide (lim ≤ k) || idxOk C pos labels k v) && idxOkFrom pos labels lim (k + 1) vs

def isCanonArr (a : ArrSpec) (items : List (Val P S)) : Bool :=
  match a.idxPos with
  | none => true
  | some pos => idxOkFrom C pos a.idxLabels a.idxLimit 0 items

/-- `set_array`: length within the declared bounds, then `_check_indices` -/
def finishArr (a : ArrSpec) (items : List (Val P S)) : Option (Val P S) :=
  if a.minLen ≤ items.length && items.length ≤ a.maxLen then some (.node (reindex C a items)) else none

/-- the name of a parameter entry -/
def paramKey : Val P S → Option P
  | .node (.prim k :: _) => some k
  | _ => none

def sameKey (a b : Val P S) : Bool :=
  match paramKey a, paramKey b with
  | some x, some y => C.peq x y
  | _, _ => false

/-- `out[name] = value` on an OrderedDict: a known name keeps its position and takes the new value -/
def insertParam (acc : List (Val P S)) (x : Val P S) : List (Val P S) :=
  if acc.any (fun a => sameKey C a x) then acc.map (fun a => if sameKey C a x then x else a) else acc ++ [x]

/-- `parse_parameters_collection`: the canonical form of a parameter list -/
def dedupe (items : List (Val P S)) : List (Val P S) := items.foldl (insertParam C) []

/-- no two entries share a name -/
def distinctKeys (items : List (Val P S)) : Bool := pairwiseB (fun a b => !(sameKey C a b)) items

end helpers

/-! ### XML codec -/

section codec
variable {P S : Type} (C : Codec P S) (T : Tabs)

def textNode (t : QName) (s : S) : XmlNode S := .mk t [] (some s) []

/-- the text node of one entry of a primitive list -/
def primNode? (t : QName) (p : PrimId) : Val P S → Option (XmlNode S)
  | .prim x => some (textNode t (C.toText p x))
  | _ => none

/-- children of a float array: `<childTag index="k + base">text</childTag>` -/
def farrNodes (f : FArrSpec) : Nat → List (Val P S) → List (XmlNode S)
  | _, [] => []
  | k, .prim x :: vs => .mk f.childTag [(f.idxAttr, C.sizeText (k + f.base))] (some (C.toText f.prim x)) [] :: farrNodes f (k + 1) vs
  | k, _ :: vs => farrNodes f (k + 1) vs

/-- element children contributed by one row (`ser` = serialisation of a nested structure, `kids` = all fields of the record) -/
def emitRow (ser : ClassId → QName → Val P S → XmlNode S) (kids : List (Val P S)) (r : Row) (v : Val P S) : List (XmlNode S) :=
  match r.kind, v with
  | .count p src, _ => [textNode r.tag (C.toText p (C.natVal (lenOf (kids.getD src .absent))))]
  | .const p k false, _ => [textNode r.tag (C.toText p (C.constVal k))]
  | .which p alts, _ => match whichOf kids alts with
    | some k => [textNode r.tag (C.toText p (C.constVal k))]
    | none => []
  | _, .absent => []
  | .prim p, .prim x => [textNode r.tag (C.toText p x)]
  | .child c, v => [ser c r.tag v]
  | .list c, .node items => items.map (ser c r.tag)
  | .array c a, .node items =>
      if items.isEmpty then [] else
      [.mk r.tag (match a.sizeAttr with | none => [] | some q => [(q, C.sizeText items.length)]) none (items.map (ser c a.childTag))]
  | .primList p, .node items => items.filterMap (primNode? C r.tag p)
  | .floatArr f, .node items =>
      if items.isEmpty then [] else
      [.mk r.tag [(f.sizeAttr, C.sizeText items.length)] none (farrNodes C f 0 items)]
  | .params c none, .node items => items.map (ser c r.tag)
  | .params c (some w), .node items =>
      if items.isEmpty then [] else [.mk r.tag [] none (items.map (ser c w.1))]
  | _, _ => []

def emitAttr (r : Row) (v : Val P S) : List (QName × S) :=
  match r.kind, v with
  | .const p k true, _ => [(r.tag, C.toText p (C.constVal k))]
  | .attr p, .prim x => [(r.tag, C.toText p x)]
  | _, _ => []

def emitText (r : Row) (v : Val P S) : List S :=
  match r.kind, v with
  | .text p, .prim x => [C.toText p x]
  | _, _ => []

/-- `<Coef exponent1="i">text</Coef>` for every coefficient, in order -/
def coefNodes1 (s : PolySpec) : Nat → List P → List (XmlNode S)
  | _, [] => []
  | i, x :: xs => .mk s.coefTag [(s.exp1, C.sizeText i)] (some (C.toText s.prim x)) [] :: coefNodes1 s (i + 1) xs

def coefRow2 (s : PolySpec) (i : Nat) : Nat → List P → List (XmlNode S)
  | _, [] => []
  | j, x :: xs => .mk s.coefTag [(s.exp1, C.sizeText i), (s.exp2, C.sizeText j)] (some (C.toText s.prim x)) [] :: coefRow2 s i (j + 1) xs

/-- `<Coef exponent1="i" exponent2="j">text</Coef>` row by row -/
def coefNodes2 (s : PolySpec) : Nat → List (List P) → List (XmlNode S)
  | _, [] => []
  | i, r :: rs => coefRow2 C s i 0 r ++ coefNodes2 s (i + 1) rs

def widthOf {α : Type} (rows : List (List α)) : Nat := (rows.head?.map List.length).getD 0

/-- attributes and children of the node that carries a coefficient array -/
def polyBody (s : PolySpec) (v : Val P S) : List (QName × S) × List (XmlNode S) :=
  match v with
  | .node items =>
    if s.two then
      match rowsOf items with
      | some rows => ([(s.dim1, C.sizeText (rows.length - s.dimOff)), (s.dim2, C.sizeText (widthOf rows - s.dimOff))],
                      coefNodes2 C s 0 rows)
      | none => ([], [])
    else
      match primsOf items with
      | some cs => ([(s.dim1, C.sizeText (cs.length - s.dimOff))], coefNodes1 C s 0 cs)
      | none => ([], [])
  | _ => ([], [])

def serializePoly (s : PolySpec) (t : QName) (v : Val P S) : XmlNode S :=
  let b := polyBody C s v
  match s.wrapper with
  | none => .mk t b.1 none b.2
  | some w => .mk t [] none [.mk w.1 b.1 none b.2]

/-- `to_node` with recursion depth `n` -/
def serializeN : Nat → ClassId → QName → Val P S → XmlNode S
  | 0, _, t, _ => .mk t [] none []
  | n + 1, c, t, v =>
    match T[c]?, v with
    | some (.rows rs), .node kids =>
        .mk t ((rs.zip kids).flatMap (fun p => emitAttr C p.1 p.2))
              ((rs.zip kids).flatMap (fun p => emitText C p.1 p.2)).head?
              ((rs.zip kids).flatMap (fun p => emitRow C (serializeN n) kids p.1 p.2))
    | some .custom, .blob a x ch => .mk t a x ch
    | some (.poly s), v => serializePoly C s t v
    | _, _ => .mk t [] none []

def hasTag (q : QName) (x : XmlNode S) : Bool := x.tag == q

def parsePrim (p : PrimId) (x : XmlNode S) : Option (Val P S) :=
  match x.text with
  | none => none
  | some s => (C.ofText p s).map .prim

/-- the `size` attribute, when present, equals the number of children found -/
def sizeOk (w : XmlNode S) (q : QName) (n : Nat) : Bool :=
  match w.attrs.find? (fun a => a.1 == q) with
  | none => true
  | some a => match C.ofSize a.2 with
    | some m => m == n
    | none => false

/-- what `from_node` hands to the descriptor of one field, already converted -/
def parseRow (par : ClassId → XmlNode S → Option (Val P S)) (x : XmlNode S) (r : Row) : Option (Val P S) :=
  match r.kind with
  | .prim p => match x.children.find? (hasTag r.ptag) with
    | none => some .absent
    | some ch => parsePrim C p ch
  | .attr p => match (x.attrs.find? (fun a => a.1 == r.ptag)) with
    | none => some .absent
    | some a => (C.ofText p a.2).map .prim
  | .text p => match x.text with
    | none => some .absent
    | some s => (C.ofText p s).map .prim
  | .child c => match x.children.find? (hasTag r.ptag) with
    | none => some .absent
    | some ch => par c ch
  | .list c =>
    let chs := x.children.filter (hasTag r.ptag)
    if chs.isEmpty then some .absent else (mapOpt (par c) chs).map .node
  | .array c a => match x.children.find? (hasTag r.ptag) with
    | none => some .absent
    | some w =>
      let chs := w.children.filter (hasTag a.pChildTag)
      if sizeOk C w a.pSizeAttr chs.length then (mapOpt (par c) chs).bind (finishArr C a) else none
  | .primList p =>
    let chs := x.children.filter (hasTag r.ptag)
    if chs.isEmpty then some .absent else (mapOpt (parsePrim C p) chs).map .node
  | .floatArr f => match x.children.find? (hasTag r.ptag) with
    | none => some .absent
    | some w => match attrNat C w f.pSizeAttr with
      | none => none
      | some n =>
        let chs := w.children.filter (hasTag f.pChildTag)
        if chs.length == n then (mapOpt (parsePrim C f.prim) chs).map .node else none
  | .params c none =>
    let chs := x.children.filter (hasTag r.ptag)
    if chs.isEmpty then some .absent else (mapOpt (par c) chs).map (fun items => .node (dedupe C items))
  | .params c (some w) => match x.children.find? (hasTag r.ptag) with
    | none => some .absent
    | some wn => (mapOpt (par c) (wn.children.filter (hasTag w.2))).map (fun items => .node (dedupe C items))
  | .count .. | .const .. | .which .. => some .absent

def parseCoef1 (s : PolySpec) (x : XmlNode S) : Option (Nat × P) :=
  match attrNat C x s.pExp1, x.text with
  | some i, some t => (C.ofText s.prim t).map (fun v => (i, v))
  | _, _ => none

/-- one coefficient of a 2-D array of width `w`: flat position `i * w + j` (`j < w` checked here, `i` by `place`) -/
def parseCoef2 (s : PolySpec) (w : Nat) (x : XmlNode S) : Option (Nat × P) :=
  match attrNat C x s.pExp1, attrNat C x s.pExp2, x.text with
  | some i, some j, some t => if j < w then (C.ofText s.prim t).map (fun v => (i * w + j, v)) else none
  | _, _, _ => none

/-- `from_node` of a coefficient array: zeros of the declared dimensions, every child placed at its exponents -/
def parsePolyBody (s : PolySpec) (x : XmlNode S) : Option (Val P S) :=
  let chs := x.children.filter (hasTag s.pCoefTag)
  if s.two then
    match attrNat C x s.pDim1, attrNat C x s.pDim2 with
    | some d1, some d2 =>
      let n1 := d1 + s.dimOff
      let n2 := d2 + s.dimOff
      match mapOpt (parseCoef2 C s n2) chs with
      | none => none
      | some es => (place (List.replicate (n1 * n2) (C.constVal s.fill)) es).map
          (fun flat => .node ((chunk n1 n2 flat).map (fun r => .node (r.map .prim))))
    | _, _ => none
  else
    match attrNat C x s.pDim1 with
    | some d1 =>
      match mapOpt (parseCoef1 C s) chs with
      | none => none
      | some es => (place (List.replicate (d1 + s.dimOff) (C.constVal s.fill)) es).map (fun cs => .node (cs.map .prim))
    | none => none

def parsePoly (s : PolySpec) (x : XmlNode S) : Option (Val P S) :=
  match s.wrapper with
  | none => parsePolyBody C s x
  | some w => match x.children.find? (hasTag w.2) with
    | none => none
    | some wn => parsePolyBody C s wn

/-- `from_node` with recursion depth `n` -/
def parseN : Nat → ClassId → XmlNode S → Option (Val P S)
  | 0, _, _ => none
  | n + 1, c, x =>
    match T[c]? with
    | some (.rows rs) => (mapOpt (parseRow C (parseN n) x) rs).map .node
    | some .custom => some (.blob x.attrs x.text x.children)
    | some (.poly s) => parsePoly C s x
    | none => none

/-! ### values a class can hold (decidable, by fuel) -/

def all2 {α β : Type} (f : α → β → Bool) : List α → List β → Bool
  | [], [] => true
  | a :: as, b :: bs => f a b && all2 f as bs
  | _, _ => false

def isPrimOk (p : PrimId) : Val P S → Bool
  | .prim x => C.ok p x
  | _ => false

def wfField (ne : Bool) (wf : ClassId → Val P S → Bool) (r : Row) (v : Val P S) : Bool :=
  match r.kind, v with
  | .count .., .absent => true
  | .const .., .absent => true
  | .which .., .absent => true
  | .count .., _ => false
  | .const .., _ => false
  | .which .., _ => false
  | _, .absent => true
  | .prim p, .prim x => C.ok p x
  | .attr p, .prim x => C.ok p x
  | .text p, .prim x => C.ok p x
  | .child c, v => wf c v
  | .list c, .node items => (!ne || !items.isEmpty) && items.all (wf c)
  | .array c a, .node items => (!ne || !items.isEmpty) && items.all (wf c) &&
      (a.minLen ≤ items.length && items.length ≤ a.maxLen) && isCanonArr C a items
  | .primList p, .node items => (!ne || !items.isEmpty) && items.all (isPrimOk C p)
  | .floatArr f, .node items => (!ne || !items.isEmpty) && items.all (isPrimOk C f.prim)
  | .params c _, .node items => (!ne || !items.isEmpty) && items.all (wf c) && distinctKeys C items
  | _, _ => false

def isRowOk (p : PrimId) (w : Nat) : Val P S → Bool
  | .node r => r.all (isPrimOk C p) && r.length == w
  | _ => false

/-- a coefficient array value: 1-D `node [prim ..]` with at least `dimOff` entries; 2-D `node [node [prim ..] ..]`, rectangular,
    at least one row, at least `dimOff` rows and columns -/
def wfPoly (s : PolySpec) : Val P S → Bool
  | .node items =>
    if s.two then
      match items with
      | [] => false
      | r :: _ => items.all (isRowOk C s.prim (lenOf r)) && s.dimOff ≤ items.length && s.dimOff ≤ lenOf r
    else items.all (isPrimOk C s.prim) && s.dimOff ≤ items.length
  | _ => false

/-- `v` is a value of class `c` of depth at most `n`: one entry per row, primitives accepted by their descriptor, present
    collections non-empty when `ne` (an empty collection and an absent one have the same XML; the dict form keeps them
    apart, so the dict theorems use `ne = false`), arrays within their length bounds and carrying the indices their container
    assigns, parameter names distinct, derived fields empty, nested values well formed -/
def wfValN (ne : Bool) : Nat → ClassId → Val P S → Bool
  | 0, _, _ => false
  | n + 1, c, v =>
    match T[c]?, v with
    | some (.rows rs), .node kids => all2 (wfField C ne (wfValN ne n)) rs kids
    | some .custom, .blob _ _ _ => true
    | some (.poly s), v => wfPoly C s v
    | _, _ => false

/-- well formed for the XML form (present collections non-empty) -/
def WFVal (n : Nat) (c : ClassId) (v : Val P S) : Prop := wfValN C T true n c v = true
/-- well formed for the dict form (empty collections allowed) -/
def WFValD (n : Nat) (c : ClassId) (v : Val P S) : Prop := wfValN C T false n c v = true
instance (n : Nat) (c : ClassId) (v : Val P S) : Decidable (WFVal C T n c v) :=
  inferInstanceAs (Decidable (wfValN C T true n c v = true))
instance (n : Nat) (c : ClassId) (v : Val P S) : Decidable (WFValD C T n c v) :=
  inferInstanceAs (Decidable (wfValN C T false n c v = true))

end codec

/-! ### dict codec (`to_dict` / `from_dict`, and `copy = from_dict ∘ to_dict`) -/

/-- the JSON-like form: `dict` keys are field-name ids in `_fields` order -/
inductive DVal (P S : Type) where
  | prim (p : P)
  | list (items : List (DVal P S))
  | dict (entries : List (Nat × DVal P S))
  | blob (attrs : List (QName × S)) (text : Option S) (children : List (XmlNode S))

section dict
variable {P S : Type} (C : Codec P S) (T : Tabs)

def dPrimOf : Val P S → Option (DVal P S)
  | .prim x => some (.prim x)
  | _ => none

def dRowOf : Val P S → Option (DVal P S)
  | .node r => some (.list (r.filterMap dPrimOf))
  | _ => none

def dEmit (ser : ClassId → Val P S → DVal P S) (kids : List (Val P S)) (r : Row) (v : Val P S) : List (Nat × DVal P S) :=
  match r.kind, v with
  | .count _ src, _ => [(r.name, .prim (C.natVal (lenOf (kids.getD src .absent))))]
  | .const _ k _, _ => [(r.name, .prim (C.constVal k))]
  | .which _ alts, _ => match whichOf kids alts with
    | some k => [(r.name, .prim (C.constVal k))]
    | none => []
  | _, .absent => []
  | .prim _, .prim x => [(r.name, .prim x)]
  | .attr _, .prim x => [(r.name, .prim x)]
  | .text _, .prim x => [(r.name, .prim x)]
  | .child c, v => [(r.name, ser c v)]
  | .list c, .node items => [(r.name, .list (items.map (ser c)))]
  | .array c _, .node items => [(r.name, .list (items.map (ser c)))]
  | .primList _, .node items => [(r.name, .list (items.filterMap dPrimOf))]
  | .floatArr _, .node items => [(r.name, .list (items.filterMap dPrimOf))]
  | .params c _, .node items => [(r.name, .list (items.map (ser c)))]
  | _, _ => []

/-- `{'Coefs': coefs.tolist()}` -/
def polyToDict (s : PolySpec) : Val P S → DVal P S
  | .node items =>
    if s.two then .dict [(s.dname, .list (items.filterMap dRowOf))]
    else .dict [(s.dname, .list (items.filterMap dPrimOf))]
  | _ => .dict []

/-- `to_dict`: fields that are None are left out -/
def toDictN : Nat → ClassId → Val P S → DVal P S
  | 0, _, _ => .dict []
  | n + 1, c, v =>
    match T[c]?, v with
    | some (.rows rs), .node kids => .dict ((rs.zip kids).flatMap (fun p => dEmit C (toDictN n) kids p.1 p.2))
    | some .custom, .blob a x ch => .blob a x ch
    | some (.poly s), v => polyToDict s v
    | _, _ => .dict []

def dPrim : DVal P S → Option (Val P S)
  | .prim x => some (.prim x)
  | _ => none

def dRow : DVal P S → Option (Val P S)
  | .list ds => (mapOpt dPrim ds).map .node
  | _ => none

def dParseRow (par : ClassId → DVal P S → Option (Val P S)) (es : List (Nat × DVal P S)) (r : Row) : Option (Val P S) :=
  if r.kind.isDerived then some .absent else
  match es.find? (fun e => e.1 == r.name) with
  | none => some .absent
  | some e =>
    match r.kind, e.2 with
    | .prim _, .prim x => some (.prim x)
    | .attr _, .prim x => some (.prim x)
    | .text _, .prim x => some (.prim x)
    | .child c, d => par c d
    | .list c, .list ds => (mapOpt (par c) ds).map .node
    | .array c a, .list ds => (mapOpt (par c) ds).bind (finishArr C a)
    | .primList _, .list ds => (mapOpt dPrim ds).map .node
    | .floatArr _, .list ds => (mapOpt dPrim ds).map .node
    | .params c _, .list ds => (mapOpt (par c) ds).map .node
    | _, _ => none

/-- `cls(Coefs=list)` -/
def polyOfDict (s : PolySpec) : DVal P S → Option (Val P S)
  | .dict es => match es.find? (fun e => e.1 == s.dname) with
    | some (_, .list ds) => if s.two then (mapOpt dRow ds).map .node else (mapOpt dPrim ds).map .node
    | _ => none
  | _ => none

/-- `from_dict` = `cls(**d)`: every field looked up by name, missing = None -/
def ofDictN : Nat → ClassId → DVal P S → Option (Val P S)
  | 0, _, _ => none
  | n + 1, c, d =>
    match T[c]?, d with
    | some (.rows rs), .dict es => (mapOpt (dParseRow C (ofDictN n) es) rs).map .node
    | some .custom, .blob a x ch => some (.blob a x ch)
    | some (.poly s), d => polyOfDict s d
    | _, _ => none

/-- `copy` -/
def copyN (n : Nat) (c : ClassId) (v : Val P S) : Option (Val P S) := ofDictN C T n c (toDictN C T n c v)

/-- field names distinct per class, child classes exist -/
def ClassTab.dwf (n : Nat) : ClassTab → Bool
  | .custom => true
  | .poly _ => true
  | .rows rs => pairwiseB (fun a b => a.name != b.name) rs &&
      rs.all (fun r => match r.kind with | .child c | .list c | .array c _ | .params c _ => decide (c < n) | _ => true)
def dwfTabs (T : Tabs) : Bool := T.all (ClassTab.dwf T.length)
def DWF (T : Tabs) : Prop := dwfTabs T = true
instance (T : Tabs) : Decidable (DWF T) := inferInstanceAs (Decidable (dwfTabs T = true))

end dict

/-! ### the same python class in another namespace context -/

def ArrSpec.sameShape (a b : ArrSpec) : Bool :=
  a.minLen == b.minLen && a.maxLen == b.maxLen && a.idxPos == b.idxPos && a.idxLabels == b.idxLabels && a.idxLimit == b.idxLimit

/-- two field kinds that differ in tags / attribute names only (`v` = the same for nested classes) -/
def Kind.variant (v : ClassId → ClassId → Bool) : Kind → Kind → Bool
  | .prim p, .prim q => p == q
  | .attr p, .attr q => p == q
  | .text p, .text q => p == q
  | .primList p, .primList q => p == q
  | .child c, .child d => v c d
  | .list c, .list d => v c d
  | .array c a, .array d b => v c d && a.sameShape b
  | .floatArr f, .floatArr g => f.prim == g.prim
  | .params c _, .params d _ => v c d
  | .count .., .count .. => true
  | .const .., .const .. => true
  | .which .., .which .. => true
  | _, _ => false

/-- class `d` is class `c` seen from another namespace context: the same fields of the same kinds in the same order, nested
    classes likewise; only the qualified tags (and attribute / wrapper names) differ.  What a value may hold does not depend on
    tags, so a value taken over by a parent of another context is still a value of the class (`wfValN_variant`). -/
def variantN : Nat → Tabs → ClassId → ClassId → Bool
  | 0, _, _, _ => true
  | n + 1, T, c, d =>
    match T[c]?, T[d]? with
    | some (.rows rs), some (.rows rs') => all2 (fun r r' => Kind.variant (variantN n T) r.kind r'.kind) rs rs'
    | some .custom, some .custom => true
    | some (.poly s), some (.poly s') => s.two == s'.two && s.prim == s'.prim && s.dimOff == s'.dimOff
    | _, _ => false

end Sarpy.Spec.XmlFmt
