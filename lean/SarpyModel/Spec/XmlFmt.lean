/-
  Spec.XmlFmt — the table-driven XML (and dict) codec of sarpy's metadata structures.
  Import-free, total, computable.  Recursion over the value tree is by fuel (no `partial`).

  Code anchors (sarpy/io/xml/base.py):
    Row / ClassTab = what `Serializable.to_node` (l.1010-1189) and `from_node` (l.910-1008) read from a class:
                     `_fields`, `_tag_override`, `_collections_tags`, `_set_as_attribute`, `_child_xml_ns_key`, `_required`
                     and the descriptor of each field (sarpy/io/xml/descriptors.py).
    serializeN     = `Serializable.to_node`: one node, attributes from the attribute rows, children from the element rows in
                     `_fields` order; `serialize_plain` (text node / nested to_node), `serialize_list` (repeated children),
                     `SerializableArray.to_node` (wrapper with optional `size`, one child per entry),
                     `ParametersCollection.to_node` (a list of a two-row class: attribute `name` + node text).
    parseN         = `Serializable.from_node`: `handle_attribute` (attrib.get), `handle_single` (find first child),
                     `handle_list` (findall; nothing found = field absent), `parse_serializable_array` (children of the wrapper).
    toDictN/ofDictN= `Serializable.to_dict` (l.1223-1319) / `from_dict` = `cls(**dict)`; `copy` = `from_dict (to_dict x)`.
  Namespaces: the prefix a node inherits from its parent is resolved by the translator (translate/tables_xml.py), which emits
  one table per (python class, namespace context) with fully qualified tags; `tag` is what `to_node` writes, `ptag` what
  `from_node` looks up.  Qualified names, field names and primitive kinds are interned as numbers.
  Primitive text codecs (`'{0:0.17G}'.format`, `str`, `'true'/'false'`, `str(datetime64)+'Z'` and `float`, `int`,
  `numpy.datetime64`, ...) are an abstract parameter `Codec`.
-/
namespace Sarpy.Spec.XmlFmt

/-- qualified name: (namespace key id, local name id); namespace 0 = no prefix / default namespace -/
abbrev QName := Nat × Nat
abbrev ClassId := Nat
abbrev PrimId := Nat

/-- an XML element: tag, attributes, text, children (`S` = text) -/
inductive XmlNode (S : Type) where
  | mk (tag : QName) (attrs : List (QName × S)) (text : Option S) (children : List (XmlNode S))

namespace XmlNode
variable {S : Type}
def tag : XmlNode S → QName | mk t _ _ _ => t
def attrs : XmlNode S → List (QName × S) | mk _ a _ _ => a
def text : XmlNode S → Option S | mk _ _ x _ => x
def children : XmlNode S → List (XmlNode S) | mk _ _ _ c => c
end XmlNode

inductive Kind where
  /-- `<tag>text</tag>` (String/Integer/Float/Boolean/DateTime/Enum descriptors) -/
  | prim (p : PrimId)
  /-- `tag="text"` on the class node (`_set_as_attribute`) -/
  | attr (p : PrimId)
  /-- the text of the class node itself (value of a `Parameter`) -/
  | text (p : PrimId)
  /-- nested structure `<tag>…</tag>` (SerializableDescriptor, UnitVectorDescriptor, complex numbers) -/
  | child (c : ClassId)
  /-- repeated `<tag>…</tag>` directly under the class node (SerializableListDescriptor, ParametersDescriptor) -/
  | list (c : ClassId)
  /-- `<tag size="n"><childTag>…</childTag>*</tag>` (SerializableArrayDescriptor); `pChildTag` is the child tag the reader uses -/
  | array (c : ClassId) (childTag pChildTag : QName) (sizeAttr : Option QName)
  /-- repeated `<tag>text</tag>` (String/Integer/FloatListDescriptor) -/
  | primList (p : PrimId)
deriving DecidableEq

structure Row where
  name : Nat
  /-- qualified tag written by `to_node` (element tag, attribute name; for list kinds the child tag) -/
  tag : QName
  /-- qualified tag looked up by `from_node` -/
  ptag : QName
  kind : Kind
  required : Bool
deriving DecidableEq

inductive ClassTab where
  | rows (rs : List Row)
  /-- a class with hand-written XML logic: its node body is a black box for the generic machinery -/
  | custom

abbrev Tabs := List ClassTab

/-- values: `node` is a record (one entry per row of the class table, `absent` = None) or a collection (its items) -/
inductive Val (P S : Type) where
  | absent
  | prim (p : P)
  | node (kids : List (Val P S))
  | blob (attrs : List (QName × S)) (text : Option S) (children : List (XmlNode S))

/-- primitive text codecs, abstract: `toText k` renders, `ofText k` parses, `ok k` = values the descriptor of kind `k` holds;
    `sizeText n` renders the `size` attribute of an array -/
structure Codec (P S : Type) where
  toText : PrimId → P → S
  ofText : PrimId → S → Option P
  ok : PrimId → P → Bool
  sizeText : Nat → S

/-- the round-trip law assumed of the primitive codecs (a hypothesis of the theorems, tested on the implementation) -/
def Codec.RoundTrip {P S : Type} (C : Codec P S) : Prop :=
  ∀ k p, C.ok k p = true → C.ofText k (C.toText k p) = some p

/-- `mapM` for `Option`, spelled out -/
def mapOpt {α β : Type} (f : α → Option β) : List α → Option (List β)
  | [] => some []
  | a :: as => match f a with
    | none => none
    | some b => match mapOpt f as with
      | none => none
      | some bs => some (b :: bs)

def Kind.isElem : Kind → Bool
  | .prim _ | .child _ | .list _ | .array .. | .primList _ => true
  | .attr _ | .text _ => false
def Kind.isAttr : Kind → Bool | .attr _ => true | _ => false
def Kind.isText : Kind → Bool | .text _ => true | _ => false

/-! ### well-formed tables (decidable) -/

def pairwiseB {α : Type} (r : α → α → Bool) : List α → Bool
  | [] => true
  | a :: as => as.all (r a) && pairwiseB r as

/-- two rows of one class never compete for the same XML item -/
def Row.compat (a b : Row) : Bool :=
  !(a.kind.isElem && b.kind.isElem && a.tag == b.tag) &&
  !(a.kind.isAttr && b.kind.isAttr && a.tag == b.tag) &&
  !(a.kind.isText && b.kind.isText)

def Row.wf (n : Nat) (r : Row) : Bool :=
  r.tag == r.ptag &&
  (match r.kind with
   | .child c | .list c => decide (c < n)
   | .array c ct pct _ => decide (c < n) && ct == pct
   | _ => true)

def ClassTab.wf (n : Nat) : ClassTab → Bool
  | .custom => true
  | .rows rs => rs.all (Row.wf n) && pairwiseB Row.compat rs

def wfTabs (T : Tabs) : Bool := T.all (ClassTab.wf T.length)

/-- distinct effective element tags and attribute names per class, at most one text row, writer and reader agree on every
    qualified tag, child classes exist (attribute rows are primitive by construction of `Kind`) -/
def WF (T : Tabs) : Prop := wfTabs T = true
instance (T : Tabs) : Decidable (WF T) := inferInstanceAs (Decidable (wfTabs T = true))

/-! ### XML codec -/

section codec
variable {P S : Type} (C : Codec P S) (T : Tabs)

def textNode (t : QName) (s : S) : XmlNode S := .mk t [] (some s) []

/-- the text node of one entry of a primitive list -/
def primNode? (t : QName) (p : PrimId) : Val P S → Option (XmlNode S)
  | .prim x => some (textNode t (C.toText p x))
  | _ => none

/-- element children contributed by one row (`ser` = serialisation of a nested structure) -/
def emitRow (ser : ClassId → QName → Val P S → XmlNode S) (r : Row) (v : Val P S) : List (XmlNode S) :=
  match r.kind, v with
  | _, .absent => []
  | .prim p, .prim x => [textNode r.tag (C.toText p x)]
  | .child c, v => [ser c r.tag v]
  | .list c, .node items => items.map (ser c r.tag)
  | .array c ct _ sz, .node items =>
      if items.isEmpty then [] else
      [.mk r.tag (match sz with | none => [] | some q => [(q, C.sizeText items.length)]) none (items.map (ser c ct))]
  | .primList p, .node items => items.filterMap (primNode? C r.tag p)
  | _, _ => []

def emitAttr (r : Row) (v : Val P S) : List (QName × S) :=
  match r.kind, v with
  | .attr p, .prim x => [(r.tag, C.toText p x)]
  | _, _ => []

def emitText (r : Row) (v : Val P S) : List S :=
  match r.kind, v with
  | .text p, .prim x => [C.toText p x]
  | _, _ => []

/-- `to_node` with recursion depth `n` -/
def serializeN : Nat → ClassId → QName → Val P S → XmlNode S
  | 0, _, t, _ => .mk t [] none []
  | n + 1, c, t, v =>
    match T[c]?, v with
    | some (.rows rs), .node kids =>
        .mk t ((rs.zip kids).flatMap (fun p => emitAttr C p.1 p.2))
              ((rs.zip kids).flatMap (fun p => emitText C p.1 p.2)).head?
              ((rs.zip kids).flatMap (fun p => emitRow C (serializeN n) p.1 p.2))
    | some .custom, .blob a x ch => .mk t a x ch
    | _, _ => .mk t [] none []

def hasTag (q : QName) (x : XmlNode S) : Bool := x.tag == q

def parsePrim (p : PrimId) (x : XmlNode S) : Option (Val P S) :=
  match x.text with
  | none => none
  | some s => (C.ofText p s).map .prim

/-- what `from_node` hands to the descriptor of one field, already converted -/
def parseRow (par : ClassId → XmlNode S → Option (Val P S)) (x : XmlNode S) (r : Row) : Option (Val P S) :=
  match r.kind with
  | .prim p => match x.children.find? (hasTag r.ptag) with
    | none => some .absent
    | some ch => parsePrim C p ch
  | .attr p => match (x.attrs.find? (fun a => a.1 == r.ptag)) with
    | none => some .absent
    | some a => (C.ofText p a.2).map .prim
  | .text p => match x.text with
    | none => some .absent
    | some s => (C.ofText p s).map .prim
  | .child c => match x.children.find? (hasTag r.ptag) with
    | none => some .absent
    | some ch => par c ch
  | .list c =>
    let chs := x.children.filter (hasTag r.ptag)
    if chs.isEmpty then some .absent else (mapOpt (par c) chs).map .node
  | .array c _ pct _ => match x.children.find? (hasTag r.ptag) with
    | none => some .absent
    | some w => (mapOpt (par c) (w.children.filter (hasTag pct))).map .node
  | .primList p =>
    let chs := x.children.filter (hasTag r.ptag)
    if chs.isEmpty then some .absent else (mapOpt (parsePrim C p) chs).map .node

/-- `from_node` with recursion depth `n` -/
def parseN : Nat → ClassId → XmlNode S → Option (Val P S)
  | 0, _, _ => none
  | n + 1, c, x =>
    match T[c]? with
    | some (.rows rs) => (mapOpt (parseRow C (parseN n) x) rs).map .node
    | some .custom => some (.blob x.attrs x.text x.children)
    | none => none

/-! ### values a class can hold (decidable, by fuel) -/

def all2 {α β : Type} (f : α → β → Bool) : List α → List β → Bool
  | [], [] => true
  | a :: as, b :: bs => f a b && all2 f as bs
  | _, _ => false

def isPrimOk (p : PrimId) : Val P S → Bool
  | .prim x => C.ok p x
  | _ => false

def wfField (ne : Bool) (wf : ClassId → Val P S → Bool) (r : Row) (v : Val P S) : Bool :=
  match r.kind, v with
  | _, .absent => true
  | .prim p, .prim x => C.ok p x
  | .attr p, .prim x => C.ok p x
  | .text p, .prim x => C.ok p x
  | .child c, v => wf c v
  | .list c, .node items => (!ne || !items.isEmpty) && items.all (wf c)
  | .array c _ _ _, .node items => (!ne || !items.isEmpty) && items.all (wf c)
  | .primList p, .node items => (!ne || !items.isEmpty) && items.all (isPrimOk C p)
  | _, _ => false

/-- `v` is a value of class `c` of depth at most `n`: one entry per row, primitives accepted by their descriptor, present
    collections non-empty when `ne` (an empty collection and an absent one have the same XML; the dict form keeps them
    apart, so the dict theorems use `ne = false`), nested values well formed -/
def wfValN (ne : Bool) : Nat → ClassId → Val P S → Bool
  | 0, _, _ => false
  | n + 1, c, v =>
    match T[c]?, v with
    | some (.rows rs), .node kids => all2 (wfField C ne (wfValN ne n)) rs kids
    | some .custom, .blob _ _ _ => true
    | _, _ => false

/-- well formed for the XML form (present collections non-empty) -/
def WFVal (n : Nat) (c : ClassId) (v : Val P S) : Prop := wfValN C T true n c v = true
/-- well formed for the dict form (empty collections allowed) -/
def WFValD (n : Nat) (c : ClassId) (v : Val P S) : Prop := wfValN C T false n c v = true
instance (n : Nat) (c : ClassId) (v : Val P S) : Decidable (WFVal C T n c v) :=
  inferInstanceAs (Decidable (wfValN C T true n c v = true))
instance (n : Nat) (c : ClassId) (v : Val P S) : Decidable (WFValD C T n c v) :=
  inferInstanceAs (Decidable (wfValN C T false n c v = true))

end codec

/-! ### dict codec (`to_dict` / `from_dict`, and `copy = from_dict ∘ to_dict`) -/

/-- the JSON-like form: `dict` keys are field-name ids in `_fields` order -/
inductive DVal (P S : Type) where
  | prim (p : P)
  | list (items : List (DVal P S))
  | dict (entries : List (Nat × DVal P S))
  | blob (attrs : List (QName × S)) (text : Option S) (children : List (XmlNode S))

section dict
variable {P S : Type} (T : Tabs)

def dPrimOf : Val P S → Option (DVal P S)
  | .prim x => some (.prim x)
  | _ => none

def dEmit (ser : ClassId → Val P S → DVal P S) (r : Row) (v : Val P S) : List (Nat × DVal P S) :=
  match r.kind, v with
  | _, .absent => []
  | .prim _, .prim x => [(r.name, .prim x)]
  | .attr _, .prim x => [(r.name, .prim x)]
  | .text _, .prim x => [(r.name, .prim x)]
  | .child c, v => [(r.name, ser c v)]
  | .list c, .node items => [(r.name, .list (items.map (ser c)))]
  | .array c _ _ _, .node items => [(r.name, .list (items.map (ser c)))]
  | .primList _, .node items => [(r.name, .list (items.filterMap dPrimOf))]
  | _, _ => []

/-- `to_dict`: fields that are None are left out -/
def toDictN : Nat → ClassId → Val P S → DVal P S
  | 0, _, _ => .dict []
  | n + 1, c, v =>
    match T[c]?, v with
    | some (.rows rs), .node kids => .dict ((rs.zip kids).flatMap (fun p => dEmit (toDictN n) p.1 p.2))
    | some .custom, .blob a x ch => .blob a x ch
    | _, _ => .dict []

def dPrim : DVal P S → Option (Val P S)
  | .prim x => some (.prim x)
  | _ => none

def dParseRow (par : ClassId → DVal P S → Option (Val P S)) (es : List (Nat × DVal P S)) (r : Row) : Option (Val P S) :=
  match es.find? (fun e => e.1 == r.name) with
  | none => some .absent
  | some e =>
    match r.kind, e.2 with
    | .prim _, .prim x => some (.prim x)
    | .attr _, .prim x => some (.prim x)
    | .text _, .prim x => some (.prim x)
    | .child c, d => par c d
    | .list c, .list ds => (mapOpt (par c) ds).map .node
    | .array c _ _ _, .list ds => (mapOpt (par c) ds).map .node
    | .primList _, .list ds => (mapOpt dPrim ds).map .node
    | _, _ => none

/-- `from_dict` = `cls(**d)`: every field looked up by name, missing = None -/
def ofDictN : Nat → ClassId → DVal P S → Option (Val P S)
  | 0, _, _ => none
  | n + 1, c, d =>
    match T[c]?, d with
    | some (.rows rs), .dict es => (mapOpt (dParseRow (ofDictN n) es) rs).map .node
    | some .custom, .blob a x ch => some (.blob a x ch)
    | _, _ => none

/-- `copy` -/
def copyN (n : Nat) (c : ClassId) (v : Val P S) : Option (Val P S) := ofDictN T n c (toDictN T n c v)

/-- field names distinct per class, child classes exist -/
def ClassTab.dwf (n : Nat) : ClassTab → Bool
  | .custom => true
  | .rows rs => pairwiseB (fun a b => a.name != b.name) rs &&
      rs.all (fun r => match r.kind with | .child c | .list c | .array c _ _ _ => decide (c < n) | _ => true)
def dwfTabs (T : Tabs) : Bool := T.all (ClassTab.dwf T.length)
def DWF (T : Tabs) : Prop := dwfTabs T = true
instance (T : Tabs) : Decidable (DWF T) := inferInstanceAs (Decidable (dwfTabs T = true))

end dict

end Sarpy.Spec.XmlFmt
