import SarpyModel.Spec.Opener
/-
  C14 (extension) — every registered opener of `sarpy.io.complex` (and the `is_a` of the other families) as a
  *guard table*, the full trial loops, and NITF 2.0 containers.

  The openers of Spec.Opener decide on the file's `Desc`.  The vendor openers look at other things: whether the
  argument is a file object, what `os.path` says about the string, the base name, the leading bytes, whether the
  content parses as XML, what else is in the directory.  These observations are the `World`.

  Every `is_a` has the same shape (sarpy/io/complex/*.py):

      if <guard>: return None            -- `pre` steps, outside the try
      ...
      try:
          details = XDetails(file_name)  -- the constructor starts with guards `if <c>: raise E(..)` and statements
          return XReader(details)           that raise when an observation fails: `body` steps
      except (E1, E2, ..):               -- `caught`
          return None

  A `Step` is (condition over observations, outcome); the first step whose condition holds decides; an exception
  decides `reject` when the handler catches it and `raises` otherwise.  Where the guards are exhausted the rest of
  the constructor / reader (`deep`) is opaque: a parameter of every statement below (its value is the decision of the
  remainder of `is_a`, handler included).

  The tables `tab` below are a hand mirror; translate/gen_openers.py regenerates the same tables from the Python AST
  on every run (Gen/Openers.lean) and Bridge/Openers.lean proves them equal.

  Mirrors
    sarpy/io/complex/{capella,csk,gff,iceye,nisar,palsar2,radarsat,sentinel,sicd,sio,tsx}.py  is_a + <X>Details.__init__
    sarpy/io/complex/other_nitf.py final_attempt ; sarpy/io/general/tiff.py TiffDetails.__init__, is_a
    sarpy/io/general/utils.py is_file_like, is_hdf5, _fetch_initial_bytes
    sarpy/io/general/base.py check_for_openers (registration order = pkgutil order)
    sarpy/io/{complex,product,phase_history,received,general}/converter.py open_* ; sarpy/io/__init__.py open
    sarpy/io/general/nitf.py NITFDetails.__init__ (2.0 branch), sarpy/io/complex/other_nitf.py extract_sicd
-/
namespace Sarpy.Spec.Opener

/-! ## observations -/

/-- what `os.path` says about a string argument (`special`: exists, neither regular file nor directory) -/
inductive PathKind where
  | missing | file | dir | special
  deriving DecidableEq, Repr

/-- base name of the path, by the tests the openers make (`product.xml` also has the extension `.xml`) -/
inductive NameKind where
  | plain | xmlExt | productXml | manifestSafe
  deriving DecidableEq, Repr

/-- leading bytes of a regular file, by the vendor magic tests.
    `plain`  none of the others, first two bytes decode as UTF-8 (includes files shorter than two bytes)
    `binary` first two bytes are not UTF-8
    `hdf5`   b'\x89HDF' (utils.is_hdf5 looks at four bytes only)
    `gff`    b'GSATIMG'
    `tiffShort` "II" / "MM" and fewer than four bytes in the file
    `tiffBad`   "II" / "MM" followed by a 16 bit number other than 42 / 43
    `tiff42`, `tiff43`  TIFF / BigTIFF signature -/
inductive VHead where
  | plain | binary | hdf5 | gff | tiffShort | tiffBad | tiff42 | tiff43
  deriving DecidableEq, Repr

/-- tsx._is_level1_product on the first 200 bytes: `declOpen` = starts with "<?xml" and has no "?>" (ValueError),
    `level1` = (after the declaration) starts with "<level1Product" -/
inductive Probe where
  | none | declOpen | level1
  deriving DecidableEq, Repr

structure World where
  arg : Arg
  kind : PathKind
  name : NameKind
  /-- the file has at least four bytes -/
  len4 : Bool
  head : VHead
  /-- byte order mark "MM" (only read when `head` is one of the tiff classes) -/
  big : Bool
  /-- the whole file parses as XML (ElementTree) -/
  xmlParses : Bool
  probe : Probe
  /-- the directory palsar2 scans (the directory itself, or the parent of a file) has an entry named IMG-* / LED-* / TRL-* / VOL-* -/
  palsarNamed : Bool
  /-- a directory argument holding product.xml or metadata/product.xml ; manifest.safe -/
  dirProduct : Bool
  dirManifest : Bool
  /-- a directory argument: summary of `_is_level1_product` over its *.xml files (declOpen wins, then level1) -/
  dirXml : Probe
  /-- h5py importable -/
  h5py : Bool
  deriving DecidableEq, Repr

/-- the observations a guard can make; each is the value of one Python expression (see translate/gen_openers.py ATOMS) -/
inductive Atom where
  | fileLike | isStr | pexists | isFile | isDir
  | isHdf5 | noH5py
  | head2Decodes | tiffII | tiffMM | tiffHasMagic | tiffMagicOk | tiffMagic43
  | gffHead | len4 | sioMagic
  | nameProduct | nameManifest | extXml | xmlParses
  | probeDeclOpen | probeLevel1
  | palsarNamed | dirProduct | dirManifest | dirXmlDeclOpen | dirXmlLevel1
  deriving DecidableEq, Repr

def World.isPath (w : World) : Bool := w.arg == .path
def World.regular (w : World) : Bool := w.arg == .path && w.kind == .file
def World.tiffEndian (w : World) : Bool :=
  w.head == .tiffShort || w.head == .tiffBad || w.head == .tiff42 || w.head == .tiff43

def evalAtom (w : World) (d : Desc) : Atom → Bool
  | .fileLike => w.arg == .fileobj
  | .isStr => w.isPath
  | .pexists => w.isPath && w.kind != .missing
  | .isFile => w.regular
  | .isDir => w.isPath && w.kind == .dir
  | .isHdf5 => w.regular && w.head == .hdf5
  | .noH5py => !w.h5py
  | .head2Decodes => w.head != .binary && w.head != .hdf5
  | .tiffII => w.tiffEndian && !w.big
  | .tiffMM => w.tiffEndian && w.big
  | .tiffHasMagic => w.head == .tiffBad || w.head == .tiff42 || w.head == .tiff43
  | .tiffMagicOk => w.head == .tiff42 || w.head == .tiff43
  | .tiffMagic43 => w.head == .tiff43
  | .gffHead => w.head == .gff
  | .len4 => w.len4
  | .sioMagic => d.magic == .sio
  | .nameProduct => w.name == .productXml
  | .nameManifest => w.name == .manifestSafe
  | .extXml => w.name == .xmlExt || w.name == .productXml
  | .xmlParses => w.xmlParses
  | .probeDeclOpen => w.probe == .declOpen
  | .probeLevel1 => w.probe == .level1
  | .palsarNamed => w.palsarNamed
  | .dirProduct => w.dirProduct
  | .dirManifest => w.dirManifest
  | .dirXmlDeclOpen => w.dirXml == .declOpen
  | .dirXmlLevel1 => w.dirXml == .level1

/-! ## guard tables -/

inductive Cond where
  | tt
  | atom (a : Atom)
  | not (c : Cond)
  | and (a b : Cond)
  | or (a b : Cond)
  deriving DecidableEq, Repr

def evalCond (w : World) (d : Desc) : Cond → Bool
  | .tt => true
  | .atom a => evalAtom w d a
  | .not c => !evalCond w d c
  | .and a b => evalCond w d a && evalCond w d b
  | .or a b => evalCond w d a || evalCond w d b

/-- exception classes that occur in the guards and handlers (`parse` = xml.etree.ElementTree.ParseError, a SyntaxError) -/
inductive Exc where
  | sarpyIO | value | index | parse | syntax | attribute | importErr | os | type | key | struct
  deriving DecidableEq, Repr

/-- `except h` catches a raised `r` -/
def catches (h r : Exc) : Bool := h == r || (h == .syntax && r == .parse)

inductive Out where
  | retNone            -- `return None`
  | raise (e : Exc)
  | deep               -- the unmodelled remainder starts here
  deriving DecidableEq, Repr

structure Step where
  cond : Cond
  out : Out
  deriving DecidableEq, Repr

structure OpenerTab where
  /-- guards of `is_a` in front of the `try` -/
  pre : List Step
  /-- guards and raising statements of the details constructor, inside the `try` -/
  body : List Step
  caught : List Exc
  deriving DecidableEq, Repr

def firstFiring (w : World) (d : Desc) : List Step → Option Out
  | [] => none
  | s :: rest => if evalCond w d s.cond then some s.out else firstFiring w d rest

/-- one `is_a`; `deep` = decision of the unmodelled remainder (handler included) -/
def isA (t : OpenerTab) (w : World) (d : Desc) (deep : Decision) : Decision :=
  match firstFiring w d t.pre with
  | some .retNone => .reject
  | some (.raise _) => .raises
  | some .deep => deep
  | none =>
    match firstFiring w d t.body with
    | some .retNone => .reject
    | some (.raise e) => if t.caught.any (catches · e) then .reject else .raises
    | some .deep => deep
    | none => deep

/-- every module that contributes an `is_a` / final attempt -/
inductive Vendor where
  | capella | csk | gff | iceye | nisar | palsar2 | radarsat | sentinel | sicd | sio | tsx   -- sarpy.io.complex
  | finalAttempt                                                                             -- other_nitf.final_attempt
  | sidd | cphd | crsd                                                                       -- product / phase_history / received
  | nitf | tiff                                                                              -- general
  deriving DecidableEq, Repr

@[reducible] def ca (x : Atom) : Cond := .atom x
@[reducible] def cn (x : Atom) : Cond := .not (.atom x)
@[reducible] def sIO (c : Cond) : Step := ⟨c, .raise .sarpyIO⟩
@[reducible] def sNone (c : Cond) : Step := ⟨c, .retNone⟩
@[reducible] def deepS : Step := ⟨.tt, .deep⟩

/-- four places where a guard of the tree this model was written against lets an exception other than SarpyIOError escape
    (findings of this round).  `true` = as found, `false` = repaired as proposed in notes/fixes/.  The bridge theorem says the
    regenerated tables are `tab f` for one of the sixteen `f`; every theorem of Props/C14Vendor.lean holds for all of them.
    `tiffShortUnguarded`      TiffDetails indexes `numpy.fromfile(fi, .., count=1)[0]` without looking at its size: IndexError on "II" / "MM" + < 2 bytes
    `radarsatParseUncaught`   radarsat.is_a catches SarpyIOError only: ElementTree.ParseError escapes for a non-XML file called product.xml
    `tsxDanglingRaises`       tsx._is_level1_product raises ValueError for "<?xml" without "?>" instead of answering False
    `palsarSpecialValueError` PALSARDetails raises ValueError for an existing path that is neither file nor directory -/
structure TabFlags where
  tiffShortUnguarded : Bool
  radarsatParseUncaught : Bool
  tsxDanglingRaises : Bool
  palsarSpecialValueError : Bool
  deriving DecidableEq, Repr

/-- TiffDetails.__init__ (tiff.py:158-195), used by capella.is_a and general tiff.is_a -/
def tiffSteps (f : TabFlags) : List Step :=
  [ sIO (.not (.and (ca .isStr) (ca .isFile))),
    sIO (cn .head2Decodes),                                   -- try: fi.read(2).decode('utf-8') except Exception: raise SarpyIOError
    sIO (.and (cn .tiffII) (cn .tiffMM)),
    ⟨cn .tiffHasMagic, .raise (if f.tiffShortUnguarded then .index else .sarpyIO)⟩,   -- numpy.fromfile(fi, .., count=1)[0] on fewer than two bytes
    sIO (cn .tiffMagicOk),
    ⟨ca .tiffMagic43, .deep⟩ ]                               -- BigTIFF header words: not modelled

def h5Pre : List Step := [sNone (ca .fileLike), sNone (cn .isHdf5), sNone (ca .noH5py)]
def h5Body : List Step := [⟨ca .noH5py, .raise .importErr⟩, sIO (cn .isFile), deepS]

def tab (f : TabFlags) : Vendor → OpenerTab
  | .capella => ⟨[sNone (ca .fileLike)], tiffSteps f ++ [deepS], [.sarpyIO]⟩
  | .csk => ⟨h5Pre, h5Body, [.sarpyIO]⟩
  | .gff => ⟨[sNone (ca .fileLike)], [sIO (cn .isFile), sIO (cn .gffHead), deepS], [.sarpyIO]⟩
  | .iceye => ⟨h5Pre, h5Body, [.sarpyIO]⟩
  | .nisar => ⟨h5Pre, h5Body, [.importErr, .sarpyIO]⟩
  | .palsar2 => ⟨[sNone (ca .fileLike)],
      [ sIO (cn .pexists),
        ⟨.and (cn .isFile) (cn .isDir), .raise (if f.palsarSpecialValueError then .value else .sarpyIO)⟩,
        ⟨ca .palsarNamed, .deep⟩,                              -- the listdir loop reads the named entries
        sIO (cn .palsarNamed),                                  -- len(img_files) == 0
        deepS ], [.importErr, .sarpyIO]⟩
  | .radarsat => ⟨[sNone (ca .fileLike)],
      [ ⟨.and (ca .isDir) (ca .dirProduct), .deep⟩,             -- file_name redirected to the product.xml inside
        sIO (cn .isFile),
        sIO (cn .nameProduct),
        ⟨cn .xmlParses, .raise .parse⟩,                        -- _parse_xml
        deepS ], if f.radarsatParseUncaught then [.sarpyIO] else [.sarpyIO, .parse]⟩
  | .sentinel => ⟨[sNone (ca .fileLike)],
      [ ⟨.and (ca .isDir) (ca .dirManifest), .deep⟩,
        sIO (.or (cn .pexists) (cn .isFile)),
        sIO (cn .nameManifest),
        ⟨cn .xmlParses, .raise .parse⟩,
        deepS ], [.sarpyIO, .attribute, .syntax, .parse]⟩
  | .sicd => ⟨[], [deepS], [.sarpyIO]⟩
  | .sio => ⟨[sNone (ca .fileLike)], [sIO (cn .isFile), sIO (cn .len4), sIO (cn .sioMagic), deepS], [.sarpyIO]⟩
  | .tsx => ⟨[sNone (ca .fileLike)],
      [ sIO (cn .isStr), sIO (cn .pexists) ] ++
      (if f.tsxDanglingRaises then [⟨.and (ca .isDir) (ca .dirXmlDeclOpen), .raise .value⟩] else []) ++
      [ ⟨.and (ca .isDir) (ca .dirXmlLevel1), .deep⟩, sIO (ca .isDir) ] ++
      (if f.tsxDanglingRaises then [⟨.and (ca .extXml) (ca .probeDeclOpen), .raise .value⟩] else []) ++
      [ ⟨.and (ca .extXml) (ca .probeLevel1), .deep⟩,
        sIO .tt,
        deepS ], [.sarpyIO]⟩                                  -- (last step not reached: the branch above is exhaustive)
  | .finalAttempt => ⟨[sNone (ca .fileLike)], [deepS], [.sarpyIO, .value]⟩
  | .sidd => ⟨[], [deepS], [.sarpyIO]⟩
  | .cphd => ⟨[], [deepS], [.sarpyIO]⟩
  | .crsd => ⟨[], [deepS], [.sarpyIO]⟩
  | .nitf => ⟨[], [deepS], [.sarpyIO]⟩
  | .tiff => ⟨[], tiffSteps f ++ [deepS], [.sarpyIO]⟩

/-- registration order of `sarpy.io.complex` (check_for_openers: pkgutil order of the package) -/
def complexOrder : List Vendor :=
  [.capella, .csk, .gff, .iceye, .nisar, .palsar2, .radarsat, .sentinel, .sicd, .sio, .tsx]
def generalOrder : List Vendor := [.nitf, .tiff]
def productOrder : List Vendor := [.sidd]
def phaseHistoryOrder : List Vendor := [.cphd]
def receivedOrder : List Vendor := [.crsd]
/-- the five family entry points -/
inductive Entry where
  | complex | product | phaseHistory | received | general
  deriving DecidableEq, Repr

/-- `sarpy.io.open` (sarpy/io/__init__.py): `try: return open_X(file_name) except SarpyIOError: pass`, in this order -/
def topOrder : List Entry := [.complex, .product, .phaseHistory, .received, .general]

/-- what `open_X` tests before its trial loop: `pathExists` = `if not os.path.exists(file_name)`,
    `fileLikeOrExists` = `if (not is_file_like(file_name)) and (not os.path.exists(file_name))`; both raise SarpyIOError -/
inductive EntryGuard where
  | pathExists | fileLikeOrExists
  deriving DecidableEq, Repr

structure EntryShape where
  guard : EntryGuard
  /-- a second loop over `_define_final_attempt_openers()` -/
  finalAttempt : Bool
  deriving DecidableEq, Repr

def entryShape : Entry → EntryShape
  | .complex => ⟨.fileLikeOrExists, true⟩
  | .product => ⟨.pathExists, false⟩
  | .phaseHistory => ⟨.fileLikeOrExists, false⟩
  | .received => ⟨.pathExists, false⟩
  | .general => ⟨.pathExists, false⟩

/-! ## the unmodelled remainders that Spec.Opener does model, and NITF 2.0 -/

/-- reader-side switches measured on the implementation on every run (harness/c14.py `source_policy2`):
    `siddRefusesGraphics`  as in `Policy`
    `nitf20SkipsSymLab`    NITFDetails.__init__ asks the 2.0 header for attributes it does not have
                           (`SymbolsSegments` / `LabelsSegments`), so symbol and label segments are left out of the running
                           offset and every later segment (text, DES, RES) is located too early by their total size
    `nitf20SarRaises`      other_nitf.extract_sicd reads IID1 / IID2 of the image subheader; the 2.0 subheader has IID / ITITLE:
                           AttributeError (not caught by final_attempt) for every 2.0 image segment of category SAR / SARIQ -/
structure Policy2 where
  siddRefusesGraphics : Bool
  nitf20SkipsSymLab : Bool
  nitf20SarRaises : Bool
  /-- which of the four guard defects are present (see `TabFlags`) -/
  guards : TabFlags
  deriving DecidableEq, Repr

def Policy2.base (p : Policy2) : Policy := { siddRefusesGraphics := p.siddRefusesGraphics }

/-- a DES read at a wrong offset: neither a known id nor XML -/
def garbled : Des := ⟨.other, .nonXml⟩

/-- the DES list as the reader locates it -/
def desSeen (p : Policy2) (d : Desc) : List Des :=
  if d.magic == .nitf20 && p.nitf20SkipsSymLab && decide (0 < d.symbols + d.labels) then d.des.map (fun _ => garbled) else d.des

def seen (p : Policy2) (d : Desc) : Desc := { d with des := desSeen p d }

/-- image segment of category SAR / SARIQ (everything the model knows except `other`) -/
def isSar (i : Img) : Bool := i.hdr.sar

/-- ComplexNITFDetails + ComplexNITFReader for a path, handler of final_attempt included -/
def finalDeep (p : Policy2) (d : Desc) : Decision :=
  if d.magic == .nitf20 && p.nitf20SarRaises && d.images.any isSar then .raises
  else finalAttempt .path d

/-- decision of the remainder of each `is_a` once its guards are passed; `deep` stays opaque for the vendor formats -/
def vendorDeep (p : Policy2) (d : Desc) (deep : Vendor → Decision) : Vendor → Decision
  | .sicd => sicdIsA (seen p d)
  | .sio => .accept .sio
  | .finalAttempt => finalDeep p d
  | .sidd => openProduct p.base (seen p d)
  | .cphd => openPhaseHistory .path d
  | .crsd => openReceived d
  | .nitf => openGeneral d
  | v => deep v

def isAV (p : Policy2) (w : World) (d : Desc) (deep : Vendor → Decision) (v : Vendor) : Decision :=
  isA (tab p.guards v) w d (vendorDeep p d deep v)

/-! ## the trial loops with every registered opener -/

def entryGuardFails (g : EntryGuard) (w : World) : Bool :=
  match g with
  | .pathExists => w.arg == .path && w.kind == .missing
  | .fileLikeOrExists => w.arg == .path && w.kind == .missing

/-- open_complex with an arbitrary registration order `order` -/
def openComplexWith (order : List Vendor) (p : Policy2) (w : World) (d : Desc) (deep : Vendor → Decision) : Decision :=
  if entryGuardFails (entryShape .complex).guard w then .reject
  else cascade (order.map (isAV p w d deep) ++ [isAV p w d deep .finalAttempt])

def openComplexV := openComplexWith complexOrder

def openProductV (p : Policy2) (w : World) (d : Desc) (deep : Vendor → Decision) : Decision :=
  if entryGuardFails (entryShape .product).guard w then .reject else cascade (productOrder.map (isAV p w d deep))

def openPhaseHistoryV (p : Policy2) (w : World) (d : Desc) (deep : Vendor → Decision) : Decision :=
  if entryGuardFails (entryShape .phaseHistory).guard w then .reject else cascade (phaseHistoryOrder.map (isAV p w d deep))

def openReceivedV (p : Policy2) (w : World) (d : Desc) (deep : Vendor → Decision) : Decision :=
  if entryGuardFails (entryShape .received).guard w then .reject else cascade (receivedOrder.map (isAV p w d deep))

def openGeneralV (p : Policy2) (w : World) (d : Desc) (deep : Vendor → Decision) : Decision :=
  if entryGuardFails (entryShape .general).guard w then .reject else cascade (generalOrder.map (isAV p w d deep))

def openEntryV (p : Policy2) (w : World) (d : Desc) (deep : Vendor → Decision) : Entry → Decision
  | .complex => openComplexV p w d deep
  | .product => openProductV p w d deep
  | .phaseHistory => openPhaseHistoryV p w d deep
  | .received => openReceivedV p w d deep
  | .general => openGeneralV p w d deep

/-- sarpy.io.open -/
def openTopV (p : Policy2) (w : World) (d : Desc) (deep : Vendor → Decision) : Decision :=
  cascade (topOrder.map (openEntryV p w d deep))

/-! ## which worlds go with which descriptors -/

/-- the vendors whose remainder is opaque (all of sarpy.io.complex except sicd / sio, and the general TIFF opener) -/
def Vendor.foreign : Vendor → Bool
  | .capella | .csk | .gff | .iceye | .nisar | .palsar2 | .radarsat | .sentinel | .tsx | .tiff => true
  | _ => false

/-- consistency of a world with a descriptor: a file that starts with "NITF" / "CPHD" / "CRSD" is a regular file of at
    least four bytes whose leading bytes are none of the vendor signatures, is not XML and does not start with "<?xml";
    the four SIO magic words start with a byte that is not UTF-8.  (A fact about bytes; tied by the correspondence.) -/
def worldOk (w : World) (d : Desc) : Bool :=
  match d.magic with
  | .none => true
  | .sio => (w.arg == .fileobj || w.kind == .file) && w.len4 && w.head == .binary && !w.xmlParses && w.probe == .none
  | _ => (w.arg == .fileobj || w.kind == .file) && w.len4 && w.head == .plain && !w.xmlParses && w.probe == .none

/-- a file handed over where sarpy's writers put it: a regular file (or an open file object on it) whose name is not
    `product.xml`, in a directory without IMG-* / LED-* / TRL-* / VOL-* entries -/
def writtenPlace (w : World) : Bool :=
  (w.arg == .fileobj || w.kind == .file) && w.name != .productXml && !w.palsarNamed

/-- a string / file without any signature some opener knows: not HDF5, GFF or TIFF-like leading bytes -/
def noVendorHead (w : World) : Bool := w.head == .plain || w.head == .binary

/-! ## the image-segment acceptance of the fallback complex opener as a regenerated table

  `ComplexNITFDetails._check_band_details` (other_nitf.py) is a chain of tests on one image subheader that either return after
  appending a status, or log an error, append `False` and go on (`mark`).  `extract_sicd(image_header, ..)` in front of the band
  tests raises ValueError for a PVTYPE its `get_image_data` does not handle.  translate/gen_openers.py regenerates `bandTab`
  from both functions; Props/C14Vendor.lean proves `runBand bandTab = checkBand` (the function `finalAttempt` is built on). -/

inductive BAtom where
  | icatSar      -- image_header.ICAT.strip() in ['SAR', 'SARIQ']
  | pvC | pvR | pvSI | pvINT
  | oddBands     -- len(bands) % 2 == 1
  | hasPair      -- bands[0], bands[1] exist
  | orderValid   -- bands[0].ISUBCAT + bands[1].ISUBCAT in ['IQ', 'QI', 'MP', 'PM']
  | twoBands     -- len(bands) == 2
  | pairsFollow  -- every later pair repeats the first
  | orderIQ | orderMP
  deriving DecidableEq, Repr

def evalBAtom (h : ImgHdr) : BAtom → Bool
  | .icatSar => h.sar
  | .pvC => h.pv == .c
  | .pvR => h.pv == .r
  | .pvSI => h.pv == .si
  | .pvINT => h.pv == .int
  | .oddBands => h.bands.length % 2 == 1
  | .hasPair => decide (2 ≤ h.bands.length)
  | .orderValid => match h.bands with | x :: y :: _ => validOrder x y | _ => false
  | .twoBands => h.bands.length == 2
  | .pairsFollow => match h.bands with | x :: y :: rest => pairsFollow x y rest | _ => true
  | .orderIQ => match h.bands with | x :: y :: _ => orderIQ x y | _ => false
  | .orderMP => match h.bands with | x :: y :: _ => orderMP x y | _ => false

inductive BCond where
  | tt
  | atom (a : BAtom)
  | not (c : BCond)
  | and (a b : BCond)
  | or (a b : BCond)
  deriving DecidableEq, Repr

def evalBCond (h : ImgHdr) : BCond → Bool
  | .tt => true
  | .atom a => evalBAtom h a
  | .not c => !evalBCond h c
  | .and a b => evalBCond h a && evalBCond h b
  | .or a b => evalBCond h a || evalBCond h b

inductive BOut where
  | skip               -- segment_status.append(False); return
  | take               -- segment_status.append(True); sicd_meta.append(sicd); segment_bands.append(..); return (or end of function)
  | mark               -- segment_status.append(False) WITHOUT return
  | raise (e : Exc)
  deriving DecidableEq, Repr

structure BStep where
  cond : BCond
  out : BOut
  deriving DecidableEq, Repr

/-- run the chain: the first firing step that ends the function decides; a firing `mark` is remembered -/
def runBand (h : ImgHdr) : List BStep → Bool → BandOut
  | [], _ => .skip
  | s :: rest, marked =>
    if evalBCond h s.cond then
      match s.out with
      | .skip => .skip
      | .take => if marked then .muddled else .take
      | .mark => runBand h rest true
      | .raise e => if e == .value then .refuse else .crash
    else runBand h rest marked

@[reducible] def ba (x : BAtom) : BCond := .atom x
@[reducible] def bn (x : BAtom) : BCond := .not (.atom x)

def bandTab : List BStep :=
  [ ⟨bn .icatSar, .skip⟩,
    ⟨.and (.and (bn .pvC) (bn .pvR)) (bn .pvSI), .raise .value⟩,          -- extract_sicd -> get_image_data: unhandled PVTYPE
    ⟨.and (ba .oddBands) (bn .pvC), .skip⟩,
    ⟨ba .oddBands, .take⟩,
    ⟨bn .hasPair, .raise .index⟩,                                         -- bands[0].ISUBCAT + bands[1].ISUBCAT
    ⟨bn .orderValid, .skip⟩,
    ⟨ba .twoBands, .take⟩,
    ⟨bn .pairsFollow, .skip⟩,
    ⟨.and (ba .orderIQ) (.not (.or (ba .pvSI) (ba .pvR))), .mark⟩,
    ⟨.and (ba .orderMP) (.not (.or (ba .pvINT) (ba .pvR))), .mark⟩,
    ⟨.tt, .take⟩ ]

/-- an image segment with real-valued pixels and no complex band pairing: PVTYPE other than C, at least one band, and not
    (an even number of bands whose first two are labelled I/Q, Q/I, M/P or P/M) -/
def realValued (h : ImgHdr) : Bool :=
  h.pv != .c && !h.bands.isEmpty &&
    !(h.bands.length % 2 == 0 && (match h.bands with | x :: y :: _ => validOrder x y | _ => false))

end Sarpy.Spec.Opener
