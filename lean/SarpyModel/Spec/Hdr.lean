/-
  Spec.Hdr — reference model of the step between "file layout / pixel codecs" in a SICD / SIDD round trip:
  which image subheader fields the writers produce for a pixel type, and which pixel encoding the readers (and the
  writers themselves, when they build their data segments) derive from such fields.

  Code anchors (every definition marked [gen] is regenerated from the current source into `Gen/Hdr.lean` by
  translate/gen_hdr.py and proved equal to the definition here in `Bridge/Hdr.lean`):

    isCompressed            [gen]  ImageSegmentHeader.is_compressed                     nitf_elements/image.py
    rawDtype                [gen]  _get_dtype.get_raw_dtype                             io/general/nitf.py
    complexOrder            [gen]  _get_dtype.get_complex_order
    lutInfo                 [gen]  _get_dtype.get_lut_info
    getDtype                [gen]  _get_dtype
    formatFunction          [gen]  _get_format_function
    nitfReaderCompliance    [gen]  NITFReader._check_image_segment_for_compliance
    nitfWriterCompliance    [gen]  NITFWriter._check_image_segment_for_compliance
    sicdReaderCompliance    [gen]  SICDReader._check_image_segment_for_compliance       io/complex/sicd.py
    sicdFormatFunction      [gen]  SICDReader.get_format_function AND SICDWriter.get_format_function (two copies in the source)
    checkIidFormat          [gen]  _check_iid_format                                    io/product/sidd.py
    siddReaderCompliance    [gen]  SIDDReader._check_image_segment_for_compliance
    sicdWriterHdr           [gen]  SICDWritingDetails._create_image_segments (pixel type chain + ImageSegmentHeader keywords)
    siddWriterHdr           [gen]  SIDDWritingDetails._create_image_segment_for_sidd
    glue                    [gen]  method resolution on SICDReader / SIDDReader / SICDWriter / SIDDWriter and the thin wrappers

  Hand models (numpy / object glue, tied by correspondence in harness/hdr.py):
    route                   create_data_segment_for_image_segment + _create_data_segment_from_imode_* (uncompressed part)
    complexCtorOk           ComplexFormatFunction._set_order: raw dtypes the constructor accepts for an order
    sicdRead / siddRead / sicdWrite / siddWrite   the order in which the pieces above are used by NITFReader.__init__
                            (check_for_compliance, then _handle_no_compression) and NITFWriter.__init__ (_verify_image_segments,
                            then _handle_no_compression)
-/
import SarpyModel.Spec.HdrTypes
namespace Sarpy.Spec.Hdr

/-! ### reader side -/

def isCompressed (ic : String) : Bool := decide (¬ ic ∈ ["NC", "NM"])

/-- PVTYPE x bytes per sample -> raw dtype, always big-endian; `none` for a PVTYPE the chain does not know (`B`) -/
def rawDtype (pv : String) (bpp : Nat) : Except String (Option RawDtype) :=
  if pv = "INT" then (npDtype true .u bpp).map some
  else if pv = "SI" then (npDtype true .i bpp).map some
  else if pv = "R" then (npDtype true .f bpp).map some
  else if pv = "C" then (if ¬ bpp ∈ [4, 8, 16] then .error "ValueError" else (npDtype true .c bpp).map some)
  else .ok none

def orders : List String := ["IQ", "QI", "MP", "PM"]

/-- the two subcategory labels of the band pair starting at band `i`, concatenated as the code does -/
def pairAt (bands : List Band) (i : Nat) : Except String String :=
  match pyIdx bands i with
  | .error e => .error e
  | .ok a =>
    match pyIdx bands (i + 1) with
    | .error e => .error e
    | .ok b => .ok (a.isubcat ++ b.isubcat)

/-- loop test of `get_complex_order`: the pair starting at band `i` is labelled differently from `order` -/
def pairDiffers (bands : List Band) (order : String) (i : Nat) : Except String Bool :=
  (pairAt bands i).map (fun p => decide (order ≠ p))

/-- PVTYPE admitted for an order -/
def pvtypeFits (order pv : String) : Bool :=
  !(decide (order ∈ ["IQ", "QI"]) && !decide (pv ∈ ["SI", "R"])) && !(decide (order ∈ ["MP", "PM"]) && !decide (pv ∈ ["INT", "R"]))

/-- which complex pair order the band subcategories announce: the concatenated labels of the first pair if it is one of
    the four orders and EVERY later pair concatenates to the same; the PVTYPE must fit or the segment is refused -/
def complexOrder (pv : String) (bands : List Band) : Except String (Option String) :=
  if bands.length % 2 ≠ 0 then .ok none
  else
    match pairAt bands 0 with
    | .error e => .error e
    | .ok order =>
      if ¬ order ∈ orders then .ok none
      else
        match anyM (pairDiffers bands order) (pyRange 2 bands.length 2) with
        | .error e => .error e
        | .ok true => .ok none
        | .ok false => if pvtypeFits order pv then .ok (some order) else .error "ValueError"

/-- the lookup table of the segment: only the first band may carry one when there are several bands; a table of rank 2
    (NLUTS x NELUT as parsed) is transposed -/
def lutInfo (bands : List Band) : Except String (Option Lut) :=
  if bands.length > 1 ∧ bands.any (fun b => b.lut.isSome) then .error "ValueError"
  else
    match pyIdx bands 0 with
    | .error e => .error e
    | .ok b0 =>
      match b0.lut with
      | none => .ok none
      | some l =>
        if l.shape.length = 1 then .ok (some l)
        else if l.shape.length = 2 then .ok (some l.transpose)
        else .error "ValueError"

/-- `_get_dtype`: (raw dtype, formatted dtype, formatted bands, complex order, lut) -/
def getDtype (h : ImgHdr) : Except String DtypeInfo :=
  match rawDtype h.pvtype (h.nbpp / 8) with
  | .error e => .error e
  | .ok raw =>
    match complexOrder h.pvtype h.bands with
    | .error e => .error e
    | .ok order =>
      match lutInfo h.bands with
      | .error e => .error e
      | .ok none =>
        if pyTruthy order then .ok (raw, .complex64, h.bands.length / 2, order, none)
        else .ok (raw, .ofRaw raw, h.bands.length, order, none)
      | .ok (some l) =>
        if l.shape.length = 1 then .ok (raw, .lutDtype, 1, order, some l)
        else
          match pyIdx l.shape 1 with
          | .error e => .error e
          | .ok n => .ok (raw, .lutDtype, n, order, some l)

/-- `_get_format_function` -/
def formatFunction (raw : Option RawDtype) (order : Option String) (lut : Option Lut) (bandDim : Nat) : FmtFn :=
  match order, lut with
  | some o, _ => .complex raw o bandDim
  | none, some l => .singleLut l
  | none, none => .none

/-- `NITFReader._check_image_segment_for_compliance`: can this segment be opened (false = skipped) -/
def nitfReaderCompliance (h : ImgHdr) (pilNone : Bool) : Bool :=
  decide (h.nbpp ∈ [8, 16, 32, 64]) && !(isCompressed h.ic && pilNone) &&
    !decide (h.ic ∈ ["I1", "C1", "C4", "C6", "C7", "M1", "M4", "M6", "M7"])

/-- `NITFWriter._check_image_segment_for_compliance` (raises instead of returning false) -/
def nitfWriterCompliance (h : ImgHdr) (pilNone : Bool) : Except String Unit :=
  if ¬ h.nbpp ∈ [8, 16, 32, 64] then .error "ValueError"
  else if isCompressed h.ic ∧ pilNone then .error "ValueError"
  else if ¬ h.imode ∈ ["B", "P", "R"] then .error "ValueError"
  else if h.masked = false then (if h.ic ≠ "NC" then .error "ValueError" else .ok ())
  else (if h.ic ≠ "NM" then .error "ValueError" else .ok ())

/-- the (order, raw dtype name) a SICD pixel type requires -/
def sicdRequires (pixelType : String) : Option (String × String) :=
  if pixelType = "RE32F_IM32F" then some ("IQ", "float32")
  else if pixelType = "RE16I_IM16I" then some ("IQ", "int16")
  else if pixelType = "AMP8I_PHS8I" then some ("MP", "uint8")
  else none

/-- `SICDReader._check_image_segment_for_compliance` -/
def sicdReaderCompliance (h : ImgHdr) (pilNone : Bool) (pixelType : String) : Except String Bool :=
  if nitfReaderCompliance h pilNone = false then .ok false
  else
    match getDtype h with
    | .error e => .error e
    | .ok (raw, _, fb, order, _) =>
      match order with
      | none => .ok false
      | some o =>
        if ¬ o ∈ ["IQ", "MP"] then .ok false
        else if fb ≠ 1 then .ok false
        else
          match dtypeName raw with
          | .error e => .error e
          | .ok nm =>
            match sicdRequires pixelType with
            | none => .error "ValueError"
            | some (wo, wn) => .ok (decide (o = wo) && decide (nm = wn))

/-- `SICDReader.get_format_function` = `SICDWriter.get_format_function` -/
def sicdFormatFunction (raw : Option RawDtype) (order : Option String) (lut : Option Lut) (bandDim : Nat) (pixelType : String) (ampNone : Bool) :
    Except String FmtFn :=
  match order with
  | none => .ok (formatFunction raw none lut bandDim)
  | some o =>
    if o = "IQ" then .ok (formatFunction raw (some o) lut bandDim)
    else if o ≠ "MP" then .error "ValueError"
    else
      match dtypeName raw with
      | .error e => .error e
      | .ok nm =>
        if nm ≠ "uint8" ∨ bandDim ≠ 2 then .error "ValueError"
        else if pixelType ≠ "AMP8I_PHS8I" ∨ ampNone = true then .error "ValueError"
        else .ok (.ampLookup raw)

/-- `_check_iid_format` -/
def checkIidFormat (iid1 : String) : Bool := decide (pySlice iid1 0 4 = "SIDD") && pyIsNumeric (pySliceFrom iid1 4)

/-- `SIDDReader._check_image_segment_for_compliance` -/
def siddReaderCompliance (h : ImgHdr) (pilNone : Bool) : Bool :=
  nitfReaderCompliance h pilNone && decide (h.icat = "SAR") && checkIidFormat h.iid1

/-! ### writer side: pixel type -> image subheader fields -/

inductive SicdPixel where | RE32F_IM32F | RE16I_IM16I | AMP8I_PHS8I
deriving DecidableEq, Repr

def SicdPixel.name : SicdPixel → String
  | .RE32F_IM32F => "RE32F_IM32F" | .RE16I_IM16I => "RE16I_IM16I" | .AMP8I_PHS8I => "AMP8I_PHS8I"

def SicdPixel.all : List SicdPixel := [.RE32F_IM32F, .RE16I_IM16I, .AMP8I_PHS8I]

def SicdPixel.ofName (s : String) : Option SicdPixel :=
  if s = "RE32F_IM32F" then some .RE32F_IM32F else if s = "RE16I_IM16I" then some .RE16I_IM16I
  else if s = "AMP8I_PHS8I" then some .AMP8I_PHS8I else none

/-- pixels per block field: the whole dimension, or 0 ("one block, size given by NROWS / NCOLS") beyond 8192 -/
def nppb (n : Nat) : Nat := if n > 8192 then 0 else n

def band (isubcat irepband : String) : Band := ⟨isubcat, irepband, none⟩

/-- the image subheader fields the SICD writer gives to a segment of `rows x cols` pixels -/
def sicdHdr (p : SicdPixel) (rows cols : Nat) (iid1 : String) : ImgHdr :=
  let (pv, nb, l0, l1) := match p with
    | .RE32F_IM32F => ("R", 32, "I", "Q")
    | .RE16I_IM16I => ("SI", 16, "I", "Q")
    | .AMP8I_PHS8I => ("INT", 8, "M", "P")
  { pvtype := pv, nbpp := nb, abpp := nb, irep := "NODISPLY", icat := "SAR", ic := "NC", imode := "P",
    bands := [band l0 "", band l1 ""], nrows := rows, ncols := cols, nppbh := nppb cols, nppbv := nppb rows, nbpr := 1, nbpc := 1,
    masked := false, iid1 := iid1 }

def sicdWriterHdr (pixelType : String) (rows cols : Nat) (iid1 : String) : Except String ImgHdr :=
  match SicdPixel.ofName pixelType with
  | some p => .ok (sicdHdr p rows cols iid1)
  | none => .error "ValueError"

/-- the SIDD pixel types of the standard; the writer knows three of them -/
inductive SiddPixel where | MONO8I | MONO8LU | MONO16I | RGB8LU | RGB24I
deriving DecidableEq, Repr

def SiddPixel.name : SiddPixel → String
  | .MONO8I => "MONO8I" | .MONO8LU => "MONO8LU" | .MONO16I => "MONO16I" | .RGB8LU => "RGB8LU" | .RGB24I => "RGB24I"

def SiddPixel.all : List SiddPixel := [.MONO8I, .MONO8LU, .MONO16I, .RGB8LU, .RGB24I]

/-- the three the writer accepts -/
def SiddPixel.written : List SiddPixel := [.MONO8I, .MONO16I, .RGB24I]

def SiddPixel.ofName (s : String) : Option SiddPixel :=
  if s = "MONO8I" then some .MONO8I else if s = "MONO16I" then some .MONO16I else if s = "RGB24I" then some .RGB24I
  else if s = "MONO8LU" then some .MONO8LU else if s = "RGB8LU" then some .RGB8LU else none

/-- `none`: the writer refuses the pixel type (`ValueError: Unsupported PixelType`) - the lookup-table types -/
def siddHdr (p : SiddPixel) (rows cols : Nat) (iid1 : String) : Option ImgHdr :=
  let mk (nb : Nat) (irep imode : String) (labels : List String) : ImgHdr :=
    { pvtype := "INT", nbpp := nb, abpp := nb, irep := irep, icat := "SAR", ic := "NC", imode := imode,
      bands := labels.map (band ""), nrows := rows, ncols := cols, nppbh := nppb cols, nppbv := nppb rows, nbpr := 1, nbpc := 1,
      masked := false, iid1 := iid1 }
  match p with
  | .MONO8I => some (mk 8 "MONO" "B" ["M"])
  | .MONO16I => some (mk 16 "MONO" "B" ["M"])
  | .RGB24I => some (mk 8 "RGB" "P" ["R", "G", "B"])
  | .MONO8LU | .RGB8LU => none

def siddWriterHdr (pixelType : String) (rows cols : Nat) (iid1 : String) : Except String ImgHdr :=
  match (SiddPixel.ofName pixelType).bind (fun p => siddHdr p rows cols iid1) with
  | some h => .ok h
  | none => .error "ValueError"

/-! ### glue: which function each method resolves to -/

def glue : List (String × String) :=
  [("NITFReader._get_dtypes body", "image_header = self.get_image_header(image_segment_index); return _get_dtype(image_header)"),
   ("NITFWriter._get_dtypes body", "image_header = self.get_image_header(image_segment_index); return _get_dtype(image_header)"),
   ("NITFReader.get_format_function body", "return _get_format_function(raw_dtype, complex_order, lut, band_dimension)"),
   ("NITFWriter.get_format_function body", "return _get_format_function(raw_dtype, complex_order, lut, band_dimension)"),
   ("NITFReader._construct_block_bounds body", "image_header = self.get_image_header(image_segment_index); return _construct_block_bounds(image_header)"),
   ("NITFWriter._construct_block_bounds body", "image_header = self.get_image_header(image_segment_index); return _construct_block_bounds(image_header)"),
   ("NITFReader.check_for_compliance body", "out = []; for index, img_header in enumerate(self.nitf_details.img_headers):     if not self._check_image_segment_for_compliance(index, img_header):         out.append(index); return tuple(out)"),
   ("NITFWriter._verify_image_segments body", "for index, entry in enumerate(self.image_managers):     if entry.item_bytes is not None:         raise ValueError('The item_bytes is populated for image segment {}.\\n\\tThis is incompatible with array-type image writing'.format(index))     subhead = entry.subheader     self._check_image_segment_for_compliance(index, subhead)")]

def glueSicd : List (String × String) :=
  [("SICDReader._get_dtypes", "NITFReader._get_dtypes"),
   ("SICDReader.get_format_function", "SICDReader.get_format_function"),
   ("SICDReader._check_image_segment_for_compliance", "SICDReader._check_image_segment_for_compliance"),
   ("SICDReader._construct_block_bounds", "NITFReader._construct_block_bounds"),
   ("SICDWriter._get_dtypes", "NITFWriter._get_dtypes"),
   ("SICDWriter.get_format_function", "SICDWriter.get_format_function"),
   ("SICDWriter._check_image_segment_for_compliance", "NITFWriter._check_image_segment_for_compliance"),
   ("SICDWriter._construct_block_bounds", "NITFWriter._construct_block_bounds")]

def glueSidd : List (String × String) :=
  [("SIDDReader._get_dtypes", "NITFReader._get_dtypes"),
   ("SIDDReader.get_format_function", "NITFReader.get_format_function"),
   ("SIDDReader._check_image_segment_for_compliance", "SIDDReader._check_image_segment_for_compliance"),
   ("SIDDReader._construct_block_bounds", "NITFReader._construct_block_bounds"),
   ("SIDDWriter._get_dtypes", "NITFWriter._get_dtypes"),
   ("SIDDWriter.get_format_function", "NITFWriter.get_format_function"),
   ("SIDDWriter._check_image_segment_for_compliance", "NITFWriter._check_image_segment_for_compliance"),
   ("SIDDWriter._construct_block_bounds", "NITFWriter._construct_block_bounds")]

/-! ### hand models: the order in which a reader / writer uses the pieces -/

/-- `create_data_segment_for_image_segment` / `_create_data_segment_from_imode_*`: an uncompressed segment of IMODE B / R / P goes to
    `_handle_no_compression` with the raw band axis 0 / 1 / 2; everything else (compressed, IMODE S) is outside this model -/
def route (h : ImgHdr) : Option Nat :=
  if ¬ h.ic ∈ ["NC", "NM"] then none
  else if h.imode = "B" then some 0 else if h.imode = "R" then some 1 else if h.imode = "P" then some 2 else none

/-- `ComplexFormatFunction.__init__` / `_set_order` on a fresh object (format_function.py): which raw dtypes the constructor accepts
    for an order; anything else raises ValueError.  (Hand model of the format function class, tied by correspondence.) -/
def complexCtorOk (raw : Option RawDtype) (order : String) : Bool :=
  match raw with
  | none => true     -- numpy.dtype(None) is float64; not reachable: an order is only announced for PVTYPE SI / R / INT
  | some d =>
    if order ∈ ["IQ", "QI"] then decide (d.name ∈ ["int8", "int16", "int32", "float16", "float32", "float64"])
    else if order ∈ ["MP", "PM"] then decide (d.name ∈ ["uint8", "uint16", "uint32", "float16", "float32", "float64"])
    else false

/-- the constructor of the selected format function accepts its arguments -/
def ctorOk : FmtFn → Bool
  | .complex raw o _ => complexCtorOk raw o
  | _ => true

/-- what is done with the stored samples of one image segment -/
structure Interp where
  raw : Option RawDtype
  /-- stored bands and the axis of the raw array that carries them -/
  rawBands : Nat
  rawBandAxis : Nat
  fmt : FmtFn
  fmtDtype : FmtDtype
  fmtBands : Nat
deriving DecidableEq, Repr

inductive Outcome where
  /-- the segment is listed as unsupported and left out -/
  | skipped
  /-- construction raises -/
  | refused (e : String)
  /-- outside the model: a compressed segment or IMODE S -/
  | other
  | reads (i : Interp)
deriving DecidableEq, Repr

/-- `_handle_no_compression` with `apply_format = True`: dtype inference, then the class's `get_format_function` with band dimension 2 -/
def interp (h : ImgHdr) (ff : Option RawDtype → Option String → Option Lut → Nat → Except String FmtFn) : Outcome :=
  match route h with
  | none => .other
  | some axis =>
    match getDtype h with
    | .error e => .refused e
    | .ok (raw, fd, fb, order, lut) =>
      match ff raw order lut 2 with
      | .error e => .refused e
      | .ok f => if ctorOk f then .reads ⟨raw, h.bands.length, axis, f, fd, fb⟩ else .refused "ValueError"

/-- SICDReader on one image segment: `check_for_compliance`, then the data segment -/
def sicdRead (pixelType : String) (ampNone pilNone : Bool) (h : ImgHdr) : Outcome :=
  match sicdReaderCompliance h pilNone pixelType with
  | .error e => .refused e
  | .ok false => .skipped
  | .ok true => interp h (fun r o l b => sicdFormatFunction r o l b pixelType ampNone)

/-- SIDDReader on one image segment -/
def siddRead (pilNone : Bool) (h : ImgHdr) : Outcome :=
  if siddReaderCompliance h pilNone = false then .skipped
  else interp h (fun r o l b => .ok (formatFunction r o l b))

/-- SICDWriter on the header it made: `_verify_image_segments`, then the data segment -/
def sicdWrite (pixelType : String) (ampNone pilNone : Bool) (h : ImgHdr) : Outcome :=
  match nitfWriterCompliance h pilNone with
  | .error e => .refused e
  | .ok () => interp h (fun r o l b => sicdFormatFunction r o l b pixelType ampNone)

def siddWrite (pilNone : Bool) (h : ImgHdr) : Outcome :=
  match nitfWriterCompliance h pilNone with
  | .error e => .refused e
  | .ok () => interp h (fun r o l b => .ok (formatFunction r o l b))

end Sarpy.Spec.Hdr
