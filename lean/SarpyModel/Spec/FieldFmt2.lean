/-
  Spec.FieldFmt2 — an extended format-description language for NITF headers, on top of `Spec.FieldFmt`
  (decimal / text leaf codecs are reused from there).  Besides fixed-width fields, records and loops it has
    (a) conditional parts whose presence is a decidable function of the values of EARLIER fields,
    (b) length-prefixed byte areas (`blob w k`: the user-header areas UDHDL/UDHOFL/UDHD, UDIDL/UDOFL/UDID,
        IXSHDL/IXSOFL/IXSHD, XHDL/XHDLOFL/XHD with k = 3; DESSHL / RESSHL areas with k = 0),
    (c) counts and byte lengths computed from earlier fields (`Expr`: NLUTS*NELUT, band_depth*blocks,
        ceil(TPXCDLNTH/8), the NBANDS/XBANDS escape),
    (d) big-endian unsigned binary integers of any width (1/2/4 bytes used),
    (e) nesting (a record is a field; loop items are records; conditional parts may be records),
    (f) [TRE extension] text fields of COMPUTED width whose stored value is stripped on BOTH sides (`tstr`: the `'s'` fields of
        tres/tre_elements.py - `bytes.decode().strip()` / `f'{v:{w}s}'`), counts and lengths that subtract / divide
        (`NPLN - 1`, `(NPART+1)*NPART/2`, `len(value) - consumed`), numeric readings of text and byte fields (`int(self.X)` on a
        text or bytes field: `Expr.dec`; `struct.unpack('>I', ..)` / `int.from_bytes(.., 'big')`: `Expr.be`), and conditions on
        single bits of a big-endian byte field (`existence_mask & 0x..`: `Cond.bit`) or on a decimal reading (`Cond.posDec`).
  One encoder `enc`, one decoder `dec` (lenient, or strict = accepts exactly the conformant byte strings),
  one length function `len`, one acceptance predicate `acc`; all total, structurally recursive, executable.

  Values are S-expressions (`Val`): a record is a nil-terminated `cons` list of its field values, a loop is a
  nil-terminated `cons` list of its items, an absent conditional part is `Val.none`.

  How the two directions see the conditions (this is why well-formedness matters):
    * the ENCODER, the length function and the acceptance predicate evaluate a condition in the environment of the
      WHOLE record being written (all its fields, the later ones too) — as sarpy's `_get_attribute_length` /
      `_get_attribute_bytes` look at the state of the whole object;
    * the DECODER evaluates the same condition in the environment of the fields decoded SO FAR — as
      `_parse_attribute` looks at the `fields` dictionary.
  `wf f scope` (decidable) says: field names are not re-used inside their scope and every condition / computed
  length refers only to names bound earlier (or to parameters in `scope`).  Under `wf` both views agree
  (Props/C13x.lean); without it the round trip is really lost (negative example there).

  Code anchors (sarpy/io/general/nitf_elements):
    int / str / raw          base.py `_get_bytes`, `_parse_int`, `_parse_str`, `_parse_bytes` (via Spec.FieldFmt)
    bin                      `struct.pack('>I' | '>H' | 'B')` / `struct.unpack` (base.py:560-561, 615-622; image.py MaskSubheader)
    blob w 3                 base.py `UserHeaderType._get_attribute_bytes/_get_attribute_length/_parse_attribute`
    blob w 0                 base.py `Unstructured.*` (des.py DESUserHeader, res.py RESUserHeader: `_size_len = 4`)
    seq                      base.py `NITFElement.to_bytes/from_bytes/get_bytes_length` over `_ordering`
    cond                     the `_get_attribute_length` / `_parse_attribute` overrides (image.py, des.py, security.py)
    loop                     base.py `NITFLoop`, `_ItemArrayHeaders`; image.py `ImageBand` LUTD, `MaskSubheader` BMR/TMR
    tstr / Expr.sub,div,dec,be / Cond.bit,posDec
                             tres/tre_elements.py `_parse_type`, `_create_encoder`, `TREElement.add_field/add_loop`, `TRELoop` and the
                             `__init__` bodies of tres/unclass/*.py (translated by translate/tables_tre.py)
-/
import SarpyModel.Spec.FieldFmt
namespace Sarpy.Spec.FieldFmt2
open Sarpy.Spec.FieldFmt

abbrev Name := Nat

/-- decoded values -/
inductive Val where
  | int (v : Int)          -- decimal integer field
  | str (s : Bytes)        -- text field (stored without trailing blanks, as `_parse_str` does)
  | raw (s : Bytes)        -- bytes
  | nat (n : Nat)          -- binary unsigned integer
  | none                   -- absent conditional part / empty blob
  | nil                    -- end of a record / of a loop
  | cons (hd tl : Val)     -- next field value / next loop item
deriving Repr, DecidableEq, Inhabited

abbrev Env := List (Name × Val)

def lookup : Env → Name → Option Val
  | [], _ => Option.none
  | (k, v) :: t, x => if k = x then some v else lookup t x

/-- numeric reading of a bound value (decimal or binary integer field; anything else counts as 0) -/
def natOf : Option Val → Nat
  | some (.int v) => v.toNat
  | some (.nat n) => n
  | _ => 0

def lstrip (bs : Bytes) : Bytes := bs.dropWhile isSpace

/-- Python `str.strip()` on ASCII text -/
def strip (bs : Bytes) : Bytes := lstrip (rstrip bs)

/-- big-endian reading of a byte string (defined here because conditions on mask bits need it) -/
def decBin (bs : Bytes) : Nat := bs.foldl (fun a b => 256 * a + b) 0

/-- decimal reading of a text / bytes value made of ASCII digits (`int(self.X)` on an `'s'` or `'b'` field); anything that is not a
    digit string counts as 0 (Python raises there: such payloads are refused, see the harness) -/
def decOf : Option Val → Nat
  | some (.str s) => (fromDigits s).getD 0
  | some (.raw s) => (fromDigits s).getD 0
  | v => natOf v

/-- big-endian reading of a bytes value (`struct.unpack('>I', x)[0]`, `int.from_bytes(x, 'big')`) -/
def beOf : Option Val → Nat
  | some (.raw s) => decBin s
  | v => natOf v

/-- conditions on earlier fields -/
inductive Cond where
  | strIn (x : Name) (strip : Bool) (consts : List Bytes)   -- text value of x (leading blanks removed if `strip`) is one of consts
  | pos (x : Name)                                          -- numeric value of x is > 0
  | posDec (x : Name)                                       -- decimal reading of the text / bytes value of x is > 0
  | bit (x : Name) (mask : Nat)                             -- big-endian reading of the bytes value of x has a bit of mask set
  | not (c : Cond)
  | and (a b : Cond)
deriving Repr, DecidableEq, Inhabited

def Cond.eval : Cond → Env → Bool
  | .strIn x strip cs, env =>
    match lookup env x with
    | some (.str s) => cs.contains (if strip then lstrip s else s)
    | _ => false
  | .pos x, env => decide (0 < natOf (lookup env x))
  | .posDec x, env => decide (0 < decOf (lookup env x))
  | .bit x mask, env => decide (0 < (beOf (lookup env x)) &&& mask)
  | .not c, env => !(c.eval env)
  | .and a b, env => a.eval env && b.eval env

def Cond.vars : Cond → List Name
  | .strIn x _ _ => [x]
  | .pos x => [x]
  | .posDec x => [x]
  | .bit x _ => [x]
  | .not c => c.vars
  | .and a b => a.vars ++ b.vars

/-- counts and byte lengths computed from earlier fields -/
inductive Expr where
  | lit (n : Nat)
  | var (x : Name)
  | mul (a b : Expr)
  | add (a b : Expr)
  | ceilDiv (a : Expr) (d : Nat)          -- ceil(a / d)   (TPXCD: ceil(TPXCDLNTH / 8))
  | sub (a b : Expr)                      -- max(a - b, 0): `range(n - 1)` is empty for n = 0
  | div (a : Expr) (d : Nat)              -- floor(a / d)  (RSMDCA: (NPART+1)*NPART/2)
  | dec (x : Name)                        -- decimal reading of a text / bytes field
  | be (x : Name)                         -- big-endian reading of a bytes field
  | ite (c : Cond) (a b : Expr)           -- the NBANDS / XBANDS escape
deriving Repr, DecidableEq, Inhabited

def Expr.eval : Expr → Env → Nat
  | .lit n, _ => n
  | .var x, env => natOf (lookup env x)
  | .mul a b, env => a.eval env * b.eval env
  | .add a b, env => a.eval env + b.eval env
  | .ceilDiv a d, env => (a.eval env + (d - 1)) / d
  | .sub a b, env => a.eval env - b.eval env
  | .div a d, env => a.eval env / d
  | .dec x, env => decOf (lookup env x)
  | .be x, env => beOf (lookup env x)
  | .ite c a b, env => if c.eval env then a.eval env else b.eval env

def Expr.vars : Expr → List Name
  | .lit _ => []
  | .var x => [x]
  | .mul a b => a.vars ++ b.vars
  | .add a b => a.vars ++ b.vars
  | .ceilDiv a _ => a.vars
  | .sub a b => a.vars ++ b.vars
  | .div a _ => a.vars
  | .dec x => [x]
  | .be x => [x]
  | .ite c a b => c.vars ++ (a.vars ++ b.vars)

/-- format descriptions -/
inductive Fmt where
  | int (w : Nat)                         -- decimal integer, w characters
  | str (w : Nat)                         -- text, w characters, blank padded
  | tstr (n : Expr)                       -- TRE text: n characters (computed), blank padded, stored stripped on both sides
  | raw (n : Expr)                        -- n bytes, n computed from earlier fields (constant: `.lit`)
  | bin (w : Nat)                         -- big-endian unsigned integer, w bytes
  | blob (w k : Nat)                      -- w-digit length L; if L > 0: k-digit overflow field and L - k data bytes
  | unit                                  -- empty record / end of record
  | seq (x : Name) (hd tl : Fmt)          -- field x with format hd (its own scope), then the rest tl, which sees x
  | cond (c : Cond) (f : Fmt)             -- f present iff c
  | loop (n : Expr) (item : Fmt)          -- n items, n computed from earlier fields
deriving Repr, DecidableEq, Inhabited

/-- the (name, value) pairs of a record, in field order -/
def bindings : Fmt → Val → Env
  | .seq x _ tl, .cons v vs => (x, v) :: bindings tl vs
  | _, _ => []

/-- names bound by the fields of a record -/
def chainNames : Fmt → List Name
  | .seq x _ tl => x :: chainNames tl
  | _ => []

/-! ### binary integers -/

def encBin : Nat → Nat → Bytes
  | 0, _ => []
  | w + 1, n => encBin w (n / 256) ++ [n % 256]

/-! ### TRE text fields -/

/-- ASCII text without leading or trailing blanks, no longer than the field -/
def acceptTStr (w : Nat) (s : Bytes) : Bool := acceptStr w s && (lstrip s == s)

/-! ### length-prefixed areas -/

def accBlob (w k : Nat) : Val → Bool
  | .none => true
  | .cons (.int ofl) (.raw d) =>
    decide (0 < d.length + k) && acceptInt w (d.length + k : Nat) && decide (0 ≤ ofl) && acceptInt k ofl
  | _ => false

def encBlob (w k : Nat) : Val → Bytes
  | .cons (.int ofl) (.raw d) => encInt w (d.length + k : Nat) ++ (encInt k ofl ++ d)
  | _ => encInt w 0

def lenBlob (w k : Nat) : Val → Nat
  | .cons _ (.raw d) => w + (k + d.length)
  | _ => w

/-- in strict mode a decoded leaf is kept only if it is accepted and re-encodes to the bytes it was read from -/
def chk (strict ok : Bool) (r : Option (Val × Bytes)) : Option (Val × Bytes) :=
  if strict && !ok then Option.none else r

def decBlob (strict : Bool) (w k : Nat) (bs : Bytes) : Option (Val × Bytes) :=
  if bs.length < w then Option.none else
  match decInt (bs.take w) with
  | some (Int.ofNat l) =>
    let r := bs.drop w
    if l = 0 then chk strict (encInt w 0 == bs.take w) (some (.none, r))
    else if l < k then Option.none
    else if r.length < l then Option.none
    else match decInt (r.take k) with
      | some ofl =>
        let v := Val.cons (.int ofl) (.raw ((r.take l).drop k))
        chk strict (accBlob w k v && encBlob w k v == bs.take (w + l)) (some (v, r.drop l))
      | Option.none => Option.none
  | _ => Option.none

/-! ### loops over `Val` lists -/

def encItems (g : Val → Bytes) : Val → Bytes
  | .cons x xs => g x ++ encItems g xs
  | _ => []

def accItems (p : Val → Bool) : Val → Bool
  | .nil => true
  | .cons x xs => p x && accItems p xs
  | _ => false

def lenItems (g : Val → Nat) : Val → Nat
  | .cons x xs => g x + lenItems g xs
  | _ => 0

def count : Val → Nat
  | .cons _ xs => count xs + 1
  | _ => 0

def decItems (d : Bytes → Option (Val × Bytes)) : Nat → Bytes → Option (Val × Bytes)
  | 0, bs => some (.nil, bs)
  | n + 1, bs =>
    match d bs with
    | Option.none => Option.none
    | some (x, r) =>
      match decItems d n r with
      | Option.none => Option.none
      | some (xs, r') => some (.cons x xs, r')

/-! ### the four semantic functions -/

/-- which values are accepted (rendered without truncation, conditional parts consistent with the conditions) -/
def acc : Fmt → Env → Val → Bool
  | .int w, _, .int v => acceptInt w v
  | .str w, _, .str s => acceptStr w s
  | .tstr e, env, .str s => acceptTStr (e.eval env) s
  | .raw e, env, .raw s => decide (s.length = e.eval env)
  | .bin w, _, .nat n => decide (n < 256 ^ w)
  | .blob w k, _, v => accBlob w k v
  | .unit, _, .nil => true
  | .seq _ hd tl, env, .cons v vs => acc hd (bindings hd v ++ env) v && acc tl env vs
  | .cond c f, env, v => if c.eval env then acc f (bindings f v ++ env) v else decide (v = .none)
  | .loop e item, env, vs =>
    decide (count vs = e.eval env) && accItems (fun x => acc item (bindings item x ++ env) x) vs
  | _, _, _ => false

def enc : Fmt → Env → Val → Bytes
  | .int w, _, .int v => encInt w v
  | .str w, _, .str s => encStr w s
  | .tstr e, env, .str s => encStr (e.eval env) s
  | .raw _, _, .raw s => s
  | .bin w, _, .nat n => encBin w n
  | .blob w k, _, v => encBlob w k v
  | .seq _ hd tl, env, .cons v vs => enc hd (bindings hd v ++ env) v ++ enc tl env vs
  | .cond c f, env, v => if c.eval env then enc f (bindings f v ++ env) v else []
  | .loop _ item, env, vs => encItems (fun x => enc item (bindings item x ++ env) x) vs
  | _, _, _ => []

def len : Fmt → Env → Val → Nat
  | .int w, _, _ => w
  | .str w, _, _ => w
  | .tstr e, env, _ => e.eval env
  | .raw e, env, _ => e.eval env
  | .bin w, _, _ => w
  | .blob w k, _, v => lenBlob w k v
  | .unit, _, _ => 0
  | .seq _ hd tl, env, .cons v vs => len hd (bindings hd v ++ env) v + len tl env vs
  | .seq _ _ _, _, _ => 0
  | .cond c f, env, v => if c.eval env then len f (bindings f v ++ env) v else 0
  | .loop _ item, env, vs => lenItems (fun x => len item (bindings item x ++ env) x) vs

def dec (strict : Bool) : Fmt → Env → Bytes → Option (Val × Bytes)
  | .int w, _, bs =>
    if bs.length < w then Option.none else
    match decInt (bs.take w) with
    | Option.none => Option.none
    | some v => chk strict (acceptInt w v && encInt w v == bs.take w) (some (.int v, bs.drop w))
  | .str w, _, bs =>
    if bs.length < w then Option.none else
    chk strict (acceptStr w (decStr (bs.take w)) && encStr w (decStr (bs.take w)) == bs.take w)
      (some (.str (decStr (bs.take w)), bs.drop w))
  | .tstr e, env, bs =>
    if bs.length < e.eval env then Option.none else
    chk strict (acceptTStr (e.eval env) (strip (bs.take (e.eval env))) &&
        encStr (e.eval env) (strip (bs.take (e.eval env))) == bs.take (e.eval env))
      (some (.str (strip (bs.take (e.eval env))), bs.drop (e.eval env)))
  | .raw e, env, bs =>
    if bs.length < e.eval env then Option.none else some (.raw (bs.take (e.eval env)), bs.drop (e.eval env))
  | .bin w, _, bs =>
    if bs.length < w then Option.none else
    chk strict (decide (decBin (bs.take w) < 256 ^ w) && encBin w (decBin (bs.take w)) == bs.take w)
      (some (.nat (decBin (bs.take w)), bs.drop w))
  | .blob w k, _, bs => decBlob strict w k bs
  | .unit, _, bs => some (.nil, bs)
  | .seq x hd tl, env, bs =>
    match dec strict hd env bs with
    | Option.none => Option.none
    | some (v, r) =>
      match dec strict tl ((x, v) :: env) r with
      | Option.none => Option.none
      | some (vs, r') => some (.cons v vs, r')
  | .cond c f, env, bs => if c.eval env then dec strict f env bs else some (.none, bs)
  | .loop e item, env, bs => decItems (fun b => dec strict item env b) (e.eval env) bs

/-- well-formedness: names are fresh in their scope; conditions and computed lengths see earlier names only -/
def wf : Fmt → List Name → Bool
  | .raw e, sc => e.vars.all (fun x => sc.contains x)
  | .tstr e, sc => e.vars.all (fun x => sc.contains x)
  | .seq x hd tl, sc => !(sc.contains x) && wf hd sc && wf tl (x :: sc)
  | .cond c f, sc => c.vars.all (fun x => sc.contains x) && wf f sc
  | .loop e item, sc => e.vars.all (fun x => sc.contains x) && wf item sc
  | _, _ => true

/-! ### top level: a description `f` whose free names are the parameters bound by `env0` -/

def encode (env0 : Env) (f : Fmt) (v : Val) : Bytes := enc f (bindings f v ++ env0) v
def accept (env0 : Env) (f : Fmt) (v : Val) : Bool := acc f (bindings f v ++ env0) v
def length (env0 : Env) (f : Fmt) (v : Val) : Nat := len f (bindings f v ++ env0) v
def decode (env0 : Env) (f : Fmt) (bs : Bytes) : Option (Val × Bytes) := dec false f env0 bs
def decodeStrict (env0 : Env) (f : Fmt) (bs : Bytes) : Option (Val × Bytes) := dec true f env0 bs
/-- standard-conformant bytes: the strict decoder accepts them (decidable on the bytes alone) -/
def conformant (env0 : Env) (f : Fmt) (bs : Bytes) : Bool := (decodeStrict env0 f bs).isSome
def wellFormed (f : Fmt) (params : List Name) : Bool := wf f params

/-! ### sequences of self-delimiting items filling a byte area exactly (the TRE list inside a user header) -/

def decMany (d : Bytes → Option (Val × Bytes)) : Nat → Bytes → Option Val
  | _, [] => some .nil
  | 0, _ :: _ => Option.none
  | fuel + 1, b :: bs =>
    match d (b :: bs) with
    | Option.none => Option.none
    | some (x, r) =>
      match decMany d fuel r with
      | Option.none => Option.none
      | some xs => some (.cons x xs)

/-- decode items until the area is used up -/
def decodeAll (env0 : Env) (f : Fmt) (bs : Bytes) : Option Val := decMany (decode env0 f) bs.length bs
def encodeAll (env0 : Env) (f : Fmt) (vs : Val) : Bytes := encItems (encode env0 f) vs

end Sarpy.Spec.FieldFmt2
