/-
  Spec.CphdLayout — the block layout of a CPHD / CRSD file as `make_file_header` computes it.
  Import-free.

  Code anchors: sarpy/io/phase_history/cphd1_elements/CPHD.py `make_file_header` (and the CRSD twin in
  sarpy/io/received/crsd1_elements/CRSD.py): `_align`, the chain XML -> [SUPPORT] -> PVP -> SIGNAL, the retry with a
  larger XML offset when the header text does not fit; per-element offsets in cphd.py `CPHDWritingDetails`.
-/
namespace Sarpy.Spec.CphdLayout

/-- `_align`: round up to a multiple of 64 -/
def align (v : Nat) : Nat := (v + 63) / 64 * 64

structure Blocks where
  xmlOff : Nat
  xmlSize : Nat
  supp : Option (Nat × Nat)      -- (offset, size)
  pvpOff : Nat
  pvpSize : Nat
  sigOff : Nat
  sigSize : Nat
deriving Repr, DecidableEq

/-- the chain of `make_file_header` for a given XML offset (terminator = 2 bytes `\f\n`) -/
def layout (xmlOff xmlSize : Nat) (suppSize : Option Nat) (pvpSize sigSize : Nat) : Blocks :=
  let e0 := xmlOff + xmlSize + 2
  match suppSize with
  | some s =>
    let so := align e0
    let po := align (so + s)
    { xmlOff, xmlSize, supp := some (so, s), pvpOff := po, pvpSize, sigOff := align (po + pvpSize), sigSize }
  | none =>
    let po := align e0
    { xmlOff, xmlSize, supp := none, pvpOff := po, pvpSize, sigOff := align (po + pvpSize), sigSize }

def fileEnd (b : Blocks) : Nat := b.sigOff + b.sigSize

/-- the retry rule: `hdrLen` gives the length of the header text for a candidate layout; the XML offset grows
    until header text + terminator fit in front of it (fuel bounds the recursion the Python does unboundedly) -/
def choose (hdrLen : Blocks → Nat) (xmlSize : Nat) (suppSize : Option Nat) (pvpSize sigSize : Nat) : Nat → Nat → Option Blocks
  | 0, _ => none
  | fuel + 1, xmlOff =>
    let b := layout xmlOff xmlSize suppSize pvpSize sigSize
    if xmlOff < hdrLen b + 2 then choose hdrLen xmlSize suppSize pvpSize sigSize fuel (align (hdrLen b + 2 + 32)) else some b

/-- the decision `make_file_header` takes once the header text (`hdrBytes` bytes) is rendered: `none` = the XML offset is large
    enough, `some xo` = call again with XML offset `xo` (CPHD.py: `min_xml_offset = len(header_str.encode()) + 2`,
    `if xml_offset < min_xml_offset: ... _align(min_xml_offset + 32)`); `choose` is the recursion over this decision
    (`Props.C09.choose_succ`) -/
def retryOffset (xmlOff hdrBytes : Nat) : Option Nat :=
  if xmlOff < hdrBytes + 2 then some (align (hdrBytes + 2 + 32)) else none

/-- the integer header attributes of a layout, in the order of `_fields` (absent SUPPORT entries are `None`) -/
def headerInts (b : Blocks) : Option Nat × Option Nat × Option Nat × Option Nat × Option Nat × Option Nat × Option Nat × Option Nat :=
  (some b.xmlSize, some b.xmlOff, b.supp.map (·.2), b.supp.map (·.1), some b.pvpSize, some b.pvpOff, some b.sigSize, some b.sigOff)

/-- per-element byte ranges inside a block, from the metadata's relative offsets and sizes -/
def elementRanges (blockOff : Nat) (rel : List (Nat × Nat)) : List (Nat × Nat) :=
  rel.map (fun r => (blockOff + r.1, blockOff + r.1 + r.2))

/-- metadata is self-consistent when the relative offsets are the running sums of the sizes -/
def Packed : Nat → List (Nat × Nat) → Prop
  | _, [] => True
  | start, (off, size) :: rest => off = start ∧ Packed (start + size) rest

end Sarpy.Spec.CphdLayout
