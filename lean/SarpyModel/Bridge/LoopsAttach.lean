/-
  Bridge: the reader's location loop regenerated from /repo (`Gen.L.collection_locations` in Gen/LoopsAttach.lean; translate/gen_loops.py,
  group attach): the `loc` loop of `_get_collection_element_coordinate_limits` (sarpy/io/general/nitf.py) - a dict from display level to
  location, `loc[IDLVL] = loc[IALVL] + ILOC`, one row of `block_definition` per header.  numpy vectors and the dict are translated with
  VALUE semantics; the translator refuses every in-place update of such a variable (`origin += ...` would mutate the array all its
  aliases share), so a change of that kind fails closed.  The ordering by display level, the two validity checks and the final
  renormalisation are the hand model `Spec.L.collectionLimits` (tied by correspondence with the whole function).

    gen_attach_body / gen_attach_loop / gen_collection_locations   regenerated body = placeStep when the attached level is known; the loop = decodeTree
    gen_collection_locations_checked    headers in increasing display-level order that pass the function's checks never raise KeyError
    decodeTree_encodeTree               ANY attachment tree (distinct display levels, every tile attached to an earlier one: chain, star,
                                        2 x 2 grid, mixed; arbitrary locations and sizes) decodes to exactly the tiles it encodes
    gen_decode_encodeTree               the same for the regenerated loop (and no KeyError)
    decodeTree_chain                    the chain (SICD / SIDD writers) is the special case par k = k - 1
    normalizeBoxes_id                   tiles starting at row 0 / column 0 in the non-negative quadrant are left alone by the renormalisation
-/
import SarpyModel.Gen.LoopsAttach
import SarpyModel.Spec.Loops
import SarpyModel.Proofs.PyLoops
import Mathlib.Tactic.Ring
import Mathlib.Tactic.Linarith

namespace Sarpy.Bridge.LA
open Sarpy Sarpy.Spec Sarpy.Spec.L Sarpy.Proofs.PyLoops

def dictKeys (d : PyDict2) : List Int := d.map (fun e => e.1)

theorem dictGet_of_mem (d : PyDict2) (k : Int) (h : k ∈ dictKeys d) : dictGet d k = .ok (dictGetD d k) := by
  induction d with
  | nil => simp [dictKeys] at h
  | cons e rest ih =>
    obtain ⟨k', v⟩ := e
    by_cases hk : k' = k
    · simp [dictGet, dictGetD, hk, pure, Except.pure]
    · have : k ∈ dictKeys rest := by
        simp only [dictKeys, List.map_cons, List.mem_cons] at h
        rcases h with h | h
        · exact absurd h.symm hk
        · exact h
      simp [dictGet, dictGetD, hk, ih this]

/-- regenerated loop body = `placeStep` whenever the display level the header is attached to is known -/
theorem gen_attach_body (i : Int) (h : Hdr6) (bd : List Box) (loc : PyDict2) (hk : h.ialvl ∈ dictKeys loc) :
    Gen.L.collection_locations_loop1_body i h bd loc = .ok (placeStep (bd, loc) h) := by
  have h1 := dictGet_of_mem loc h.ialvl hk
  have h2 : ∀ v, dictGet (dictSet loc h.1 v) h.1 = .ok v := by intro v; simp [dictGet, dictSet, pure, Except.pure]
  unfold Gen.L.collection_locations_loop1_body placeStep
  simp only [Hdr6.ialvl] at h1
  simp only [h1, h2, bind, Except.bind, pure, Except.pure, Hdr6.ialvl, Hdr6.idlvl, Hdr6.iloc, Hdr6.nrows, Hdr6.ncols, boxAt]

theorem gen_attach_loop (hs : List Hdr6) (i : Int) (bd : List Box) (loc : PyDict2) (ha : Attached (dictKeys loc) hs) :
    forEnum (fun (i : Int) (x : Hdr6) (st : List Box × PyDict2) => Gen.L.collection_locations_loop1_body i x st.1 st.2) hs i (bd, loc)
      = .ok (hs.foldl placeStep (bd, loc)) := by
  induction hs generalizing i bd loc with
  | nil => rfl
  | cons h rest ih =>
    obtain ⟨h1, h2⟩ := ha
    simp only [forEnum, gen_attach_body i h bd loc h1, bind, Except.bind, List.foldl_cons]
    exact ih (i + 1) _ _ (by simpa [placeStep, dictKeys, dictSet] using h2)

/-- **the reader's location loop, regenerated**: for a non-empty list of headers in which every header is attached to the origin (the
    item the first header is attached to) or to an earlier header, the regenerated loop computes `decodeTree` -/
theorem gen_collection_locations (h0 : Hdr6) (rest : List Hdr6) (ha : Attached [h0.ialvl] (h0 :: rest)) :
    Gen.L.collection_locations (h0 :: rest) = .ok (decodeTree (h0 :: rest)) := by
  unfold Gen.L.collection_locations decodeTree
  have hp : pyIndex (h0 :: rest) (0 : Int) = .ok h0 := pyIndex_ok _ 0 h0 (by omega) (by simp)
  have hl := gen_attach_loop (h0 :: rest) 0 [] [(h0.ialvl, (0, 0))] (by simpa [dictKeys] using ha)
  simp only [Hdr6.ialvl] at hl
  simp only [hp, hl, bind, Except.bind, pure, Except.pure, Hdr6.ialvl]


/-! ### any attachment tree decodes to the tiles it encodes (Spec level) -/

/-- the dictionary after `m` tiles: most recent first, the origin last -/
def locAfter (a0 : Int) (lvl : Nat → Int) (pos : Nat → NpVec2) (m : Nat) : PyDict2 :=
  ((List.range m).map (fun j => (lvl j, pos j))).reverse ++ [(a0, (0, 0))]

theorem locAfter_succ (a0 : Int) (lvl : Nat → Int) (pos : Nat → NpVec2) (m : Nat) :
    locAfter a0 lvl pos (m + 1) = (lvl m, pos m) :: locAfter a0 lvl pos m := by
  simp [locAfter, List.range_succ]

/-- with distinct display levels the most recent binding of `lvl j` is tile `j`'s own -/
theorem locAfter_get (a0 : Int) (lvl : Nat → Int) (pos : Nat → NpVec2) (m j : Nat) (hj : j < m)
    (hinj : ∀ a b, a < m → b < m → lvl a = lvl b → a = b) :
    dictGetD (locAfter a0 lvl pos m) (lvl j) = pos j := by
  induction m with
  | zero => omega
  | succ m ih =>
    rw [locAfter_succ]
    by_cases h : lvl m = lvl j
    · have : m = j := hinj m j (by omega) hj h
      subst this
      simp [dictGetD]
    · have hjm : j < m := by
        rcases Nat.lt_succ_iff_lt_or_eq.1 hj with h' | h'
        · exact h'
        · subst h'; exact absurd rfl h
      simp only [dictGetD, h, if_false]
      exact ih hjm (fun a b ha hb => hinj a b (by omega) (by omega))

theorem locAfter_origin (a0 : Int) (lvl : Nat → Int) (pos : Nat → NpVec2) : dictGetD (locAfter a0 lvl pos 0) a0 = (0, 0) := by
  simp [locAfter, dictGetD]

theorem decodeTree_state (a0 : Int) (lvl : Nat → Int) (par : Nat → Nat) (pos size : Nat → NpVec2) (n : Nat)
    (hpar : ∀ k, 0 < k → k < n → par k < k) (hinj : ∀ a b, a < n → b < n → lvl a = lvl b → a = b) (m : Nat) (hm : m ≤ n) :
    ((List.range m).map (encHdr a0 lvl par pos size)).foldl placeStep ([], locAfter a0 lvl pos 0) =
      ((List.range m).map (fun k => boxAt (pos k) (size k).1 (size k).2), locAfter a0 lvl pos m) := by
  induction m with
  | zero => rfl
  | succ m ih =>
    rw [List.range_succ, List.map_append, List.foldl_append, ih (by omega)]
    simp only [List.map_cons, List.map_nil, List.foldl_cons, List.foldl_nil, List.map_append, locAfter_succ]
    by_cases h0 : m = 0
    · subst h0
      simp [placeStep, encHdr, Hdr6.ialvl, Hdr6.iloc, Hdr6.nrows, Hdr6.ncols, Hdr6.idlvl, npAdd2, dictSet, locAfter, dictGetD]
    · have hp := hpar m (by omega) (by omega)
      have hg := locAfter_get a0 lvl pos m (par m) hp (fun a b ha hb => hinj a b (by omega) (by omega))
      simp only [placeStep, encHdr, h0, if_false, Hdr6.ialvl, Hdr6.iloc, Hdr6.nrows, Hdr6.ncols, Hdr6.idlvl, hg, npAdd2, dictSet]
      have e1 : (pos (par m)).1 + ((pos m).1 - (pos (par m)).1) = (pos m).1 := by ring
      have e2 : (pos (par m)).2 + ((pos m).2 - (pos (par m)).2) = (pos m).2 := by ring
      simp only [e1, e2, Prod.mk.eta]

/-- **any attachment tree**: `n` tiles at arbitrary absolute locations with arbitrary sizes and pairwise distinct display levels, tile 0
    attached to an item outside the collection, every other tile attached to ANY earlier tile (chain, star, 2 x 2 grid, mixed), ILOC =
    own location minus the parent's: the location loop returns exactly the tiles -/
theorem decodeTree_encodeTree (a0 : Int) (lvl : Nat → Int) (par : Nat → Nat) (pos size : Nat → NpVec2) (n : Nat)
    (hpar : ∀ k, 0 < k → k < n → par k < k) (hinj : ∀ a b, a < n → b < n → lvl a = lvl b → a = b) :
    decodeTree (encodeTree a0 lvl par pos size n) = (List.range n).map (fun k => boxAt (pos k) (size k).1 (size k).2) := by
  cases n with
  | zero => rfl
  | succ n =>
    have hs := decodeTree_state a0 lvl par pos size (n + 1) hpar hinj (n + 1) (Nat.le_refl _)
    have hhead : ∃ rest, encodeTree a0 lvl par pos size (n + 1) = encHdr a0 lvl par pos size 0 :: rest := by
      refine ⟨(List.range n).map (fun k => encHdr a0 lvl par pos size (k + 1)), ?_⟩
      simp [encodeTree, List.range_succ_eq_map, List.map_map, Function.comp_def]
    obtain ⟨rest, hr⟩ := hhead
    have h0 : (encHdr a0 lvl par pos size 0).ialvl = a0 := by simp [encHdr, Hdr6.ialvl]
    unfold decodeTree
    rw [hr]
    simp only [h0]
    rw [← hr]
    have : ([(a0, ((0 : Int), (0 : Int)))] : PyDict2) = locAfter a0 lvl pos 0 := by simp [locAfter]
    rw [this]
    unfold encodeTree
    rw [hs]


theorem locAfter_keys (a0 : Int) (lvl : Nat → Int) (pos : Nat → NpVec2) (m j : Nat) (hj : j < m) :
    lvl j ∈ dictKeys (locAfter a0 lvl pos m) := by
  induction m with
  | zero => omega
  | succ m ih =>
    rw [locAfter_succ]
    simp only [dictKeys, List.map_cons, List.mem_cons]
    rcases Nat.lt_succ_iff_lt_or_eq.1 hj with h | h
    · exact Or.inr (ih h)
    · subst h; exact Or.inl rfl

theorem encodeTree_attached_from (a0 : Int) (lvl : Nat → Int) (par : Nat → Nat) (pos size : Nat → NpVec2)
    (hpar : ∀ k, 0 < k → par k < k) (len s : Nat) :
    Attached (dictKeys (locAfter a0 lvl pos s)) ((List.range' s len).map (encHdr a0 lvl par pos size)) := by
  induction len generalizing s with
  | zero => trivial
  | succ len ih =>
    simp only [List.range'_succ, List.map_cons, Attached]
    refine ⟨?_, ?_⟩
    · by_cases h0 : s = 0
      · subst h0; simp [encHdr, Hdr6.ialvl, locAfter, dictKeys]
      · simp only [encHdr, h0, if_false, Hdr6.ialvl]
        exact locAfter_keys a0 lvl pos s (par s) (hpar s (by omega))
    · have e : (encHdr a0 lvl par pos size s).idlvl = lvl s := by
        by_cases h0 : s = 0 <;> simp [encHdr, Hdr6.idlvl, h0]
      have := ih (s + 1)
      rw [locAfter_succ] at this
      simpa [dictKeys, e] using this

/-- **writer -> reader for the regenerated loop, any attachment tree**: the regenerated `loc` loop applied to the headers of any tree of
    tiles (distinct display levels, every tile but the first attached to an earlier one) ends without KeyError and returns the tiles -/
theorem gen_decode_encodeTree (a0 : Int) (lvl : Nat → Int) (par : Nat → Nat) (pos size : Nat → NpVec2) (n : Nat)
    (hpar : ∀ k, 0 < k → par k < k) (hinj : ∀ a b, a < n + 1 → b < n + 1 → lvl a = lvl b → a = b) :
    Gen.L.collection_locations (encodeTree a0 lvl par pos size (n + 1)) =
      .ok ((List.range (n + 1)).map (fun k => boxAt (pos k) (size k).1 (size k).2)) := by
  have hd := decodeTree_encodeTree a0 lvl par pos size (n + 1) (fun k h _ => hpar k h) hinj
  have ha := encodeTree_attached_from a0 lvl par pos size hpar (n + 1) 0
  rw [← List.range_eq_range'] at ha
  have hr : encodeTree a0 lvl par pos size (n + 1) =
      encHdr a0 lvl par pos size 0 :: (List.range n).map (fun k => encHdr a0 lvl par pos size (k + 1)) := by
    simp [encodeTree, List.range_succ_eq_map, List.map_map, Function.comp_def]
  have h0 : (encHdr a0 lvl par pos size 0).ialvl = a0 := by simp [encHdr, Hdr6.ialvl]
  rw [← hd, hr]
  apply gen_collection_locations
  rw [h0, ← hr]
  simpa [locAfter, dictKeys, encodeTree] using ha

/-- the chain (every segment attached to the one before it - what the SICD / SIDD writers produce) is the special case `par k = k - 1` -/
theorem decodeTree_chain (a0 : Int) (lvl : Nat → Int) (pos size : Nat → NpVec2) (n : Nat)
    (hinj : ∀ a b, a < n → b < n → lvl a = lvl b → a = b) :
    decodeTree (encodeTree a0 lvl (fun k => k - 1) pos size n) = (List.range n).map (fun k => boxAt (pos k) (size k).1 (size k).2) :=
  decodeTree_encodeTree a0 lvl (fun k => k - 1) pos size n (fun k h _ => by omega) hinj

/-! after the function's own checks the loop never meets an unknown display level -/

theorem attached_of_checked (pre rest : List Hdr6) (keys : List Int)
    (hk : ∀ h ∈ pre, h.idlvl ∈ keys)
    (hs : List.Pairwise (fun a b : Hdr6 => a.idlvl < b.idlvl) (pre ++ rest))
    (hv : ∀ h ∈ rest, (∃ x ∈ pre ++ rest, x.idlvl = h.ialvl) ∧ h.ialvl < h.idlvl) :
    Attached keys rest := by
  induction rest generalizing pre keys with
  | nil => trivial
  | cons h rest ih =>
    obtain ⟨⟨x, hx, hxe⟩, hlt⟩ := hv h (by simp)
    have hxpre : x ∈ pre := by
      rcases List.mem_append.1 hx with h1 | h1
      · exact h1
      · exfalso
        have hp := (List.pairwise_append.1 hs).2.1
        rcases List.mem_cons.1 h1 with rfl | h2
        · omega
        · have := (List.pairwise_cons.1 hp).1 x h2
          omega
    refine ⟨hxe ▸ hk x hxpre, ?_⟩
    apply ih (pre ++ [h]) (h.idlvl :: keys)
    · intro y hy
      rcases List.mem_append.1 hy with h1 | h1
      · exact List.mem_cons_of_mem _ (hk y h1)
      · simp only [List.mem_singleton] at h1; subst h1; exact List.mem_cons_self
    · simpa using hs
    · intro y hy
      obtain ⟨⟨z, hz, hze⟩, hl⟩ := hv y (List.mem_cons_of_mem _ hy)
      exact ⟨⟨z, by simpa using hz, hze⟩, hl⟩

/-- headers in strictly increasing display-level order that pass the function's checks (every header but the first attached to a display
    level of the collection below its own) are `Attached`: the regenerated loop returns `decodeTree` of them -/
theorem gen_collection_locations_checked (h0 : Hdr6) (rest : List Hdr6)
    (hs : List.Pairwise (fun a b : Hdr6 => a.idlvl < b.idlvl) (h0 :: rest))
    (hv : ∀ h ∈ rest, (∃ x ∈ h0 :: rest, x.idlvl = h.ialvl) ∧ h.ialvl < h.idlvl) :
    Gen.L.collection_locations (h0 :: rest) = .ok (decodeTree (h0 :: rest)) := by
  apply gen_collection_locations
  refine ⟨List.mem_singleton.2 rfl, ?_⟩
  exact attached_of_checked [h0] rest _ (by intro h hh; simp only [List.mem_singleton] at hh; subst hh; exact List.mem_cons_self) (by simpa using hs)
    (by intro h hh; simpa using hv h hh)

/-! renormalisation -/

theorem foldl_min_le (l : List Int) (x : Int) : l.foldl min x ≤ x ∧ ∀ y ∈ l, l.foldl min x ≤ y := by
  induction l generalizing x with
  | nil => simp
  | cons a rest ih =>
    obtain ⟨h1, h2⟩ := ih (min x a)
    simp only [List.foldl_cons]
    refine ⟨by omega, ?_⟩
    intro y hy
    rcases List.mem_cons.1 hy with rfl | h
    · omega
    · exact h2 y h

theorem foldl_min_mem (l : List Int) (x : Int) : l.foldl min x = x ∨ l.foldl min x ∈ l := by
  induction l generalizing x with
  | nil => simp
  | cons a rest ih =>
    simp only [List.foldl_cons]
    rcases ih (min x a) with h | h
    · rcases Int.le_total x a with h' | h'
      · left; rw [h]; omega
      · right; rw [h]; simp; omega
    · right; exact List.mem_cons_of_mem _ h

theorem minOf_zero (l : List Int) (hn : ∀ x ∈ l, 0 ≤ x) (h0 : (0 : Int) ∈ l) : minOf 0 l = 0 := by
  cases l with
  | nil => rfl
  | cons a rest =>
    simp only [minOf]
    have h1 := foldl_min_le rest a
    have h2 := foldl_min_mem rest a
    have hge : 0 ≤ rest.foldl min a := by
      rcases h2 with h | h
      · rw [h]; exact hn a (by simp)
      · exact hn _ (List.mem_cons_of_mem _ h)
    have hle : rest.foldl min a ≤ 0 := by
      rcases List.mem_cons.1 h0 with h | h
      · rw [h]; exact h1.1
      · exact h1.2 0 h
    omega

/-- tiles that start at row 0 and column 0 and lie in the non-negative quadrant are left alone by the renormalisation -/
theorem normalizeBoxes_id (bs : List Box) (hr : ∀ b ∈ bs, 0 ≤ b.1) (hc : ∀ b ∈ bs, 0 ≤ b.2.2.1)
    (hr0 : ∃ b ∈ bs, b.1 = 0) (hc0 : ∃ b ∈ bs, b.2.2.1 = 0) : normalizeBoxes bs = bs := by
  have e1 : minOf 0 (bs.map (fun b => b.1)) = 0 := by
    apply minOf_zero
    · intro x hx; obtain ⟨b, hb, rfl⟩ := List.mem_map.1 hx; exact hr b hb
    · obtain ⟨b, hb, h⟩ := hr0; exact List.mem_map.2 ⟨b, hb, h⟩
  have e2 : minOf 0 (bs.map (fun b => b.2.2.1)) = 0 := by
    apply minOf_zero
    · intro x hx; obtain ⟨b, hb, rfl⟩ := List.mem_map.1 hx; exact hc b hb
    · obtain ⟨b, hb, h⟩ := hc0; exact List.mem_map.2 ⟨b, hb, h⟩
  simp only [normalizeBoxes, e1, e2, Int.sub_zero]
  exact List.map_id' bs

/-- 2 x 2 tiling, every tile attached to the first (a star, not a chain) -/
example : decodeTree [(1, 0, 0, 0, 40, 50), (2, 1, 0, 50, 40, 50), (3, 1, 40, 0, 40, 50), (4, 1, 40, 50, 40, 50)] =
    [(0, 40, 0, 50), (0, 40, 50, 100), (40, 80, 0, 50), (40, 80, 50, 100)] := by decide
example : Gen.L.collection_locations [(1, 0, 0, 0, 40, 50), (2, 1, 0, 50, 40, 50), (3, 1, 40, 0, 40, 50), (4, 1, 40, 50, 40, 50)] =
    .ok [(0, 40, 0, 50), (0, 40, 50, 100), (40, 80, 0, 50), (40, 80, 50, 100)] := by decide
example : collectionLimits [(3, 1, 40, 0, 40, 50), (1, 0, 5, 5, 40, 50), (2, 1, 0, 50, 40, 50)] =
    some [(0, 40, 0, 50), (0, 40, 50, 100), (40, 80, 0, 50)] := by decide
example : collectionLimits [(1, 0, 0, 0, 4, 5), (1, 0, 0, 5, 4, 5)] = none ∧ collectionLimits [(1, 0, 0, 0, 4, 5), (2, 3, 0, 5, 4, 5)] = none := by decide

end Sarpy.Bridge.LA
