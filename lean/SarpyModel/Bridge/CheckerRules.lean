/-
  Bridge: the comparisons regenerated from the consistency checkers of /repo (`Gen.Chk.*`, translate/gen_checker.py) are the
  reference rules of `Spec.CheckerRules`, for all integers / flags; the message kind (need / want) and the guards of every
  translated rule, and the finite tables of the SICD / SIDD checkers and writers, are what the Spec transcribes.
  Shallow automation only (`unfold`, `simp`, `omega`, `cases`, `rfl`, `decide`): a semantic change of the Python makes the
  obligation false, a harmless rewrite usually does not.  One theorem per rule, named `gen_<rule>` — the harness maps a build
  error in this file back to the rule by the name of the enclosing theorem.
-/
import SarpyModel.Gen.CheckerRules
import SarpyModel.Spec.CheckerRules

namespace Sarpy.Bridge.Chk
open Sarpy Sarpy.Spec.CheckerRules

theorem gen_xml_early (xo : Int) : Gen.Chk.xml_early xo = .ok (xmlEarly xo) := by
  simp [Gen.Chk.xml_early, xmlEarly, pure, Except.pure]

theorem gen_pad_after_xml (xo xs : Int) (hs : Bool) (so po : Int) :
    Gen.Chk.pad_after_xml xo xs hs so po = .ok (padAfterXml xo xs hs so po) := by
  cases hs <;> simp [Gen.Chk.pad_after_xml, padAfterXml, bind, Except.bind, pure, Except.pure] <;> omega

theorem gen_pad_after_support (so ss po : Int) : Gen.Chk.pad_after_support so ss po = .ok (padAfterSupport so ss po) := by
  simp [Gen.Chk.pad_after_support, padAfterSupport, pure, Except.pure] <;> omega

theorem gen_pad_after_pvp (po ps go : Int) : Gen.Chk.pad_after_pvp po ps go = .ok (padAfterPvp po ps go) := by
  simp [Gen.Chk.pad_after_pvp, padAfterPvp, pure, Except.pure] <;> omega

theorem gen_signal_at_eof (fl go gs : Int) : Gen.Chk.signal_at_eof fl go gs = .ok (signalAtEof fl go gs) := by
  simp [Gen.Chk.signal_at_eof, signalAtEof, pure, Except.pure]

theorem gen_signal_fits (ao nv ns it gs : Int) : Gen.Chk.signal_fits ao nv ns it gs = .ok (signalFits ao nv ns it gs) := by
  simp [Gen.Chk.signal_fits, signalFits, pure, Except.pure]

theorem gen_num_acfs (d p : Int) : Gen.Chk.num_acfs d p = .ok (countMatches d p) := by
  simp [Gen.Chk.num_acfs, countMatches, pure, Except.pure]

theorem gen_num_apcs (d p : Int) : Gen.Chk.num_apcs d p = .ok (countMatches d p) := by
  simp [Gen.Chk.num_apcs, countMatches, pure, Except.pure]

theorem gen_num_antpats (d p : Int) : Gen.Chk.num_antpats d p = .ok (countMatches d p) := by
  simp [Gen.Chk.num_antpats, countMatches, pure, Except.pure]

theorem gen_corner_points (n : Int) : Gen.Chk.corner_points n = .ok (fourCorners n) := by
  simp [Gen.Chk.corner_points, fourCorners, pure, Except.pure]

theorem gen_polygon_size (d p : Int) : Gen.Chk.polygon_size d p = .ok (countMatches d p) := by
  simp [Gen.Chk.polygon_size, countMatches, pure, Except.pure]

theorem gen_optional_fx (f a b : Bool) : Gen.Chk.optional_fx f a b = .ok (optionalFx f a b) := by
  cases f <;> cases a <;> cases b <;> rfl

theorem gen_optional_toa (a b : Bool) : Gen.Chk.optional_toa a b = .ok (together a b) := by
  cases a <;> cases b <;> rfl

theorem gen_toa_ext_together (s a b : Bool) : Gen.Chk.toa_ext_together s a b = .ok (together3 s a b) := by
  cases s <;> cases a <;> cases b <;> rfl

theorem gen_image_area_box (x1 y1 x2 y2 : Int) : Gen.Chk.image_area_box x1 y1 x2 y2 = .ok (boxOrdered x1 y1 x2 y2) := by
  simp [Gen.Chk.image_area_box, boxOrdered, pure, Except.pure]

theorem gen_channel_area_box (x1 y1 x2 y2 : Int) : Gen.Chk.channel_area_box x1 y1 x2 y2 = .ok (boxOrdered x1 y1 x2 y2) := by
  simp [Gen.Chk.channel_area_box, boxOrdered, pure, Except.pure]

theorem gen_extended_area_box (x1 y1 x2 y2 : Int) : Gen.Chk.extended_area_box x1 y1 x2 y2 = .ok (boxOrdered x1 y1 x2 y2) := by
  simp [Gen.Chk.extended_area_box, boxOrdered, pure, Except.pure]

theorem gen_version_match (a b : Int) : Gen.Chk.version_match a b = .ok (sameCode a b) := by
  simp [Gen.Chk.version_match, sameCode, pure, Except.pure]

/-- need stays need, want stays want -/
theorem gen_severities : Gen.Chk.severities = severities := rfl

/-- the preconditions under which the rules are evaluated are the transcribed ones -/
theorem gen_guards : Gen.Chk.guards = guards := rfl

/-! ### finite tables -/

/-- the SICD checker expects, per pixel type, what `sicdExpect` says -/
theorem gen_sicd_checker_pixels :
    Gen.Chk.sicdCheckerPixels = [SicdPixel.re32f, .re16i, .amp8i].map (fun p => (p.name, (sicdExpect p).1, (sicdExpect p).2)) := rfl

/-- the SICD writer puts, per pixel type, exactly what the checker expects, with the band codes of `sicdBands` -/
theorem gen_sicd_writer_pixels :
    Gen.Chk.sicdWriterPixels =
      [SicdPixel.re32f, .re16i, .amp8i].map (fun p => (p.name, (sicdExpect p).1, (sicdExpect p).2, (sicdBands p).1, (sicdBands p).2)) := rfl

/-- the ISUBCAT test of the SICD checker is `b0 != X and b1 != Y` with the writer's codes (as transcribed in `sicdSegOk`) -/
theorem gen_sicd_checker_bands :
    Gen.Chk.sicdCheckerBands =
      (("And", ["NotEq"], [(sicdBands .amp8i).1, (sicdBands .amp8i).2]), ("And", ["NotEq"], [(sicdBands .re32f).1, (sicdBands .re32f).2])) := rfl

theorem gen_sidd_checker_pixels :
    Gen.Chk.siddCheckerPixels =
      [SiddPixel.mono8i, .mono8lu, .rgb8lu, .mono16i, .rgb24i].map (fun p => (p.name, (siddExpect p).1, (siddExpect p).2)) := rfl

/-- every pixel type the SIDD writer supports is written with the NBPP / PVTYPE the checker expects -/
theorem gen_sidd_writer_pixels :
    Gen.Chk.siddWriterPixels = [SiddPixel.mono8i, .mono16i, .rgb24i].map (fun p => (p.name, (siddExpect p).1, (siddExpect p).2)) := rfl

/-- the urn tables are functional (one version per urn) and every writer DES built from a row satisfies the DES rule -/
theorem gen_sicd_urns_des :
    ∀ r ∈ Gen.Chk.sicdUrns, Spec.Checker.desRule Gen.Chk.sicdUrns (Spec.Checker.writerDes r.1 r.2) = true := by decide

theorem gen_sidd_urns_des :
    ∀ r ∈ Gen.Chk.siddUrns, Spec.Checker.desRule Gen.Chk.siddUrns (Spec.Checker.writerDes r.1 r.2) = true := by decide

end Sarpy.Bridge.Chk
