/-
  Bridge: the integer kernels and tables regenerated from /repo's `make_file_header` / `to_string`
  (`Gen.Cphd.*` from CPHD.py, `Gen.Crsd.*` from CRSD.py; translate/gen_cphd.py) compute the reference
  definitions of `Spec.CphdLayout` / `Spec.CphdHeaderText`.  Only shallow automation (unfold / simp / omega /
  split / decide): a harmless rewrite of the Python keeps these proofs alive, a semantic change (a dropped
  `_align`, accumulating from the unaligned end, swapped blocks, another slack or terminator length, a renamed or
  re-ordered header field, another line format) makes them fail.

  The theorems live in the namespaces of the properties that require them (C09: CPHD, C11: CRSD).
-/
import SarpyModel.Gen.CphdKernels
import SarpyModel.Spec.CphdLayout
import SarpyModel.Spec.CphdHeaderText
set_option linter.unusedSimpArgs false

namespace Sarpy.Bridge.Cphd
open Sarpy Sarpy.Spec.CphdLayout

/-- `int(numpy.ceil(float(v)/64)*64)` on a natural number is `align` -/
theorem ceilDiv64 (v : Nat) : ceilDiv (v : Int) 64 = .ok ((((v + 63) / 64 : Nat) : Int)) := by
  unfold ceilDiv
  have h : Int.fdiv (-(v : Int)) 64 = -((((v + 63) / 64 : Nat)) : Int) := by
    rw [Int.fdiv_eq_ediv_of_nonneg _ (by omega)]; omega
  rw [h]
  simp [pure, Except.pure]

/-- the integer header attributes of a layout as Python integers -/
def headerIntsZ (b : Blocks) : Option Int × Option Int × Option Int × Option Int × Option Int × Option Int × Option Int × Option Int :=
  (some (b.xmlSize : Int), some (b.xmlOff : Int), b.supp.map (fun p => (p.2 : Int)), b.supp.map (fun p => (p.1 : Int)),
   some (b.pvpSize : Int), some (b.pvpOff : Int), some (b.sigSize : Int), some (b.sigOff : Int))

/-- the SUPPORT block exists iff `Data.NumSupportArrays > 0` -/
def suppOf (numSupport suppSize : Nat) : Option Nat := if 0 < numSupport then some suppSize else none

/-- evaluate the `Except` plumbing of a translated kernel with the given rewrite facts, then let `simp` close the casts -/
macro "cphd_simp" "[" ts:Lean.Parser.Tactic.simpLemma,* "]" : tactic =>
  `(tactic| (simp only [getI, bind, Except.bind, pure, Except.pure, decide_true, decide_false, if_true, if_false, ite_true, ite_false,
                        Bool.false_eq_true, $ts,*] <;> try simp))

end Sarpy.Bridge.Cphd

/-! ### CPHD (sarpy/io/phase_history/cphd1_elements/CPHD.py) -/
namespace Sarpy.Props.C09
open Sarpy Sarpy.Spec.CphdLayout Sarpy.Spec.CphdHeaderText Sarpy.Bridge.Cphd

theorem gen_align (v : Nat) : Gen.Cphd.chain_align (v : Int) = .ok ((align v : Nat) : Int) := by
  unfold Gen.Cphd.chain_align align
  cphd_simp [ceilDiv64]

theorem gen_retry_align (v : Nat) : Gen.Cphd.retry_align (v : Int) = .ok ((align v : Nat) : Int) := by
  unfold Gen.Cphd.retry_align align
  cphd_simp [ceilDiv64]

/-- **one attempt of `CPHDType.make_file_header`** (regenerated code) computes `layout`, for all sizes -/
theorem gen_chain (xo xs ns ss ps gs : Nat) :
    Gen.Cphd.chain xo xs ns ss ps gs = .ok (headerIntsZ (layout xo xs (suppOf ns ss) ps gs)) := by
  unfold Gen.Cphd.chain suppOf
  have e1 : ((xo : Int) + xs + 2) = ((xo + xs + 2 : Nat) : Int) := by omega
  by_cases h : 0 < ns
  · have h' : ((ns : Int) > 0) := by omega
    have e2 : ((align (xo + xs + 2) : Nat) : Int) + ss = ((align (xo + xs + 2) + ss : Nat) : Int) := by omega
    have e3 : ((align (align (xo + xs + 2) + ss) : Nat) : Int) + ps = ((align (align (xo + xs + 2) + ss) + ps : Nat) : Int) := by omega
    cphd_simp [h, h', e1, e2, e3, gen_align, layout, headerIntsZ]
  · have h' : ¬ ((ns : Int) > 0) := by omega
    have e3 : ((align (xo + xs + 2) : Nat) : Int) + ps = ((align (xo + xs + 2) + ps : Nat) : Int) := by omega
    cphd_simp [h, h', e1, e3, gen_align, layout, headerIntsZ]

/-- **the retry decision of `CPHDType.make_file_header`** (regenerated code) is `retryOffset` -/
theorem gen_retry (xo h : Nat) :
    Gen.Cphd.retry xo h = .ok ((retryOffset xo h).map (fun v => (v : Int))) := by
  unfold Gen.Cphd.retry retryOffset
  have e : ((h : Int) + 2 + 32) = ((h + 2 + 32 : Nat) : Int) := by omega
  by_cases c : xo < h + 2
  · have c' : (xo : Int) < (h : Int) + 2 := by omega
    cphd_simp [c, c', e, gen_retry_align]
  · have c' : ¬ (xo : Int) < (h : Int) + 2 := by omega
    cphd_simp [c, c']

/-- the tables of `CPHDHeader` regenerated from the class are the ones the header text model uses -/
theorem gen_header_tables :
    Gen.Cphd.hdr_fields = fieldNames ∧ Gen.Cphd.hdr_int_fields = fieldNames.take 8 ∧
    Gen.Cphd.first_fmt = firstFmtCphd ∧ Gen.Cphd.line_fmt = lineFmt ∧ Gen.Cphd.join_sep = "" ∧
    Gen.Cphd.terminator = [12, 10] := by decide

end Sarpy.Props.C09

/-! ### CRSD (sarpy/io/received/crsd1_elements/CRSD.py) -/
namespace Sarpy.Props.C11
open Sarpy Sarpy.Spec.CphdLayout Sarpy.Spec.CphdHeaderText Sarpy.Bridge.Cphd

theorem gen_align (v : Nat) : Gen.Crsd.chain_align (v : Int) = .ok ((align v : Nat) : Int) := by
  unfold Gen.Crsd.chain_align align
  cphd_simp [ceilDiv64]

theorem gen_retry_align (v : Nat) : Gen.Crsd.retry_align (v : Int) = .ok ((align v : Nat) : Int) := by
  unfold Gen.Crsd.retry_align align
  cphd_simp [ceilDiv64]

/-- **one attempt of `CRSDType.make_file_header`** (regenerated code) computes `layout`, for all sizes -/
theorem gen_chain (xo xs ns ss ps gs : Nat) :
    Gen.Crsd.chain xo xs ns ss ps gs = .ok (headerIntsZ (layout xo xs (suppOf ns ss) ps gs)) := by
  unfold Gen.Crsd.chain suppOf
  have e1 : ((xo : Int) + xs + 2) = ((xo + xs + 2 : Nat) : Int) := by omega
  by_cases h : 0 < ns
  · have h' : ((ns : Int) > 0) := by omega
    have e2 : ((align (xo + xs + 2) : Nat) : Int) + ss = ((align (xo + xs + 2) + ss : Nat) : Int) := by omega
    have e3 : ((align (align (xo + xs + 2) + ss) : Nat) : Int) + ps = ((align (align (xo + xs + 2) + ss) + ps : Nat) : Int) := by omega
    cphd_simp [h, h', e1, e2, e3, gen_align, layout, headerIntsZ]
  · have h' : ¬ ((ns : Int) > 0) := by omega
    have e3 : ((align (xo + xs + 2) : Nat) : Int) + ps = ((align (xo + xs + 2) + ps : Nat) : Int) := by omega
    cphd_simp [h, h', e1, e3, gen_align, layout, headerIntsZ]

/-- **the retry decision of `CRSDType.make_file_header`** (regenerated code) is `retryOffset` -/
theorem gen_retry (xo h : Nat) :
    Gen.Crsd.retry xo h = .ok ((retryOffset xo h).map (fun v => (v : Int))) := by
  unfold Gen.Crsd.retry retryOffset
  have e : ((h : Int) + 2 + 32) = ((h + 2 + 32 : Nat) : Int) := by omega
  by_cases c : xo < h + 2
  · have c' : (xo : Int) < (h : Int) + 2 := by omega
    cphd_simp [c, c', e, gen_retry_align]
  · have c' : ¬ (xo : Int) < (h : Int) + 2 := by omega
    cphd_simp [c, c']

/-- the tables of `CRSDHeader` regenerated from the class are the ones the header text model uses -/
theorem gen_header_tables :
    Gen.Crsd.hdr_fields = fieldNames ∧ Gen.Crsd.hdr_int_fields = fieldNames.take 8 ∧
    Gen.Crsd.first_fmt = firstFmtCrsd ∧ Gen.Crsd.line_fmt = lineFmt ∧ Gen.Crsd.join_sep = "" ∧
    Gen.Crsd.terminator = [12, 10] := by decide

end Sarpy.Props.C11
