/-
  Bridge (CPHD): the integer kernels and tables regenerated from /repo's `CPHDType.make_file_header` / `CPHDHeader.to_string`
  (`Gen.Cphd.*`, translate/gen_cphd.py) compute the reference definitions of `Spec.CphdLayout` / `Spec.CphdHeaderText`.
  Only shallow automation (unfold / simp / omega / split / decide): a harmless rewrite of the Python keeps these proofs alive, a
  semantic change (a dropped `_align`, accumulating from the unaligned end, swapped blocks, another slack or terminator length, a
  renamed or re-ordered header field, another line format) makes them fail.  The CRSD twin is Bridge/Crsd.lean; the two modules do
  not import each other, so a change of CRSD.py does not touch the C09 obligations and vice versa.
-/
import SarpyModel.Gen.CphdKernels
import SarpyModel.Spec.CphdLayout
import SarpyModel.Spec.CphdHeaderText
import SarpyModel.Bridge.CphdCommon
set_option linter.unusedSimpArgs false

/-! ### CPHD (sarpy/io/phase_history/cphd1_elements/CPHD.py) -/
namespace Sarpy.Props.C09
open Sarpy Sarpy.Spec.CphdLayout Sarpy.Spec.CphdHeaderText Sarpy.Bridge.Cphd

theorem gen_align (v : Nat) : Gen.Cphd.chain_align (v : Int) = .ok ((align v : Nat) : Int) := by
  unfold Gen.Cphd.chain_align align
  cphd_simp [ceilDiv64]

theorem gen_retry_align (v : Nat) : Gen.Cphd.retry_align (v : Int) = .ok ((align v : Nat) : Int) := by
  unfold Gen.Cphd.retry_align align
  cphd_simp [ceilDiv64]

/-- **one attempt of `CPHDType.make_file_header`** (regenerated code) computes `layout`, for all sizes -/
theorem gen_chain (xo xs ns ss ps gs : Nat) :
    Gen.Cphd.chain xo xs ns ss ps gs = .ok (headerIntsZ (layout xo xs (suppOf ns ss) ps gs)) := by
  unfold Gen.Cphd.chain suppOf
  have e1 : ((xo : Int) + xs + 2) = ((xo + xs + 2 : Nat) : Int) := by omega
  by_cases h : 0 < ns
  · have h' : ((ns : Int) > 0) := by omega
    have e2 : ((align (xo + xs + 2) : Nat) : Int) + ss = ((align (xo + xs + 2) + ss : Nat) : Int) := by omega
    have e3 : ((align (align (xo + xs + 2) + ss) : Nat) : Int) + ps = ((align (align (xo + xs + 2) + ss) + ps : Nat) : Int) := by omega
    cphd_simp [h, h', e1, e2, e3, gen_align, layout, headerIntsZ]
  · have h' : ¬ ((ns : Int) > 0) := by omega
    have e3 : ((align (xo + xs + 2) : Nat) : Int) + ps = ((align (xo + xs + 2) + ps : Nat) : Int) := by omega
    cphd_simp [h, h', e1, e3, gen_align, layout, headerIntsZ]

/-- **the retry decision of `CPHDType.make_file_header`** (regenerated code) is `retryOffset` -/
theorem gen_retry (xo h : Nat) :
    Gen.Cphd.retry xo h = .ok ((retryOffset xo h).map (fun v => (v : Int))) := by
  unfold Gen.Cphd.retry retryOffset
  have e : ((h : Int) + 2 + 32) = ((h + 2 + 32 : Nat) : Int) := by omega
  by_cases c : xo < h + 2
  · have c' : (xo : Int) < (h : Int) + 2 := by omega
    cphd_simp [c, c', e, gen_retry_align]
  · have c' : ¬ (xo : Int) < (h : Int) + 2 := by omega
    cphd_simp [c, c']

/-- the tables of `CPHDHeader` regenerated from the class are the ones the header text model uses -/
theorem gen_header_tables :
    Gen.Cphd.hdr_fields = fieldNames ∧ Gen.Cphd.hdr_int_fields = fieldNames.take 8 ∧
    Gen.Cphd.first_fmt = firstFmtCphd ∧ Gen.Cphd.line_fmt = lineFmt ∧ Gen.Cphd.join_sep = "" ∧
    Gen.Cphd.terminator = [12, 10] ∧
    -- every header attribute is populated when the fit test measures the text, none is filled in afterwards
    fieldNames.all (fun f => Gen.Cphd.hdr_measured.contains f) = true ∧ Gen.Cphd.hdr_late = [] := by decide

end Sarpy.Props.C09
