/-
  Bridge: the NITF kernels WITH LOOPS regenerated from /repo (`Gen.L.*` in Gen/Loops.lean; translate/gen_loops.py +
  py2lean_loops.py) compute the reference definitions of Spec.Loops, which are Int / tuple presentations of Spec.Layout - so the deep
  theorems of Props/C03 (segmentation_tiles, segmentation_roundtrip) speak about the regenerated code.

  Shape of every loop bridge:
    1. `gen_<f>_cond / _body` : the regenerated test / body of a loop (loop-free `Except` programs) equal a pure test / step function
       of Spec.Loops - shallow `simp` proofs; these are the obligations a semantic change of the Python breaks;
    2. `whileFuel_eq_iter` / `forRange_eq_iter` (Proofs/PyLoops.lean, generic): a loop whose test and body are such pure functions is
       the pure iteration, and a while loop whose measure fits in the declared fuel never reports "OutOfFuel";
    3. a Spec-level induction about the hand-written step functions only (`seg_iter`, `colStep_iter`, `rowStep_iter`): the pure
       iteration is the closed form of Spec.Layout / Spec.Loops.

  (a) default_image_segmentation(rows, cols, row_limit)   `while row_offset < rows`, fuel `rows`
        gen_default_image_segmentation        row_limit >= 1: the result is Spec.Layout.segmentation over all columns; in particular the
                                              declared fuel `rows` suffices (the result is `ok`, not "OutOfFuel")
        gen_default_image_segmentation_fuel   ... and every larger fuel gives the same final loop state
        gen_default_image_segmentation_diverges   row_limit <= 0 < rows: the translated loop runs out of EVERY fuel - the Python loop
                                              does not terminate (the harness never calls the implementation there)
        gen_default_image_segmentation_empty  rows <= 0: no segment, whatever the limit
        gen_segmentation_tiles                Props/C03.segmentation_tiles + segmentation_roundtrip for the regenerated code
  (b) _construct_block_bounds(image_header)   two nested `for ... in range(...)` + two validity checks
        gen_construct_block_bounds            = Spec.Loops.blockBounds (ValueError exactly when a check fails)
        blockGrid_length / blockGrid_getElem / blockGrid_tiles / blockBounds_cover
                                              count NBPC * NBPR, row-major order, every block rbs x cbs, the blocks tile the padded
                                              grid [0, NBPC rbs) x [0, NBPR cbs), every image pixel lies in exactly one block
-/
import SarpyModel.Gen.Loops
import SarpyModel.Spec.Loops
import SarpyModel.Proofs.PyLoops
import SarpyModel.Props.C03
import Mathlib.Tactic.SplitIfs
import Mathlib.Tactic.Ring
import Mathlib.Tactic.Linarith

namespace Sarpy.Bridge.L
open Sarpy Sarpy.Spec Sarpy.Spec.L Sarpy.Spec.Layout Sarpy.Proofs.PyLoops

/-! ### (a) default_image_segmentation -/

theorem gen_seg_cond (rows cols lim : Int) (acc : List Box) (off : Int) :
    Gen.L.default_image_segmentation_loop1_cond rows cols lim acc off = .ok (segCond rows (acc, off)) := by
  simp [Gen.L.default_image_segmentation_loop1_cond, segCond, pure, Except.pure] <;> omega

theorem gen_seg_body (rows cols lim : Int) (acc : List Box) (off : Int) :
    Gen.L.default_image_segmentation_loop1_body rows cols lim acc off = .ok (segStep rows cols lim (acc, off)) := by
  simp [Gen.L.default_image_segmentation_loop1_body, segStep, pure, Except.pure] <;> omega

/-- Spec level: the pure loop is Spec.Layout.stepTiling -/
theorem seg_iter (rows cols lim : Int) (hl : 1 ≤ lim) (fuel off : Nat) (acc : List Box) :
    (iterWhile (segCond rows) (segStep rows cols lim) fuel (acc, (off : Int))).1 =
      acc ++ (stepTiling rows.toNat lim.toNat fuel off).map (rowBox cols) := by
  induction fuel generalizing off acc with
  | zero => simp [iterWhile, stepTiling]
  | succ k ih =>
    by_cases h : (off : Int) < rows
    · have h' : off < rows.toNat := by omega
      have e : min rows ((off : Int) + lim) = ((min rows.toNat (off + lim.toNat) : Nat) : Int) := by omega
      simp only [iterWhile, segCond, segStep, h, decide_true, if_true, stepTiling, h', e]
      rw [ih]
      simp [rowBox]
    · have h' : ¬ off < rows.toNat := by omega
      simp [iterWhile, segCond, stepTiling, h, h']

theorem gen_default_image_segmentation (rows cols lim : Int) (hl : 1 ≤ lim) :
    Gen.L.default_image_segmentation rows cols lim = .ok (segBoxes rows cols lim) := by
  unfold Gen.L.default_image_segmentation
  have h := whileFuel_eq_iter
    (fun st : List Box × Int => Gen.L.default_image_segmentation_loop1_cond rows cols lim st.1 st.2)
    (fun st => Gen.L.default_image_segmentation_loop1_body rows cols lim st.1 st.2)
    (segCond rows) (segStep rows cols lim) (fun _ => True) (fun st => (rows - st.2).toNat)
    (fun s _ => gen_seg_cond rows cols lim s.1 s.2) (fun s _ _ => gen_seg_body rows cols lim s.1 s.2) (fun _ _ _ => trivial)
    (by intro s _ hc; simp only [segCond, decide_eq_true_eq] at hc; simp only [segStep]; omega)
    rows.toNat ([], 0) trivial (by simp)
  simp only [bind, Except.bind, pure, Except.pure, h]
  have := seg_iter rows cols lim hl rows.toNat 0 []
  simp only [Nat.cast_zero, List.nil_append] at this
  simp only [this, segBoxes, segmentation]

/-- the loop with an arbitrary fuel, started in the translated initial state -/
def segLoop (rows cols lim : Int) (fuel : Nat) : Except String (List Box × Int) :=
  whileFuel (fun st : List Box × Int => Gen.L.default_image_segmentation_loop1_cond rows cols lim st.1 st.2)
    (fun st => Gen.L.default_image_segmentation_loop1_body rows cols lim st.1 st.2) fuel ([], 0)

theorem gen_default_image_segmentation_loop (rows cols lim : Int) :
    Gen.L.default_image_segmentation rows cols lim = (segLoop rows cols lim rows.toNat >>= fun st => pure st.1) := by
  unfold Gen.L.default_image_segmentation segLoop
  rfl

/-- **fuel sufficiency**: for `row_limit >= 1` every fuel `>= rows` ends the loop normally, in the same state -/
theorem gen_default_image_segmentation_fuel (rows cols lim : Int) (hl : 1 ≤ lim) (fuel : Nat) (hf : rows.toNat ≤ fuel) :
    segLoop rows cols lim fuel = segLoop rows cols lim rows.toNat ∧
    ∃ st, segLoop rows cols lim fuel = .ok st ∧ st.1 = segBoxes rows cols lim := by
  have key : ∀ f : Nat, rows.toNat ≤ f → segLoop rows cols lim f = .ok (iterWhile (segCond rows) (segStep rows cols lim) f ([], 0)) := by
    intro f hf'
    exact whileFuel_eq_iter _ _ (segCond rows) (segStep rows cols lim) (fun _ => True) (fun st => (rows - st.2).toNat)
      (fun s _ => gen_seg_cond rows cols lim s.1 s.2) (fun s _ _ => gen_seg_body rows cols lim s.1 s.2) (fun _ _ _ => trivial)
      (by intro s _ hc; simp only [segCond, decide_eq_true_eq] at hc; simp only [segStep]; omega) f ([], 0) trivial (by simpa using hf')
  have irr : iterWhile (segCond rows) (segStep rows cols lim) fuel ([], 0) = iterWhile (segCond rows) (segStep rows cols lim) rows.toNat ([], 0) :=
    iterWhile_fuel_irrelevant (segCond rows) (segStep rows cols lim) (fun _ => True) (fun st => (rows - st.2).toNat) (fun _ _ _ => trivial)
      (by intro s _ hc; simp only [segCond, decide_eq_true_eq] at hc; simp only [segStep]; omega) fuel rows.toNat ([], 0) trivial
      (by simpa using hf) (by simp)
  refine ⟨by rw [key fuel hf, key rows.toNat (Nat.le_refl _), irr], _, key fuel hf, ?_⟩
  rw [irr]
  have := seg_iter rows cols lim hl rows.toNat 0 []
  simp only [Nat.cast_zero, List.nil_append] at this
  simp only [this, segBoxes, segmentation]

/-- **row_limit <= 0 with rows to write: the Python loop does not end** - the translated loop runs out of every fuel -/
theorem gen_default_image_segmentation_diverges (rows cols lim : Int) (hl : lim ≤ 0) (hr : 0 < rows) (fuel : Nat) :
    segLoop rows cols lim fuel = .error "OutOfFuel" ∧ Gen.L.default_image_segmentation rows cols lim = .error "OutOfFuel" := by
  have key : ∀ f : Nat, segLoop rows cols lim f = .error "OutOfFuel" := by
    intro f
    refine whileFuel_diverges _ _ (segStep rows cols lim) (fun st => st.2 ≤ 0) ?_ (fun s _ => gen_seg_body rows cols lim s.1 s.2) ?_ f ([], 0) (Int.le_refl 0)
    · intro s hs
      rw [gen_seg_cond]
      simp only [segCond]
      have : s.2 < rows := by omega
      simp [this]
    · intro s hs
      simp only [segStep]
      omega
  refine ⟨key fuel, ?_⟩
  rw [gen_default_image_segmentation_loop, key]
  rfl

/-- no rows: no segment (whatever the limit) -/
theorem gen_default_image_segmentation_empty (rows cols lim : Int) (hr : rows ≤ 0) :
    Gen.L.default_image_segmentation rows cols lim = .ok [] := by
  rw [gen_default_image_segmentation_loop]
  have h0 : rows.toNat = 0 := by omega
  have hc : ¬ (0 : Int) < rows := by omega
  simp [segLoop, h0, whileFuel, gen_seg_cond, segCond, hc, ok_bind, pure_eq_ok]

/-- **Props/C03 for the regenerated code**: for `row_limit >= 1` the list `default_image_segmentation` returns is a list of row
    ranges spanning all columns that is consecutive from 0, every piece non-empty and within the limit, ends at `rows`, and is
    recovered from its ILOC / attachment chain -/
theorem gen_segmentation_tiles (rows cols lim : Int) (hl : 1 ≤ lim) :
    ∃ segs : List (Nat × Nat),
      Gen.L.default_image_segmentation rows cols lim = .ok (segs.map (rowBox cols)) ∧
      Consecutive 0 segs ∧ (∀ s ∈ segs, s.1 < s.2 ∧ s.2 - s.1 ≤ lim.toNat ∧ s.2 ≤ rows.toNat) ∧
      (segs.getLast?.map (fun s => s.2)).getD 0 = rows.toNat ∧ decodeChain 0 (headersOf segs) = segs := by
  have hl' : 0 < lim.toNat := by omega
  obtain ⟨h1, h2, h3⟩ := Props.C03.segmentation_tiles rows.toNat lim.toNat hl'
  exact ⟨segmentation rows.toNat lim.toNat, gen_default_image_segmentation rows cols lim hl, h1, h2, h3,
    Props.C03.segmentation_roundtrip rows.toNat lim.toNat hl'⟩

example : Gen.L.default_image_segmentation 40 7 15 = .ok [(0, 15, 0, 7), (15, 30, 0, 7), (30, 40, 0, 7)] := by decide
example : Gen.L.default_image_segmentation 3 7 0 = .error "OutOfFuel" := by decide

/-! ### (b) _construct_block_bounds -/

theorem gen_cbb_inner_body (cbs r0 r1 c : Int) (acc : List Box) :
    Gen.L.construct_block_bounds_loop1_body_loop1_body cbs r0 r1 c acc = .ok (colStep cbs r0 r1 (c, acc)) := by
  simp [Gen.L.construct_block_bounds_loop1_body_loop1_body, colStep, pure, Except.pure] <;> omega

theorem gen_cbb_outer_body (nbpr cbs rbs r : Int) (acc : List Box) :
    Gen.L.construct_block_bounds_loop1_body nbpr cbs rbs r acc = .ok (rowStep nbpr.toNat rbs cbs (r, acc)) := by
  unfold Gen.L.construct_block_bounds_loop1_body
  have h := forRange_eq_iter
    (fun (_ : Int) (st : Int × List Box) => Gen.L.construct_block_bounds_loop1_body_loop1_body cbs r (r + rbs) st.1 st.2)
    (fun _ => colStep cbs r (r + rbs)) (fun _ s => gen_cbb_inner_body cbs r (r + rbs) s.1 s.2) nbpr.toNat 0 (0, acc)
  simp only [bind, Except.bind, pure, Except.pure, h, rowStep]

theorem colStep_iter (cbs r0 r1 : Int) (n : Nat) (i c : Int) (acc : List Box) :
    iterRange (fun _ => colStep cbs r0 r1) n i (c, acc) =
      (c + n * cbs, acc ++ (List.range n).map (fun (j : Nat) => (r0, r1, c + j * cbs, c + ((j : Int) + 1) * cbs))) := by
  induction n generalizing i c acc with
  | zero => simp [iterRange]
  | succ k ih =>
    simp only [iterRange, colStep, ih, List.range_succ_eq_map, List.map_cons, List.map_map, List.append_assoc, List.singleton_append]
    refine Prod.ext (by push_cast; ring) ?_
    simp only [Nat.cast_zero, zero_mul, add_zero, zero_add, one_mul]
    congr 2
    apply List.map_congr_left
    intro j _
    simp only [Function.comp, Nat.succ_eq_add_one, Nat.cast_add, Nat.cast_one]
    refine Prod.ext rfl (Prod.ext rfl (Prod.ext ?_ ?_)) <;> simp only <;> ring

theorem rowStep_iter (nbpr : Nat) (rbs cbs : Int) (n : Nat) (i r : Int) (acc : List Box) :
    iterRange (fun _ => rowStep nbpr rbs cbs) n i (r, acc) =
      (r + n * rbs, acc ++ (List.range n).flatMap (fun (k : Nat) =>
        (List.range nbpr).map (fun (j : Nat) => (r + k * rbs, r + ((k : Int) + 1) * rbs, (j : Int) * cbs, ((j : Int) + 1) * cbs)))) := by
  induction n generalizing i r acc with
  | zero => simp [iterRange]
  | succ k ih =>
    simp only [iterRange, rowStep, colStep_iter, ih, List.range_succ_eq_map, List.flatMap_cons, List.flatMap_map, List.append_assoc]
    refine Prod.ext (by push_cast; ring) ?_
    simp only [Nat.cast_zero, zero_mul, add_zero, zero_add, one_mul]
    congr 2
    congr 1
    funext a
    congr 1
    funext j
    simp only [Nat.succ_eq_add_one, Nat.cast_add, Nat.cast_one]
    refine Prod.ext ?_ (Prod.ext ?_ rfl) <;> simp only <;> ring


theorem blockGrid_iter (nbpc nbpr : Nat) (rbs cbs : Int) :
    (iterRange (fun _ => rowStep nbpr rbs cbs) nbpc 0 (0, [])).2 = blockGrid nbpc nbpr rbs cbs := by
  rw [rowStep_iter]
  simp only [List.nil_append, blockGrid, blockRow, zero_add]

theorem gen_construct_block_bounds (nrows ncols nppbv nppbh nbpr nbpc : Int) :
    Gen.L.construct_block_bounds nrows ncols nppbv nppbh nbpr nbpc =
      (match blockBounds nrows ncols nppbv nppbh nbpr nbpc with
        | some g => .ok g
        | none => .error "ValueError") := by
  unfold Gen.L.construct_block_bounds blockBounds blocksFit K2.effBlock
  have h := fun cbs rbs => forRange_eq_iter
    (fun (_ : Int) (st : Int × List Box) => Gen.L.construct_block_bounds_loop1_body nbpr cbs rbs st.1 st.2)
    (fun _ => rowStep nbpr.toNat rbs cbs) (fun _ s => gen_cbb_outer_body nbpr cbs rbs s.1 s.2) nbpc.toNat 0 (0, [])
  by_cases h1 : nppbh = 0 <;> by_cases h2 : nppbv = 0 <;>
    simp only [h1, h2, bind, Except.bind, pure, Except.pure, h, blockGrid_iter, beq_self_eq_true, if_true, if_false,
      beq_iff_eq, Bool.not_eq_true', Bool.and_eq_false_imp, decide_eq_true_eq, decide_eq_false_iff_not] <;>
    split_ifs <;> first | rfl | (exfalso; omega) | (simp_all; done)

theorem blockRow_length (rbs cbs : Int) (nbpr : Nat) (i : Int) : (blockRow rbs cbs nbpr i).length = nbpr := by
  simp [blockRow]

theorem blockGrid_succ (nbpc nbpr : Nat) (rbs cbs : Int) :
    blockGrid (nbpc + 1) nbpr rbs cbs = blockGrid nbpc nbpr rbs cbs ++ blockRow rbs cbs nbpr (nbpc : Int) := by
  simp [blockGrid, List.range_succ, List.flatMap_append]

/-- count: NBPC * NBPR blocks -/
theorem blockGrid_length (nbpc nbpr : Nat) (rbs cbs : Int) : (blockGrid nbpc nbpr rbs cbs).length = nbpc * nbpr := by
  induction nbpc with
  | zero => simp [blockGrid]
  | succ n ih => rw [blockGrid_succ, List.length_append, ih, blockRow_length, Nat.succ_mul]

/-- row-major block order, every block `rbs x cbs`: block `(i, j)` is entry `i * NBPR + j` and is
    rows `[i rbs, (i+1) rbs)` x columns `[j cbs, (j+1) cbs)` -/
theorem blockGrid_getElem (nbpc nbpr : Nat) (rbs cbs : Int) (i j : Nat) (hi : i < nbpc) (hj : j < nbpr) :
    (blockGrid nbpc nbpr rbs cbs)[i * nbpr + j]? =
      some ((i : Int) * rbs, ((i : Int) + 1) * rbs, (j : Int) * cbs, ((j : Int) + 1) * cbs) := by
  induction nbpc with
  | zero => omega
  | succ n ih =>
    rw [blockGrid_succ]
    by_cases h : i < n
    · have hlt : i * nbpr + j < (blockGrid n nbpr rbs cbs).length := by
        rw [blockGrid_length]
        calc i * nbpr + j < i * nbpr + nbpr := by omega
          _ = (i + 1) * nbpr := by rw [Nat.succ_mul]
          _ ≤ n * nbpr := Nat.mul_le_mul_right _ h
      rw [List.getElem?_append_left hlt]
      exact ih h
    · have e : i = n := by omega
      subst e
      rw [List.getElem?_append_right (by rw [blockGrid_length]; omega), blockGrid_length]
      simp [blockRow, hj]

theorem ediv_toNat_lt (r bs : Int) (n : Nat) (hb : 0 < bs) (h0 : 0 ≤ r) (h1 : r < n * bs) : (r / bs).toNat < n := by
  have h2 : r / bs < n := (Int.ediv_lt_iff_lt_mul hb).2 h1
  have h3 : 0 ≤ r / bs := Int.ediv_nonneg h0 (by omega)
  omega

theorem in_block_iff (r bs : Int) (i : Nat) (hb : 0 < bs) (h0 : 0 ≤ r) :
    ((i : Int) * bs ≤ r ∧ r < ((i : Int) + 1) * bs) ↔ i = (r / bs).toNat := by
  have h3 : 0 ≤ r / bs := Int.ediv_nonneg h0 (by omega)
  have := Int.ediv_eq_iff_of_pos (x := r) (y := (i : Int)) hb
  rw [Int.add_mul, Int.one_mul]
  constructor
  · intro h; have := this.2 h; omega
  · intro h; apply this.1; omega

/-- **the block bounds tile the padded grid**: a pixel `(r, c)` of `[0, NBPC rbs) x [0, NBPR cbs)` lies in the block with index
    `(r / rbs) * NBPR + (c / cbs)` and in no other -/
theorem blockGrid_tiles (nbpc nbpr : Nat) (rbs cbs : Int) (hr : 0 < rbs) (hc : 0 < cbs) (r c : Int)
    (h0 : 0 ≤ r) (h1 : r < nbpc * rbs) (h2 : 0 ≤ c) (h3 : c < nbpr * cbs) :
    (r / rbs).toNat < nbpc ∧ (c / cbs).toNat < nbpr ∧
    ∀ k b, (blockGrid nbpc nbpr rbs cbs)[k]? = some b → (b.Contains r c ↔ k = (r / rbs).toNat * nbpr + (c / cbs).toNat) := by
  refine ⟨ediv_toNat_lt r rbs nbpc hr h0 h1, ediv_toNat_lt c cbs nbpr hc h2 h3, ?_⟩
  intro k b hk
  have hklt : k < nbpc * nbpr := by
    have := (List.getElem?_eq_some_iff.1 hk).1
    rwa [blockGrid_length] at this
  have hnp : 0 < nbpr := by
    rcases Nat.eq_zero_or_pos nbpr with h | h
    · subst h; simp at hklt
    · exact h
  have hi : k / nbpr < nbpc := (Nat.div_lt_iff_lt_mul hnp).2 hklt
  have hj : k % nbpr < nbpr := Nat.mod_lt _ hnp
  have hkd : k = k / nbpr * nbpr + k % nbpr := by rw [Nat.mul_comm]; exact (Nat.div_add_mod k nbpr).symm
  have hb := blockGrid_getElem nbpc nbpr rbs cbs (k / nbpr) (k % nbpr) hi hj
  rw [← hkd, hk] at hb
  cases hb
  simp only [Box.Contains]
  rw [← and_assoc, in_block_iff r rbs _ hr h0, in_block_iff c cbs _ hc h2]
  have hjj := ediv_toNat_lt c cbs nbpr hc h2 h3
  constructor
  · rintro ⟨ha, hb⟩; rw [← ha, ← hb]; exact hkd
  · intro h
    have h5 : k / nbpr = (r / rbs).toNat := by
      rw [h, Nat.add_comm, Nat.add_mul_div_right _ _ hnp, Nat.div_eq_of_lt hjj, Nat.zero_add]
    have h6 : k % nbpr = (c / cbs).toNat := by
      rw [h, Nat.add_comm, Nat.add_mul_mod_self_right, Nat.mod_eq_of_lt hjj]
    exact ⟨h5, h6⟩

theorem blocksFit_pos (n bs nb : Int) (h : blocksFit n bs nb) : 0 < bs := by
  unfold blocksFit at h; omega

/-- **cover of the image**: when `_construct_block_bounds` returns, it returns NBPC * NBPR blocks, every pixel of the image lies in
    exactly one of them (row-major index), and the padding is less than one block in each direction -/
theorem blockBounds_cover (nrows ncols nppbv nppbh nbpr nbpc : Int) (g : List Box) (hnr : 0 ≤ nbpr) (hnc : 0 ≤ nbpc)
    (h : blockBounds nrows ncols nppbv nppbh nbpr nbpc = some g) :
    g.length = nbpc.toNat * nbpr.toNat ∧
    nbpc * K2.effBlock nppbv nrows < nrows + K2.effBlock nppbv nrows ∧ nbpr * K2.effBlock nppbh ncols < ncols + K2.effBlock nppbh ncols ∧
    ∀ r c, 0 ≤ r → r < nrows → 0 ≤ c → c < ncols →
      ∀ k b, g[k]? = some b →
        (b.Contains r c ↔ k = (r / K2.effBlock nppbv nrows).toNat * nbpr.toNat + (c / K2.effBlock nppbh ncols).toNat) := by
  unfold blockBounds at h
  simp only at h
  split_ifs at h with hf
  cases h
  obtain ⟨hc, hr⟩ := hf
  have hcp := blocksFit_pos _ _ _ hc
  have hrp := blocksFit_pos _ _ _ hr
  unfold blocksFit at hc hr
  refine ⟨blockGrid_length _ _ _ _, by rw [Int.mul_comm]; exact hr.2, by rw [Int.mul_comm]; exact hc.2, ?_⟩
  intro r c h0 h1 h2 h3
  have e1 : ((nbpc.toNat : Nat) : Int) = nbpc := Int.toNat_of_nonneg hnc
  have e2 : ((nbpr.toNat : Nat) : Int) = nbpr := Int.toNat_of_nonneg hnr
  exact (blockGrid_tiles nbpc.toNat nbpr.toNat _ _ hrp hcp r c h0 (by rw [e1, Int.mul_comm]; omega) h2 (by rw [e2, Int.mul_comm]; omega)).2.2

example : blockBounds 10 7 4 4 2 3 = some [(0, 4, 0, 4), (0, 4, 4, 8), (4, 8, 0, 4), (4, 8, 4, 8), (8, 12, 0, 4), (8, 12, 4, 8)] := by decide
example : blockBounds 10 7 4 4 2 2 = none ∧ blockBounds 10 7 4 4 3 3 = none ∧ blockBounds 10 7 0 0 1 1 = some [(0, 10, 0, 7)] := by decide

end Sarpy.Bridge.L
