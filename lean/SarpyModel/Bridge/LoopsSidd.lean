/-
  Bridge: the SIDD writer's image-segment header loop regenerated from /repo (`Gen.L.sidd_segment_headers` in Gen/LoopsSidd.lean;
  translate/gen_loops.py, group sidd): `SIDDWritingDetails._create_image_segment_for_sidd` from `rows = ...` on - the call of
  default_image_segmentation (the regenerated kernel of Bridge/Loops.lean), then `for i, entry in enumerate(image_segment_limits)`
  with `image_segment_limits[i-1]`, recording of every `ImageSegmentHeader(...)` as the tuple of its IID1 numbers, NROWS, NCOLS, NPPBH,
  NPPBV, IDLVL, IALVL, ILOC row offset.

    gen_hdr_body              regenerated loop body = Spec.L.hdrStep on the indices the loop visits (shallow; breaks on a semantic change)
    hdr_iter                  Spec level: the pure enumerate loop = the closed form siddHeadersFrom (induction over the list split pre ++ rest)
    gen_sidd_segment_headers  row_limit >= 1: the regenerated function = (siddHeaders of the segmentation, file positions start, start+1, ..)
    siddHeadersFrom_getElem   entry k: IID1 numbers (image + 1, k + 1), sizes of segment k, IDLVL = start + k + 1, IALVL = IDLVL of the
                              predecessor (0 for the first), ILOC = predecessor's row count
    chainOf_siddHeaders       the reader's (ILOC, NROWS) view of the headers is Spec.Layout.headersOf of the row ranges
    gen_sidd_headers_decode   hence (Props/C03.segmentation_roundtrip) decoding the chain of the regenerated headers returns the segmentation
-/
import SarpyModel.Gen.LoopsSidd
import SarpyModel.Bridge.Loops

namespace Sarpy.Bridge.LS
open Sarpy Sarpy.Spec Sarpy.Spec.L Sarpy.Spec.Layout Sarpy.Proofs.PyLoops

theorem gen_hdr_body (si : Int) (l : List Box) (i : Int) (b : Box) (idx : List Int) (tot : Int) (tr : List Hdr9)
    (h0 : 0 ≤ i) (h1 : i < l.length) :
    Gen.L.sidd_segment_headers_loop1_body si l i b idx tot tr = .ok (hdrStep si l i b (idx, tot, tr)) := by
  unfold Gen.L.sidd_segment_headers_loop1_body hdrStep
  by_cases hi : i = 0
  · subst hi
    simp [Box.rows, Box.cols, blockOrWhole, bind, Except.bind, pure, Except.pure]
    split_ifs <;> rfl
  · have hne : (i == 0) = false := by rw [beq_eq_false_iff_ne]; exact hi
    have hlt : (i - 1).toNat < l.length := by omega
    have hv : l[(i - 1).toNat]? = some l[(i - 1).toNat] := by simp [hlt]
    have hpy := pyIndex_ok l (i - 1) _ (by omega) hv
    have hv' : l[i.toNat - 1]? = some l[(i - 1).toNat] := by
      have e : i.toNat - 1 = (i - 1).toNat := by omega
      rw [e]; exact hv
    simp [hne, hi, hpy, prevRowsAt, Box.rows, Box.cols, blockOrWhole, bind, Except.bind, pure, Except.pure, hv']
    split_ifs <;> rfl

theorem siddIndicesFrom_snoc (k : Int) (pre : List Box) (b : Box) :
    siddIndicesFrom k (pre ++ [b]) = siddIndicesFrom k pre ++ [k + pre.length] := by
  induction pre generalizing k with
  | nil => simp [siddIndicesFrom]
  | cons x xs ih => simp [siddIndicesFrom, ih]; omega

/-- Spec level: the pure `enumerate` loop over the tail `rest` of `l = pre ++ rest` appends the closed-form headers -/
theorem hdr_iter (si start : Int) (l : List Box) (rest pre : List Box) (hl : l = pre ++ rest) (idx : List Int) (tr : List Hdr9) :
    iterEnum (hdrStep si l) rest (pre.length : Int) (idx, start + pre.length, tr) =
      (idx ++ siddIndicesFrom (start + pre.length) rest, start + l.length,
        tr ++ siddHeadersFrom si start pre.length (prevRowsAt l pre.length) rest) := by
  induction rest generalizing pre idx tr with
  | nil => subst hl; simp [iterEnum, siddIndicesFrom, siddHeadersFrom]
  | cons b rest ih =>
    have hl' : l = (pre ++ [b]) ++ rest := by simp [hl]
    have := ih (pre ++ [b]) hl' (idx ++ [start + pre.length])
      (tr ++ [siddHeader si start pre.length (prevRowsAt l pre.length) b])
    have hprev : prevRowsAt l ((pre.length : Int) + 1) = b.rows := by
      have e : ((pre.length : Int) + 1 - 1).toNat = pre.length := by omega
      simp [prevRowsAt, e, hl]
    simp only [List.length_append, List.length_singleton, Nat.cast_add, Nat.cast_one, hprev] at this
    simp only [iterEnum, hdrStep, siddIndicesFrom, siddHeadersFrom]
    have e1 : start + (pre.length : Int) + 1 = start + ((pre.length : Int) + 1) := by ring
    unfold siddHeader at this
    rw [← e1] at this
    rw [this]
    simp [siddHeader, List.append_assoc]


theorem siddHeadersFrom_zero (si start p : Int) (boxes : List Box) :
    siddHeadersFrom si start 0 p boxes = siddHeadersFrom si start 0 0 boxes := by
  cases boxes with
  | nil => rfl
  | cons b rest => simp [siddHeadersFrom, siddHeader]

/-- **the SIDD writer's header loop, regenerated**: for `row_limit >= 1` the headers of the image segments of one product image are
    `siddHeaders` of the (regenerated) segmentation, and the recorded file positions are `start, start + 1, ...` -/
theorem gen_sidd_segment_headers (si start rows cols lim : Int) (hl : 1 ≤ lim) :
    Gen.L.sidd_segment_headers si start rows cols lim =
      .ok (siddHeaders si start (segBoxes rows cols lim), siddIndicesFrom start (segBoxes rows cols lim)) := by
  unfold Gen.L.sidd_segment_headers
  have hseg := Bridge.L.gen_default_image_segmentation rows cols lim hl
  have h := forEnum_eq_iter
    (fun (i : Int) (x : Box) (st : List Int × Int × List Hdr9) =>
      Gen.L.sidd_segment_headers_loop1_body si (segBoxes rows cols lim) i x st.1 st.2.1 st.2.2)
    (hdrStep si (segBoxes rows cols lim)) (segBoxes rows cols lim) 0 ([], start, [])
    (fun k x s' h0 h1 => gen_hdr_body si _ k x s'.1 s'.2.1 s'.2.2 h0 (by omega))
  have hit := hdr_iter si start (segBoxes rows cols lim) (segBoxes rows cols lim) [] rfl [] []
  simp only [List.length_nil, Nat.cast_zero, Int.add_zero, List.nil_append] at hit
  simp only [hseg, h, hit, bind, Except.bind, pure, Except.pure, siddHeaders]
  rw [siddHeadersFrom_zero]


/-! ### what the headers say (Spec level) -/

theorem siddHeadersFrom_length (si start i p : Int) (boxes : List Box) : (siddHeadersFrom si start i p boxes).length = boxes.length := by
  induction boxes generalizing i p with
  | nil => rfl
  | cons b rest ih => simp [siddHeadersFrom, ih]

/-- entry `k`: image number `si + 1`, segment number `k + 1`, the sizes of box `k`, display level `start + k + 1` (file position + 1,
    hence unique and increasing), attached to the previous segment (`IALVL = start + k`, its display level; 0 for the first) and located
    below it by its row count -/
theorem siddHeadersFrom_getElem (si start i p : Int) (boxes : List Box) (k : Nat) (b : Box) (hb : boxes[k]? = some b) :
    (siddHeadersFrom si start i p boxes)[k]? =
      some (siddHeader si start (i + k) (if k = 0 then p else prevRowsAt boxes k) b) := by
  induction boxes generalizing i p k with
  | nil => simp at hb
  | cons x rest ih =>
    cases k with
    | zero =>
      simp only [List.getElem?_cons_zero, Option.some.injEq] at hb
      subst hb
      simp [siddHeadersFrom]
    | succ j =>
      simp only [List.getElem?_cons_succ] at hb
      simp only [siddHeadersFrom, List.getElem?_cons_succ]
      rw [ih (i + 1) x.rows j hb]
      have e : i + 1 + (j : Int) = i + ((j + 1 : Nat) : Int) := by push_cast; ring
      rw [e]
      congr 2
      cases j with
      | zero => simp [prevRowsAt]
      | succ m =>
        have e1 : (((m + 1 + 1 : Nat) : Int) - 1).toNat = m + 1 := by omega
        have e2 : (((m + 1 : Nat) : Int) - 1).toNat = m := by omega
        simp [prevRowsAt, e1, e2]

/-- the `(ILOC row offset, NROWS)` pairs of the headers, as the reader decodes them -/
def chainOf (hdrs : List Hdr9) : List (Nat × Nat) := hdrs.map (fun h => (h.2.2.2.2.2.2.2.2.toNat, h.2.2.1.toNat))

theorem chainOf_rel (si start i : Int) (hi : 0 < i) (cols : Int) (prev : Nat × Nat) (segs : List (Nat × Nat))
    (hp : prev.1 ≤ prev.2) (hs : ∀ s ∈ segs, s.1 ≤ s.2) :
    chainOf (siddHeadersFrom si start i ((prev.2 : Int) - prev.1) (segs.map (rowBox cols))) =
      (relRows prev segs).zip (segs.map (fun s => s.2 - s.1)) := by
  induction segs generalizing i prev with
  | nil => rfl
  | cons s rest ih =>
    have hs1 := hs s (by simp)
    have hne : i ≠ 0 := by omega
    have := ih (i + 1) (by omega) s hs1 (fun t ht => hs t (by simp [ht]))
    simp only [chainOf, List.map_cons, siddHeadersFrom, relRows, List.zip_cons_cons] at this ⊢
    have e : (rowBox cols s).rows = (s.2 : Int) - s.1 := by simp [rowBox, Box.rows]
    rw [e, this]
    simp only [siddHeader, hne, if_false, e, List.cons.injEq, Prod.mk.injEq, and_true]
    omega

/-- **the written headers form the chain Spec.Layout.headersOf**: the reader's `(ILOC, NROWS)` view of the headers of a list of row
    ranges is `headersOf` of those ranges -/
theorem chainOf_siddHeaders (si start cols : Int) (segs : List (Nat × Nat)) (hs : ∀ s ∈ segs, s.1 ≤ s.2) :
    chainOf (siddHeaders si start (segs.map (rowBox cols))) = headersOf segs := by
  cases segs with
  | nil => rfl
  | cons s rest =>
    have hs1 := hs s (by simp)
    have := chainOf_rel si start 1 (by omega) cols s rest hs1 (fun t ht => hs t (by simp [ht]))
    have e : (rowBox cols s).rows = (s.2 : Int) - s.1 := by simp [rowBox, Box.rows]
    simp only [siddHeaders, headersOf, ilocRows, List.map_cons, siddHeadersFrom, chainOf, List.zip_cons_cons] at this ⊢
    rw [Int.zero_add, e, this]
    simp only [siddHeader, if_true, e, List.cons.injEq, Prod.mk.injEq, and_true]
    omega

/-- **writer -> reader, for the regenerated code**: for `row_limit >= 1` the headers the SIDD writer gives to the image segments of a
    product image decode (ILOC relative to the attached predecessor) to exactly the row segmentation, one header per segment, and the
    recorded file positions are consecutive from `start` -/
theorem gen_sidd_headers_decode (si start rows cols lim : Int) (hl : 1 ≤ lim) :
    ∃ hdrs idxs, Gen.L.sidd_segment_headers si start rows cols lim = .ok (hdrs, idxs) ∧
      hdrs.length = (segmentation rows.toNat lim.toNat).length ∧
      decodeChain 0 (chainOf hdrs) = segmentation rows.toNat lim.toNat ∧
      idxs = siddIndicesFrom start (segBoxes rows cols lim) := by
  have hl' : 0 < lim.toNat := by omega
  obtain ⟨t1, t2, _⟩ := Props.C03.segmentation_tiles rows.toNat lim.toNat hl'
  refine ⟨_, _, gen_sidd_segment_headers si start rows cols lim hl, ?_, ?_, rfl⟩
  · simp [siddHeaders, siddHeadersFrom_length, segBoxes]
  · rw [segBoxes, chainOf_siddHeaders si start cols _ (fun s hs => by have := (t2 s hs).1; omega)]
    exact Props.C03.segmentation_roundtrip rows.toNat lim.toNat hl'

example : Gen.L.sidd_segment_headers 1 4 40 7 15 =
    .ok ([(2, 1, 15, 7, 7, 15, 5, 0, 0), (2, 2, 15, 7, 7, 15, 6, 5, 15), (2, 3, 10, 7, 7, 10, 7, 6, 15)], [4, 5, 6]) := by rfl

end Sarpy.Bridge.LS
