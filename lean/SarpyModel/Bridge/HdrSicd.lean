/-
  Bridge.HdrSicd — see Bridge/Hdr.lean: the SICD-specific chains regenerated from the current source are the reference definitions.
-/
import SarpyModel.Gen.HdrSicd
import SarpyModel.Bridge.Hdr
namespace Sarpy.Bridge.HdrSicd
open Sarpy.Spec.Hdr Sarpy.Bridge.Hdr

theorem gen_sicd_reader_compliance (h : ImgHdr) (pilNone : Bool) (pt : String) :
    Gen.HdrSicd.sicd_reader_compliance h pilNone pt = sicdReaderCompliance h pilNone pt := by
  unfold Gen.HdrSicd.sicd_reader_compliance sicdReaderCompliance
  simp only [gen_nitf_reader_compliance, gen_get_dtype]
  cases nitfReaderCompliance h pilNone with
  | false => rfl
  | true =>
    cases getDtype h with
    | error e => rfl
    | ok d =>
      obtain ⟨raw, fd, fb, order, lut⟩ := d
      cases order with
      | none => rfl
      | some o =>
        cases h4 : dtypeName raw with
        | error e => simp only [Except.bind, Option.elim, h4]; hdr_crush
        | ok nm => simp only [Except.bind, Option.elim, sicdRequires, h4]; hdr_crush

theorem gen_sicd_reader_format_function (raw : Option RawDtype) (order : Option String) (lut : Option Lut) (bd : Nat) (pt : String) (amp : Bool) :
    Gen.HdrSicd.sicd_reader_format_function raw order lut bd pt amp = sicdFormatFunction raw order lut bd pt amp := by
  unfold Gen.HdrSicd.sicd_reader_format_function sicdFormatFunction
  simp only [gen_format_function]
  cases order with
  | none => rfl
  | some o => cases h4 : dtypeName raw <;> simp only [Except.bind, Option.elim] <;> hdr_crush

theorem gen_sicd_writer_format_function (raw : Option RawDtype) (order : Option String) (lut : Option Lut) (bd : Nat) (pt : String) (amp : Bool) :
    Gen.HdrSicd.sicd_writer_format_function raw order lut bd pt amp = sicdFormatFunction raw order lut bd pt amp := by
  unfold Gen.HdrSicd.sicd_writer_format_function sicdFormatFunction
  simp only [gen_format_function]
  cases order with
  | none => rfl
  | some o => cases h4 : dtypeName raw <;> simp only [Except.bind, Option.elim] <;> hdr_crush

theorem gen_sicd_writer_hdr (pt : String) (rows cols : Nat) (iid1 : String) :
    Gen.HdrSicd.sicd_writer_hdr pt rows cols iid1 = sicdWriterHdr pt rows cols iid1 := by
  unfold Gen.HdrSicd.sicd_writer_hdr sicdWriterHdr SicdPixel.ofName
  simp only [show ∀ n : Nat, (if n > 8192 then 0 else n) = nppb n from fun _ => rfl]
  split_ifs <;> rfl

theorem gen_glue : Gen.HdrSicd.glue = glueSicd := rfl

end Sarpy.Bridge.HdrSicd
