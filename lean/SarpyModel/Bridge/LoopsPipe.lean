/-
  Bridge: the row-routing theorem of Props/C02 (`segmentation_split_join`) for the segmentation loop regenerated from /repo
  (`Gen.L.default_image_segmentation`, bridged in Bridge/Loops.lean).  A separate file so that C03's bridge file does not depend on
  the C01 / C07 / C02 proof files.
-/
import SarpyModel.Bridge.Loops
import SarpyModel.Props.C02

namespace Sarpy.Bridge.LP
open Sarpy Sarpy.Spec Sarpy.Spec.L Sarpy.Spec.Layout Sarpy.Spec.Pipeline

/-- **read after write, row level, for the regenerated code**: for every image (any number of rows and columns) and every row
    limit >= 1, the list `default_image_segmentation` returns is a list of row ranges over all columns; splitting the image rows by
    it and reassembling them in the order decoded from the ILOC / attachment chain gives back the image -/
theorem gen_segmentation_split_join {β : Type} (rows : List β) (cols lim : Int) (hl : 1 ≤ lim) :
    ∃ segs : List (Nat × Nat),
      Gen.L.default_image_segmentation (rows.length : Int) cols lim = .ok (segs.map (rowBox cols)) ∧
      (splitRows rows (decodeChain 0 (headersOf segs))).flatten = rows := by
  have hl' : 0 < lim.toNat := by omega
  refine ⟨segmentation rows.length lim.toNat, ?_, Props.C02.segmentation_split_join rows lim.toNat hl'⟩
  have := Bridge.L.gen_default_image_segmentation (rows.length : Int) cols lim hl
  simpa [segBoxes] using this

example : Gen.L.default_image_segmentation 5 3 2 = .ok ((segmentation 5 2).map (rowBox 3)) := by decide

end Sarpy.Bridge.LP
