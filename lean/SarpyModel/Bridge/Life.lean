/-
  Bridge (C19): the life-cycle decision kernels regenerated from /repo (`Gen.Life.*`, translate/gen_life.py) are the
  reference definitions of `Spec.Lifecycle` the theorems of Props/C19Ctor.lean and Props/C19Blocks.lean are about.
  Shallow automation only (`rfl`, `simp` with the definitions, `decide`, `cases` on booleans, `omega`): a semantic change of
  the Python - `out &= done` -> `out = done`, the guarded initialisation of `_delete_temp_files` -> a bare assignment, a
  handler that stops registering its cache file, a flush that ignores `force` - makes a theorem here fail, a harmless
  rewrite does not.  The second half states what the proved theorems then say about the regenerated code itself.
-/
import SarpyModel.Gen.Life
import SarpyModel.Props.C19Ctor
import SarpyModel.Props.C19Blocks
import SarpyModel.Props.C19Exist

namespace Sarpy.Bridge.Life
open Sarpy.Spec.Lifecycle Sarpy.Props.C19

/-! ### fully-written tests -/

/-- `BlockAggregateSegment.check_fully_written` (write mode) is the conjunction loop of the model -/
theorem gen_blockAggClaims (l : List Bool) : Gen.Life.blockAggClaims false l = conj l := by
  simp [Gen.Life.blockAggClaims, conj]

theorem gen_blockAggClaims_read (l : List Bool) : Gen.Life.blockAggClaims true l = true := by
  simp [Gen.Life.blockAggClaims]

/-- `BandAggregateSegment.check_fully_written` likewise -/
theorem gen_bandAggClaims (l : List Bool) : Gen.Life.bandAggClaims false l = conj l := by
  simp [Gen.Life.bandAggClaims, conj]

/-- `NumpyArraySegment.check_fully_written` (write mode): the counter equals the expected count -/
theorem gen_arrayClaims (written expected : Nat) :
    Gen.Life.arrayClaims false written expected = (written == expected) := by
  unfold Gen.Life.arrayClaims
  by_cases h1 : (written : Int) < expected <;> by_cases h2 : (written : Int) = expected <;>
    simp [h1, h2] <;> omega

/-- `SubsetSegment.check_fully_written` (the padded blocks) likewise -/
theorem gen_subsetClaims (written expected : Nat) :
    Gen.Life.subsetClaims false written expected = (written == expected) := by
  unfold Gen.Life.subsetClaims
  by_cases h1 : (written : Int) < expected <;> by_cases h2 : (written : Int) = expected <;>
    simp [h1, h2] <;> omega

/-! ### hand-over -/

/-- one iteration of the loop in `NITFWriter.flush` is `shouldHand` -/
theorem gen_handDecision (item_written has_bytes force claims : Bool) :
    Gen.Life.handDecision item_written has_bytes force claims = shouldHand (item_written || has_bytes) force claims := by
  cases item_written <;> cases has_bytes <;> cases force <;> cases claims <;> rfl

/-- the loop runs for in-memory targets only, and `BaseWriter.close` flushes with `force=True` -/
theorem gen_handGuards :
    Gen.Life.handGuards = ["self._in_memory", "self._image_segment_data_segments is not None"] := by decide
theorem gen_closeForces : Gen.Life.closeForces = true := by decide

/-! ### reader construction -/

theorem gen_baseReaderInit (extra : List Nat) : Gen.Life.baseReaderInit extra = baseCtor extra := rfl

/-- every handler that creates a cache file appends its name to the list in the next statement -/
theorem gen_handlers_register : Gen.Life.handlers.all (·.2) = true := by decide

theorem gen_nitfReaderInit (temps : List Nat) : Gen.Life.nitfReaderInit temps = nitfCtor temps [] := by
  simp [Gen.Life.nitfReaderInit, gen_handlers_register, nitfCtor, nitfCtorWith, gen_baseReaderInit, baseCtor]

/-! ### existence check -/

/-- the test in front of `open(path, 'wb')` in `NITFWriter.__init__` (SICD, SIDD), `CPHDWriter1.__init__` (CRSD) and
    `SIOWriter.__init__` is `check_existence and os.path.exists(path)` - nothing about size or content -/
theorem gen_nitfRefuses (check present : Bool) : Gen.Life.nitfRefuses check present = refuses check present := by
  cases check <;> cases present <;> rfl
theorem gen_cphdRefuses (check present : Bool) : Gen.Life.cphdRefuses check present = refuses check present := by
  cases check <;> cases present <;> rfl
theorem gen_sioRefuses (check present : Bool) : Gen.Life.sioRefuses check present = refuses check present := by
  cases check <;> cases present <;> rfl

/-- every writer family checks by default, and the subclasses pass the caller's choice on -/
theorem gen_checkDefaults : Gen.Life.checkDefaults.length = 6 ∧ Gen.Life.checkDefaults.all (·.2) = true := by decide
theorem gen_checkPassedOn : Gen.Life.checkPassedOn.length = 3 ∧ Gen.Life.checkPassedOn.all (·.2) = true := by decide

/-! ### what the theorems say about the regenerated code -/

/-- the regenerated `BlockAggregateSegment.check_fully_written` answers True exactly when every child does -/
theorem code_block_claims_iff_all (l : List Bool) :
    Gen.Life.blockAggClaims false l = true ↔ ∀ b ∈ l, b = true := by
  rw [gen_blockAggClaims, conj_eq_all]; simp

/-- the regenerated constructor of `NITFReader`: never raises, and every cache file a handler creates is on the list
    when `__init__` returns - so `close()` removes it (`c_temp_files_removed`) -/
theorem code_ctor_registers_all (temps : List Nat) :
    (crun cinit (Gen.Life.nitfReaderInit temps)).failed = false ∧
    ∀ f ∈ temps, f ∈ (crun cinit (Gen.Life.nitfReaderInit temps)).registered := by
  rw [gen_nitfReaderInit]
  exact ⟨(nitfCtor_ok temps []).1, (nitfCtor_ok temps []).2.2.1⟩

theorem code_ctor_guarded (temps : List Nat) : (Gen.Life.nitfReaderInit temps).all Phase.guarded = true := by
  rw [gen_nitfReaderInit]; exact nitfCtor_guarded temps []

/-- the regenerated non-forced flush decision never hands over a segment that does not claim, and the claim it trusts
    is the conjunction: together with `wb_handed_only_when_complete_partial` no incomplete segment is frozen -/
theorem code_flush_needs_claim (item_written has_bytes : Bool) (l : List Bool)
    (h : Gen.Life.handDecision item_written has_bytes false (Gen.Life.blockAggClaims false l) = true) :
    ∀ b ∈ l, b = true := by
  rw [gen_handDecision, gen_blockAggClaims] at h
  have : conj l = true := by
    cases hc : conj l with
    | true => rfl
    | false => simp [shouldHand, hc] at h
  rw [conj_eq_all] at this
  simpa using this

/-- the regenerated existence test refuses an existing empty file exactly as it refuses a non-empty one, for every setting
    of the check (`pathCtor` with the regenerated test in place of `refuses`) -/
theorem code_refusal_ignores_size (pre : PrePath) (check : Option Bool) :
    Gen.Life.nitfRefuses (checkOf check) pre.present = true ↔ pathCtor pre check = .refused := by
  rw [gen_nitfRefuses]
  cases pre <;> cases check with
  | none => simp [pathCtor, refuses, checkOf, PrePath.present]
  | some b => cases b <;> simp [pathCtor, refuses, checkOf, PrePath.present]

end Sarpy.Bridge.Life
