/-
  Bridge (CRSD): the integer kernels and tables regenerated from /repo's `CRSDType.make_file_header` / `CRSDHeader.to_string`
  (`Gen.Crsd.*`, translate/gen_cphd.py) compute the reference definitions of `Spec.CphdLayout` / `Spec.CphdHeaderText`.
  Same recipe as Bridge/Cphd.lean, separate module (see there).
-/
import SarpyModel.Gen.CphdKernels
import SarpyModel.Spec.CphdLayout
import SarpyModel.Spec.CphdHeaderText
import SarpyModel.Bridge.CphdCommon
set_option linter.unusedSimpArgs false

/-! ### CRSD (sarpy/io/received/crsd1_elements/CRSD.py) -/
namespace Sarpy.Props.C11
open Sarpy Sarpy.Spec.CphdLayout Sarpy.Spec.CphdHeaderText Sarpy.Bridge.Cphd

theorem gen_align (v : Nat) : Gen.Crsd.chain_align (v : Int) = .ok ((align v : Nat) : Int) := by
  unfold Gen.Crsd.chain_align align
  cphd_simp [ceilDiv64]

theorem gen_retry_align (v : Nat) : Gen.Crsd.retry_align (v : Int) = .ok ((align v : Nat) : Int) := by
  unfold Gen.Crsd.retry_align align
  cphd_simp [ceilDiv64]

/-- **one attempt of `CRSDType.make_file_header`** (regenerated code) computes `layout`, for all sizes -/
theorem gen_chain (xo xs ns ss ps gs : Nat) :
    Gen.Crsd.chain xo xs ns ss ps gs = .ok (headerIntsZ (layout xo xs (suppOf ns ss) ps gs)) := by
  unfold Gen.Crsd.chain suppOf
  have e1 : ((xo : Int) + xs + 2) = ((xo + xs + 2 : Nat) : Int) := by omega
  by_cases h : 0 < ns
  · have h' : ((ns : Int) > 0) := by omega
    have e2 : ((align (xo + xs + 2) : Nat) : Int) + ss = ((align (xo + xs + 2) + ss : Nat) : Int) := by omega
    have e3 : ((align (align (xo + xs + 2) + ss) : Nat) : Int) + ps = ((align (align (xo + xs + 2) + ss) + ps : Nat) : Int) := by omega
    cphd_simp [h, h', e1, e2, e3, gen_align, layout, headerIntsZ]
  · have h' : ¬ ((ns : Int) > 0) := by omega
    have e3 : ((align (xo + xs + 2) : Nat) : Int) + ps = ((align (xo + xs + 2) + ps : Nat) : Int) := by omega
    cphd_simp [h, h', e1, e3, gen_align, layout, headerIntsZ]

/-- **the retry decision of `CRSDType.make_file_header`** (regenerated code) is `retryOffset` -/
theorem gen_retry (xo h : Nat) :
    Gen.Crsd.retry xo h = .ok ((retryOffset xo h).map (fun v => (v : Int))) := by
  unfold Gen.Crsd.retry retryOffset
  have e : ((h : Int) + 2 + 32) = ((h + 2 + 32 : Nat) : Int) := by omega
  by_cases c : xo < h + 2
  · have c' : (xo : Int) < (h : Int) + 2 := by omega
    cphd_simp [c, c', e, gen_retry_align]
  · have c' : ¬ (xo : Int) < (h : Int) + 2 := by omega
    cphd_simp [c, c']

/-- the tables of `CRSDHeader` regenerated from the class are the ones the header text model uses -/
theorem gen_header_tables :
    Gen.Crsd.hdr_fields = fieldNames ∧ Gen.Crsd.hdr_int_fields = fieldNames.take 8 ∧
    Gen.Crsd.first_fmt = firstFmtCrsd ∧ Gen.Crsd.line_fmt = lineFmt ∧ Gen.Crsd.join_sep = "" ∧
    Gen.Crsd.terminator = [12, 10] ∧
    -- every header attribute is populated when the fit test measures the text, none is filled in afterwards
    fieldNames.all (fun f => Gen.Crsd.hdr_measured.contains f) = true ∧ Gen.Crsd.hdr_late = [] := by decide

end Sarpy.Props.C11
