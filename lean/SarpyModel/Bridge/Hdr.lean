/-
  Bridge.Hdr — the decision chains regenerated from the current source (`Gen/Hdr.lean`, translate/gen_hdr.py) are the reference
  definitions of `Spec/Hdr.lean`, for ALL arguments (any strings, any band lists, any sizes).  Shallow automation only: unfolding,
  case splits on the scrutinees and tests of the chains, `simp`.  A semantic change of a chain in sarpy makes the corresponding theorem
  false (it stops building); the theorems of Props/C02Hdr.lean and Props/C10Hdr.lean are stated on the reference definitions and
  carried to the code by these equalities.
-/
import SarpyModel.Gen.Hdr
import SarpyModel.Spec.Hdr
import Mathlib.Tactic.SplitIfs
namespace Sarpy.Bridge.Hdr
open Sarpy.Spec.Hdr

/-- case split on every `if` / `match` of both sides until the two sides agree -/
macro "hdr_crush" : tactic =>
  `(tactic| repeat' (first | rfl | (simp_all [Except.bind, Except.map, Option.elim] ; done) | split))

theorem gen_is_compressed (ic : String) : Gen.Hdr.is_compressed ic = .ok (isCompressed ic) := rfl

theorem gen_raw_dtype (bpp nbpp : Nat) (pv : String) : Gen.Hdr.get_dtype_get_raw_dtype bpp nbpp pv = rawDtype pv bpp := by
  unfold Gen.Hdr.get_dtype_get_raw_dtype rawDtype
  split_ifs <;> first | rfl | (cases npDtype true _ bpp <;> rfl)

/-- a search loop whose test cannot raise is `List.any` -/
theorem anyM_pure {α : Type} (p : α → Bool) (l : List α) : anyM (fun x => if p x = true then .ok true else .ok false) l = .ok (l.any p) := by
  induction l with
  | nil => rfl
  | cons x rest ih =>
    simp only [anyM, List.any_cons]
    cases h : p x <;> simp [ih]

theorem gen_pair_test (bands : List Band) (order : String) :
    (fun (i : Nat) =>
      Except.bind (pyIdx bands i) fun v1 =>
        Except.bind (pyIdx bands (i + 1)) fun v2 =>
          if order ≠ (v1.isubcat ++ v2.isubcat) then (Except.ok true : Except String Bool) else .ok false) = pairDiffers bands order := by
  funext i
  unfold pairDiffers pairAt
  cases pyIdx bands i with
  | error e => rfl
  | ok v1 =>
    cases pyIdx bands (i + 1) with
    | error e => rfl
    | ok v2 => simp only [Except.bind, Except.map]; split_ifs with h5 <;> simp [h5]

theorem gen_complex_order (h : ImgHdr) (pv : String) : Gen.Hdr.get_dtype_get_complex_order h pv = complexOrder pv h.bands := by
  unfold Gen.Hdr.get_dtype_get_complex_order complexOrder
  simp only [gen_pair_test, orders]
  by_cases h0 : h.bands.length % 2 ≠ 0
  · rw [if_pos h0, if_pos h0]
  · rw [if_neg h0, if_neg h0]
    unfold pairAt
    cases pyIdx h.bands 0 with
    | error e => rfl
    | ok a =>
      cases pyIdx h.bands (0 + 1) with
      | error e => rfl
      | ok b =>
        simp only [Except.bind]
        by_cases h3 : (a.isubcat ++ b.isubcat) ∈ ["IQ", "QI", "MP", "PM"]
        · simp only [h3, not_true_eq_false, if_false]
          cases anyM (pairDiffers h.bands (a.isubcat ++ b.isubcat)) (pyRange 2 h.bands.length 2) with
          | error e => rfl
          | ok r =>
            cases r
            · simp only [pvtypeFits]
              split_ifs <;> simp_all
            · rfl
        · simp only [h3, not_false_eq_true, if_true]

theorem gen_lut_info (h : ImgHdr) : Gen.Hdr.get_dtype_get_lut_info h = lutInfo h.bands := by
  unfold Gen.Hdr.get_dtype_get_lut_info lutInfo
  have hf : (fun (band : Band) => if band.lut ≠ none then (Except.ok true : Except String Bool) else .ok false) =
      (fun x => if (fun (b : Band) => b.lut.isSome) x = true then .ok true else .ok false) := by
    funext b; cases hb : b.lut <;> simp [hb]
  simp only [hf, anyM_pure]
  cases h1 : pyIdx h.bands 0 with
  | error e => hdr_crush
  | ok b0 => cases h2 : b0.lut <;> hdr_crush

theorem gen_get_dtype (h : ImgHdr) : Gen.Hdr.get_dtype h = getDtype h := by
  unfold Gen.Hdr.get_dtype getDtype
  simp only [gen_raw_dtype, gen_complex_order, gen_lut_info]
  cases rawDtype h.pvtype (h.nbpp / 8) with
  | error e => rfl
  | ok raw =>
    cases complexOrder h.pvtype h.bands with
    | error e => rfl
    | ok order =>
      cases lutInfo h.bands with
      | error e => hdr_crush
      | ok l =>
        cases l with
        | none => hdr_crush
        | some l => cases h5 : pyIdx l.shape 1 <;> hdr_crush

theorem gen_format_function (raw : Option RawDtype) (order : Option String) (lut : Option Lut) (bd : Nat) :
    Gen.Hdr.get_format_function raw order lut bd = .ok (formatFunction raw order lut bd) := by
  unfold Gen.Hdr.get_format_function formatFunction
  cases order <;> cases lut <;> rfl

theorem gen_nitf_reader_compliance (h : ImgHdr) (pilNone : Bool) :
    Gen.Hdr.nitf_reader_compliance h pilNone = .ok (nitfReaderCompliance h pilNone) := by
  unfold Gen.Hdr.nitf_reader_compliance nitfReaderCompliance
  simp only [gen_is_compressed, Except.bind]
  split_ifs <;> simp_all

theorem gen_nitf_writer_compliance (h : ImgHdr) (pilNone : Bool) :
    Gen.Hdr.nitf_writer_compliance h pilNone = nitfWriterCompliance h pilNone := by
  unfold Gen.Hdr.nitf_writer_compliance nitfWriterCompliance
  simp only [gen_is_compressed, Except.bind]
  split_ifs <;> simp_all

theorem gen_glue : Gen.Hdr.glue = glue := rfl

end Sarpy.Bridge.Hdr
