/-
  Bridge.HdrSidd — see Bridge/Hdr.lean: the SIDD-specific chains regenerated from the current source are the reference definitions.
-/
import SarpyModel.Gen.HdrSidd
import SarpyModel.Bridge.Hdr
namespace Sarpy.Bridge.HdrSidd
open Sarpy.Spec.Hdr Sarpy.Bridge.Hdr

theorem gen_check_iid_format (iid1 : String) : Gen.HdrSidd.check_iid_format iid1 = .ok (checkIidFormat iid1) := by
  unfold Gen.HdrSidd.check_iid_format checkIidFormat
  split_ifs <;> simp_all

theorem gen_sidd_reader_compliance (h : ImgHdr) (pilNone : Bool) :
    Gen.HdrSidd.sidd_reader_compliance h pilNone = .ok (siddReaderCompliance h pilNone) := by
  unfold Gen.HdrSidd.sidd_reader_compliance siddReaderCompliance
  simp only [gen_nitf_reader_compliance, gen_check_iid_format, Except.bind]
  cases nitfReaderCompliance h pilNone <;> cases checkIidFormat h.iid1 <;> by_cases h3 : h.icat = "SAR" <;> simp [h3]

theorem gen_sidd_writer_hdr (pt : String) (rows cols : Nat) (iid1 : String) :
    Gen.HdrSidd.sidd_writer_hdr pt rows cols iid1 = siddWriterHdr pt rows cols iid1 := by
  unfold Gen.HdrSidd.sidd_writer_hdr siddWriterHdr SiddPixel.ofName
  simp only [show ∀ n : Nat, (if n > 8192 then 0 else n) = nppb n from fun _ => rfl]
  split_ifs <;> first | rfl | (exfalso; simp_all; done)

theorem gen_glue : Gen.HdrSidd.glue = glueSidd := rfl

end Sarpy.Bridge.HdrSidd
