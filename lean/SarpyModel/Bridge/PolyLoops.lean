/-
  Bridge: the coefficient-array loops of sarpy's metadata polynomials regenerated from /repo (`Gen.P.*` in Gen/PolyLoops.lean;
  translate/gen_polyloops.py + py2lean_arrays.py) equal Spec.Poly instantiated at Int - so the ring theorems of Props/C16.lean apply
  verbatim to the regenerated code.

  The bridge is over EXACT INTEGERS: what the translator ties is the loop structure, the indices and slices, the order of the updates and
  the fast-path guards.  The coefficients of the real code are float64; their rounding stays under the running-error correspondence of
  harness/c16.py.

    gen_shift_body      regenerated body of the sweep loop (`out[index:siz-1] -= t_0*out[index+1:siz]`, `if i > 0`) = sweepStep: `pass` on the
                        suffix that starts at siz-1-i                        (breaks on a semantic change of the sweep)
    sweep_iter          Spec level: after k rounds the last k coefficients are `shift0` of the suffix; sweep_all: all rounds = shift0
    gen_scale           `out * numpy.power(alpha, numpy.arange(out.size))` = Spec.Poly.scale
    gen_shift           Gen.P.shift = Spec.Poly.shift (both guards `t_0 != 0 and out.size > 1`, `alpha != 1 and out.size > 1`)
    gen_shift_eval      eval (Gen.shift p t0 alpha) t = eval p (alpha * t - t0), same length            (Props/C16.eval_shift)
    gen_derivative(_eval)   the method is the call of polyder (helper tied by correspondence); its value is the analytic derivative (eval_derN)
    gen_minimize_order  Gen.P.minimize_order = Spec.Poly.minimize (mask of non-zeros, largest index, the three cases); gen_minimize_eval
    gen_shift2_rows_body / gen_shift2_cols_body   the two 2-d sweeps: `pass2` on the suffix of rows; the 1-d sweep step inside every row
    gen_shift2          Gen.P.shift2 = Spec.Poly.shift2 for every rectangular array with at least one row (row sweep, `[:, newaxis]` row scaling,
                        column sweep, column scaling, the four guards)
    eval2_shift2, gen_shift2_eval   eval2 (shift2 ..) x y = eval2 p (a1 x - s1) (a2 y - s2), incl. the fast paths - for Spec.Poly.shift2 and for the regenerated code
-/
import SarpyModel.Gen.PolyLoops
import SarpyModel.Proofs.PyLoops
import SarpyModel.Props.C16
import Mathlib.Tactic.Ring
import Mathlib.Tactic.Linarith

namespace Sarpy.Bridge.P
open Sarpy Sarpy.Spec Sarpy.Spec.Poly Sarpy.Proofs.PyLoops

/-! ### slices inside the array -/

theorem npClamp_id (n x : Int) (h0 : 0 ≤ x) (h1 : x ≤ n) : npClamp n x 0 n = x := by
  unfold npClamp
  have : ¬ x < 0 := by omega
  simp only [this, if_false]
  split_ifs <;> omega

theorem arrSlice_eq {α : Type} (l : List α) (a b : Nat) (ha : a ≤ l.length) (hb : b ≤ l.length) :
    arrSlice l (some (a : Int)) (some (b : Int)) = (l.drop a).take (b - a) := by
  unfold arrSlice
  simp only [npStartPos, npStopPos]
  rw [npClamp_id _ _ (by omega) (by omega), npClamp_id _ _ (by omega) (by omega)]
  congr 1
  omega

theorem arrSetSlice_eq {α : Type} (l : List α) (a b : Nat) (v : List α) (ha : a ≤ b) (hb : b ≤ l.length) (hv : v.length = b - a) :
    arrSetSlice l (some (a : Int)) (some (b : Int)) v = .ok (l.take a ++ v ++ l.drop b) := by
  unfold arrSetSlice
  have e1 : npStartPos (l.length : Int) (some (a : Int)) = a := by
    show npClamp (l.length : Int) (a : Int) 0 (l.length : Int) = a
    exact npClamp_id _ _ (by omega) (by omega)
  have e2 : npStopPos (l.length : Int) (some (b : Int)) = b := by
    show npClamp (l.length : Int) (b : Int) 0 (l.length : Int) = b
    exact npClamp_id _ _ (by omega) (by omega)
  have e : ((b : Int) - (a : Int)).toNat = b - a := by omega
  simp only [e1, e2, e, hv, if_true, Int.toNat_natCast, pure, Except.pure]
  congr 3
  omega

/-! ### one sweep is `pass` on the suffix -/

theorem pass_zip (t0 : Int) (s : List Int) (hs : 0 < s.length) :
    pass t0 s = List.zipWith (fun x y => x - t0 * y) (s.take (s.length - 1)) (s.drop 1) ++ s.drop (s.length - 1) := by
  induction s with
  | nil => simp at hs
  | cons a rest ih =>
    cases rest with
    | nil => simp [pass]
    | cons b rest' =>
      have := ih (by simp)
      simp only [List.length_cons, Nat.add_sub_cancel, List.drop_succ_cons, List.drop_zero] at this ⊢
      simp only [pass, List.take_succ_cons, List.zipWith_cons_cons, List.cons_append, List.cons.injEq, true_and]
      rw [this]


/-- the pure step of the sweep loop on an array of length `n`: round `i > 0` applies `pass` to the suffix that starts at `n - 1 - i` -/
def sweepStep (t0 : Int) (n : Nat) (i : Int) (l : List Int) : List Int :=
  if i > 0 then l.take (n - 1 - i.toNat) ++ pass t0 (l.drop (n - 1 - i.toNat)) else l

theorem sweepStep_length (t0 : Int) (n : Nat) (i : Int) (l : List Int) (hl : l.length = n) : (sweepStep t0 n i l).length = n := by
  unfold sweepStep
  split
  · have hp : ∀ s : List Int, (pass t0 s).length = s.length := by
      intro s
      induction s with
      | nil => rfl
      | cons a rest ih => cases rest with
        | nil => rfl
        | cons b r => simp only [pass, List.length_cons] at ih ⊢; omega
    simp [hp, hl]; omega
  · exact hl

/-- regenerated loop body = `sweepStep` for an array of the right length and an index inside the range
    (`out[index:siz-1] -= t_0*out[index+1:siz]`; the obligation a semantic change of the sweep breaks) -/
theorem gen_shift_body (t0 : Int) (n : Nat) (i : Int) (l : List Int) (hl : l.length = n) (h0 : 0 ≤ i) (h1 : i < n) :
    Gen.P.shift_loop1_body t0 (n : Int) i l = .ok (sweepStep t0 n i l) := by
  unfold Gen.P.shift_loop1_body sweepStep
  by_cases hi : i > 0
  · have hj : ((n : Int) - i - 1) = ((n - 1 - i.toNat : Nat) : Int) := by omega
    have hj' : ((n : Int) - 1 - i) = ((n - 1 - i.toNat : Nat) : Int) := by omega
    have hj'' : (((n - 1 : Nat) : Int) - i) = ((n - 1 - i.toNat : Nat) : Int) := by omega
    have hn1 : ((n : Int) - 1) = ((n - 1 : Nat) : Int) := by omega
    have hj1 : ((n - 1 - i.toNat : Nat) : Int) + 1 = ((n - 1 - i.toNat + 1 : Nat) : Int) := by push_cast; rfl
    simp only [hi, decide_true, if_true, hj, hj', hn1, hj'', hj1]
    rw [arrSlice_eq l _ _ (by omega) (by omega), arrSlice_eq l _ _ (by omega) (by omega)]
    have hlen : ((l.drop (n - 1 - i.toNat)).take (n - 1 - (n - 1 - i.toNat))).length = (arrScale t0 ((l.drop (n - 1 - i.toNat + 1)).take (n - (n - 1 - i.toNat + 1)))).length := by
      simp [arrScale]; omega
    simp only [arrZip, hlen, if_true, bind, Except.bind, pure, Except.pure]
    rw [arrSetSlice_eq l _ _ _ (by omega) (by omega) (by simp [arrScale]; omega)]
    simp only [List.append_assoc]
    congr 2
    have hs : 0 < (l.drop (n - 1 - i.toNat)).length := by simp; omega
    rw [pass_zip t0 _ hs]
    have e1 : (l.drop (n - 1 - i.toNat)).length - 1 = n - 1 - (n - 1 - i.toNat) := by simp; omega
    have e2 : (l.drop (n - 1 - i.toNat)).drop 1 = (l.drop (n - 1 - i.toNat + 1)).take (n - (n - 1 - i.toNat + 1)) := by
      rw [List.drop_drop, List.take_of_length_le (by simp; omega)]
    have e3 : (l.drop (n - 1 - i.toNat)).drop ((l.drop (n - 1 - i.toNat)).length - 1) = l.drop (n - 1) := by
      rw [List.drop_drop, e1]; congr 1; omega
    rw [e3, e1, ← e2]
    congr 1
    simp only [arrScale, List.zipWith_map_right]
  · simp [hi]; rfl


theorem shift0_single (t0 a : Int) : shift0 t0 [a] = [a] := by simp [shift0, pass]

/-- Spec level: after `k` rounds the last `k` coefficients are re-centred (`shift0` of the suffix), the others untouched -/
theorem sweep_iter (t0 : Int) (p : List Int) (k : Nat) (hk : k ≤ p.length) :
    iterRange (sweepStep t0 p.length) k 0 p = p.take (p.length - k) ++ shift0 t0 (p.drop (p.length - k)) := by
  induction k with
  | zero => simp [iterRange, shift0]
  | succ k ih =>
    rw [iterRange_succ_last, ih (by omega)]
    simp only [Int.zero_add]
    unfold sweepStep
    by_cases hk0 : k = 0
    · subst hk0
      have hne : p ≠ [] := by intro h; subst h; simp at hk
      have hd : p.drop (p.length - (0 + 1)) = [p.getLast hne] := by
        rw [List.drop_length_sub_one hne]
      simp [hd, shift0_single, shift0]
    · have hpos : ((k : Nat) : Int) > 0 := by omega
      simp only [hpos, if_true, Int.toNat_natCast]
      have e1 : p.length - 1 - k = p.length - (k + 1) := by omega
      rw [e1]
      have hlt : p.length - (k + 1) < p.length := by omega
      have hlen : (p.take (p.length - k)).length = p.length - k := by simp
      have ht : (p.take (p.length - k) ++ shift0 t0 (p.drop (p.length - k))).take (p.length - (k + 1)) = p.take (p.length - (k + 1)) := by
        rw [List.take_append_of_le_length (by simp; omega), List.take_take]; congr 1; omega
      have hd : (p.take (p.length - k) ++ shift0 t0 (p.drop (p.length - k))).drop (p.length - (k + 1)) =
          p[p.length - (k + 1)] :: shift0 t0 (p.drop (p.length - k)) := by
        rw [List.drop_append_of_le_length (by simp; omega)]
        have : (p.take (p.length - k)).drop (p.length - (k + 1)) = [p[p.length - (k + 1)]] := by
          rw [List.drop_take]
          have : p.length - k - (p.length - (k + 1)) = 1 := by omega
          rw [this, List.take_one_drop_eq_of_lt_length hlt]; rfl
        rw [this]; rfl
      rw [ht, hd]
      have hs : p.drop (p.length - (k + 1)) = p[p.length - (k + 1)] :: p.drop (p.length - k) := by
        rw [List.drop_eq_getElem_cons hlt]; congr 2; omega
      rw [hs]
      simp [shift0]

theorem sweep_all (t0 : Int) (p : List Int) : iterRange (sweepStep t0 p.length) p.length 0 p = shift0 t0 p := by
  have := sweep_iter t0 p p.length (Nat.le_refl _)
  simpa using this

/-! ### scaling by the powers of alpha -/

theorem scaleAux_zip (alpha pw : Int) (l : List Int) :
    scaleAux alpha pw l = List.zipWith (fun x y => x * y) l ((List.range l.length).map (fun k => pw * alpha ^ k)) := by
  induction l generalizing pw with
  | nil => rfl
  | cons c rest ih =>
    simp only [scaleAux, List.length_cons, List.range_succ_eq_map, List.map_cons, List.map_map, List.zipWith_cons_cons, pow_zero, mul_one]
    rw [ih]
    congr 2
    apply List.map_congr_left
    intro k _
    simp only [Function.comp, pow_succ]
    ring

theorem gen_scale (alpha : Int) (l : List Int) :
    (arrPow alpha (arange (l.length : Int)) >>= fun w => arrZip (fun x y => x * y) l w) = .ok (scale alpha l) := by
  have ha : arange (l.length : Int) = (List.range l.length).map (fun (k : Nat) => (k : Int)) := by simp [arange]
  have hany : ((List.range l.length).map (fun (k : Nat) => (k : Int))).any (fun k => decide (k < 0)) = false := by
    simp [List.any_eq_false]
  simp only [arrPow, ha, hany, Bool.false_eq_true, if_false, pure, Except.pure, bind, Except.bind, arrZip, List.length_map, List.length_range, if_true]
  congr 1
  rw [scale, scaleAux_zip]
  congr 1
  simp [List.map_map, Function.comp_def]


/-! ### Poly1DType.shift -/

theorem scaleAux_length (alpha pw : Int) (l : List Int) : (scaleAux alpha pw l).length = l.length := by
  induction l generalizing pw with
  | nil => rfl
  | cons c rest ih => simp [scaleAux, ih]

theorem shift_length (t0 alpha : Int) (p : List Int) : (shift t0 alpha p).length = p.length := by
  unfold shift
  simp only
  split <;> split <;> simp [scale, scaleAux_length, Props.C16.shift0_length]


theorem gen_shift_loop (t0 : Int) (p : List Int) :
    forRange (fun (i : Int) (st : IntArr) => Gen.P.shift_loop1_body t0 (p.length : Int) i st) p.length 0 p = .ok (shift0 t0 p) := by
  have h := forRange_eq_iter_inv (fun (i : Int) (st : IntArr) => Gen.P.shift_loop1_body t0 (p.length : Int) i st) (sweepStep t0 p.length)
    (fun _ s => s.length = p.length) p.length 0 p
    (fun i s hs h0 h1 => gen_shift_body t0 p.length i s hs h0 (by omega))
    (fun i s hs _ _ => sweepStep_length t0 p.length i s hs) rfl
  rw [h, sweep_all]

/-- **the regenerated `Poly1DType.shift` is Spec.Poly.shift over the integers**: the sweeps `out[index:siz-1] -= t_0*out[index+1:siz]` for
    index = siz-1 .. 0, the scaling by `alpha ** arange(size)` and the two fast-path guards, for coefficient lists of every length -/
theorem gen_shift (p : List Int) (t0 alpha : Int) : Gen.P.shift p t0 alpha = .ok (shift t0 alpha p) := by
  unfold Gen.P.shift shift
  have hloop := gen_shift_loop t0 p
  have hlen := Props.C16.shift0_length t0 p
  have gs1 := gen_scale alpha (shift0 t0 p)
  have gs2 := gen_scale alpha p
  simp only [bind, Except.bind, hlen] at gs1 gs2
  simp only [Int.toNat_natCast]
  by_cases ht : t0 = 0 <;> by_cases hp : p.length > 1 <;> by_cases ha : alpha = 1 <;>
    (have hpi : ((p.length : Int) > 1) = (p.length > 1) := by simp) <;>
    simp [ht, hp, ha, hpi, hloop, hlen, bind, Except.bind, pure, Except.pure] <;>
    (cases hpw : arrPow alpha (arange (p.length : Int)) with
      | error e => simp [hpw] at gs2
      | ok v => simp only [hpw] at gs1 gs2 ⊢; simp [gs1, gs2])

/-- **Props/C16.eval_shift for the regenerated code**: whatever list `Poly1DType.shift` returns on integer coefficients, evaluating it at
    `t` gives the original polynomial at `alpha * t - t_0` (every length, every `t_0`, `alpha`, incl. the fast paths) -/
theorem gen_shift_eval (p : List Int) (t0 alpha t : Int) :
    ∃ q, Gen.P.shift p t0 alpha = .ok q ∧ eval q t = eval p (alpha * t - t0) ∧ q.length = p.length :=
  ⟨_, gen_shift p t0 alpha, Props.C16.eval_shift t0 alpha p t, shift_length t0 alpha p⟩


/-! ### Poly1DType.derivative -/

/-- the regenerated method is the call of numpy's `polyder` (helper `Spec.Poly.polyder`; its reading of numpy is tied by correspondence) -/
theorem gen_derivative (p : List Int) (m : Int) : Gen.P.derivative p m = polyder p m := by
  unfold Gen.P.derivative
  cases polyder p m <;> rfl

/-- for a non-negative order the returned coefficients evaluate to the analytic derivative (Props/C16.eval_derN) -/
theorem gen_derivative_eval (p : List Int) (m : Nat) (x : Int) :
    ∃ q, Gen.P.derivative p (m : Int) = .ok q ∧ eval q x = ((Polynomial.derivative^[m]) (Props.C16.toPoly p)).eval x := by
  rw [gen_derivative]
  have hm : ¬ ((m : Int) < 0) := by omega
  simp only [polyder, hm, if_false, Int.toNat_natCast, pure, Except.pure]
  refine ⟨_, rfl, ?_⟩
  rw [← Props.C16.eval_derN]
  split
  · rename_i h; rw [h]; simp [eval]
  · rfl

/-! ### Poly1DType.minimize_order -/

/-- indices (counted from `o`) of the non-zero coefficients -/
def nzIdx : Int → List Int → List Int
  | _, [] => []
  | o, c :: l => if c != 0 then o :: nzIdx (o + 1) l else nzIdx (o + 1) l

theorem mask_eq_nzIdx (o : Nat) (l : List Int) :
    (((List.range' o l.length).map (fun (k : Nat) => (k : Int))).zip (arrNe l 0)).filterMap (fun p => if p.2 then some p.1 else none) = nzIdx o l := by
  induction l generalizing o with
  | nil => rfl
  | cons c rest ih =>
    have := ih (o + 1)
    simp only [arrNe] at this
    simp only [List.length_cons, List.range'_succ, List.map_cons, arrNe, List.zip_cons_cons, List.filterMap_cons, nzIdx]
    by_cases hc : c = 0
    · simp [hc, this]
    · simp [hc]; exact this

theorem nzIdx_ge (o : Int) (l : List Int) : ∀ x ∈ nzIdx o l, o ≤ x := by
  induction l generalizing o with
  | nil => simp [nzIdx]
  | cons c rest ih =>
    intro x hx
    simp only [nzIdx] at hx
    split at hx
    · rcases List.mem_cons.1 hx with rfl | h
      · omega
      · have := ih (o + 1) x h; omega
    · have := ih (o + 1) x hx; omega

theorem nzIdx_nil_iff (o : Int) (l : List Int) : nzIdx o l = [] ↔ dropTrailingZeros l = [] := by
  induction l generalizing o with
  | nil => simp [nzIdx, dropTrailingZeros]
  | cons c rest ih =>
    simp only [nzIdx, dropTrailingZeros]
    by_cases hc : c = 0
    · simp [hc, ih (o + 1)]
    · simp [hc]

theorem any_false_iff (l : List Int) : (arrNe l 0).any id = false ↔ dropTrailingZeros l = [] := by
  induction l with
  | nil => simp [arrNe, dropTrailingZeros]
  | cons c rest ih =>
    simp only [arrNe, List.map_cons, List.any_cons, dropTrailingZeros] at ih ⊢
    by_cases hc : c = 0
    · simp [hc]; simpa using ih
    · simp [hc]

theorem foldl_max_of_le (l : List Int) (a b : Int) (hab : a ≤ b) (hl : ∀ x ∈ l, a ≤ x) : l.foldl max (max a b) = l.foldl max b := by
  rw [Int.max_eq_right hab]

theorem nzIdx_max (o : Int) (l : List Int) (a : Int) (rest : List Int) (h : nzIdx o l = a :: rest) :
    rest.foldl max a = o + (dropTrailingZeros l).length - 1 := by
  induction l generalizing o a rest with
  | nil => simp [nzIdx] at h
  | cons c l' ih =>
    simp only [nzIdx] at h
    by_cases hc : c = 0
    · simp only [hc, bne_self_eq_false, Bool.false_eq_true, if_false] at h
      have hne : dropTrailingZeros l' ≠ [] := by
        intro hn; rw [(nzIdx_nil_iff (o + 1) l').2 hn] at h; simp at h
      have := ih (o + 1) a rest h
      simp only [dropTrailingZeros, hne, false_and, if_false, List.length_cons]
      rw [this]; push_cast; ring
    · have hb : (c != 0) = true := by simpa using hc
      simp only [hb, if_true, List.cons.injEq] at h
      obtain ⟨ha, hr⟩ := h
      subst ha
      cases hrest : nzIdx (o + 1) l' with
      | nil =>
        rw [hrest] at hr; subst hr
        have := (nzIdx_nil_iff (o + 1) l').1 hrest
        simp [dropTrailingZeros, this, hc]
      | cons b r' =>
        rw [hrest] at hr; subst hr
        have hge := nzIdx_ge (o + 1) l' b (by rw [hrest]; simp)
        have hne : dropTrailingZeros l' ≠ [] := by
          intro hn; rw [(nzIdx_nil_iff (o + 1) l').2 hn] at hrest; simp at hrest
        have := ih (o + 1) b r' hrest
        simp only [List.foldl_cons, dropTrailingZeros, hne, false_and, if_false, List.length_cons]
        rw [Int.max_eq_right (by omega), this]; push_cast; ring

theorem dropTrailingZeros_take (l : List Int) : dropTrailingZeros l = l.take (dropTrailingZeros l).length := by
  induction l with
  | nil => rfl
  | cons c rest ih =>
    simp only [dropTrailingZeros]
    split
    · simp
    · simp only [List.length_cons, List.take_succ_cons]; rw [← ih]

theorem dropTrailingZeros_length_le (l : List Int) : (dropTrailingZeros l).length ≤ l.length := by
  induction l with
  | nil => simp [dropTrailingZeros]
  | cons c rest ih => simp only [dropTrailingZeros]; split <;> simp <;> omega


theorem arrSlice_none_some {α : Type} (l : List α) (b : Nat) (hb : b ≤ l.length) : arrSlice l none (some (b : Int)) = l.take b := by
  unfold arrSlice
  have e2 : npStopPos (l.length : Int) (some (b : Int)) = b := by
    show npClamp (l.length : Int) (b : Int) 0 (l.length : Int) = b
    exact npClamp_id _ _ (by omega) (by omega)
  simp [npStartPos, e2]

/-- **the regenerated `Poly1DType.minimize_order` is Spec.Poly.minimize over the integers** (boolean mask of the non-zero coefficients,
    largest selected index, the three cases of the source), for non-empty coefficient lists of every length -/
theorem gen_minimize_order (p : List Int) (hp : p ≠ []) : Gen.P.minimize_order p = .ok (minimize p) := by
  unfold Gen.P.minimize_order minimize
  by_cases hz : dropTrailingZeros p = []
  · have := (any_false_iff p).2 hz
    simp [this, hz, pure, Except.pure]
  · have hany : (arrNe p 0).any id = true := by
      cases h : (arrNe p 0).any id with
      | true => rfl
      | false => exact absurd ((any_false_iff p).1 h) hz
    have hmask : arrMask (arange (p.length : Int)) (arrNe p 0) = .ok (nzIdx 0 p) := by
      have := mask_eq_nzIdx 0 p
      simp only [arrMask, arange, Int.toNat_natCast, List.length_map, List.length_range, arrNe, if_true, pure, Except.pure]
      rw [List.range_eq_range']
      simp only [arrNe] at this
      simpa using this
    cases hidx : nzIdx 0 p with
    | nil => exact absurd ((nzIdx_nil_iff 0 p).1 hidx) hz
    | cons a rest =>
      have hmax := nzIdx_max 0 p a rest hidx
      have hk := dropTrailingZeros_length_le p
      have hkpos : 0 < (dropTrailingZeros p).length := List.length_pos_iff.2 hz
      have htake := dropTrailingZeros_take p
      simp only [hany, Bool.not_true, Bool.false_eq_true, if_false, hmask, hidx, arrMax, hmax, bind, Except.bind, pure, Except.pure, hz]
      by_cases h1 : (dropTrailingZeros p).length = p.length
      · have e : ((0 : Int) + ((dropTrailingZeros p).length : Int) - 1 == (p.length : Int) - 1) = true := by simp; omega
        simp only [e, if_true]
        rw [htake, h1, List.take_length]
      · have e : ((0 : Int) + ((dropTrailingZeros p).length : Int) - 1 == (p.length : Int) - 1) = false := by
          rw [beq_eq_false_iff_ne]; omega
        simp only [e, Bool.false_eq_true, if_false]
        by_cases h2 : (dropTrailingZeros p).length = 1
        · have e2 : ((0 : Int) + ((dropTrailingZeros p).length : Int) - 1 == 0) = true := by simp [h2]
          obtain ⟨c, l', rfl⟩ := List.exists_cons_of_ne_nil hp
          have hpi : pyIndex (c :: l') (0 : Int) = .ok c := pyIndex_ok _ 0 c (by omega) (by simp)
          simp only [e2, if_true, hpi]
          rw [htake, h2]; rfl
        · have e2 : ((0 : Int) + ((dropTrailingZeros p).length : Int) - 1 == 0) = false := by
            rw [beq_eq_false_iff_ne]; omega
          simp only [e2, Bool.false_eq_true, if_false]
          have e3 : (0 : Int) + ((dropTrailingZeros p).length : Int) - 1 + 1 = (((dropTrailingZeros p).length : Nat) : Int) := by omega
          rw [e3, arrSlice_none_some p _ hk, ← htake]

/-- order minimisation of the regenerated code never changes a value and never returns an empty array (Props/C16.eval_minimize) -/
theorem gen_minimize_eval (p : List Int) (hp : p ≠ []) (x : Int) :
    ∃ q, Gen.P.minimize_order p = .ok q ∧ eval q x = eval p x ∧ q ≠ [] :=
  ⟨_, gen_minimize_order p hp, Props.C16.eval_minimize p x, Props.C16.minimize_nonempty p⟩

example : Gen.P.shift [1, -4, 0, 5] 2 3 = .ok [-31, 168, -270, 135] := by decide
example : Gen.P.minimize_order [1, 2, 0, 0] = .ok [1, 2] ∧ Gen.P.minimize_order [0, 0] = .ok [0] ∧ Gen.P.minimize_order [3, 0] = .ok [3] := by decide
example : Gen.P.derivative [1, 2, 3, 4] 2 = .ok [6, 24] ∧ Gen.P.derivative [1, 2] (-1) = .error "ValueError" := by decide

/-! ### Poly2DType.shift: columns (the sweep inside every row) -/

/-- the sweep statement on one row, as an expression of the array prelude (what `gen_shift_body` proves about the 1-D loop body) -/
theorem sweep_row (t0 : Int) (n : Nat) (i : Int) (l : List Int) (hl : l.length = n) (h0 : 0 < i) (h1 : i < n) :
    (arrZip (fun x y => x - y) (arrSlice l (some ((n : Int) - i - 1)) (some ((n : Int) - 1)))
        (arrScale t0 (arrSlice l (some ((n : Int) - i - 1 + 1)) (some (n : Int)))) >>= fun v =>
      arrSetSlice l (some ((n : Int) - i - 1)) (some ((n : Int) - 1)) v) = .ok (sweepStep t0 n i l) := by
  have hi : i > 0 := h0
  unfold sweepStep
  simp only [hi, if_true]
  have hj : ((n : Int) - i - 1) = ((n - 1 - i.toNat : Nat) : Int) := by omega
  have hj' : ((n : Int) - 1 - i) = ((n - 1 - i.toNat : Nat) : Int) := by omega
  have hj'' : (((n - 1 : Nat) : Int) - i) = ((n - 1 - i.toNat : Nat) : Int) := by omega
  have hn1 : ((n : Int) - 1) = ((n - 1 : Nat) : Int) := by omega
  have hj1 : ((n - 1 - i.toNat : Nat) : Int) + 1 = ((n - 1 - i.toNat + 1 : Nat) : Int) := by push_cast; rfl
  simp only [hj, hj', hn1, hj'', hj1]
  rw [arrSlice_eq l _ _ (by omega) (by omega), arrSlice_eq l _ _ (by omega) (by omega)]
  have hlen : ((l.drop (n - 1 - i.toNat)).take (n - 1 - (n - 1 - i.toNat))).length = (arrScale t0 ((l.drop (n - 1 - i.toNat + 1)).take (n - (n - 1 - i.toNat + 1)))).length := by
    simp [arrScale]; omega
  simp only [arrZip, hlen, if_true, bind, Except.bind, pure, Except.pure]
  rw [arrSetSlice_eq l _ _ _ (by omega) (by omega) (by simp [arrScale]; omega)]
  simp only [List.append_assoc]
  congr 2
  have hs : 0 < (l.drop (n - 1 - i.toNat)).length := by simp; omega
  rw [pass_zip t0 _ hs]
  have e1 : (l.drop (n - 1 - i.toNat)).length - 1 = n - 1 - (n - 1 - i.toNat) := by simp; omega
  have e2 : (l.drop (n - 1 - i.toNat)).drop 1 = (l.drop (n - 1 - i.toNat + 1)).take (n - (n - 1 - i.toNat + 1)) := by
    rw [List.drop_drop, List.take_of_length_le (by simp; omega)]
  have e3 : (l.drop (n - 1 - i.toNat)).drop ((l.drop (n - 1 - i.toNat)).length - 1) = l.drop (n - 1) := by
    rw [List.drop_drop, e1]; congr 1; omega
  rw [e3, e1, ← e2]
  congr 1
  simp only [arrScale, List.zipWith_map_right]

theorem sameShape_map (M : IntArr2) (f g : List Int → List Int) (h : ∀ r ∈ M, (f r).length = (g r).length) :
    sameShape (M.map f) (M.map g) = true := by
  simp only [sameShape, List.length_map, beq_self_eq_true, Bool.true_and, List.all_eq_true]
  intro p hp
  rw [List.zip_map, List.mem_map] at hp
  obtain ⟨⟨a, b⟩, hab, rfl⟩ := hp
  have : a = b := by
    have := List.of_mem_zip hab
    clear h
    induction M with
    | nil => simp at hab
    | cons x xs ih =>
      simp only [List.zip_cons_cons, List.mem_cons, Prod.mk.injEq] at hab
      rcases hab with ⟨rfl, rfl⟩ | h'
      · rfl
      · exact ih h' (List.of_mem_zip h')
  subst this
  simp [h a (List.of_mem_zip hab).1]

theorem zipWith_map_map {β : Type} (M : List β) (f : List Int → List Int → List Int) (g h : β → List Int) :
    List.zipWith f (M.map g) (M.map h) = M.map (fun r => f (g r) (h r)) := by
  induction M with
  | nil => rfl
  | cons x xs ih => simp [ih]

theorem mapM_zip_map (M : IntArr2) (k F : List Int → List Int) (a b : Option Int)
    (h : ∀ r ∈ M, arrSetSlice r a b (k r) = .ok (F r)) :
    (M.zip (M.map k)).mapM (fun p => arrSetSlice p.1 a b p.2) = .ok (M.map F) := by
  induction M with
  | nil => rfl
  | cons x xs ih =>
    have hx := h x (by simp)
    have hxs := ih (fun r hr => h r (by simp [hr]))
    simp only [List.map_cons, List.zip_cons_cons, List.mapM_cons, hx, hxs, bind, Except.bind, pure, Except.pure]

/-- regenerated body of the column sweep (`out[:, index:siz-1] -= t2_shift*out[:, index+1:siz]`): the 1-D sweep step inside every row -/
theorem gen_shift2_cols_body (t0 : Int) (m : Nat) (i : Int) (M : IntArr2) (hM : ∀ r ∈ M, r.length = m) (h0 : 0 ≤ i) (h1 : i < m) :
    Gen.P.shift2_loop2_body t0 (m : Int) i M = .ok (M.map (sweepStep t0 m i)) := by
  unfold Gen.P.shift2_loop2_body
  by_cases hi : i > 0
  · simp only [hi, decide_true, if_true, arr2SliceCols, arr2Scale, List.map_map]
    have hrow : ∀ r ∈ M, (arrSlice r (some ((m : Int) - i - 1)) (some ((m : Int) - 1))).length =
        ((arrScale t0 ∘ fun r => arrSlice r (some ((m : Int) - i - 1 + 1)) (some (m : Int))) r).length := by
      intro r hr
      have hl := hM r hr
      have hj : ((m : Int) - i - 1) = ((m - 1 - i.toNat : Nat) : Int) := by omega
      have hj' : ((m : Int) - 1 - i) = ((m - 1 - i.toNat : Nat) : Int) := by omega
      have hj'' : (((m - 1 : Nat) : Int) - i) = ((m - 1 - i.toNat : Nat) : Int) := by omega
      have hn1 : ((m : Int) - 1) = ((m - 1 : Nat) : Int) := by omega
      have hj1 : ((m - 1 - i.toNat : Nat) : Int) + 1 = ((m - 1 - i.toNat + 1 : Nat) : Int) := by push_cast; rfl
      simp only [Function.comp, hj, hj', hn1, hj'', hj1, arrScale, List.length_map]
      rw [arrSlice_eq r _ _ (by omega) (by omega), arrSlice_eq r _ _ (by omega) (by omega)]
      simp; omega
    have hs1 := sameShape_map M _ _ hrow
    simp only [arr2Zip, hs1, if_true, bind, Except.bind, pure, Except.pure, zipWith_map_map]
    have hset : ∀ r ∈ M, arrSetSlice r (some ((m : Int) - i - 1)) (some ((m : Int) - 1))
        (List.zipWith (fun x y => x - y) (arrSlice r (some ((m : Int) - i - 1)) (some ((m : Int) - 1)))
          ((arrScale t0 ∘ fun r => arrSlice r (some ((m : Int) - i - 1 + 1)) (some (m : Int))) r)) = .ok (sweepStep t0 m i r) := by
      intro r hr
      have := sweep_row t0 m i r (hM r hr) hi h1
      simp only [arrZip, hrow r hr, Function.comp] at this
      simpa [bind, Except.bind, pure, Except.pure, Function.comp] using this
    have hlen2 : ∀ r ∈ M, (arrSlice r (some ((m : Int) - i - 1)) (some ((m : Int) - 1))).length =
        (List.zipWith (fun x y => x - y) (arrSlice r (some ((m : Int) - i - 1)) (some ((m : Int) - 1)))
          ((arrScale t0 ∘ fun r => arrSlice r (some ((m : Int) - i - 1 + 1)) (some (m : Int))) r)).length := by
      intro r hr; simp [hrow r hr]
    have hs2 := sameShape_map M _ _ hlen2
    simp only [arr2SetCols, arr2SliceCols, hs2, if_true]
    rw [mapM_zip_map M _ _ _ _ hset]
  · have : ∀ r : List Int, sweepStep t0 m i r = r := by intro r; simp [sweepStep, hi]
    have hm : M.map (sweepStep t0 m i) = M := by
      rw [show sweepStep t0 m i = id from funext this]; simp
    simp [hi, hm, pure, Except.pure]


theorem iterRange_map (f : Int → List Int → List Int) (k : Nat) (i : Int) (M : IntArr2) :
    iterRange (fun j (N : IntArr2) => N.map (f j)) k i M = M.map (iterRange f k i) := by
  induction k generalizing i M with
  | zero => simp [iterRange]
  | succ k ih => simp only [iterRange, ih, List.map_map]; rfl

/-- the column loop re-centres every row -/
theorem gen_shift2_cols_loop (t0 : Int) (m : Nat) (M : IntArr2) (hM : ∀ r ∈ M, r.length = m) :
    forRange (fun (i : Int) (st : IntArr2) => Gen.P.shift2_loop2_body t0 (m : Int) i st) m 0 M = .ok (M.map (shift0 t0)) := by
  have h := forRange_eq_iter_inv (fun (i : Int) (st : IntArr2) => Gen.P.shift2_loop2_body t0 (m : Int) i st)
    (fun j (N : IntArr2) => N.map (sweepStep t0 m j)) (fun _ N => ∀ r ∈ N, r.length = m) m 0 M
    (fun i N hN h0 h1 => gen_shift2_cols_body t0 m i N hN h0 (by omega))
    (fun i N hN _ _ => by
      intro r hr
      obtain ⟨r', hr', rfl⟩ := List.mem_map.1 hr
      exact sweepStep_length t0 m i r' (hN r' hr')) hM
  rw [h, iterRange_map]
  congr 1
  apply List.map_congr_left
  intro r hr
  have := sweep_all t0 r
  rw [hM r hr] at this
  exact this


/-! ### Poly2DType.shift: rows -/

theorem pass2_zip (t0 : Int) (s : IntArr2) (hs : 0 < s.length) :
    pass2 t0 s = List.zipWith (rowSubScaled t0) (s.take (s.length - 1)) (s.drop 1) ++ s.drop (s.length - 1) := by
  induction s with
  | nil => simp at hs
  | cons a rest ih =>
    cases rest with
    | nil => simp [pass2]
    | cons b rest' =>
      have := ih (by simp)
      simp only [List.length_cons, Nat.add_sub_cancel, List.drop_succ_cons, List.drop_zero] at this ⊢
      simp only [pass2, List.take_succ_cons, List.zipWith_cons_cons, List.cons_append, List.cons.injEq, true_and]
      rw [this]

def sweepStep2 (t0 : Int) (n : Nat) (i : Int) (l : IntArr2) : IntArr2 :=
  if i > 0 then l.take (n - 1 - i.toNat) ++ pass2 t0 (l.drop (n - 1 - i.toNat)) else l

theorem pass2_length (t0 : Int) (s : IntArr2) : (pass2 t0 s).length = s.length := by
  induction s with
  | nil => rfl
  | cons a rest ih => cases rest with
    | nil => rfl
    | cons b r => simp only [pass2, List.length_cons] at ih ⊢; omega

theorem pass2_rect (t0 : Int) (m : Nat) (s : IntArr2) (hs : ∀ r ∈ s, r.length = m) : ∀ r ∈ pass2 t0 s, r.length = m := by
  induction s with
  | nil => simp [pass2]
  | cons a rest ih => cases rest with
    | nil => simpa [pass2] using hs
    | cons b r =>
      intro x hx
      simp only [pass2, List.mem_cons] at hx
      rcases hx with rfl | hx
      · simp [rowSubScaled, hs a (by simp), hs b (by simp)]
      · exact ih (fun y hy => hs y (by simp [hy])) x (by simpa [List.mem_cons] using hx)

theorem sweepStep2_inv (t0 : Int) (n m : Nat) (i : Int) (l : IntArr2) (hl : l.length = n ∧ ∀ r ∈ l, r.length = m) :
    (sweepStep2 t0 n i l).length = n ∧ ∀ r ∈ sweepStep2 t0 n i l, r.length = m := by
  unfold sweepStep2
  split
  · refine ⟨by simp [pass2_length, hl.1]; omega, ?_⟩
    intro r hr
    rcases List.mem_append.1 hr with h | h
    · exact hl.2 r (List.mem_of_mem_take h)
    · exact pass2_rect t0 m _ (fun y hy => hl.2 y (List.mem_of_mem_drop hy)) r h
  · exact hl

theorem sameShape_rect (A B : IntArr2) (m : Nat) (hlen : A.length = B.length) (hA : ∀ r ∈ A, r.length = m) (hB : ∀ r ∈ B, r.length = m) :
    sameShape A B = true := by
  simp only [sameShape, hlen, beq_self_eq_true, Bool.true_and, List.all_eq_true]
  intro p hp
  have := List.of_mem_zip hp
  simp [hA p.1 this.1, hB p.2 this.2]

/-- regenerated body of the row sweep (`out[index:siz-1, :] -= t1_shift*out[index+1:siz, :]`) = `pass2` on the suffix of rows -/
theorem gen_shift2_rows_body (t0 : Int) (n m : Nat) (i : Int) (l : IntArr2) (hl : l.length = n ∧ ∀ r ∈ l, r.length = m) (h0 : 0 ≤ i) (h1 : i < n) :
    Gen.P.shift2_loop1_body t0 (n : Int) i l = .ok (sweepStep2 t0 n i l) := by
  obtain ⟨hln, hrect⟩ := hl
  unfold Gen.P.shift2_loop1_body sweepStep2
  by_cases hi : i > 0
  · have hj : ((n : Int) - i - 1) = ((n - 1 - i.toNat : Nat) : Int) := by omega
    have hj' : ((n : Int) - 1 - i) = ((n - 1 - i.toNat : Nat) : Int) := by omega
    have hj'' : (((n - 1 : Nat) : Int) - i) = ((n - 1 - i.toNat : Nat) : Int) := by omega
    have hn1 : ((n : Int) - 1) = ((n - 1 : Nat) : Int) := by omega
    have hj1 : ((n - 1 - i.toNat : Nat) : Int) + 1 = ((n - 1 - i.toNat + 1 : Nat) : Int) := by push_cast; rfl
    simp only [hi, decide_true, if_true, hj, hj', hn1, hj'', hj1, arr2SliceRows]
    rw [arrSlice_eq l _ _ (by omega) (by omega), arrSlice_eq l _ _ (by omega) (by omega)]
    have hA : ∀ r ∈ (l.drop (n - 1 - i.toNat)).take (n - 1 - (n - 1 - i.toNat)), r.length = m :=
      fun r hr => hrect r (List.mem_of_mem_drop (List.mem_of_mem_take hr))
    have hB : ∀ r ∈ arr2Scale t0 ((l.drop (n - 1 - i.toNat + 1)).take (n - (n - 1 - i.toNat + 1))), r.length = m := by
      intro r hr
      simp only [arr2Scale, List.mem_map] at hr
      obtain ⟨r', hr', rfl⟩ := hr
      simp [arrScale, hrect r' (List.mem_of_mem_drop (List.mem_of_mem_take hr'))]
    have hlenAB : ((l.drop (n - 1 - i.toNat)).take (n - 1 - (n - 1 - i.toNat))).length =
        (arr2Scale t0 ((l.drop (n - 1 - i.toNat + 1)).take (n - (n - 1 - i.toNat + 1)))).length := by
      simp [arr2Scale]; omega
    have hs1 := sameShape_rect _ _ m hlenAB hA hB
    simp only [arr2Zip, hs1, if_true, bind, Except.bind, pure, Except.pure]
    have hV : ∀ r ∈ List.zipWith (List.zipWith fun x y => x - y) ((l.drop (n - 1 - i.toNat)).take (n - 1 - (n - 1 - i.toNat)))
        (arr2Scale t0 ((l.drop (n - 1 - i.toNat + 1)).take (n - (n - 1 - i.toNat + 1)))), r.length = m := by
      intro r hr
      rw [List.mem_iff_getElem] at hr
      obtain ⟨k, hk, rfl⟩ := hr
      simp only [List.getElem_zipWith, List.length_zipWith]
      rw [hA _ (List.getElem_mem _), hB _ (List.getElem_mem _)]; simp
    have hlenV : ((l.drop (n - 1 - i.toNat)).take (n - 1 - (n - 1 - i.toNat))).length =
        (List.zipWith (List.zipWith fun x y => x - y) ((l.drop (n - 1 - i.toNat)).take (n - 1 - (n - 1 - i.toNat)))
        (arr2Scale t0 ((l.drop (n - 1 - i.toNat + 1)).take (n - (n - 1 - i.toNat + 1))))).length := by
      simp [hlenAB]
    have hs2 := sameShape_rect _ _ m hlenV hA hV
    have hsl : arrSlice l (some ((n - 1 - i.toNat : Nat) : Int)) (some ((n - 1 : Nat) : Int)) =
        (l.drop (n - 1 - i.toNat)).take (n - 1 - (n - 1 - i.toNat)) := arrSlice_eq l _ _ (by omega) (by omega)
    simp only [arr2SetRows, arr2SliceRows, hsl, hs2, if_true]
    rw [arrSetSlice_eq l _ _ _ (by omega) (by omega) (by simp [arr2Scale]; omega)]
    simp only [List.append_assoc]
    congr 2
    have hs : 0 < (l.drop (n - 1 - i.toNat)).length := by simp; omega
    rw [pass2_zip t0 _ hs]
    have e1 : (l.drop (n - 1 - i.toNat)).length - 1 = n - 1 - (n - 1 - i.toNat) := by simp; omega
    have e2 : (l.drop (n - 1 - i.toNat)).drop 1 = (l.drop (n - 1 - i.toNat + 1)).take (n - (n - 1 - i.toNat + 1)) := by
      rw [List.drop_drop, List.take_of_length_le (by simp; omega)]
    have e3 : (l.drop (n - 1 - i.toNat)).drop ((l.drop (n - 1 - i.toNat)).length - 1) = l.drop (n - 1) := by
      rw [List.drop_drop, e1]; congr 1; omega
    rw [e3, e1, ← e2]
    congr 1
    simp only [arr2Scale, List.zipWith_map_right]
    congr 1
    funext a b
    simp [rowSubScaled, arrScale, List.zipWith_map_right]
  · simp [hi]; rfl

theorem shift022_single (t0 : Int) (a : List Int) : shift02 t0 [a] = [a] := by simp [shift02, pass2]

/-- Spec level: after `k` rounds the last `k` coefficients are re-centred (`shift02` of the suffix), the others untouched -/
theorem sweep_iter2 (t0 : Int) (p : IntArr2) (k : Nat) (hk : k ≤ p.length) :
    iterRange (sweepStep2 t0 p.length) k 0 p = p.take (p.length - k) ++ shift02 t0 (p.drop (p.length - k)) := by
  induction k with
  | zero => simp [iterRange, shift02]
  | succ k ih =>
    rw [iterRange_succ_last, ih (by omega)]
    simp only [Int.zero_add]
    unfold sweepStep2
    by_cases hk0 : k = 0
    · subst hk0
      have hne : p ≠ [] := by intro h; subst h; simp at hk
      have hd : p.drop (p.length - (0 + 1)) = [p.getLast hne] := by
        rw [List.drop_length_sub_one hne]
      simp [hd, shift022_single, shift02]
    · have hpos : ((k : Nat) : Int) > 0 := by omega
      simp only [hpos, if_true, Int.toNat_natCast]
      have e1 : p.length - 1 - k = p.length - (k + 1) := by omega
      rw [e1]
      have hlt : p.length - (k + 1) < p.length := by omega
      have hlen : (p.take (p.length - k)).length = p.length - k := by simp
      have ht : (p.take (p.length - k) ++ shift02 t0 (p.drop (p.length - k))).take (p.length - (k + 1)) = p.take (p.length - (k + 1)) := by
        rw [List.take_append_of_le_length (by simp; omega), List.take_take]; congr 1; omega
      have hd : (p.take (p.length - k) ++ shift02 t0 (p.drop (p.length - k))).drop (p.length - (k + 1)) =
          p[p.length - (k + 1)] :: shift02 t0 (p.drop (p.length - k)) := by
        rw [List.drop_append_of_le_length (by simp; omega)]
        have : (p.take (p.length - k)).drop (p.length - (k + 1)) = [p[p.length - (k + 1)]] := by
          rw [List.drop_take]
          have : p.length - k - (p.length - (k + 1)) = 1 := by omega
          rw [this, List.take_one_drop_eq_of_lt_length hlt]; rfl
        rw [this]; rfl
      rw [ht, hd]
      have hs : p.drop (p.length - (k + 1)) = p[p.length - (k + 1)] :: p.drop (p.length - k) := by
        rw [List.drop_eq_getElem_cons hlt]; congr 2; omega
      rw [hs]
      simp [shift02]

theorem sweep_all2 (t0 : Int) (p : IntArr2) : iterRange (sweepStep2 t0 p.length) p.length 0 p = shift02 t0 p := by
  have := sweep_iter2 t0 p p.length (Nat.le_refl _)
  simpa using this


theorem gen_shift2_rows_loop (t0 : Int) (m : Nat) (p : IntArr2) (hp : ∀ r ∈ p, r.length = m) :
    forRange (fun (i : Int) (st : IntArr2) => Gen.P.shift2_loop1_body t0 (p.length : Int) i st) p.length 0 p = .ok (shift02 t0 p) := by
  have h := forRange_eq_iter_inv (fun (i : Int) (st : IntArr2) => Gen.P.shift2_loop1_body t0 (p.length : Int) i st) (sweepStep2 t0 p.length)
    (fun _ N => N.length = p.length ∧ ∀ r ∈ N, r.length = m) p.length 0 p
    (fun i N hN h0 h1 => gen_shift2_rows_body t0 p.length m i N hN h0 (by omega))
    (fun i N hN _ _ => sweepStep2_inv t0 p.length m i N hN) ⟨rfl, hp⟩
  rw [h, sweep_all2]

/-! ### the two scalings -/

theorem scaleRowsAux_zip (alpha pw : Int) (M : IntArr2) :
    scaleRowsAux alpha pw M = List.zipWith arrScale ((List.range M.length).map (fun k => pw * alpha ^ k)) M := by
  induction M generalizing pw with
  | nil => rfl
  | cons row rest ih =>
    simp only [scaleRowsAux, List.length_cons, List.range_succ_eq_map, List.map_cons, List.map_map, List.zipWith_cons_cons, pow_zero, mul_one]
    rw [ih]
    congr 2
    apply List.map_congr_left
    intro k _
    simp only [Function.comp, pow_succ]
    ring

theorem arrPow_arange (alpha : Int) (n : Nat) : arrPow alpha (arange (n : Int)) = .ok ((List.range n).map (fun k => alpha ^ k)) := by
  have ha : arange (n : Int) = (List.range n).map (fun (k : Nat) => (k : Int)) := by simp [arange]
  have hany : ((List.range n).map (fun (k : Nat) => (k : Int))).any (fun k => decide (k < 0)) = false := by simp [List.any_eq_false]
  simp [arrPow, ha, hany, pure, Except.pure, List.map_map, Function.comp_def]

theorem gen_scale_rows (alpha : Int) (M : IntArr2) :
    (arrPow alpha (arange (M.length : Int)) >>= fun c => arr2MulCol c M) = .ok (scaleRowsAux alpha 1 M) := by
  rw [arrPow_arange]
  simp only [bind, Except.bind, arr2MulCol, List.length_map, List.length_range, if_true, pure, Except.pure]
  rw [scaleRowsAux_zip]
  simp

theorem gen_scale_cols (alpha : Int) (m : Nat) (M : IntArr2) (hM : ∀ r ∈ M, r.length = m) :
    (arrPow alpha (arange (m : Int)) >>= fun v => arr2MulRow M v) = .ok (M.map (scale alpha)) := by
  rw [arrPow_arange]
  have hall : M.all (fun r => r.length == ((List.range m).map (fun k => alpha ^ k)).length) = true := by
    simp only [List.all_eq_true, List.length_map, List.length_range, beq_iff_eq]
    exact hM
  simp only [bind, Except.bind, arr2MulRow, hall, if_true, pure, Except.pure]
  congr 1
  apply List.map_congr_left
  intro r hr
  rw [scale, scaleAux_zip, hM r hr]
  simp

/-! ### Poly2DType.shift -/

theorem bind_ok_of {ε α β : Type} (x : Except ε α) (f : α → Except ε β) (a : α) (r : Except ε β) (hx : x = .ok a) (hf : f a = r) :
    (x >>= f) = r := by subst hx; exact hf

def Rect (n m : Nat) (M : IntArr2) : Prop := M.length = n ∧ ∀ r ∈ M, r.length = m

theorem rect_shift02 (t0 : Int) (n m : Nat) (M : IntArr2) (h : Rect n m M) : Rect n m (shift02 t0 M) := by
  have h2 := (Props.C16.shift02_spec t0 M m h.2 0).1
  refine ⟨?_, h2⟩
  have : ∀ N : IntArr2, (shift02 t0 N).length = N.length := by
    intro N
    induction N with
    | nil => rfl
    | cons a rest ih => simp [shift02, pass2_length, ih]
  rw [this, h.1]

theorem rect_scaleRows (alpha pw : Int) (n m : Nat) (M : IntArr2) (h : Rect n m M) : Rect n m (scaleRowsAux alpha pw M) := by
  rw [scaleRowsAux_zip]
  refine ⟨by simp [h.1], ?_⟩
  intro r hr
  rw [List.mem_iff_getElem] at hr
  obtain ⟨k, hk, rfl⟩ := hr
  simp [arrScale, h.2 _ (List.getElem_mem _)]

theorem rect_map (f : List Int → List Int) (hf : ∀ r, (f r).length = r.length) (n m : Nat) (M : IntArr2) (h : Rect n m M) : Rect n m (M.map f) := by
  refine ⟨by simp [h.1], ?_⟩
  intro r hr
  obtain ⟨r', hr', rfl⟩ := List.mem_map.1 hr
  rw [hf, h.2 r' hr']

theorem rect_cols (n m : Nat) (M : IntArr2) (hn : 0 < n) (h : Rect n m M) : arr2Cols M = (m : Int) := by
  obtain ⟨r, rest, rfl⟩ := List.exists_cons_of_ne_nil (List.ne_nil_of_length_pos (by rw [h.1]; exact hn))
  simp [arr2Cols, h.2 r (by simp)]

theorem scale_length (alpha : Int) (r : List Int) : (scale alpha r).length = r.length := scaleAux_length alpha 1 r

/-- **the regenerated `Poly2DType.shift` is Spec.Poly.shift2 over the integers**, for every rectangular coefficient array with at least one
    row: the row sweep, the row scaling (`power(...)[:, newaxis] * out`), the column sweep inside every row, the column scaling, and the
    four fast-path guards -/
theorem gen_shift2 (p : IntArr2) (n m : Nat) (hn : 0 < n) (hp : Rect n m p) (s1 a1 s2 a2 : Int) :
    Gen.P.shift2 p s1 a1 s2 a2 = .ok (shift2 s1 a1 s2 a2 p) := by
  unfold Gen.P.shift2 shift2
  have hrows : ∀ M : IntArr2, Rect n m M → arr2Rows M = (n : Int) := fun M h => by simp [arr2Rows, h.1]
  -- stage 1: rows re-centred
  let o1 := if s1 ≠ 0 ∧ p.length > 1 then shift02 s1 p else p
  have ho1 : Rect n m o1 := by
    show Rect n m (if s1 ≠ 0 ∧ p.length > 1 then shift02 s1 p else p)
    split
    · exact rect_shift02 s1 n m p hp
    · exact hp
  refine bind_ok_of _ _ ((if s1 ≠ 0 ∧ p.length > 1 then (n : Int) else 0), o1) _ ?_ ?_
  · have hl := gen_shift2_rows_loop s1 m p hp.2
    rw [hp.1] at hl
    by_cases h : s1 ≠ 0 ∧ p.length > 1
    · have hg : ((s1 != 0) && decide (arr2Rows p > 1)) = true := by
        rw [hrows p hp]; simp [h.1]; have := h.2; rw [hp.1] at this; omega
      have hn1 : 1 < n := by have := h.2; rw [hp.1] at this; exact this
      simp [hg, hrows p hp, hl, bind, Except.bind, pure, Except.pure, h.1, hn1, hp.1, o1]
    · have hg : ((s1 != 0) && decide (arr2Rows p > 1)) = false := by
        rw [hrows p hp]
        by_cases h1 : s1 = 0
        · simp [h1]
        · have : ¬ p.length > 1 := fun h2 => h ⟨h1, h2⟩
          rw [hp.1] at this; simp [h1]; omega
      simp only [hg, Bool.false_eq_true, if_false, pure, Except.pure, h, o1]
  -- stage 2: rows scaled
  simp only
  let o2 := if a1 ≠ 1 ∧ o1.length > 1 then scaleRowsAux a1 1 o1 else o1
  have ho2 : Rect n m o2 := by
    show Rect n m (if a1 ≠ 1 ∧ o1.length > 1 then scaleRowsAux a1 1 o1 else o1)
    split
    · exact rect_scaleRows a1 1 n m o1 ho1
    · exact ho1
  refine bind_ok_of _ _ o2 _ ?_ ?_
  · have hs := gen_scale_rows a1 o1
    rw [ho1.1] at hs
    simp only [bind, Except.bind] at hs
    by_cases h : a1 ≠ 1 ∧ o1.length > 1
    · have hg : ((a1 != 1) && decide (arr2Rows o1 > 1)) = true := by
        rw [hrows o1 ho1]; simp [h.1]; have := h.2; rw [ho1.1] at this; omega
      have hn1 : 1 < n := by have := h.2; rw [ho1.1] at this; exact this
      simp only [hg, if_true, hrows o1 ho1, bind, Except.bind, pure, Except.pure]
      revert hs
      cases arrPow a1 (arange (n : Int)) with
      | error e => simp
      | ok c => simp only; intro hs; rw [hs]; simp [h.1, hn1, ho1.1, o2]
    · have hg : ((a1 != 1) && decide (arr2Rows o1 > 1)) = false := by
        rw [hrows o1 ho1]
        by_cases h1 : a1 = 1
        · simp [h1]
        · have : ¬ o1.length > 1 := fun h2 => h ⟨h1, h2⟩
          rw [ho1.1] at this; simp [h1]; omega
      simp only [hg, Bool.false_eq_true, if_false, pure, Except.pure, h, o2]
  -- stage 3: columns re-centred
  have hc2 : arr2Cols o2 = (m : Int) := rect_cols n m o2 hn ho2
  have hhd : (o2.headD []).length = m := by
    have := hc2; simp only [arr2Cols] at this; exact_mod_cast this
  have hhd' : (o2.head?.getD []).length = m := by rw [← hhd]; cases o2 <;> rfl
  let o3 := if s2 ≠ 0 ∧ (o2.headD []).length > 1 then o2.map (shift0 s2) else o2
  have ho3 : Rect n m o3 := by
    show Rect n m (if s2 ≠ 0 ∧ (o2.headD []).length > 1 then o2.map (shift0 s2) else o2)
    split
    · exact rect_map _ (Props.C16.shift0_length s2) n m o2 ho2
    · exact ho2
  refine bind_ok_of _ _ ((if s2 ≠ 0 ∧ (o2.headD []).length > 1 then (m : Int) else (if s1 ≠ 0 ∧ p.length > 1 then (n : Int) else 0)), o3) _ ?_ ?_
  · have hl := gen_shift2_cols_loop s2 m o2 ho2.2
    by_cases h : s2 ≠ 0 ∧ (o2.headD []).length > 1
    · have hg : ((s2 != 0) && decide (arr2Cols o2 > 1)) = true := by
        rw [hc2]; simp [h.1]; have := h.2; rw [hhd] at this; omega
      have hm1 : 1 < m := by have := h.2; rw [hhd] at this; exact this
      simp [hg, hc2, hl, bind, Except.bind, pure, Except.pure, h.1, hm1, hhd, hhd', Nat.not_le.2 hm1, o3]
    · have hg : ((s2 != 0) && decide (arr2Cols o2 > 1)) = false := by
        rw [hc2]
        by_cases h1 : s2 = 0
        · simp [h1]
        · have : ¬ (o2.headD []).length > 1 := fun h2 => h ⟨h1, h2⟩
          rw [hhd] at this; simp [h1]; omega
      simp only [hg, Bool.false_eq_true, if_false, pure, Except.pure, h, o3]
  -- stage 4: columns scaled
  simp only
  have hc3 : arr2Cols o3 = (m : Int) := rect_cols n m o3 hn ho3
  show _ = Except.ok (if a2 ≠ 1 ∧ (o2.headD []).length > 1 then o3.map (scale a2) else o3)
  have hs := gen_scale_cols a2 m o3 ho3.2
  simp only [bind, Except.bind] at hs
  by_cases h : a2 ≠ 1 ∧ (o2.headD []).length > 1
  · have hg : ((a2 != 1) && decide (arr2Cols o3 > 1)) = true := by
      rw [hc3]; simp [h.1]; have := h.2; rw [hhd] at this; omega
    have hm1 : 1 < m := by have := h.2; rw [hhd] at this; exact this
    simp only [hg, if_true, hc3, bind, Except.bind, pure, Except.pure]
    revert hs
    cases arrPow a2 (arange (m : Int)) with
    | error e => simp
    | ok c => simp only; intro hs; rw [hs]; simp [h.1, hm1, hhd, hhd', Nat.not_le.2 hm1]
  · have hg : ((a2 != 1) && decide (arr2Cols o3 > 1)) = false := by
      rw [hc3]
      by_cases h1 : a2 = 1
      · simp [h1]
      · have : ¬ (o2.headD []).length > 1 := fun h2 => h ⟨h1, h2⟩
        rw [hhd] at this; simp [h1]; omega
    simp only [hg, Bool.false_eq_true, if_false, pure, Except.pure, h]

theorem eval2_rows_short (M : IntArr2) (hM : ∀ r ∈ M, r.length ≤ 1) (x y y' : Int) : eval2 M x y = eval2 M x y' := by
  unfold eval2
  congr 1
  apply List.map_congr_left
  intro r hr
  exact Props.C16.eval_short r (hM r hr) y y'

theorem eval2_short (M : IntArr2) (hM : M.length ≤ 1) (x x' y : Int) : eval2 M x y = eval2 M x' y := by
  unfold eval2
  exact Props.C16.eval_short _ (by simpa using hM) x x'

/-- **shift then evaluate = evaluate at the transformed arguments, two variables** (Spec.Poly.shift2 over Int, incl. the four fast paths) -/
theorem eval2_shift2 (p : IntArr2) (n m : Nat) (hn : 0 < n) (hp : Rect n m p) (s1 a1 s2 a2 x y : Int) :
    eval2 (shift2 s1 a1 s2 a2 p) x y = eval2 p (a1 * x - s1) (a2 * y - s2) := by
  unfold shift2
  simp only
  have ho1 : Rect n m (if s1 ≠ 0 ∧ p.length > 1 then shift02 s1 p else p) := by
    split
    · exact rect_shift02 s1 n m p hp
    · exact hp
  have e1 : ∀ x y, eval2 (if s1 ≠ 0 ∧ p.length > 1 then shift02 s1 p else p) x y = eval2 p (x - s1) y := by
    intro x y
    by_cases h : s1 ≠ 0 ∧ p.length > 1
    · rw [if_pos h]; exact Props.C16.eval2_shift02 s1 p m hp.2 x y
    · rw [if_neg h]
      by_cases h1 : s1 = 0
      · simp [h1]
      · exact eval2_short p (by by_contra hc; exact h ⟨h1, by omega⟩) _ _ _
  generalize (if s1 ≠ 0 ∧ p.length > 1 then shift02 s1 p else p) = o1 at ho1 e1
  have ho2 : Rect n m (if a1 ≠ 1 ∧ o1.length > 1 then scaleRowsAux a1 1 o1 else o1) := by
    split
    · exact rect_scaleRows a1 1 n m o1 ho1
    · exact ho1
  have e2 : ∀ x y, eval2 (if a1 ≠ 1 ∧ o1.length > 1 then scaleRowsAux a1 1 o1 else o1) x y = eval2 o1 (a1 * x) y := by
    intro x y
    by_cases h : a1 ≠ 1 ∧ o1.length > 1
    · rw [if_pos h, Props.C16.eval2_scaleRowsAux]; simp
    · rw [if_neg h]
      by_cases h1 : a1 = 1
      · simp [h1]
      · exact eval2_short o1 (by by_contra hc; exact h ⟨h1, by omega⟩) _ _ _
  generalize (if a1 ≠ 1 ∧ o1.length > 1 then scaleRowsAux a1 1 o1 else o1) = o2 at ho2 e2
  have hhd : (o2.headD []).length = m := by
    have := rect_cols n m o2 hn ho2; simp only [arr2Cols] at this; exact_mod_cast this
  rw [hhd]
  have ho3 : Rect n m (if s2 ≠ 0 ∧ m > 1 then o2.map (shift0 s2) else o2) := by
    split
    · exact rect_map _ (Props.C16.shift0_length s2) n m o2 ho2
    · exact ho2
  have e3 : ∀ x y, eval2 (if s2 ≠ 0 ∧ m > 1 then o2.map (shift0 s2) else o2) x y = eval2 o2 x (y - s2) := by
    intro x y
    by_cases h : s2 ≠ 0 ∧ m > 1
    · rw [if_pos h]; exact Props.C16.eval2_map_rows (shift0 s2) (fun y => y - s2) (fun row y => Props.C16.eval_shift0 s2 row y) o2 x y
    · rw [if_neg h]
      by_cases h1 : s2 = 0
      · simp [h1]
      · exact eval2_rows_short o2 (fun r hr => by rw [ho2.2 r hr]; by_contra hc; exact h ⟨h1, by omega⟩) _ _ _
  generalize (if s2 ≠ 0 ∧ m > 1 then o2.map (shift0 s2) else o2) = o3 at ho3 e3
  have e4 : eval2 (if a2 ≠ 1 ∧ m > 1 then o3.map (scale a2) else o3) x y = eval2 o3 x (a2 * y) := by
    by_cases h : a2 ≠ 1 ∧ m > 1
    · rw [if_pos h]; exact Props.C16.eval2_map_rows (scale a2) (fun y => a2 * y) (fun row y => Props.C16.eval_scale a2 row y) o3 x y
    · rw [if_neg h]
      by_cases h1 : a2 = 1
      · simp [h1]
      · exact eval2_rows_short o3 (fun r hr => by rw [ho3.2 r hr]; by_contra hc; exact h ⟨h1, by omega⟩) _ _ _
  rw [e4, e3, e2, e1]

/-- **for the regenerated `Poly2DType.shift`**: the returned array evaluates at `(x, y)` to the original polynomial at
    `(t1_scale * x - t1_shift, t2_scale * y - t2_shift)`, for every rectangular integer coefficient array with at least one row -/
theorem gen_shift2_eval (p : IntArr2) (n m : Nat) (hn : 0 < n) (hp : Rect n m p) (s1 a1 s2 a2 x y : Int) :
    ∃ q, Gen.P.shift2 p s1 a1 s2 a2 = .ok q ∧ eval2 q x y = eval2 p (a1 * x - s1) (a2 * y - s2) :=
  ⟨_, gen_shift2 p n m hn hp s1 a1 s2 a2, eval2_shift2 p n m hn hp s1 a1 s2 a2 x y⟩

example : Gen.P.shift2 [[1, 2, 3], [4, 5, 6]] 1 2 (-1) 3 = .ok [[-9, -27, -27], [30, 102, 108]] := by decide

end Sarpy.Bridge.P
