/-
  Bridge: the coefficient-array loops of sarpy's metadata polynomials regenerated from /repo (`Gen.P.*` in Gen/PolyLoops.lean;
  translate/gen_polyloops.py + py2lean_arrays.py) equal Spec.Poly instantiated at Int - so the ring theorems of Props/C16.lean apply
  verbatim to the regenerated code.

  The bridge is over EXACT INTEGERS: what the translator ties is the loop structure, the indices and slices, the order of the updates and
  the fast-path guards.  The coefficients of the real code are float64; their rounding stays under the running-error correspondence of
  harness/c16.py.

    gen_shift_body      regenerated body of the sweep loop (`out[index:siz-1] -= t_0*out[index+1:siz]`, `if i > 0`) = sweepStep: `pass` on the
                        suffix that starts at siz-1-i                        (breaks on a semantic change of the sweep)
    sweep_iter          Spec level: after k rounds the last k coefficients are `shift0` of the suffix; sweep_all: all rounds = shift0
    gen_scale           `out * numpy.power(alpha, numpy.arange(out.size))` = Spec.Poly.scale
    gen_shift           Gen.P.shift = Spec.Poly.shift (both guards `t_0 != 0 and out.size > 1`, `alpha != 1 and out.size > 1`)
    gen_shift_eval      eval (Gen.shift p t0 alpha) t = eval p (alpha * t - t0), same length            (Props/C16.eval_shift)
    gen_derivative(_eval)   the method is the call of polyder (helper tied by correspondence); its value is the analytic derivative (eval_derN)
    gen_minimize_order  Gen.P.minimize_order = Spec.Poly.minimize (mask of non-zeros, largest index, the three cases); gen_minimize_eval
-/
import SarpyModel.Gen.PolyLoops
import SarpyModel.Proofs.PyLoops
import SarpyModel.Props.C16
import Mathlib.Tactic.Ring
import Mathlib.Tactic.Linarith

namespace Sarpy.Bridge.P
open Sarpy Sarpy.Spec Sarpy.Spec.Poly Sarpy.Proofs.PyLoops

/-! ### slices inside the array -/

theorem npClamp_id (n x : Int) (h0 : 0 ≤ x) (h1 : x ≤ n) : npClamp n x 0 n = x := by
  unfold npClamp
  have : ¬ x < 0 := by omega
  simp only [this, if_false]
  split_ifs <;> omega

theorem arrSlice_eq {α : Type} (l : List α) (a b : Nat) (ha : a ≤ l.length) (hb : b ≤ l.length) :
    arrSlice l (some (a : Int)) (some (b : Int)) = (l.drop a).take (b - a) := by
  unfold arrSlice
  simp only [npStartPos, npStopPos]
  rw [npClamp_id _ _ (by omega) (by omega), npClamp_id _ _ (by omega) (by omega)]
  congr 1
  omega

theorem arrSetSlice_eq {α : Type} (l : List α) (a b : Nat) (v : List α) (ha : a ≤ b) (hb : b ≤ l.length) (hv : v.length = b - a) :
    arrSetSlice l (some (a : Int)) (some (b : Int)) v = .ok (l.take a ++ v ++ l.drop b) := by
  unfold arrSetSlice
  have e1 : npStartPos (l.length : Int) (some (a : Int)) = a := by
    show npClamp (l.length : Int) (a : Int) 0 (l.length : Int) = a
    exact npClamp_id _ _ (by omega) (by omega)
  have e2 : npStopPos (l.length : Int) (some (b : Int)) = b := by
    show npClamp (l.length : Int) (b : Int) 0 (l.length : Int) = b
    exact npClamp_id _ _ (by omega) (by omega)
  have e : ((b : Int) - (a : Int)).toNat = b - a := by omega
  simp only [e1, e2, e, hv, if_true, Int.toNat_natCast, pure, Except.pure]
  congr 3
  omega

/-! ### one sweep is `pass` on the suffix -/

theorem pass_zip (t0 : Int) (s : List Int) (hs : 0 < s.length) :
    pass t0 s = List.zipWith (fun x y => x - t0 * y) (s.take (s.length - 1)) (s.drop 1) ++ s.drop (s.length - 1) := by
  induction s with
  | nil => simp at hs
  | cons a rest ih =>
    cases rest with
    | nil => simp [pass]
    | cons b rest' =>
      have := ih (by simp)
      simp only [List.length_cons, Nat.add_sub_cancel, List.drop_succ_cons, List.drop_zero] at this ⊢
      simp only [pass, List.take_succ_cons, List.zipWith_cons_cons, List.cons_append, List.cons.injEq, true_and]
      rw [this]


/-- the pure step of the sweep loop on an array of length `n`: round `i > 0` applies `pass` to the suffix that starts at `n - 1 - i` -/
def sweepStep (t0 : Int) (n : Nat) (i : Int) (l : List Int) : List Int :=
  if i > 0 then l.take (n - 1 - i.toNat) ++ pass t0 (l.drop (n - 1 - i.toNat)) else l

theorem sweepStep_length (t0 : Int) (n : Nat) (i : Int) (l : List Int) (hl : l.length = n) : (sweepStep t0 n i l).length = n := by
  unfold sweepStep
  split
  · have hp : ∀ s : List Int, (pass t0 s).length = s.length := by
      intro s
      induction s with
      | nil => rfl
      | cons a rest ih => cases rest with
        | nil => rfl
        | cons b r => simp only [pass, List.length_cons] at ih ⊢; omega
    simp [hp, hl]; omega
  · exact hl

/-- regenerated loop body = `sweepStep` for an array of the right length and an index inside the range
    (`out[index:siz-1] -= t_0*out[index+1:siz]`; the obligation a semantic change of the sweep breaks) -/
theorem gen_shift_body (t0 : Int) (n : Nat) (i : Int) (l : List Int) (hl : l.length = n) (h0 : 0 ≤ i) (h1 : i < n) :
    Gen.P.shift_loop1_body t0 (n : Int) i l = .ok (sweepStep t0 n i l) := by
  unfold Gen.P.shift_loop1_body sweepStep
  by_cases hi : i > 0
  · have hj : ((n : Int) - i - 1) = ((n - 1 - i.toNat : Nat) : Int) := by omega
    have hn1 : ((n : Int) - 1) = ((n - 1 : Nat) : Int) := by omega
    have hj1 : ((n - 1 - i.toNat : Nat) : Int) + 1 = ((n - 1 - i.toNat + 1 : Nat) : Int) := by push_cast; rfl
    simp only [hi, decide_true, if_true, hj, hn1, hj1]
    rw [arrSlice_eq l _ _ (by omega) (by omega), arrSlice_eq l _ _ (by omega) (by omega)]
    have hlen : ((l.drop (n - 1 - i.toNat)).take (n - 1 - (n - 1 - i.toNat))).length = (arrScale t0 ((l.drop (n - 1 - i.toNat + 1)).take (n - (n - 1 - i.toNat + 1)))).length := by
      simp [arrScale]; omega
    simp only [arrZip, hlen, if_true, bind, Except.bind, pure, Except.pure]
    rw [arrSetSlice_eq l _ _ _ (by omega) (by omega) (by simp [arrScale]; omega)]
    simp only [List.append_assoc]
    congr 2
    have hs : 0 < (l.drop (n - 1 - i.toNat)).length := by simp; omega
    rw [pass_zip t0 _ hs]
    have e1 : (l.drop (n - 1 - i.toNat)).length - 1 = n - 1 - (n - 1 - i.toNat) := by simp; omega
    have e2 : (l.drop (n - 1 - i.toNat)).drop 1 = (l.drop (n - 1 - i.toNat + 1)).take (n - (n - 1 - i.toNat + 1)) := by
      rw [List.drop_drop, List.take_of_length_le (by simp; omega)]
    have e3 : (l.drop (n - 1 - i.toNat)).drop ((l.drop (n - 1 - i.toNat)).length - 1) = l.drop (n - 1) := by
      rw [List.drop_drop, e1]; congr 1; omega
    rw [e3, e1, ← e2]
    congr 1
    simp only [arrScale, List.zipWith_map_right]
  · simp [hi]; rfl


theorem shift0_single (t0 a : Int) : shift0 t0 [a] = [a] := by simp [shift0, pass]

/-- Spec level: after `k` rounds the last `k` coefficients are re-centred (`shift0` of the suffix), the others untouched -/
theorem sweep_iter (t0 : Int) (p : List Int) (k : Nat) (hk : k ≤ p.length) :
    iterRange (sweepStep t0 p.length) k 0 p = p.take (p.length - k) ++ shift0 t0 (p.drop (p.length - k)) := by
  induction k with
  | zero => simp [iterRange, shift0]
  | succ k ih =>
    rw [iterRange_succ_last, ih (by omega)]
    simp only [Int.zero_add]
    unfold sweepStep
    by_cases hk0 : k = 0
    · subst hk0
      have hne : p ≠ [] := by intro h; subst h; simp at hk
      have hd : p.drop (p.length - (0 + 1)) = [p.getLast hne] := by
        rw [List.drop_length_sub_one hne]
      simp [hd, shift0_single, shift0]
    · have hpos : ((k : Nat) : Int) > 0 := by omega
      simp only [hpos, if_true, Int.toNat_natCast]
      have e1 : p.length - 1 - k = p.length - (k + 1) := by omega
      rw [e1]
      have hlt : p.length - (k + 1) < p.length := by omega
      have hlen : (p.take (p.length - k)).length = p.length - k := by simp
      have ht : (p.take (p.length - k) ++ shift0 t0 (p.drop (p.length - k))).take (p.length - (k + 1)) = p.take (p.length - (k + 1)) := by
        rw [List.take_append_of_le_length (by simp; omega), List.take_take]; congr 1; omega
      have hd : (p.take (p.length - k) ++ shift0 t0 (p.drop (p.length - k))).drop (p.length - (k + 1)) =
          p[p.length - (k + 1)] :: shift0 t0 (p.drop (p.length - k)) := by
        rw [List.drop_append_of_le_length (by simp; omega)]
        have : (p.take (p.length - k)).drop (p.length - (k + 1)) = [p[p.length - (k + 1)]] := by
          rw [List.drop_take]
          have : p.length - k - (p.length - (k + 1)) = 1 := by omega
          rw [this, List.take_one_drop_eq_of_lt_length hlt]; rfl
        rw [this]; rfl
      rw [ht, hd]
      have hs : p.drop (p.length - (k + 1)) = p[p.length - (k + 1)] :: p.drop (p.length - k) := by
        rw [List.drop_eq_getElem_cons hlt]; congr 2; omega
      rw [hs]
      simp [shift0]

theorem sweep_all (t0 : Int) (p : List Int) : iterRange (sweepStep t0 p.length) p.length 0 p = shift0 t0 p := by
  have := sweep_iter t0 p p.length (Nat.le_refl _)
  simpa using this

/-! ### scaling by the powers of alpha -/

theorem scaleAux_zip (alpha pw : Int) (l : List Int) :
    scaleAux alpha pw l = List.zipWith (fun x y => x * y) l ((List.range l.length).map (fun k => pw * alpha ^ k)) := by
  induction l generalizing pw with
  | nil => rfl
  | cons c rest ih =>
    simp only [scaleAux, List.length_cons, List.range_succ_eq_map, List.map_cons, List.map_map, List.zipWith_cons_cons, pow_zero, mul_one]
    rw [ih]
    congr 2
    apply List.map_congr_left
    intro k _
    simp only [Function.comp, pow_succ]
    ring

theorem gen_scale (alpha : Int) (l : List Int) :
    (arrPow alpha (arange (l.length : Int)) >>= fun w => arrZip (fun x y => x * y) l w) = .ok (scale alpha l) := by
  have ha : arange (l.length : Int) = (List.range l.length).map (fun (k : Nat) => (k : Int)) := by simp [arange]
  have hany : ((List.range l.length).map (fun (k : Nat) => (k : Int))).any (fun k => decide (k < 0)) = false := by
    simp [List.any_eq_false]
  simp only [arrPow, ha, hany, Bool.false_eq_true, if_false, pure, Except.pure, bind, Except.bind, arrZip, List.length_map, List.length_range, if_true]
  congr 1
  rw [scale, scaleAux_zip]
  congr 1
  simp [List.map_map, Function.comp_def]


/-! ### Poly1DType.shift -/

theorem scaleAux_length (alpha pw : Int) (l : List Int) : (scaleAux alpha pw l).length = l.length := by
  induction l generalizing pw with
  | nil => rfl
  | cons c rest ih => simp [scaleAux, ih]

theorem shift_length (t0 alpha : Int) (p : List Int) : (shift t0 alpha p).length = p.length := by
  unfold shift
  simp only
  split <;> split <;> simp [scale, scaleAux_length, Props.C16.shift0_length]


theorem gen_shift_loop (t0 : Int) (p : List Int) :
    forRange (fun (i : Int) (st : IntArr) => Gen.P.shift_loop1_body t0 (p.length : Int) i st) p.length 0 p = .ok (shift0 t0 p) := by
  have h := forRange_eq_iter_inv (fun (i : Int) (st : IntArr) => Gen.P.shift_loop1_body t0 (p.length : Int) i st) (sweepStep t0 p.length)
    (fun _ s => s.length = p.length) p.length 0 p
    (fun i s hs h0 h1 => gen_shift_body t0 p.length i s hs h0 (by omega))
    (fun i s hs _ _ => sweepStep_length t0 p.length i s hs) rfl
  rw [h, sweep_all]

/-- **the regenerated `Poly1DType.shift` is Spec.Poly.shift over the integers**: the sweeps `out[index:siz-1] -= t_0*out[index+1:siz]` for
    index = siz-1 .. 0, the scaling by `alpha ** arange(size)` and the two fast-path guards, for coefficient lists of every length -/
theorem gen_shift (p : List Int) (t0 alpha : Int) : Gen.P.shift p t0 alpha = .ok (shift t0 alpha p) := by
  unfold Gen.P.shift shift
  have hloop := gen_shift_loop t0 p
  have hlen := Props.C16.shift0_length t0 p
  have gs1 := gen_scale alpha (shift0 t0 p)
  have gs2 := gen_scale alpha p
  simp only [bind, Except.bind, hlen] at gs1 gs2
  simp only [Int.toNat_natCast]
  by_cases ht : t0 = 0 <;> by_cases hp : p.length > 1 <;> by_cases ha : alpha = 1 <;>
    (have hpi : ((p.length : Int) > 1) = (p.length > 1) := by simp) <;>
    simp [ht, hp, ha, hpi, hloop, hlen, bind, Except.bind, pure, Except.pure] <;>
    (cases hpw : arrPow alpha (arange (p.length : Int)) with
      | error e => simp [hpw] at gs2
      | ok v => simp only [hpw] at gs1 gs2 ⊢; simp [gs1, gs2])

/-- **Props/C16.eval_shift for the regenerated code**: whatever list `Poly1DType.shift` returns on integer coefficients, evaluating it at
    `t` gives the original polynomial at `alpha * t - t_0` (every length, every `t_0`, `alpha`, incl. the fast paths) -/
theorem gen_shift_eval (p : List Int) (t0 alpha t : Int) :
    ∃ q, Gen.P.shift p t0 alpha = .ok q ∧ eval q t = eval p (alpha * t - t0) ∧ q.length = p.length :=
  ⟨_, gen_shift p t0 alpha, Props.C16.eval_shift t0 alpha p t, shift_length t0 alpha p⟩


/-! ### Poly1DType.derivative -/

/-- the regenerated method is the call of numpy's `polyder` (helper `Spec.Poly.polyder`; its reading of numpy is tied by correspondence) -/
theorem gen_derivative (p : List Int) (m : Int) : Gen.P.derivative p m = polyder p m := by
  unfold Gen.P.derivative
  cases polyder p m <;> rfl

/-- for a non-negative order the returned coefficients evaluate to the analytic derivative (Props/C16.eval_derN) -/
theorem gen_derivative_eval (p : List Int) (m : Nat) (x : Int) :
    ∃ q, Gen.P.derivative p (m : Int) = .ok q ∧ eval q x = ((Polynomial.derivative^[m]) (Props.C16.toPoly p)).eval x := by
  rw [gen_derivative]
  have hm : ¬ ((m : Int) < 0) := by omega
  simp only [polyder, hm, if_false, Int.toNat_natCast, pure, Except.pure]
  refine ⟨_, rfl, ?_⟩
  rw [← Props.C16.eval_derN]
  split
  · rename_i h; rw [h]; simp [eval]
  · rfl

/-! ### Poly1DType.minimize_order -/

/-- indices (counted from `o`) of the non-zero coefficients -/
def nzIdx : Int → List Int → List Int
  | _, [] => []
  | o, c :: l => if c != 0 then o :: nzIdx (o + 1) l else nzIdx (o + 1) l

theorem mask_eq_nzIdx (o : Nat) (l : List Int) :
    (((List.range' o l.length).map (fun (k : Nat) => (k : Int))).zip (arrNe l 0)).filterMap (fun p => if p.2 then some p.1 else none) = nzIdx o l := by
  induction l generalizing o with
  | nil => rfl
  | cons c rest ih =>
    have := ih (o + 1)
    simp only [arrNe] at this
    simp only [List.length_cons, List.range'_succ, List.map_cons, arrNe, List.zip_cons_cons, List.filterMap_cons, nzIdx]
    by_cases hc : c = 0
    · simp [hc, this]
    · simp [hc]; exact this

theorem nzIdx_ge (o : Int) (l : List Int) : ∀ x ∈ nzIdx o l, o ≤ x := by
  induction l generalizing o with
  | nil => simp [nzIdx]
  | cons c rest ih =>
    intro x hx
    simp only [nzIdx] at hx
    split at hx
    · rcases List.mem_cons.1 hx with rfl | h
      · omega
      · have := ih (o + 1) x h; omega
    · have := ih (o + 1) x hx; omega

theorem nzIdx_nil_iff (o : Int) (l : List Int) : nzIdx o l = [] ↔ dropTrailingZeros l = [] := by
  induction l generalizing o with
  | nil => simp [nzIdx, dropTrailingZeros]
  | cons c rest ih =>
    simp only [nzIdx, dropTrailingZeros]
    by_cases hc : c = 0
    · simp [hc, ih (o + 1)]
    · simp [hc]

theorem any_false_iff (l : List Int) : (arrNe l 0).any id = false ↔ dropTrailingZeros l = [] := by
  induction l with
  | nil => simp [arrNe, dropTrailingZeros]
  | cons c rest ih =>
    simp only [arrNe, List.map_cons, List.any_cons, dropTrailingZeros] at ih ⊢
    by_cases hc : c = 0
    · simp [hc]; simpa using ih
    · simp [hc]

theorem foldl_max_of_le (l : List Int) (a b : Int) (hab : a ≤ b) (hl : ∀ x ∈ l, a ≤ x) : l.foldl max (max a b) = l.foldl max b := by
  rw [Int.max_eq_right hab]

theorem nzIdx_max (o : Int) (l : List Int) (a : Int) (rest : List Int) (h : nzIdx o l = a :: rest) :
    rest.foldl max a = o + (dropTrailingZeros l).length - 1 := by
  induction l generalizing o a rest with
  | nil => simp [nzIdx] at h
  | cons c l' ih =>
    simp only [nzIdx] at h
    by_cases hc : c = 0
    · simp only [hc, bne_self_eq_false, Bool.false_eq_true, if_false] at h
      have hne : dropTrailingZeros l' ≠ [] := by
        intro hn; rw [(nzIdx_nil_iff (o + 1) l').2 hn] at h; simp at h
      have := ih (o + 1) a rest h
      simp only [dropTrailingZeros, hne, false_and, if_false, List.length_cons]
      rw [this]; push_cast; ring
    · have hb : (c != 0) = true := by simpa using hc
      simp only [hb, if_true, List.cons.injEq] at h
      obtain ⟨ha, hr⟩ := h
      subst ha
      cases hrest : nzIdx (o + 1) l' with
      | nil =>
        rw [hrest] at hr; subst hr
        have := (nzIdx_nil_iff (o + 1) l').1 hrest
        simp [dropTrailingZeros, this, hc]
      | cons b r' =>
        rw [hrest] at hr; subst hr
        have hge := nzIdx_ge (o + 1) l' b (by rw [hrest]; simp)
        have hne : dropTrailingZeros l' ≠ [] := by
          intro hn; rw [(nzIdx_nil_iff (o + 1) l').2 hn] at hrest; simp at hrest
        have := ih (o + 1) b r' hrest
        simp only [List.foldl_cons, dropTrailingZeros, hne, false_and, if_false, List.length_cons]
        rw [Int.max_eq_right (by omega), this]; push_cast; ring

theorem dropTrailingZeros_take (l : List Int) : dropTrailingZeros l = l.take (dropTrailingZeros l).length := by
  induction l with
  | nil => rfl
  | cons c rest ih =>
    simp only [dropTrailingZeros]
    split
    · simp
    · simp only [List.length_cons, List.take_succ_cons]; rw [← ih]

theorem dropTrailingZeros_length_le (l : List Int) : (dropTrailingZeros l).length ≤ l.length := by
  induction l with
  | nil => simp [dropTrailingZeros]
  | cons c rest ih => simp only [dropTrailingZeros]; split <;> simp <;> omega


theorem arrSlice_none_some {α : Type} (l : List α) (b : Nat) (hb : b ≤ l.length) : arrSlice l none (some (b : Int)) = l.take b := by
  unfold arrSlice
  have e2 : npStopPos (l.length : Int) (some (b : Int)) = b := by
    show npClamp (l.length : Int) (b : Int) 0 (l.length : Int) = b
    exact npClamp_id _ _ (by omega) (by omega)
  simp [npStartPos, e2]

/-- **the regenerated `Poly1DType.minimize_order` is Spec.Poly.minimize over the integers** (boolean mask of the non-zero coefficients,
    largest selected index, the three cases of the source), for non-empty coefficient lists of every length -/
theorem gen_minimize_order (p : List Int) (hp : p ≠ []) : Gen.P.minimize_order p = .ok (minimize p) := by
  unfold Gen.P.minimize_order minimize
  by_cases hz : dropTrailingZeros p = []
  · have := (any_false_iff p).2 hz
    simp [this, hz, pure, Except.pure]
  · have hany : (arrNe p 0).any id = true := by
      cases h : (arrNe p 0).any id with
      | true => rfl
      | false => exact absurd ((any_false_iff p).1 h) hz
    have hmask : arrMask (arange (p.length : Int)) (arrNe p 0) = .ok (nzIdx 0 p) := by
      have := mask_eq_nzIdx 0 p
      simp only [arrMask, arange, Int.toNat_natCast, List.length_map, List.length_range, arrNe, if_true, pure, Except.pure]
      rw [List.range_eq_range']
      simp only [arrNe] at this
      simpa using this
    cases hidx : nzIdx 0 p with
    | nil => exact absurd ((nzIdx_nil_iff 0 p).1 hidx) hz
    | cons a rest =>
      have hmax := nzIdx_max 0 p a rest hidx
      have hk := dropTrailingZeros_length_le p
      have hkpos : 0 < (dropTrailingZeros p).length := List.length_pos_iff.2 hz
      have htake := dropTrailingZeros_take p
      simp only [hany, Bool.not_true, Bool.false_eq_true, if_false, hmask, hidx, arrMax, hmax, bind, Except.bind, pure, Except.pure, hz]
      by_cases h1 : (dropTrailingZeros p).length = p.length
      · have e : ((0 : Int) + ((dropTrailingZeros p).length : Int) - 1 == (p.length : Int) - 1) = true := by simp; omega
        simp only [e, if_true]
        rw [htake, h1, List.take_length]
      · have e : ((0 : Int) + ((dropTrailingZeros p).length : Int) - 1 == (p.length : Int) - 1) = false := by
          rw [beq_eq_false_iff_ne]; omega
        simp only [e, Bool.false_eq_true, if_false]
        by_cases h2 : (dropTrailingZeros p).length = 1
        · have e2 : ((0 : Int) + ((dropTrailingZeros p).length : Int) - 1 == 0) = true := by simp [h2]
          obtain ⟨c, l', rfl⟩ := List.exists_cons_of_ne_nil hp
          have hpi : pyIndex (c :: l') (0 : Int) = .ok c := pyIndex_ok _ 0 c (by omega) (by simp)
          simp only [e2, if_true, hpi]
          rw [htake, h2]; rfl
        · have e2 : ((0 : Int) + ((dropTrailingZeros p).length : Int) - 1 == 0) = false := by
            rw [beq_eq_false_iff_ne]; omega
          simp only [e2, Bool.false_eq_true, if_false]
          have e3 : (0 : Int) + ((dropTrailingZeros p).length : Int) - 1 + 1 = (((dropTrailingZeros p).length : Nat) : Int) := by omega
          rw [e3, arrSlice_none_some p _ hk, ← htake]

/-- order minimisation of the regenerated code never changes a value and never returns an empty array (Props/C16.eval_minimize) -/
theorem gen_minimize_eval (p : List Int) (hp : p ≠ []) (x : Int) :
    ∃ q, Gen.P.minimize_order p = .ok q ∧ eval q x = eval p x ∧ q ≠ [] :=
  ⟨_, gen_minimize_order p hp, Props.C16.eval_minimize p x, Props.C16.minimize_nonempty p⟩

example : Gen.P.shift [1, -4, 0, 5] 2 3 = .ok [-31, 168, -270, 135] := by decide
example : Gen.P.minimize_order [1, 2, 0, 0] = .ok [1, 2] ∧ Gen.P.minimize_order [0, 0] = .ok [0] ∧ Gen.P.minimize_order [3, 0] = .ok [3] := by decide
example : Gen.P.derivative [1, 2, 3, 4] 2 = .ok [6, 24] ∧ Gen.P.derivative [1, 2] (-1) = .error "ValueError" := by decide

end Sarpy.Bridge.P
