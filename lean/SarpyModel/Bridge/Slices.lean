/-
  Bridge: the kernels regenerated from /repo's Python (`Gen.*`) compute the reference
  kernels of `Spec.Slice` on every normal slice.  Only shallow automation is used here so
  that harmless rewrites of the Python keep these proofs alive, while a semantic change
  makes them fail.
-/
import SarpyModel.Gen.Slices
import SarpyModel.Proofs.Slice
import Mathlib.Tactic.SplitIfs

namespace Sarpy.Bridge
open Sarpy Sarpy.Spec

macro "py_simp" "[" ts:Lean.Parser.Tactic.simpLemma,* "]" : tactic =>
  `(tactic| simp [getI, floorDiv, ceilDiv, truncDiv, bind, Except.bind, pure, Except.pure, throw, throwThe, MonadExceptOf.throw, $ts,*])

/-- close goals made of decided `if`s: split, discharge contradictory branches with `omega`, evaluate the rest -/
macro "py_fin" : tactic => `(tactic| (
  first | done | rfl | omega |
    (split_ifs <;> first | omega | rfl |
      (simp_all (config := { failIfUnchanged := false }) [NSlice.toPy] <;>
        first | done | omega | rfl |
          (split_ifs <;> first | omega | rfl | (simp_all (config := { failIfUnchanged := false }) [NSlice.toPy] <;> first | done | omega))))))

theorem fdiv_eq_cnt {x s : Int} (hs : 0 < s) (hx : 0 ≤ x + s - 1) : Int.fdiv (x + s - 1) s = (cnt x s : Int) := by
  rw [Int.fdiv_eq_ediv_of_nonneg _ (by omega)]
  unfold cnt
  rw [Int.toNat_of_nonneg (Int.ediv_nonneg hx (by omega))]

/-- `floor((y - 1)/s) + 1 = ⌈y/s⌉` for positive `y`, `s` (the shape used by get_slice_result_size) -/
theorem fdiv_pred_add_one {y s : Int} (hs : 0 < s) (hy : 0 < y) : Int.fdiv (y - 1) s + 1 = (cnt y s : Int) := by
  rw [Int.fdiv_eq_ediv_of_nonneg _ (by omega)]
  unfold cnt
  have e : y + s - 1 = (y - 1) + 1 * s := by ring
  rw [e, Int.add_mul_ediv_right _ _ (by omega)]
  rw [Int.toNat_of_nonneg (by have := Int.ediv_nonneg (show 0 ≤ y - 1 by omega) (show 0 ≤ s by omega); omega)]

theorem gen_size {n : Int} {t : NSlice} (h : t.Normal n) :
    Gen.get_slice_result_size t.toPy = .ok (t.count : Int) := by
  obtain ⟨a, st, s⟩ := t
  obtain ⟨h0, h1, (⟨hs, b, hb, hab, hbn⟩ | ⟨hs, hstop⟩)⟩ := h
  · simp only at hb hs hab; subst hb
    unfold Gen.get_slice_result_size
    have hne : s ≠ 0 := by omega
    py_simp [NSlice.toPy, hs, hne]
    rw [count_pos_step hs]
    have := fdiv_pred_add_one hs (show 0 < b - a by omega)
    have e : b - 1 - a = b - a - 1 := by ring
    rw [e]; exact this
  · simp only at hs hstop h0
    have hns : ¬ (s > 0) := by omega
    have hne : s ≠ 0 := by omega
    have hs' : 0 < -s := by omega
    unfold Gen.get_slice_result_size
    rcases hstop with hst | ⟨b, hb, hb0, hba⟩
    · subst hst
      have habs : ((Int.natAbs s : Nat) : Int) = -s := by omega
      have hne' : (Int.natAbs s) ≠ 0 := by omega
      py_simp [NSlice.toPy, hns, hne, habs, hne']
      rw [count_neg_step hs]
      have := fdiv_pred_add_one hs' (show 0 < a - (-1) by omega)
      try simp only [Option.getD_none]
      have e : a - -1 - 1 = a := by ring
      rw [e] at this; exact this
    · subst hb
      py_simp [NSlice.toPy, hns, hne]
      rw [count_neg_step hs]
      have := fdiv_pred_add_one hs' (show 0 < a - b by omega)
      try simp only [Option.getD_some]
      rw [← this, ← Int.neg_fdiv_neg]
      congr 2; ring

theorem gen_mirror {n : Int} {t : NSlice} (h : t.Normal n) :
    Gen.reformat_slice t.toPy n true = .ok (mirror n t).toPy := by
  obtain ⟨a, st, s⟩ := t
  obtain ⟨h0, h1, (⟨hs, b, hb, hab, hbn⟩ | ⟨hs, hstop⟩)⟩ := h
  · simp only at hb hs hab h0; subst hb
    have hne : s ≠ 0 := by omega
    have ha : ¬ a < 0 := by omega
    have hb' : ¬ b < 0 := by omega
    have hc := fdiv_eq_cnt hs (show 0 ≤ (b - a) + s - 1 by omega)
    unfold Gen.reformat_slice
    py_simp [NSlice.toPy, hs, hne, ha, hb', hc, mirror, NSlice.last, count_pos_step hs]
  · simp only at hs hstop h0 h1
    have hns : ¬ (s > 0) := by omega
    have hns' : ¬ (0 < s) := by omega
    have hne : s ≠ 0 := by omega
    have hs' : 0 < -s := by omega
    have ha : ¬ a < 0 := by omega
    unfold Gen.reformat_slice
    rcases hstop with hst | ⟨b, hb, hb0, hba⟩
    · subst hst
      have hc := fdiv_eq_cnt hs' (show 0 ≤ (a - (-1)) + (-s) - 1 by omega)
      have hcn : (⟨a, none, s⟩ : NSlice).count = cnt (a - -1) (-s) := by rw [count_neg_step hs]; simp
      py_simp [NSlice.toPy, hns, hns', hne, ha, mirror, NSlice.last, hcn]
      ring_nf at hc ⊢
      rw [hc]
      split_ifs <;> first | rfl | omega | (simp_all <;> omega)
    · subst hb
      have hb' : ¬ b < 0 := by omega
      have hc := fdiv_eq_cnt hs' (show 0 ≤ (a - b) + (-s) - 1 by omega)
      have hcn : (⟨a, some b, s⟩ : NSlice).count = cnt (a - b) (-s) := by rw [count_neg_step hs]; simp
      py_simp [NSlice.toPy, hns, hns', hne, ha, hb', mirror, NSlice.last, hcn]
      ring_nf at hc ⊢
      rw [hc]
      split_ifs <;> first | rfl | omega | (simp_all <;> omega)

theorem gen_reverse {n : Int} {t : NSlice} (h : t.Normal n) (hs : t.step < 0) :
    Gen.reverse_slice t.toPy = .ok (reverseSlice t).toPy := by
  obtain ⟨a, st, s⟩ := t
  simp only at hs
  obtain ⟨h0, h1, (⟨hs', _⟩ | ⟨_, hstop⟩)⟩ := h
  · simp only at hs'; omega
  simp only at h0 h1 hstop
  have hns : ¬ (s > 0) := by omega
  have hne : s ≠ 0 := by omega
  have hs' : 0 < -s := by omega
  unfold Gen.reverse_slice
  rcases hstop with hst | ⟨b, hb, hb0, hba⟩
  · subst hst
    have hc := fdiv_pred_add_one hs' (show 0 < a - (-1) by omega)
    have hcn : (⟨a, none, s⟩ : NSlice).count = cnt (a - -1) (-s) := by rw [count_neg_step hs]; simp
    have e : Int.fdiv (0 - a) s = Int.fdiv (a - -1 - 1) (-s) := by
      rw [← Int.neg_fdiv_neg]; congr 1; ring
    py_simp [NSlice.toPy, hns, hne, reverseSlice, NSlice.last, hcn]
    have : Int.fdiv (-a) s = (cnt (a - -1) (-s) : Int) - 1 := by
      have e' : Int.fdiv (-a) s = Int.fdiv (0 - a) s := by congr 1; ring
      rw [e', e]; omega
    ring_nf at this ⊢
    rw [this]
  · subst hb
    have hc := fdiv_pred_add_one hs' (show 0 < a - b by omega)
    have hcn : (⟨a, some b, s⟩ : NSlice).count = cnt (a - b) (-s) := by rw [count_neg_step hs]; simp
    have e : Int.fdiv (b + 1 - a) s = Int.fdiv (a - b - 1) (-s) := by
      rw [← Int.neg_fdiv_neg]; congr 1; ring
    py_simp [NSlice.toPy, hns, hne, reverseSlice, NSlice.last, hcn]
    have : Int.fdiv (b + 1 - a) s = (cnt (a - b) (-s) : Int) - 1 := by
      rw [e]; omega
    ring_nf at this ⊢
    rw [this]

theorem cb_ok (n : Int) (e : Option Int) :
    Gen.verify_slice_check_bound n e = match checkBound n e with | some r => .ok r | none => .error "ValueError" := by
  cases e with
  | none => simp [Gen.verify_slice_check_bound, checkBound, pure, Except.pure]
  | some x =>
    unfold Gen.verify_slice_check_bound checkBound
    by_cases h1 : -n ≤ x ∧ x < 0
    · py_simp [h1.1, h1.2]
    · by_cases h2 : 0 ≤ x ∧ x ≤ n
      · have : ¬ (-n ≤ x ∧ x < 0) := h1
        have h3 : ¬ x < 0 := by omega
        py_simp [h2.1, h2.2, h3]
      · py_simp [h1, h2]
        try (split <;> simp_all <;> omega)

theorem gen_verify_slice (n : Int) (s : PySlice) :
    (Gen.verify_slice (.slice s) n).toOption = (verifySlice n s).map NSlice.toPy := by
  obtain ⟨sa, sb, sc⟩ := s
  unfold Gen.verify_slice verifySlice
  simp only [cb_ok]
  by_cases hn : n < 1
  · py_simp [hn, Except.toOption]
  · cases ha : checkBound n sa with
    | none => py_simp [hn, Except.toOption, PyItem.isNone]
    | some a =>
      cases hb : checkBound n sb with
      | none => py_simp [hn, Except.toOption, PyItem.isNone]
      | some b =>
        have hstep : ∀ c : Int, (c > 0 ∨ c < 0 ∨ c = 0) := by intro c; omega
        cases sc with
        | none =>
          cases a <;> cases b <;> py_simp [hn, Except.toOption, PyItem.isNone, negStart, NSlice.toPy] <;>
            py_fin
        | some c =>
          rcases hstep c with hc | hc | hc
          · have h1 : ¬ c < 0 := by omega
            have h2 : c ≠ 0 := by omega
            have h3 : Int.sign c = 1 := Int.sign_eq_one_of_pos hc
            cases a <;> cases b <;> py_simp [hn, hc, h1, h2, h3, Except.toOption, PyItem.isNone, negStart, NSlice.toPy] <;>
              py_fin
          · have h1 : ¬ c > 0 := by omega
            have h1' : ¬ 0 < c := by omega
            have h2 : c ≠ 0 := by omega
            have h3 : Int.sign c = -1 := Int.sign_eq_neg_one_of_neg hc
            cases a <;> cases b <;> py_simp [hn, hc, h1, h1', h2, h3, Except.toOption, PyItem.isNone, negStart, NSlice.toPy] <;> py_fin
          · subst hc
            cases a <;> cases b <;> py_simp [hn, Except.toOption, PyItem.isNone, negStart, NSlice.toPy] <;> py_fin

theorem gen_verify_int (n : Int) (i : Int) :
    (Gen.verify_slice (.int i) n).toOption = (verifyInt n i).map NSlice.toPy := by
  unfold Gen.verify_slice verifyInt
  simp only [cb_ok]
  by_cases hn : n < 1
  · py_simp [hn, Except.toOption]
  · unfold checkBound
    by_cases h1 : -n ≤ i ∧ i < 0
    · have : ¬ (i + n ≥ n) := by omega
      py_simp [hn, Except.toOption, PyItem.isNone, h1.1, h1.2, NSlice.toPy, this]
    · by_cases h2 : 0 ≤ i ∧ i ≤ n
      · have h3 : ¬ i < 0 := by omega
        by_cases h4 : i < n
        · have : ¬ (i ≥ n) := by omega
          py_simp [hn, Except.toOption, PyItem.isNone, h2.1, h2.2, h3, h4, NSlice.toPy, this]
        · have : i ≥ n := by omega
          py_simp [hn, Except.toOption, PyItem.isNone, h2.1, h2.2, h3, h4, NSlice.toPy, this]
      · py_simp [hn, Except.toOption, PyItem.isNone, h1, h2, NSlice.toPy]
        omega

def ovOut : Option (NSlice × NSlice) → Option PySlice × Option PySlice
  | none => (none, none)
  | some (p, c) => (some p.toPy, some c.toPy)

theorem cnt_mono {x y s : Int} (hs : 0 < s) (h : x ≤ y) : cnt x s ≤ cnt y s := by
  by_contra hc
  have hlt : cnt y s < cnt x s := by omega
  have h1 : ((cnt y s : Nat) : Int) * s < x := (lt_cnt_iff hs _).1 hlt
  have h2 : ¬ (((cnt y s : Nat) : Int) * s < y) := fun hh => by
    have := (lt_cnt_iff (span := y) hs (cnt y s)).2 hh
    exact Nat.lt_irrefl _ this
  exact h2 (by omega)

theorem gen_overlap_pos {n a b s b0 b1 : Int} (hs : 0 < s) (hab : a < b) (hb0 : 0 ≤ b0) (hb : b0 < b1) :
    Gen.find_slice_overlap ⟨some a, some b, some s⟩ ⟨some b0, some b1, some 1⟩ = .ok (ovOut (overlap ⟨a, some b, s⟩ b0 b1)) := by
  have hne : s ≠ 0 := by omega
  have hk0 : (if b0 ≤ a then (0 : Int) else Int.fdiv (b0 - a + s - 1) s) = (cnt (b0 - a) s : Int) := by
    split
    · rw [cnt_eq_zero hs (by omega)]; rfl
    · exact fdiv_eq_cnt hs (by omega)
  unfold Gen.find_slice_overlap
  by_cases hearly : b ≤ b0 ∨ a ≥ b1
  · have hnone : overlap ⟨a, some b, s⟩ b0 b1 = none := by
      have : ¬ (cnt (b0 - a) s < cnt (min b b1 - a) s) := by
        rcases hearly with h | h
        · have := cnt_mono (s := s) hs (show min b b1 - a ≤ b0 - a by omega); omega
        · rw [cnt_eq_zero hs (show min b b1 - a ≤ 0 by omega)]; omega
      simp [overlap, hs, this]
    rw [hnone]
    rcases hearly with h | h
    · py_simp [hs, hne, h, ovOut]
    · py_simp [hs, hne, h, ovOut]
  · have h1 : ¬ b ≤ b0 := by omega
    have h2 : ¬ a ≥ b1 := by omega
    have h2' : ¬ b1 ≤ a := by omega
    have hk1 := fdiv_eq_cnt hs (show 0 ≤ (min b b1 - a) + s - 1 by omega)
    py_simp [hs, hne, h1, h2, h2', ovOut, overlap]
    rw [hk1]
    by_cases hba : b0 ≤ a
    · have hk0' : (cnt (b0 - a) s : Int) = 0 := by rw [← hk0]; simp [hba]
      have hk0n : cnt (b0 - a) s = 0 := by omega
      simp only [hba, if_true, hk0n]
      by_cases hlt : 0 < cnt (min b b1 - a) s
      · have : ¬ ((cnt (min b b1 - a) s : Int) ≤ 0) := by omega
        simp [hlt, this, NSlice.toPy] <;> omega
      · have : (cnt (min b b1 - a) s : Int) ≤ 0 := by omega
        simp [hlt, this] <;> omega
    · have hk0' : Int.fdiv (b0 - a + s - 1) s = (cnt (b0 - a) s : Int) := by rw [← hk0]; simp [hba]
      simp only [hba, if_false, hk0']
      by_cases hlt : cnt (b0 - a) s < cnt (min b b1 - a) s
      · have : ¬ ((cnt (min b b1 - a) s : Int) ≤ (cnt (b0 - a) s : Int)) := by omega
        simp [hlt, this, NSlice.toPy] <;> omega
      · have : (cnt (min b b1 - a) s : Int) ≤ (cnt (b0 - a) s : Int) := by omega
        simp [hlt, this] <;> omega

theorem gen_overlap_neg {a s b0 b1 : Int} {st : Option Int} (hs : s < 0) (hlo : st.getD (-1) < a)
    (hst : ∀ x, st = some x → 0 ≤ x) (hb0 : 0 ≤ b0) (hb : b0 < b1) :
    Gen.find_slice_overlap ⟨some a, st, some s⟩ ⟨some b0, some b1, some 1⟩ = .ok (ovOut (overlap ⟨a, st, s⟩ b0 b1)) := by
  have hne : s ≠ 0 := by omega
  have hns : ¬ (s > 0) := by omega
  have hns' : ¬ (0 < s) := by omega
  have hs' : 0 < -s := by omega
  have hk0 : (if a < b1 then (0 : Int) else Int.fdiv (a - b1 + 1 - s - 1) (-s)) = (cnt (a - (b1 - 1)) (-s) : Int) := by
    split
    · rw [cnt_eq_zero hs' (by omega)]; rfl
    · have := fdiv_eq_cnt (x := a - (b1 - 1)) hs' (by omega)
      rw [← this]; congr 1; ring
  unfold Gen.find_slice_overlap
  by_cases hearly : a < b0 ∨ b1 ≤ st.getD (-1)
  · have hnone : overlap ⟨a, st, s⟩ b0 b1 = none := by
      have : ¬ (cnt (a - (b1 - 1)) (-s) < cnt (a - max (b0 - 1) (st.getD (-1))) (-s)) := by
        rcases hearly with h | h
        · rw [cnt_eq_zero hs' (show a - max (b0 - 1) (st.getD (-1)) ≤ 0 by omega)]; omega
        · have := cnt_mono (s := -s) hs' (show a - max (b0 - 1) (st.getD (-1)) ≤ a - (b1 - 1) by omega); omega
      simp [overlap, hs, hns', this]
    rw [hnone]
    cases st with
    | none =>
      simp at hearly
      py_simp [hs, hns, hne, hearly, ovOut]
      have : ¬ (b1 ≤ -1) := by omega
      rcases hearly with h | h
      · simp [h]
      · omega
    | some x =>
      simp at hearly
      rcases hearly with h | h
      · py_simp [hs, hns, hne, h, ovOut]
      · by_cases h' : a < b0
        · py_simp [hs, hns, hne, h', ovOut]
        · py_simp [hs, hns, hne, h', h, ovOut]
  · have h1 : ¬ a < b0 := by omega
    have h2 : ¬ b1 ≤ st.getD (-1) := by omega
    have hk1 := fdiv_eq_cnt (x := a - max (b0 - 1) (st.getD (-1))) hs' (by omega)
    have e : ∀ M : Int, a - M + -s - 1 = a - M - s - 1 := by intro M; ring
    rw [e] at hk1
    cases st with
    | none =>
      simp at h2 hk1 hlo
      py_simp [hs, hns, hns', hne, h1, ovOut, overlap]
      rw [hk1]
      generalize cnt (a - max (b0 - 1) (-1)) (-s) = K1 at *
      by_cases hab1 : a < b1
      · have hk0' : (cnt (a - (b1 - 1)) (-s) : Int) = 0 := by rw [← hk0]; simp [hab1]
        have hk0n : cnt (a - (b1 - 1)) (-s) = 0 := by omega
        simp only [hab1, if_true, hk0n]
        by_cases hlt : 0 < K1
        · have : ¬ ((K1 : Int) ≤ 0) := by omega
          simp [hlt, this, NSlice.toPy]
          all_goals (first | done | omega | (split_ifs <;> first | omega | simp | skip))
          all_goals (first | done | omega)
        · have : (K1 : Int) ≤ 0 := by omega
          simp [hlt, this]
          all_goals (first | done | omega)
      · have hk0' : Int.fdiv (a - b1 + 1 - s - 1) (-s) = (cnt (a - (b1 - 1)) (-s) : Int) := by rw [← hk0]; simp [hab1]
        simp only [hab1, if_false, hk0']
        generalize cnt (a - (b1 - 1)) (-s) = K0 at *
        by_cases hlt : K0 < K1
        · have : ¬ ((K1 : Int) ≤ (K0 : Int)) := by omega
          simp [hlt, this, NSlice.toPy]
          all_goals (first | done | omega | (split_ifs <;> first | omega | simp | skip))
          all_goals (first | done | omega)
        · have : (K1 : Int) ≤ (K0 : Int) := by omega
          simp [hlt, this]
          all_goals (first | done | omega)
    | some x =>
      have hx := hst x rfl
      simp at h2 hk1 hlo
      have h2' : ¬ x ≥ b1 := by omega
      have h2'' : ¬ b1 ≤ x := by omega
      py_simp [hs, hns, hns', hne, h1, h2', h2'', ovOut, overlap]
      rw [hk1]
      generalize cnt (a - max (b0 - 1) x) (-s) = K1 at *
      by_cases hab1 : a < b1
      · have hk0' : (cnt (a - (b1 - 1)) (-s) : Int) = 0 := by rw [← hk0]; simp [hab1]
        have hk0n : cnt (a - (b1 - 1)) (-s) = 0 := by omega
        simp only [hab1, if_true, hk0n]
        by_cases hlt : 0 < K1
        · have : ¬ ((K1 : Int) ≤ 0) := by omega
          simp [hlt, this, NSlice.toPy]
          all_goals (first | done | omega | (split_ifs <;> first | omega | simp | skip))
          all_goals (first | done | omega)
        · have : (K1 : Int) ≤ 0 := by omega
          simp [hlt, this]
          all_goals (first | done | omega)
      · have hk0' : Int.fdiv (a - b1 + 1 - s - 1) (-s) = (cnt (a - (b1 - 1)) (-s) : Int) := by rw [← hk0]; simp [hab1]
        simp only [hab1, if_false, hk0']
        generalize cnt (a - (b1 - 1)) (-s) = K0 at *
        by_cases hlt : K0 < K1
        · have : ¬ ((K1 : Int) ≤ (K0 : Int)) := by omega
          simp [hlt, this, NSlice.toPy]
          all_goals (first | done | omega | (split_ifs <;> first | omega | simp | skip))
          all_goals (first | done | omega)
        · have : (K1 : Int) ≤ (K0 : Int) := by omega
          simp [hlt, this]
          all_goals (first | done | omega)

theorem gen_overlap {n : Int} {t : NSlice} (h : t.Normal n) {b0 b1 : Int} (hb0 : 0 ≤ b0) (hb : b0 < b1) :
    Gen.find_slice_overlap t.toPy ⟨some b0, some b1, some 1⟩ = .ok (ovOut (overlap t b0 b1)) := by
  obtain ⟨a, st, s⟩ := t
  obtain ⟨h0, h1, (⟨hs, b, hbb, hab, hbn⟩ | ⟨hs, hstop⟩)⟩ := h
  · simp only at hbb; subst hbb
    exact gen_overlap_pos (n := n) hs hab hb0 hb
  · simp only at hs hstop h0
    refine gen_overlap_neg hs ?_ ?_ hb0 hb
    · rcases hstop with h | ⟨b, hb', hb0', hba⟩
      · simp [h]; omega
      · simp [hb']; omega
    · intro x hx
      rcases hstop with h | ⟨b, hb', hb0', hba⟩
      · simp [h] at hx
      · rw [hb'] at hx; simp at hx; omega

end Sarpy.Bridge
