/-
  Bridge: the dispatch functions regenerated from /repo's Python (`Gen.Dispatch.*`, translate/gen_dispatch.py) compute the
  reference definitions of `Spec/Dispatch.lean` on every input.  Shallow automation only (case split on the constructor of a
  value, `simp` with the definitions of the Python primitives), so that a harmless rewrite of the Python keeps these proofs
  alive while a semantic change makes them fail.
-/
import SarpyModel.Gen.Dispatch
import Mathlib.Tactic.SplitIfs

namespace Sarpy.Bridge.Dispatch
open Sarpy Sarpy.Spec

/-! ### the Python primitives on constructors (simp set of the bridge; each is `rfl`) -/

@[simp] theorem isNone_none : PyVal.none.isNone = true := rfl
@[simp] theorem isNone_int (i : Int) : (PyVal.int i).isNone = false := rfl
@[simp] theorem isNone_str (m : StrMod) : (PyVal.str m).isNone = false := rfl
@[simp] theorem isNone_slice (s : PySlice) : (PyVal.slice s).isNone = false := rfl
@[simp] theorem isNone_ell : PyVal.ell.isNone = false := rfl
@[simp] theorem isNone_other : PyVal.other.isNone = false := rfl
@[simp] theorem isNone_tuple (l : List PyVal) : (PyVal.tuple l).isNone = false := rfl
@[simp] theorem isInt_none : PyVal.none.isInt = false := rfl
@[simp] theorem isInt_int (i : Int) : (PyVal.int i).isInt = true := rfl
@[simp] theorem isInt_str (m : StrMod) : (PyVal.str m).isInt = false := rfl
@[simp] theorem isInt_slice (s : PySlice) : (PyVal.slice s).isInt = false := rfl
@[simp] theorem isInt_ell : PyVal.ell.isInt = false := rfl
@[simp] theorem isInt_other : PyVal.other.isInt = false := rfl
@[simp] theorem isInt_tuple (l : List PyVal) : (PyVal.tuple l).isInt = false := rfl
@[simp] theorem isStr_none : PyVal.none.isStr = false := rfl
@[simp] theorem isStr_int (i : Int) : (PyVal.int i).isStr = false := rfl
@[simp] theorem isStr_str (m : StrMod) : (PyVal.str m).isStr = true := rfl
@[simp] theorem isStr_slice (s : PySlice) : (PyVal.slice s).isStr = false := rfl
@[simp] theorem isStr_ell : PyVal.ell.isStr = false := rfl
@[simp] theorem isStr_other : PyVal.other.isStr = false := rfl
@[simp] theorem isStr_tuple (l : List PyVal) : (PyVal.tuple l).isStr = false := rfl
@[simp] theorem isTuple_none : PyVal.none.isTuple = false := rfl
@[simp] theorem isTuple_int (i : Int) : (PyVal.int i).isTuple = false := rfl
@[simp] theorem isTuple_str (m : StrMod) : (PyVal.str m).isTuple = false := rfl
@[simp] theorem isTuple_slice (s : PySlice) : (PyVal.slice s).isTuple = false := rfl
@[simp] theorem isTuple_ell : PyVal.ell.isTuple = false := rfl
@[simp] theorem isTuple_other : PyVal.other.isTuple = false := rfl
@[simp] theorem isTuple_tuple (l : List PyVal) : (PyVal.tuple l).isTuple = true := rfl
@[simp] theorem isSlice_none : PyVal.none.isSlice = false := rfl
@[simp] theorem isSlice_int (i : Int) : (PyVal.int i).isSlice = false := rfl
@[simp] theorem isSlice_str (m : StrMod) : (PyVal.str m).isSlice = false := rfl
@[simp] theorem isSlice_slice (s : PySlice) : (PyVal.slice s).isSlice = true := rfl
@[simp] theorem isSlice_ell : PyVal.ell.isSlice = false := rfl
@[simp] theorem isSlice_other : PyVal.other.isSlice = false := rfl
@[simp] theorem isSlice_tuple (l : List PyVal) : (PyVal.tuple l).isSlice = false := rfl
@[simp] theorem isEll_none : PyVal.none.isEll = false := rfl
@[simp] theorem isEll_int (i : Int) : (PyVal.int i).isEll = false := rfl
@[simp] theorem isEll_str (m : StrMod) : (PyVal.str m).isEll = false := rfl
@[simp] theorem isEll_slice (s : PySlice) : (PyVal.slice s).isEll = false := rfl
@[simp] theorem isEll_ell : PyVal.ell.isEll = true := rfl
@[simp] theorem isEll_other : PyVal.other.isEll = false := rfl
@[simp] theorem isEll_tuple (l : List PyVal) : (PyVal.tuple l).isEll = false := rfl
@[simp] theorem strOf_none : PyVal.none.strOf = Option.none := rfl
@[simp] theorem strGet_none : PyVal.none.strGet = StrMod.unknown := rfl
@[simp] theorem intGet_none : PyVal.none.intGet = 0 := rfl
@[simp] theorem entryGet_none : PyVal.none.entryGet = SubEntry.ell := rfl
@[simp] theorem pyStar_none : pyStar PyVal.none = .error .typeError := rfl
@[simp] theorem pyDropLast_none : pyDropLast PyVal.none = .error .typeError := rfl
@[simp] theorem pyLast_none : pyLast PyVal.none = .error .typeError := rfl
@[simp] theorem pyIter_none : pyIter PyVal.none = [] := rfl
@[simp] theorem pySliceStar_none : pySliceStar PyVal.none = .error .typeError := rfl
@[simp] theorem strOf_int (i : Int) : (PyVal.int i).strOf = Option.none := rfl
@[simp] theorem strGet_int (i : Int) : (PyVal.int i).strGet = StrMod.unknown := rfl
@[simp] theorem intGet_int (i : Int) : (PyVal.int i).intGet = i := rfl
@[simp] theorem entryGet_int (i : Int) : (PyVal.int i).entryGet = SubEntry.ell := rfl
@[simp] theorem pyStar_int (i : Int) : pyStar (PyVal.int i) = .error .typeError := rfl
@[simp] theorem pyDropLast_int (i : Int) : pyDropLast (PyVal.int i) = .error .typeError := rfl
@[simp] theorem pyLast_int (i : Int) : pyLast (PyVal.int i) = .error .typeError := rfl
@[simp] theorem pyIter_int (i : Int) : pyIter (PyVal.int i) = [] := rfl
@[simp] theorem pySliceStar_int (i : Int) : pySliceStar (PyVal.int i) = .error .typeError := rfl
@[simp] theorem strOf_str (m : StrMod) : (PyVal.str m).strOf = some m := rfl
@[simp] theorem strGet_str (m : StrMod) : (PyVal.str m).strGet = m := rfl
@[simp] theorem intGet_str (m : StrMod) : (PyVal.str m).intGet = 0 := rfl
@[simp] theorem entryGet_str (m : StrMod) : (PyVal.str m).entryGet = SubEntry.ell := rfl
@[simp] theorem pyStar_str (m : StrMod) : pyStar (PyVal.str m) = .error .typeError := rfl
@[simp] theorem pyDropLast_str (m : StrMod) : pyDropLast (PyVal.str m) = .error .typeError := rfl
@[simp] theorem pyLast_str (m : StrMod) : pyLast (PyVal.str m) = .error .typeError := rfl
@[simp] theorem pyIter_str (m : StrMod) : pyIter (PyVal.str m) = [] := rfl
@[simp] theorem pySliceStar_str (m : StrMod) : pySliceStar (PyVal.str m) = .error .typeError := rfl
@[simp] theorem strOf_slice (s : PySlice) : (PyVal.slice s).strOf = Option.none := rfl
@[simp] theorem strGet_slice (s : PySlice) : (PyVal.slice s).strGet = StrMod.unknown := rfl
@[simp] theorem intGet_slice (s : PySlice) : (PyVal.slice s).intGet = 0 := rfl
@[simp] theorem entryGet_slice (s : PySlice) : (PyVal.slice s).entryGet = SubEntry.item (PyItem.slice s) := rfl
@[simp] theorem pyStar_slice (s : PySlice) : pyStar (PyVal.slice s) = .error .typeError := rfl
@[simp] theorem pyDropLast_slice (s : PySlice) : pyDropLast (PyVal.slice s) = .error .typeError := rfl
@[simp] theorem pyLast_slice (s : PySlice) : pyLast (PyVal.slice s) = .error .typeError := rfl
@[simp] theorem pyIter_slice (s : PySlice) : pyIter (PyVal.slice s) = [] := rfl
@[simp] theorem pySliceStar_slice (s : PySlice) : pySliceStar (PyVal.slice s) = .error .typeError := rfl
@[simp] theorem strOf_ell : PyVal.ell.strOf = Option.none := rfl
@[simp] theorem strGet_ell : PyVal.ell.strGet = StrMod.unknown := rfl
@[simp] theorem intGet_ell : PyVal.ell.intGet = 0 := rfl
@[simp] theorem entryGet_ell : PyVal.ell.entryGet = SubEntry.ell := rfl
@[simp] theorem pyStar_ell : pyStar PyVal.ell = .error .typeError := rfl
@[simp] theorem pyDropLast_ell : pyDropLast PyVal.ell = .error .typeError := rfl
@[simp] theorem pyLast_ell : pyLast PyVal.ell = .error .typeError := rfl
@[simp] theorem pyIter_ell : pyIter PyVal.ell = [] := rfl
@[simp] theorem pySliceStar_ell : pySliceStar PyVal.ell = .error .typeError := rfl
@[simp] theorem strOf_other : PyVal.other.strOf = Option.none := rfl
@[simp] theorem strGet_other : PyVal.other.strGet = StrMod.unknown := rfl
@[simp] theorem intGet_other : PyVal.other.intGet = 0 := rfl
@[simp] theorem entryGet_other : PyVal.other.entryGet = SubEntry.ell := rfl
@[simp] theorem pyStar_other : pyStar PyVal.other = .error .typeError := rfl
@[simp] theorem pyDropLast_other : pyDropLast PyVal.other = .error .typeError := rfl
@[simp] theorem pyLast_other : pyLast PyVal.other = .error .typeError := rfl
@[simp] theorem pyIter_other : pyIter PyVal.other = [] := rfl
@[simp] theorem pySliceStar_other : pySliceStar PyVal.other = .error .typeError := rfl
@[simp] theorem strOf_tuple (l : List PyVal) : (PyVal.tuple l).strOf = Option.none := rfl
@[simp] theorem strGet_tuple (l : List PyVal) : (PyVal.tuple l).strGet = StrMod.unknown := rfl
@[simp] theorem intGet_tuple (l : List PyVal) : (PyVal.tuple l).intGet = 0 := rfl
@[simp] theorem entryGet_tuple (l : List PyVal) : (PyVal.tuple l).entryGet = SubEntry.ell := rfl
@[simp] theorem pyStar_tuple (l : List PyVal) : pyStar (PyVal.tuple l) = .ok l := rfl
@[simp] theorem pyDropLast_tuple (l : List PyVal) : pyDropLast (PyVal.tuple l) = .ok (PyVal.tuple l.dropLast) := rfl
@[simp] theorem pyIter_tuple (l : List PyVal) : pyIter (PyVal.tuple l) = l := rfl
@[simp] theorem pySliceStar_tuple (l : List PyVal) : pySliceStar (PyVal.tuple l) = sliceOfTuple l := rfl

/-! ### loops -/

/-- a loop whose step never raises is a left fold -/
theorem pyFor_ok {σ : Type} (f : σ → PyVal → σ) (step : σ → PyVal → Except Err σ) (h : ∀ s x, step s x = .ok (f s x)) :
    ∀ (xs : List PyVal) (init : σ), pyFor xs init step = .ok (xs.foldl f init)
  | [], _ => rfl
  | x :: r, init => by
    unfold pyFor
    rw [h]
    exact pyFor_ok f step h r (f init x)

/-- element-wise conversion with exceptions, first error wins -/
def mapE {β : Type} (g : PyVal → Except Err β) : List PyVal → Except Err (List β)
  | [] => .ok []
  | x :: r =>
    match g x with
    | .error e => .error e
    | .ok y =>
      match mapE g r with
      | .error e => .error e
      | .ok ys => .ok (y :: ys)

/-- a loop that appends one converted element per step (or raises) is `mapE` -/
theorem pyFor_append {β : Type} (g : PyVal → Except Err β) (step : List β → PyVal → Except Err (List β))
    (h : ∀ s x, step s x = (g x).map (fun y => s ++ [y])) :
    ∀ (xs : List PyVal) (init : List β), pyFor xs init step = (mapE g xs).map (fun ys => init ++ ys)
  | [], init => by simp [pyFor, mapE, Except.map]
  | x :: r, init => by
    unfold pyFor mapE
    rw [h]
    cases hg : g x with
    | error e => simp [Except.map]
    | ok y =>
      simp only [Except.map]
      rw [pyFor_append g step h r (init ++ [y])]
      cases mapE g r with
      | error e => simp [Except.map]
      | ok ys => simp [Except.map]

theorem convRanges_eq_mapE : ∀ rs : List PyVal, convRanges rs = mapE convRange rs
  | [] => rfl
  | r :: rs => by
    unfold convRanges mapE
    rw [convRanges_eq_mapE rs]
    cases convRange r with
    | error e => rfl
    | ok x => cases mapE convRange rs <;> rfl

/-- one step of the loop of `extract_string_from_subscript` -/
def splitStep (acc : List StrMod × List PyVal) (e : PyVal) : List StrMod × List PyVal :=
  if e.isStr then (acc.1 ++ [e.strGet], acc.2) else (acc.1, acc.2 ++ [e])

theorem split_strings : ∀ (l : List PyVal) (ss : List StrMod) (ns : List PyVal),
    l.foldl splitStep (ss, ns) = (ss ++ l.filterMap PyVal.strOf, ns ++ l.filter (fun v => !v.isStr))
  | [], ss, ns => by simp
  | e :: l, ss, ns => by
    rw [List.foldl_cons]
    cases e <;> simp [splitStep, split_strings l, List.filterMap_cons]

/-! ### the functions -/

/-- `extract_string_from_subscript` as the Python text has it today -/
theorem gen_extract (v : PyVal) : Gen.Dispatch.extract_string_from_subscript v = .ok (extractStrings v) := by
  unfold Gen.Dispatch.extract_string_from_subscript extractStrings
  cases v with
  | tuple l =>
    simp only [isStr_tuple, isTuple_tuple, pyIter_tuple, Bool.false_eq_true, if_false, if_true]
    rw [pyFor_ok splitStep _ (by intro s x; obtain ⟨a, b⟩ := s; cases x <;> rfl)]
    rw [split_strings]
    simp only [bind, Except.bind, List.nil_append, pure, Except.pure]
    by_cases h : (List.filterMap PyVal.strOf l).length > 0
    · have : ((List.filterMap PyVal.strOf l).length : Int) > 0 := by omega
      simp [h]
    · have : ¬ ((List.filterMap PyVal.strOf l).length : Int) > 0 := by omega
      simp [h]
  | _ => rfl

/-- `BaseReader.__call__` as the Python text has it today -/
theorem gen_reader_call (count : Nat) (ranges : List PyVal) (index : Int) (raw sq : Bool) :
    Gen.Dispatch.reader_call count ranges index raw sq = readerCall count ranges index raw sq := by
  unfold Gen.Dispatch.reader_call readerCall callSub pickImage
  by_cases h0 : ranges.length = 0
  · have h0' : ((ranges.length : Int) = 0) := by omega
    simp only [h0, h0', decide_true, if_true]
    by_cases hc : count = 1
    · cases raw <;> simp [hc, pure, Except.pure]
    · cases hp : pyIndex count index <;> cases raw <;> simp [hc, hp, bind, Except.bind, pure, Except.pure]
  · have h0' : ¬ ((ranges.length : Int) = 0) := by omega
    simp only [h0, h0', decide_false, Bool.false_eq_true, if_false]
    rw [pyFor_append convRange _ (by
      intro s x
      cases x with
      | tuple l => cases hs : sliceOfTuple l <;> simp [hs, convRange, Except.map, bind, Except.bind, pure, Except.pure]
      | _ => simp [convRange, Except.map, bind, Except.bind, pure, Except.pure, throw, throwThe, MonadExceptOf.throw])]
    rw [← convRanges_eq_mapE]
    cases hr : convRanges ranges with
    | error e => simp [Except.map, bind, Except.bind]
    | ok xs =>
      by_cases hc : count = 1
      · cases raw <;> simp [hc, Except.map, bind, Except.bind, pure, Except.pure]
      · cases hp : pyIndex count index <;> cases raw <;> simp [hc, hp, Except.map, bind, Except.bind, pure, Except.pure]

theorem pyLast_tuple (l : List PyVal) :
    pyLast (PyVal.tuple l) = match l.getLast? with | Option.none => .error .indexError | some v => .ok v := rfl

@[simp] theorem ebind_ok {α β : Type} (a : α) (f : α → Except Err β) : Except.bind (.ok a) f = f a := rfl
@[simp] theorem ebind_error {α β : Type} (e : Err) (f : α → Except Err β) :
    Except.bind (.error e : Except Err α) f = .error e := rfl
@[simp] theorem ebind_ret {α : Type} (x : Except Err α) : Except.bind x (fun r => Except.ok r) = x := by cases x <;> rfl

/-- `BaseReader.__getitem__` as the Python text has it today -/
theorem gen_reader_getitem (count : Nat) (s : PyVal) :
    Gen.Dispatch.reader_getitem count s = readerGetitem count s := by
  unfold Gen.Dispatch.reader_getitem readerGetitem
  rw [gen_extract]
  simp only [bind, ebind_ok]
  generalize extractStrings s = es
  obtain ⟨v, strs⟩ := es
  cases v with
  | tuple l =>
    simp only [isTuple_tuple, Bool.not_true, Bool.false_eq_true, if_false, asTuple, pyLast_tuple]
    cases hl : l.getLast? with
    | none => simp
    | some w =>
      cases w with
      | int i => by_cases hr : -(count : Int) < i ∧ i < count <;> simp [hr, gen_reader_call]
      | _ => simp [gen_reader_call]
  | int i => by_cases hr : -(count : Int) < i ∧ i < count <;> simp [hr, asTuple, pyLast_tuple, gen_reader_call]
  | _ => simp [asTuple, pyLast_tuple, gen_reader_call]

/-- `read`, `read_raw`, `read_chip` as the Python text has them today: which arguments they forward, with which raw flag -/
theorem gen_reader_read (count : Nat) (ranges : List PyVal) (index : Int) (sq : Bool) :
    Gen.Dispatch.reader_read count ranges index sq = readerRead count ranges index sq := by
  unfold Gen.Dispatch.reader_read readerRead
  simp [bind, gen_reader_call]
theorem gen_reader_read_raw (count : Nat) (ranges : List PyVal) (index : Int) (sq : Bool) :
    Gen.Dispatch.reader_read_raw count ranges index sq = readerReadRaw count ranges index sq := by
  unfold Gen.Dispatch.reader_read_raw readerReadRaw
  simp [bind, gen_reader_call]
theorem gen_reader_read_chip (count : Nat) (ranges : List PyVal) (index : Int) (sq : Bool) :
    Gen.Dispatch.reader_read_chip count ranges index sq = readerReadChip count ranges index sq := by
  unfold Gen.Dispatch.reader_read_chip readerReadChip
  simp [bind, gen_reader_call]

/-- **the reader dispatch of the current source is the model's**, for every request -/
theorem gen_dispatch_get (count : Nat) (req : Request) : Gen.Dispatch.dispatch_get count req = dispatchGet count req := by
  cases req with
  | getitem s => exact gen_reader_getitem count s
  | call r i raw sq => exact gen_reader_call count r i raw sq
  | read r i sq => exact gen_reader_read count r i sq
  | readRaw r i sq => exact gen_reader_read_raw count r i sq
  | readChip r i sq => exact gen_reader_read_chip count r i sq

/-- `BaseWriter.__call__` as the Python text has it today -/
theorem gen_writer_call (segs : List Bool) (a : PutArgs) (raw : Bool) :
    Gen.Dispatch.writer_call segs a.start a.sub a.index raw = writerCall segs a raw := by
  unfold Gen.Dispatch.writer_call writerCall
  cases hp : pyIndex segs.length a.index with
  | error e => simp [bind]
  | ok k => cases raw <;> cases hf : segs.getD k false <;>
      simp_all [bind, pure, Except.pure, throw, throwThe, MonadExceptOf.throw]

/-- `write`, `write_raw`, `write_chip` as the Python text has them today: every addressing argument and the index are
    forwarded, with the raw flag of the entry point -/
theorem gen_writer_write (segs : List Bool) (a : PutArgs) :
    Gen.Dispatch.writer_write segs a.start a.sub a.index = writerWrite segs a := by
  unfold Gen.Dispatch.writer_write writerWrite
  simp [bind, gen_writer_call]
theorem gen_writer_write_raw (segs : List Bool) (a : PutArgs) :
    Gen.Dispatch.writer_write_raw segs a.start a.sub a.index = writerWriteRaw segs a := by
  unfold Gen.Dispatch.writer_write_raw writerWriteRaw
  simp [bind, gen_writer_call]
theorem gen_writer_write_chip (segs : List Bool) (a : PutArgs) :
    Gen.Dispatch.writer_write_chip segs a.start a.sub a.index = writerWriteChip segs a := by
  unfold Gen.Dispatch.writer_write_chip writerWriteChip
  simp [bind, gen_writer_call]

/-- **the writer dispatch of the current source is the model's**, for every request -/
theorem gen_dispatch_put (segs : List Bool) (req : PutRequest) : Gen.Dispatch.dispatch_put segs req = dispatchPut segs req := by
  cases req with
  | call a raw => exact gen_writer_call segs a raw
  | write a => exact gen_writer_write segs a
  | writeRaw a => exact gen_writer_write_raw segs a
  | writeChip a => exact gen_writer_write_chip segs a

end Sarpy.Bridge.Dispatch
