/-
  Bridge: the chipping kernels regenerated from /repo (`Gen.L.*` in Gen/LoopsChip.lean; translate/gen_loops.py, group chip) compute
  the reference definitions of Spec.Chip, so that the window / metadata / tiling theorems of Props/C15 speak about the regenerated code.

  (c1) SICDType.create_subset_structure, the arithmetic on ImageData.{FirstRow, NumRows, FirstCol, NumCols} and the vetted bounds
        gen_create_subset_structure     = Spec.Chip.subsetStructure (ValueError exactly when it refuses), `None` bounds included
        gen_subset_refused_iff          the regenerated code raises exactly for windows that are not valid (C15.subset_refused_iff)
        gen_subset_compose              the regenerated code applied twice = once with the composed bounds (C15.subset_structure_compose)
  (c2) Converter._get_rows_per_block: `max(1, int(round(max_block_size / bytes_per_row)))`
        roundDiv_nat                    Python 3 round-half-even of a quotient of naturals = Spec.Chip.roundHalfEven
        gen_get_rows_per_block          = Spec.Chip.rowsPerBlock's formula, for every pixel type code, width > 0 and block size
  (c3) Converter.write_data: normalisation of max_block_size, then `while block_start < row_limits[1]` (fuel r1 - r0): the kernel returns
       the (window read, position written) pairs
        gen_write_data                  = Spec.Chip.converterBlocks r0 r1 (rowsPerBlock ...), each block read over columns [c0, c1)
                                          and written at chip row block_start - r0, column 0; in particular the fuel suffices
        gen_write_data_tiles            Props/C15.converter_rows_tile for the regenerated code: every chip row in exactly one block,
                                          write positions tile [0, r1 - r0)
-/
import SarpyModel.Gen.LoopsChip
import SarpyModel.Spec.Loops
import SarpyModel.Proofs.PyLoops
import SarpyModel.Props.C15
import Mathlib.Tactic.SplitIfs
import Mathlib.Tactic.Ring
import Mathlib.Tactic.Linarith
import Mathlib.Tactic.NormNum

namespace Sarpy.Bridge.LC
open Sarpy Sarpy.Spec Sarpy.Spec.L Sarpy.Spec.Layout Sarpy.Spec.Chip Sarpy.Proofs.PyLoops

/-! ### (c1) create_subset_structure -/

theorem gen_create_subset_structure (fr nr fc nc : Int) (hasRb : Bool) (rb0 rb1 : Int) (hasCb : Bool) (cb0 cb1 : Int) :
    Gen.L.create_subset_structure fr nr fc nc hasRb rb0 rb1 hasCb cb0 cb1 =
      (match subsetKernel fr nr fc nc (optBounds hasRb rb0 rb1) (optBounds hasCb cb0 cb1) with
        | some v => .ok v
        | none => .error "ValueError") := by
  unfold Gen.L.create_subset_structure subsetKernel subsetStructure optBounds
  cases hasRb <;> cases hasCb <;>
    simp only [subsetAxisO, subsetAxis, checkBounds, ofBounds, bind, Except.bind, pure, Except.pure, Bool.false_eq_true, if_false, if_true,
      Bool.not_eq_true', Bool.and_eq_false_imp, decide_eq_true_eq, decide_eq_false_iff_not] <;>
    split_ifs <;> first | rfl | (exfalso; omega) | (simp_all; done) | (simp_all <;> omega)

/-- the regenerated code raises exactly for windows that are not valid (explicit bounds on both axes) -/
theorem gen_subset_refused_iff (fr nr fc nc a b c d : Int) :
    Gen.L.create_subset_structure fr nr fc nc true a b true c d = .error "ValueError" ↔
      ¬ ((ofBounds a b).Valid nr ∧ (ofBounds c d).Valid nc) := by
  rw [gen_create_subset_structure]
  simp only [subsetKernel, subsetStructure, optBounds, if_true, subsetAxisO]
  by_cases h1 : (ofBounds a b).Valid nr <;> by_cases h2 : (ofBounds c d).Valid nc
  · rw [Props.C15.subsetAxis_eq (m := ⟨fr, nr, 0, 0⟩) h1, Props.C15.subsetAxis_eq (m := ⟨fc, nc, 0, 0⟩) h2]
    simp [h1, h2]
  · rw [(Props.C15.subset_refused_iff ⟨fc, nc, 0, 0⟩ c d).2 h2]
    cases subsetAxis ⟨fr, nr, 0, 0⟩ a b <;> simp [h2]
  · rw [(Props.C15.subset_refused_iff ⟨fr, nr, 0, 0⟩ a b).2 h1]
    simp [h1]
  · rw [(Props.C15.subset_refused_iff ⟨fr, nr, 0, 0⟩ a b).2 h1]
    simp [h1]

theorem subsetAxisO_keeps (m m1 : AxisMeta) (rb : Option (Int × Int)) (bo : Int × Int) (h : subsetAxisO m rb = some (m1, bo)) :
    m1.scp = m.scp ∧ m1.fullNum = m.fullNum := by
  cases rb with
  | none => simp only [subsetAxisO, Option.some.injEq, Prod.mk.injEq] at h; rw [← h.1]; exact ⟨rfl, rfl⟩
  | some p =>
    obtain ⟨a, b⟩ := p
    have := Props.C15.subset_meta_fields (m := m) (m1 := m1) (a := a) (b := b) (bo := bo) h
    exact ⟨this.2.2.1, this.2.2.2.1⟩

theorem subsetKernel_some (fr nr fc nc : Int) (rb cb : Option (Int × Int)) (fr1 nr1 fc1 nc1 : Int) (rbo cbo : Int × Int) :
    subsetKernel fr nr fc nc rb cb = some ((fr1, nr1, fc1, nc1), rbo, cbo) ↔
      subsetStructure ⟨⟨fr, nr, 0, 0⟩, ⟨fc, nc, 0, 0⟩⟩ rb cb = some (⟨⟨fr1, nr1, 0, 0⟩, ⟨fc1, nc1, 0, 0⟩⟩, rbo, cbo) := by
  unfold subsetKernel
  cases h : subsetStructure ⟨⟨fr, nr, 0, 0⟩, ⟨fc, nc, 0, 0⟩⟩ rb cb with
  | none => simp
  | some v =>
    obtain ⟨m, rbo', cbo'⟩ := v
    have hk : m.row.scp = 0 ∧ m.row.fullNum = 0 ∧ m.col.scp = 0 ∧ m.col.fullNum = 0 := by
      simp only [subsetStructure] at h
      cases e1 : subsetAxisO ⟨fr, nr, 0, 0⟩ rb with
      | none => simp [e1] at h
      | some x =>
        cases e2 : subsetAxisO ⟨fc, nc, 0, 0⟩ cb with
        | none => simp [e1, e2] at h
        | some y =>
          obtain ⟨x1, x2⟩ := x
          obtain ⟨y1, y2⟩ := y
          simp only [e1, e2, Option.some.injEq, Prod.mk.injEq] at h
          have k1 := subsetAxisO_keeps _ _ _ _ e1
          have k2 := subsetAxisO_keeps _ _ _ _ e2
          rw [← h.1]
          exact ⟨k1.1, k1.2, k2.1, k2.2⟩
    obtain ⟨⟨a1, a2, a3, a4⟩, ⟨b1, b2, b3, b4⟩⟩ := m
    simp only at hk
    obtain ⟨rfl, rfl, rfl, rfl⟩ := hk
    simp only [Option.some.injEq, Prod.mk.injEq, ImageMeta.mk.injEq, AxisMeta.mk.injEq, and_true]
    constructor
    · rintro ⟨⟨rfl, rfl, rfl, rfl⟩, rfl, rfl⟩; exact ⟨⟨⟨rfl, rfl⟩, rfl, rfl⟩, rfl, rfl⟩
    · rintro ⟨⟨⟨rfl, rfl⟩, rfl, rfl⟩, rfl, rfl⟩; exact ⟨⟨rfl, rfl, rfl, rfl⟩, rfl, rfl⟩

theorem gen_subset_ok_iff (fr nr fc nc : Int) (hasRb : Bool) (rb0 rb1 : Int) (hasCb : Bool) (cb0 cb1 : Int)
    (v : (Int × Int × Int × Int) × (Int × Int) × (Int × Int)) :
    Gen.L.create_subset_structure fr nr fc nc hasRb rb0 rb1 hasCb cb0 cb1 = .ok v ↔
      subsetKernel fr nr fc nc (optBounds hasRb rb0 rb1) (optBounds hasCb cb0 cb1) = some v := by
  rw [gen_create_subset_structure]
  cases subsetKernel fr nr fc nc (optBounds hasRb rb0 rb1) (optBounds hasCb cb0 cb1) <;> simp

/-- **the regenerated `create_subset_structure` twice = once with the composed bounds** (both axes, `None` allowed at either level):
    `(a, b), (c, d)` are the vetted bounds the first call returns, `(a', b'), (c', d')` those of the second call on its result -/
theorem gen_subset_compose (fr nr fc nc : Int) (hr : 0 < nr) (hc : 0 < nc)
    (hasRb : Bool) (rb0 rb1 : Int) (hasCb : Bool) (cb0 cb1 : Int) (hasRb' : Bool) (rb0' rb1' : Int) (hasCb' : Bool) (cb0' cb1' : Int)
    (fr1 nr1 fc1 nc1 a b c d fr2 nr2 fc2 nc2 a' b' c' d' : Int)
    (h1 : Gen.L.create_subset_structure fr nr fc nc hasRb rb0 rb1 hasCb cb0 cb1 = .ok ((fr1, nr1, fc1, nc1), (a, b), (c, d)))
    (h2 : Gen.L.create_subset_structure fr1 nr1 fc1 nc1 hasRb' rb0' rb1' hasCb' cb0' cb1' = .ok ((fr2, nr2, fc2, nc2), (a', b'), (c', d'))) :
    Gen.L.create_subset_structure fr nr fc nc true (a + a') (a + b') true (c + c') (c + d') =
      .ok ((fr2, nr2, fc2, nc2), (a + a', a + b'), (c + c', c + d')) := by
  rw [gen_subset_ok_iff, subsetKernel_some] at h1 h2 ⊢
  exact Props.C15.subset_structure_compose (by exact hr) (by exact hc) h1 h2

example : Gen.L.create_subset_structure 0 40 0 30 true 3 10 false 0 0 = .ok ((3, 7, 0, 30), (3, 10), (0, 30)) := by decide
example : Gen.L.create_subset_structure 0 40 0 30 true 3 41 false 0 0 = .error "ValueError" := by decide

/-! ### (c2), (c3) the converter -/

/-- Python's `round(a / b)` on non-negative integers is Spec.Chip.roundHalfEven -/
theorem roundDiv_nat (a b : Nat) (hb : 0 < b) : roundDiv (a : Int) (b : Int) = .ok ((roundHalfEven a b : Nat) : Int) := by
  have hne : ((b : Int) == 0) = false := by rw [beq_eq_false_iff_ne]; omega
  have h1 : Int.fdiv (a : Int) (b : Int) = ((a / b : Nat) : Int) := by
    rw [Int.fdiv_eq_ediv_of_nonneg _ (by omega)]; rfl
  have h2 : Int.fmod (a : Int) (b : Int) = ((a % b : Nat) : Int) := by
    rw [Int.fmod_eq_emod_of_nonneg _ (by omega)]; rfl
  unfold roundDiv roundHalfEven
  simp only [hne, Bool.false_eq_true, if_false, h1, h2, Int.natAbs_natCast, pure, Except.pure]
  congr 1
  have h3 : ((a / b : Nat) : Int) % 2 = 0 ↔ a / b % 2 = 0 := by omega
  split_ifs <;> first | rfl | omega | (push_cast; rfl)

theorem gen_get_rows_per_block (pt cols mbs : Nat) (hc : 0 < cols) :
    Gen.L.get_rows_per_block (pt : Int) (cols : Int) (mbs : Int) =
      .ok ((max 1 (roundHalfEven mbs (bytesPerRow pt cols)) : Nat) : Int) := by
  have r := fun (k : Nat) (hk : 0 < k) => roundDiv_nat mbs (k * cols) (Nat.mul_pos hk hc)
  have r8 := r 8 (by decide); have r4 := r 4 (by decide); have r2 := r 2 (by decide)
  push_cast at r8 r4 r2
  have e0 : ∀ k : Nat, ((pt : Int) == (k : Int)) = decide (pt = k) := by
    intro k; by_cases h : pt = k <;> simp [h]
  have e0' := e0 0; have e1 := e0 1; have e2 := e0 2
  push_cast at e0' e1 e2
  unfold Gen.L.get_rows_per_block
  simp only [e0', e1, e2, bind, Except.bind, pure, Except.pure]
  rcases pt with _ | _ | _ | p <;>
    simp [bytesPerRow, r8, r4, r2, Int.max_def, Nat.max_def] <;> split_ifs <;> omega

/-- `write_data`: test and body of the block loop -/
theorem gen_wd_cond (r0 r1 c0 c1 rpb b : Int) (tr : List Tr6) :
    Gen.L.write_data_loop1_cond r0 r1 c0 c1 rpb b tr = .ok (wdCond r1 (b, tr)) := by
  simp [Gen.L.write_data_loop1_cond, wdCond, pure, Except.pure] <;> omega

theorem gen_wd_body (r0 r1 c0 c1 rpb b : Int) (tr : List Tr6) :
    Gen.L.write_data_loop1_body r0 r1 c0 c1 rpb b tr = .ok (wdStep r0 r1 c0 c1 rpb (b, tr)) := by
  simp [Gen.L.write_data_loop1_body, wdStep, pure, Except.pure] <;> omega

theorem wd_iter (r0 r1 : Nat) (c0 c1 : Int) (rpb : Nat) (fuel off : Nat) (acc : List Tr6) :
    (iterWhile (wdCond r1) (wdStep r0 r1 c0 c1 rpb) fuel ((off : Int), acc)).2 =
      acc ++ (stepTiling r1 rpb fuel off).map (blockTrace r0 c0 c1) := by
  induction fuel generalizing off acc with
  | zero => simp [iterWhile, stepTiling]
  | succ k ih =>
    by_cases h : off < r1
    · have h' : (off : Int) < (r1 : Int) := by omega
      have e : min ((off : Int) + rpb) (r1 : Int) = ((min r1 (off + rpb) : Nat) : Int) := by omega
      simp only [iterWhile, wdCond, wdStep, h, h', decide_true, if_true, stepTiling, e]
      rw [ih]
      simp [blockTrace]
    · have h' : ¬ (off : Int) < (r1 : Int) := by omega
      simp [iterWhile, wdCond, stepTiling, h, h']

theorem wd_loop (r0 r1 : Nat) (c0 c1 : Int) (rpb : Nat) (hp : 0 < rpb) :
    whileFuel (fun st : Int × List Tr6 => Gen.L.write_data_loop1_cond r0 r1 c0 c1 rpb st.1 st.2)
      (fun st => Gen.L.write_data_loop1_body r0 r1 c0 c1 rpb st.1 st.2) ((r1 : Int) - (r0 : Int)).toNat ((r0 : Int), [])
      = .ok (iterWhile (wdCond r1) (wdStep r0 r1 c0 c1 rpb) ((r1 : Int) - (r0 : Int)).toNat ((r0 : Int), [])) :=
  whileFuel_eq_iter _ _ (wdCond r1) (wdStep r0 r1 c0 c1 rpb) (fun _ => True) (fun st => ((r1 : Int) - st.1).toNat)
    (fun s _ => gen_wd_cond r0 r1 c0 c1 rpb s.1 s.2) (fun s _ _ => gen_wd_body r0 r1 c0 c1 rpb s.1 s.2) (fun _ _ _ => trivial)
    (by intro s _ hcnd; simp only [wdCond, decide_eq_true_eq] at hcnd; simp only [wdStep]; omega) _ _ trivial (by simp)

/-- `mi` stands for the integer the caller passed (kept apart from its Nat value so that the kernel never evaluates the
    comparison with the literal 2^20 on a cast) -/
theorem gen_write_data_some (mi : Int) (m pt cols r0 r1 : Nat) (c0 c1 : Int) (hc : 0 < cols) (hmi : mi = m) :
    Gen.L.write_data (some mi) (pt : Int) (cols : Int) (r0 : Int) (r1 : Int) c0 c1 = .ok (writeTrace (some m) pt cols r0 r1 c0 c1) := by
  have hrpb := gen_get_rows_per_block pt cols m hc
  rw [← hmi] at hrpb
  have h20 := gen_get_rows_per_block pt cols 1048576 hc
  simp only [Nat.cast_ofNat] at h20
  have hfuel : ((r1 : Int) - (r0 : Int)).toNat = r1 - r0 := by omega
  unfold Gen.L.write_data writeTrace converterBlocks rowsPerBlock
  by_cases hm : m < 1048576
  · have hm' : mi < 1048576 := by omega
    simp only [Option.isNone_some, Bool.false_eq_true, if_false, getI, pure_eq_ok, ok_bind, ite_bind,
      hm', decide_true, if_true, h20, effectiveBlockSize, Nat.reducePow, hm]
    rw [wd_loop _ _ _ _ _ (by omega)]
    simp only [ok_bind, wd_iter, hfuel, List.nil_append]
  · have hm' : ¬ mi < 1048576 := by omega
    simp only [Option.isNone_some, Bool.false_eq_true, if_false, getI, pure_eq_ok, ok_bind, ite_bind,
      hm', decide_false, hrpb, effectiveBlockSize, Nat.reducePow, hm]
    rw [wd_loop _ _ _ _ _ (by omega)]
    simp only [ok_bind, wd_iter, hfuel, List.nil_append]

theorem gen_write_data_none (pt cols r0 r1 : Nat) (c0 c1 : Int) (hc : 0 < cols) :
    Gen.L.write_data none (pt : Int) (cols : Int) (r0 : Int) (r1 : Int) c0 c1 = .ok (writeTrace none pt cols r0 r1 c0 c1) := by
  have h26 := gen_get_rows_per_block pt cols 67108864 hc
  simp only [Nat.cast_ofNat] at h26
  have hfuel : ((r1 : Int) - (r0 : Int)).toNat = r1 - r0 := by omega
  unfold Gen.L.write_data writeTrace converterBlocks rowsPerBlock
  simp only [Option.isNone_none, if_true, getI, pure_eq_ok, ok_bind, h26, effectiveBlockSize, Nat.reducePow]
  rw [wd_loop _ _ _ _ _ (by omega)]
  simp only [ok_bind, wd_iter, hfuel, List.nil_append]

/-- **the converter's block loop, regenerated**: for every block size request, pixel type, width and row / column window, the
    (window read, position written) pairs of `Converter.write_data` are Spec.Chip.converterBlocks with Spec.Chip.rowsPerBlock rows
    per block, each read spanning columns `[c0, c1)` and written at chip row `block_start - r0`, column 0; the fuel `r1 - r0` suffices -/
theorem gen_write_data (mbs : Option Nat) (pt cols r0 r1 : Nat) (c0 c1 : Int) (hc : 0 < cols) :
    Gen.L.write_data (mbs.map Int.ofNat) (pt : Int) (cols : Int) (r0 : Int) (r1 : Int) c0 c1 =
      .ok (writeTrace mbs pt cols r0 r1 c0 c1) := by
  cases mbs with
  | none => exact gen_write_data_none pt cols r0 r1 c0 c1 hc
  | some m => exact gen_write_data_some (m : Int) m pt cols r0 r1 c0 c1 hc rfl

/-- **Props/C15.converter_rows_tile for the regenerated code**: the blocks `write_data` reads are consecutive from `r0`, non-empty, at
    most `rows_per_block >= 1` rows, end at `r1`; every row of `[r0, r1)` lies in exactly one block and no other row in any; the
    positions written tile `[0, r1 - r0)` -/
theorem gen_write_data_tiles (mbs : Option Nat) (pt cols r0 r1 : Nat) (c0 c1 : Int) (hc : 0 < cols) (h01 : r0 ≤ r1) :
    ∃ blocks : List (Nat × Nat),
      Gen.L.write_data (mbs.map Int.ofNat) (pt : Int) (cols : Int) (r0 : Int) (r1 : Int) c0 c1 = .ok (blocks.map (blockTrace r0 c0 c1)) ∧
      Consecutive r0 blocks ∧
      (∀ s ∈ blocks, s.1 < s.2 ∧ s.2 - s.1 ≤ rowsPerBlock mbs pt cols ∧ r0 ≤ s.1 ∧ s.2 ≤ r1) ∧
      Props.C02.lastEnd r0 blocks = r1 ∧
      (∀ i, coverCount blocks i = if r0 ≤ i ∧ i < r1 then 1 else 0) ∧
      Consecutive 0 (writeRanges r0 blocks) ∧
      (∀ j, coverCount (writeRanges r0 blocks) j = if j < r1 - r0 then 1 else 0) := by
  obtain ⟨t1, t2, t3, t4, t5, _, t7⟩ := Props.C15.converter_rows_tile r0 r1 (rowsPerBlock mbs pt cols) h01 (Props.C15.rowsPerBlock_pos mbs pt cols)
  exact ⟨converterBlocks r0 r1 (rowsPerBlock mbs pt cols), gen_write_data mbs pt cols r0 r1 c0 c1 hc, t1, t2, t3, t4, t5, t7⟩

example : Gen.L.write_data (some 1) 0 30000 3 10 5 9 = .ok [(3, 7, 5, 9, 0, 0), (7, 10, 5, 9, 4, 0)] := by rfl
example : Gen.L.get_rows_per_block 2 20 67108864 = .ok 1677722 := by decide

end Sarpy.Bridge.LC
