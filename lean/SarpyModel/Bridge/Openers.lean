/-
  Bridge: the guard tables, registration orders, trial-loop shapes and the order of `sarpy.io.open` regenerated from /repo
  (`Gen.Openers.*`, translate/gen_openers.py) are the hand-written ones of `Spec.OpenerVendor`, about which Props/C14Vendor.lean
  proves the theorems.  Closed terms on both sides: `rfl` / `decide`.  A change of a guard, of its order, of the exception a
  statement raises, of an `except` tuple, of the registration order or of the order of `sarpy.io.open` makes one of these fail.
-/
import SarpyModel.Gen.Openers
import SarpyModel.Spec.OpenerVendor

namespace Sarpy.Bridge.Openers
open Sarpy.Spec.Opener

/-- try the sixteen states of the four guard defects -/
macro "find_flags" : tactic =>
  `(tactic| first
    | (refine ⟨⟨true, true, true, true⟩, fun v => ?_⟩; cases v <;> rfl)
    | (refine ⟨⟨false, false, false, false⟩, fun v => ?_⟩; cases v <;> rfl)
    | (refine ⟨⟨false, true, true, true⟩, fun v => ?_⟩; cases v <;> rfl)
    | (refine ⟨⟨true, false, true, true⟩, fun v => ?_⟩; cases v <;> rfl)
    | (refine ⟨⟨true, true, false, true⟩, fun v => ?_⟩; cases v <;> rfl)
    | (refine ⟨⟨true, true, true, false⟩, fun v => ?_⟩; cases v <;> rfl)
    | (refine ⟨⟨false, false, true, true⟩, fun v => ?_⟩; cases v <;> rfl)
    | (refine ⟨⟨false, true, false, true⟩, fun v => ?_⟩; cases v <;> rfl)
    | (refine ⟨⟨false, true, true, false⟩, fun v => ?_⟩; cases v <;> rfl)
    | (refine ⟨⟨true, false, false, true⟩, fun v => ?_⟩; cases v <;> rfl)
    | (refine ⟨⟨true, false, true, false⟩, fun v => ?_⟩; cases v <;> rfl)
    | (refine ⟨⟨true, true, false, false⟩, fun v => ?_⟩; cases v <;> rfl)
    | (refine ⟨⟨false, false, false, true⟩, fun v => ?_⟩; cases v <;> rfl)
    | (refine ⟨⟨false, false, true, false⟩, fun v => ?_⟩; cases v <;> rfl)
    | (refine ⟨⟨false, true, false, false⟩, fun v => ?_⟩; cases v <;> rfl)
    | (refine ⟨⟨true, false, false, false⟩, fun v => ?_⟩; cases v <;> rfl))

/-- the regenerated guard tables are the specified ones, in one of the sixteen states of the four guard defects -/
theorem gen_tab_eq : ∃ f : TabFlags, ∀ v : Vendor, Gen.Openers.tab v = tab f v := by find_flags

theorem gen_complexOrder_eq : Gen.Openers.complexOrder = complexOrder := rfl
theorem gen_productOrder_eq : Gen.Openers.productOrder = productOrder := rfl
theorem gen_phaseHistoryOrder_eq : Gen.Openers.phaseHistoryOrder = phaseHistoryOrder := rfl
theorem gen_receivedOrder_eq : Gen.Openers.receivedOrder = receivedOrder := rfl
theorem gen_generalOrder_eq : Gen.Openers.generalOrder = generalOrder := rfl
theorem gen_topOrder_eq : Gen.Openers.topOrder = topOrder := rfl
theorem gen_entryShape_eq (e : Entry) : Gen.Openers.entryShape e = entryShape e := by cases e <;> rfl
/-- the chain of tests of ComplexNITFDetails._check_band_details (with extract_sicd.get_image_data) is the specified one;
    Props/C14Vendor.lean `runBand_bandTab` proves that chain equal to `checkBand`, on which `finalAttempt` is built -/
theorem gen_bandTab_eq : Gen.Openers.bandTab = bandTab := rfl

/-- is_file_like, is_hdf5, _fetch_initial_bytes, _is_level1_product, _determine_file_type, check_for_openers are the pinned ones -/
theorem gen_pins : Gen.Openers.pinsOk = true := rfl

/-- the regenerated decision of every opener is the specified one -/
theorem gen_isA_eq : ∃ f : TabFlags, ∀ (v : Vendor) (w : World) (d : Desc) (deep : Decision),
    isA (Gen.Openers.tab v) w d deep = isA (tab f v) w d deep := by
  obtain ⟨f, h⟩ := gen_tab_eq
  exact ⟨f, fun v w d deep => by rw [h]⟩

end Sarpy.Bridge.Openers
