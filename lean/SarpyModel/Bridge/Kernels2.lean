/-
  Bridge: the method kernels regenerated from /repo (`Gen.K2.*`, translate/gen_kernels2.py) compute the reference definitions
  of `Spec.Kernels2`, and the reference definitions have the properties the NITF layout relies on.  Shallow automation only in
  the bridge lemmas: a semantic change of the Python makes them fail, a harmless rewrite usually does not.
-/
import SarpyModel.Gen.Kernels2
import SarpyModel.Spec.Kernels2
import SarpyModel.Spec.Layout
import SarpyModel.Bridge.Slices
import Mathlib.Tactic.SplitIfs
import Mathlib.Tactic.Ring
import Mathlib.Tactic.Linarith

namespace Sarpy.Bridge.K2
open Sarpy Sarpy.Spec Sarpy.Spec.K2

/-! ### row limit of the SICD / SIDD writers -/

theorem gen_sicd_row_limit (value : Option Int) (numCols pixelSize : Int) (h : 0 < numCols * pixelSize) :
    Gen.K2.sicd_row_limit value numCols pixelSize = .ok (rowLimit value (numCols * pixelSize)) := by
  have hne : (numCols * pixelSize == 0) = false := by rw [beq_eq_false_iff_ne]; omega
  unfold Gen.K2.sicd_row_limit rowLimit requestedRows imSegLimit
  cases value with
  | none => simp [getI, floorDiv, bind, Except.bind, pure, Except.pure, hne, Int.fdiv_eq_ediv_of_nonneg _ (Int.le_of_lt h)]
  | some v =>
    by_cases h1 : v < 1 <;> by_cases h2 : 99999 < v <;>
      simp [getI, floorDiv, bind, Except.bind, pure, Except.pure, hne, h1, h2, Int.fdiv_eq_ediv_of_nonneg _ (Int.le_of_lt h)] <;> omega

theorem gen_sidd_row_limit (value : Option Int) (numCols pixelSize : Int) (h : 0 < numCols * pixelSize) :
    Gen.K2.sidd_row_limit value numCols pixelSize = .ok (rowLimit value (numCols * pixelSize)) := by
  have hne : (numCols * pixelSize == 0) = false := by rw [beq_eq_false_iff_ne]; omega
  unfold Gen.K2.sidd_row_limit rowLimit requestedRows imSegLimit
  cases value with
  | none => simp [getI, floorDiv, bind, Except.bind, pure, Except.pure, hne, Int.fdiv_eq_ediv_of_nonneg _ (Int.le_of_lt h)]
  | some v =>
    by_cases h1 : v < 1 <;> by_cases h2 : 99999 < v <;>
      simp [getI, floorDiv, bind, Except.bind, pure, Except.pure, hne, h1, h2, Int.fdiv_eq_ediv_of_nonneg _ (Int.le_of_lt h)] <;> omega

theorem requestedRows_range (value : Option Int) : 1 ≤ requestedRows value ∧ requestedRows value ≤ 99999 := by
  cases value with
  | none => simp [requestedRows]
  | some v => simp only [requestedRows]; split <;> omega

/-- ILOC has five digits: a segment never starts more than 99999 rows below the previous one -/
theorem rowLimit_le (value : Option Int) (rowBytes : Int) : rowLimit value rowBytes ≤ 99999 :=
  Int.le_trans (Int.min_le_left _ _) (requestedRows_range value).2

/-- **the byte cap**: a segment of `rowLimit` rows never exceeds the 10^10 - 2 byte item limit, whatever limit was requested -/
theorem rowLimit_bytes (value : Option Int) (rowBytes : Int) (h : 0 < rowBytes) :
    rowLimit value rowBytes * rowBytes ≤ imSegLimit := by
  have h1 : rowLimit value rowBytes ≤ imSegLimit / rowBytes := Int.min_le_right _ _
  calc rowLimit value rowBytes * rowBytes ≤ (imSegLimit / rowBytes) * rowBytes := Int.mul_le_mul_of_nonneg_right h1 (Int.le_of_lt h)
    _ ≤ imSegLimit := Int.ediv_mul_le _ (by omega)

/-- the limit is positive as soon as one row fits in a segment, so the segmentation loop makes progress -/
theorem rowLimit_pos (value : Option Int) (rowBytes : Int) (h : 0 < rowBytes) (hfit : rowBytes ≤ imSegLimit) :
    1 ≤ rowLimit value rowBytes := by
  unfold rowLimit
  have h1 := (requestedRows_range value).1
  have h2 : 1 ≤ imSegLimit / rowBytes := by
    have := Int.ediv_le_ediv h hfit
    rwa [Int.ediv_self (by omega)] at this
  exact Int.le_min.mpr ⟨h1, h2⟩

/-- a request inside the permitted range is honoured whenever the byte cap allows it -/
theorem rowLimit_honours (v rowBytes : Int) (hv : 1 ≤ v ∧ v ≤ 99999) (hfit : v ≤ imSegLimit / rowBytes) :
    rowLimit (some v) rowBytes = v := by
  unfold rowLimit requestedRows
  have : ¬(v < 1 ∨ 99999 < v) := by omega
  simp only [this, if_false]
  exact Int.min_eq_left hfit

example : rowLimit (some 70000) (20000 * 8) = 62499 := by decide
example : rowLimit none (100 * 8) = 99999 := by decide

/-! ### block and image sizes of an uncompressed image segment -/

theorem gen_block_size (nrows ncols nppbv nppbh nbpp nbands : Int) (s : Bool) :
    Gen.K2.block_size nrows ncols nppbv nppbh nbpp nbands s = .ok (blockBytes nrows ncols nppbv nppbh nbpp nbands s) := by
  unfold Gen.K2.block_size blockBytes effBlock
  cases s <;> by_cases h1 : nppbv = 0 <;> by_cases h2 : nppbh = 0 <;>
    simp [truncDiv, bind, Except.bind, pure, Except.pure, h1, h2]

theorem gen_block_size0 (nrows ncols nppbv nppbh nbpp nbands : Int) (s : Bool) :
    Gen.K2.block_size0 nrows ncols nppbv nppbh nbpp nbands s = .ok (blockBytes nrows ncols nppbv nppbh nbpp nbands s) := by
  unfold Gen.K2.block_size0 blockBytes effBlock
  cases s <;> by_cases h1 : nppbv = 0 <;> by_cases h2 : nppbh = 0 <;>
    simp [truncDiv, bind, Except.bind, pure, Except.pure, h1, h2]

theorem gen_full_image_size (nbpr nbpc nbands : Int) (s : Bool) (b : Int) :
    Gen.K2.full_image_size nbpr nbpc nbands s b = .ok (fullImageBytes nbpr nbpc nbands s b) := by
  unfold Gen.K2.full_image_size fullImageBytes
  cases s <;> simp [bind, Except.bind, pure, Except.pure]

theorem gen_full_image_size0 (nbpr nbpc nbands : Int) (s : Bool) (b : Int) :
    Gen.K2.full_image_size0 nbpr nbpc nbands s b = .ok (fullImageBytes nbpr nbpc nbands s b) := by
  unfold Gen.K2.full_image_size0 fullImageBytes
  cases s <;> simp [bind, Except.bind, pure, Except.pure]

/-- for whole-byte samples the block size is exactly pixels x bands x bytes per sample (what `blockedImageBytes` of Spec.Layout uses) -/
theorem blockBytes_whole_bytes (nrows ncols nppbv nppbh bps nbands : Int) :
    blockBytes nrows ncols nppbv nppbh (8 * bps) nbands false = effBlock nppbh ncols * effBlock nppbv nrows * nbands * bps := by
  unfold blockBytes
  simp only [Bool.false_eq_true, if_false]
  have : effBlock nppbh ncols * effBlock nppbv nrows * nbands * (8 * bps) = (effBlock nppbh ncols * effBlock nppbv nrows * nbands * bps) * 8 := by ring
  rw [this, Int.mul_tdiv_cancel _ (by decide)]

/-! ### complexity level of one image segment (`ImageSegmentHeader.get_clevel`): the standard's dimension ladder at max(NROWS, NCOLS) -/

theorem gen_image_clevel (nrows ncols : Nat) :
    Gen.K2.image_clevel (nrows : Int) (ncols : Int) = .ok (Spec.Layout.clevelForDim (max nrows ncols) : Int) := by
  have hm : max (nrows : Int) (ncols : Int) = ((max nrows ncols : Nat) : Int) := by omega
  unfold Gen.K2.image_clevel Spec.Layout.clevelForDim
  simp only [bind, Except.bind, pure, Except.pure, hm]
  generalize max nrows ncols = d
  split_ifs <;> first | rfl | (exfalso; simp_all; omega) | (simp_all <;> omega)

theorem gen_image_clevel0 (nrows ncols : Nat) :
    Gen.K2.image_clevel0 (nrows : Int) (ncols : Int) = .ok (Spec.Layout.clevelForDim (max nrows ncols) : Int) := by
  have hm : max (nrows : Int) (ncols : Int) = ((max nrows ncols : Nat) : Int) := by omega
  unfold Gen.K2.image_clevel0 Spec.Layout.clevelForDim
  simp only [bind, Except.bind, pure, Except.pure, hm]
  generalize max nrows ncols = d
  split_ifs <;> first | rfl | (exfalso; simp_all; omega) | (simp_all <;> omega)

/-- the level of an assembled image is at least the level of each of its segments (why taking the maximum over segments is NOT
    enough: a 3000-row image in three 1000-row segments needs level 5, each segment alone level 3) -/
theorem clevelForDim_mono {a b : Nat} (h : a ≤ b) : Spec.Layout.clevelForDim a ≤ Spec.Layout.clevelForDim b := by
  unfold Spec.Layout.clevelForDim
  split_ifs <;> omega

example : Spec.Layout.clevelForDim 1000 = 3 ∧ Spec.Layout.clevelForDim 3000 = 5 := by decide

/-! ### pad pixel code width -/

theorem gen_tpxcd_length (bits : Int) (h : 0 ≤ bits) : Gen.K2.tpxcd_length bits = .ok (tpxcdBytes bits) := by
  unfold Gen.K2.tpxcd_length tpxcdBytes
  simp only [pyMod, truncDiv, bind, Except.bind, pure, Except.pure]
  simp only [show ((8 : Int) == 0) = false by decide, Bool.false_eq_true, if_false]
  have hm : Int.fmod bits 8 = bits % 8 := Int.fmod_eq_emod_of_nonneg _ (by decide)
  rw [hm]
  by_cases h0 : bits % 8 = 0
  · simp only [h0, beq_self_eq_true, if_true]
    congr 1
    rw [Int.tdiv_eq_ediv_of_nonneg h]; omega
  · have : (bits % 8 == 0) = false := by simpa using h0
    simp only [this, Bool.false_eq_true, if_false]
    congr 1
    rw [Int.tdiv_eq_ediv_of_nonneg (by omega)]; omega

/-- the width is the least number of whole bytes that holds the code -/
theorem tpxcdBytes_spec (bits : Int) (h : 0 ≤ bits) : bits ≤ 8 * tpxcdBytes bits ∧ 8 * tpxcdBytes bits < bits + 8 := by
  unfold tpxcdBytes; omega

example : tpxcdBytes 12 = 2 ∧ tpxcdBytes 16 = 2 ∧ tpxcdBytes 17 = 3 ∧ tpxcdBytes 0 = 0 := by decide

/-! ### subset coordinates of a parent subscript -/

theorem gen_from_parent_axis {n : Int} (p d : NSlice) (hp : p.Normal n) (hd : d.step ≠ 0) :
    Gen.K2.from_parent_axis p.toPy d.toPy = .ok (fromParentAxis p d).toPy := by
  have hsz := Bridge.gen_size hp
  have hne : (d.step == 0) = false := by rw [beq_eq_false_iff_ne]; exact hd
  unfold Gen.K2.from_parent_axis fromParentAxis
  simp only [NSlice.toPy] at hsz ⊢
  simp only [getI, floorDiv, bind, Except.bind, pure, Except.pure, hne, hsz, Bool.false_eq_true, if_false]
  by_cases h1 : 0 < Int.fdiv p.step d.step <;> by_cases h2 : (Int.fdiv (p.start - d.start) d.step + Int.fdiv p.step d.step * ((p.count : Int) - 1) + 1 < 0) <;>
    by_cases h3 : (Int.fdiv (p.start - d.start) d.step + Int.fdiv p.step d.step * ((p.count : Int) - 1) + -1 < 0) <;>
    simp [h1, h2, h3, gt_iff_lt]

theorem cnt_mul_succ (k : Int) (c : Nat) (hk : 0 < k) (hc : 0 < c) : cnt (k * ((c : Int) - 1) + 1) k = c := by
  unfold cnt
  have e : k * ((c : Int) - 1) + 1 + k - 1 = (c : Int) * k := by ring
  rw [e, Int.mul_ediv_cancel _ (by omega)]
  simp

/-- **what the pulled-back subscript selects**: when the parent subscript `p` starts at position `i0` of the subset definition `d`
    and steps by `k` subset positions (which is what `_get_parent_subscript` produces: start `d.start + d.step * i0`, step
    `d.step * k`), the result starts at `i0`, steps by `k`, selects as many elements as `p`, and position by position names the
    parent indices `p` selects -/
theorem fromParentAxis_spec (p d : NSlice) (i0 k : Int) (hd : d.step ≠ 0) (hk0 : k ≠ 0) (hc : 0 < p.count)
    (hs : p.start = d.start + d.step * i0) (hk : p.step = d.step * k) (hpos : 0 ≤ i0 + k * ((p.count : Int) - 1)) :
    (fromParentAxis p d).start = i0 ∧ (fromParentAxis p d).step = k ∧ (fromParentAxis p d).count = p.count ∧
    (fromParentAxis p d).indices.map (fun i => d.start + d.step * i) = p.indices := by
  have e1 : Int.fdiv (p.start - d.start) d.step = i0 := by
    rw [hs, show d.start + d.step * i0 - d.start = d.step * i0 by ring, Int.fdiv_eq_ediv_of_dvd ⟨i0, rfl⟩, Int.mul_ediv_cancel_left _ hd]
  have e2 : Int.fdiv p.step d.step = k := by
    rw [hk, Int.fdiv_eq_ediv_of_dvd ⟨k, rfl⟩, Int.mul_ediv_cancel_left _ hd]
  have hstart : (fromParentAxis p d).start = i0 := by simp [fromParentAxis, e1]
  have hstep : (fromParentAxis p d).step = k := by simp [fromParentAxis, e2]
  have hcount : (fromParentAxis p d).count = p.count := by
    unfold NSlice.count
    simp only [fromParentAxis, e1, e2]
    by_cases hkp : 0 < k
    · have h1 : ¬ (i0 + k * ((p.count : Int) - 1) + 1 < 0) := by omega
      simp only [hkp, if_true, h1, if_false, gt_iff_lt]
      rw [show i0 + k * ((p.count : Int) - 1) + 1 - i0 = k * ((p.count : Int) - 1) + 1 by ring]
      exact cnt_mul_succ k p.count hkp hc
    · have hkn : k < 0 := by omega
      simp only [hkp, if_false, gt_iff_lt, hkn, if_true]
      by_cases h2 : i0 + k * ((p.count : Int) - 1) + -1 < 0
      · simp only [h2, if_true, Option.getD_none]
        have : i0 - -1 = (-k) * ((p.count : Int) - 1) + 1 := by
          have : i0 + k * ((p.count : Int) - 1) = 0 := by omega
          linarith
        rw [this]
        exact cnt_mul_succ (-k) p.count (by omega) hc
      · simp only [h2, if_false, Option.getD_some]
        rw [show i0 - (i0 + k * ((p.count : Int) - 1) + -1) = (-k) * ((p.count : Int) - 1) + 1 by ring]
        exact cnt_mul_succ (-k) p.count (by omega) hc
  refine ⟨hstart, hstep, hcount, ?_⟩
  unfold NSlice.indices
  rw [hstart, hstep, hcount, hs, hk]
  unfold ap
  rw [List.map_map]
  apply List.map_congr_left
  intro j _
  simp only [Function.comp]
  ring

example : fromParentAxis ⟨7, some 13, 6⟩ ⟨1, some 14, 3⟩ = ⟨2, some 3, 2⟩ := by decide
example : (fromParentAxis ⟨10, none, -6⟩ ⟨1, some 14, 3⟩).indices = [3, 1] := by decide

end Sarpy.Bridge.K2
