/-
  Bridge, shared part: how the float idiom of `_align` reads on natural numbers, the integer header attributes of a layout as
  Python integers, and the simp recipe used by Bridge/Cphd.lean (CPHD.py) and Bridge/Crsd.lean (CRSD.py).
  No theorem here mentions generated code, so a change of either Python file never breaks this module.
-/
import SarpyModel.Spec.PyPrelude
import SarpyModel.Spec.CphdLayout
set_option linter.unusedSimpArgs false

namespace Sarpy.Bridge.Cphd
open Sarpy Sarpy.Spec.CphdLayout

/-- `int(numpy.ceil(float(v)/64)*64)` on a natural number is `align` -/
theorem ceilDiv64 (v : Nat) : ceilDiv (v : Int) 64 = .ok ((((v + 63) / 64 : Nat) : Int)) := by
  unfold ceilDiv
  have h : Int.fdiv (-(v : Int)) 64 = -((((v + 63) / 64 : Nat)) : Int) := by
    rw [Int.fdiv_eq_ediv_of_nonneg _ (by omega)]; omega
  rw [h]
  simp [pure, Except.pure]

/-- the integer header attributes of a layout as Python integers -/
def headerIntsZ (b : Blocks) : Option Int × Option Int × Option Int × Option Int × Option Int × Option Int × Option Int × Option Int :=
  (some (b.xmlSize : Int), some (b.xmlOff : Int), b.supp.map (fun p => (p.2 : Int)), b.supp.map (fun p => (p.1 : Int)),
   some (b.pvpSize : Int), some (b.pvpOff : Int), some (b.sigSize : Int), some (b.sigOff : Int))

/-- the SUPPORT block exists iff `Data.NumSupportArrays > 0` -/
def suppOf (numSupport suppSize : Nat) : Option Nat := if 0 < numSupport then some suppSize else none

/-- evaluate the `Except` plumbing of a translated kernel with the given rewrite facts, then let `simp` close the casts -/
macro "cphd_simp" "[" ts:Lean.Parser.Tactic.simpLemma,* "]" : tactic =>
  `(tactic| (simp only [getI, bind, Except.bind, pure, Except.pure, decide_true, decide_false, if_true, if_false, ite_true, ite_false,
                        Bool.false_eq_true, $ts,*] <;> try simp))

end Sarpy.Bridge.Cphd

