import SarpyModel.Drivers.Util
import SarpyModel.Spec.Layout
import SarpyModel.Gen.NitfKernels
namespace Sarpy.Drivers
open Sarpy.Spec.Layout

def parsePairs (s : String) : Option (List (Nat × Nat)) :=
  if s == "-" then some [] else
  (s.splitOn ",").mapM (fun t => match t.splitOn ":" with
    | [a, b] => do pure ((← a.toNat?), (← b.toNat?))
    | _ => none)

def showPairs (l : List (Nat × Nat)) : String := ",".intercalate (l.map (fun p => s!"{p.1}:{p.2}"))

def layoutStep (toks : List String) : Option String :=
  match toks with
  | ["offsets", h, segs] => do
    let h ← h.toNat?
    let segs ← parsePairs segs
    let o := offsets h segs
    pure (",".intercalate (o.map (fun t => s!"{t.1}:{t.2.1}:{t.2.2}")) ++ s!" {fileLength h segs}")
  | ["seg", rows, lim] => do
    let rows ← rows.toNat?; let lim ← lim.toNat?
    let s := segmentation rows lim
    pure (showPairs s ++ " " ++ showPairs (headersOf s) ++ " " ++ showPairs (decodeChain 0 (headersOf s)))
  | ["clevel", fl, dims] => do
    let fl ← fl.toNat?
    let dims ← (if dims == "-" then some [] else (dims.splitOn ",").mapM String.toNat?)
    let g := match Gen.Nitf.clevel_mem fl with | .ok v => toString v | .error e => "err " ++ e
    pure (s!"{clevelRequired fl dims} {clevelForSize fl} {g}")
  | ["mask", bb, present] => do
    let bb ← bb.toNat?
    let pr := present.toList.map (· == '1')
    pure (s!"{maskTableLen pr.length} {maskedImageBytes bb pr} " ++ ",".intercalate ((maskOffsets bb 0 pr).map toString))
  | _ => none

end Sarpy.Drivers
