import SarpyModel.Drivers.Util
import SarpyModel.Spec.Chip
namespace Sarpy.Drivers
open Sarpy Sarpy.Spec Sarpy.Spec.Chip

/-- `a:b,c:d,...` (integers, may be negative); `-` = empty -/
def parseBounds (s : String) : Option (List (Int × Int)) :=
  if s == "-" then some [] else
  (s.splitOn ",").mapM (fun t => match t.splitOn ":" with
    | [a, b] => do pure ((← a.toInt?), (← b.toInt?))
    | _ => none)

/-- `N` or `a:b` -/
def parseOB (s : String) : Option (Option (Int × Int)) :=
  if s == "N" then some none else
  match s.splitOn ":" with
  | [a, b] => do pure (some ((← a.toInt?), (← b.toInt?)))
  | _ => none

def showNat2 (l : List (Nat × Nat)) : String :=
  if l.isEmpty then "-" else ",".intercalate (l.map (fun p => s!"{p.1}:{p.2}"))

/-- walk a chain of bounds, each relative to the previous chip: composed window, C01-composed subset definition,
    or the level that is refused -/
def chainWalk (n : Int) : Nat → Int → Window → NSlice → List (Int × Int) → String
  | _, _, w, t, [] => s!"ok {w.first} {w.count} {ps t.toPy}"
  | k, cur, w, t, (a, b) :: rest =>
    match checkBounds cur a b with
    | none => s!"refused {k}"
    | some v => chainWalk n (k + 1) v.count (composeWindow w v) (compose n t v.toNSlice) rest

def showAxis (m : AxisMeta) : String := s!"{m.first} {m.num} {m.scp} {m.fullNum}"

def chipStep (toks : List String) : Option String :=
  match toks with
  | ["chain", n, bounds] => do
    let n ← n.toInt?; let bs ← parseBounds bounds
    pure (chainWalk n 0 n (full n) (full n).toNSlice bs)
  | ["meta", fr, nr, sr, fnr, fc, nc, sc, fnc, rb, cb] => do
    let row : AxisMeta := ⟨← fr.toInt?, ← nr.toInt?, ← sr.toInt?, ← fnr.toInt?⟩
    let col : AxisMeta := ⟨← fc.toInt?, ← nc.toInt?, ← sc.toInt?, ← fnc.toInt?⟩
    let rb ← parseOB rb; let cb ← parseOB cb
    match subsetStructure ⟨row, col⟩ rb cb with
    | none => pure "refused"
    | some (m, (r0, r1), (c0, c1)) =>
      pure s!"ok {showAxis m.row} {showAxis m.col} {r0} {r1} {c0} {c1} {m.row.shift} {m.col.shift}"
  | ["metachain", fr, nr, sr, fnr, bounds] => do
    let row : AxisMeta := ⟨← fr.toInt?, ← nr.toInt?, ← sr.toInt?, ← fnr.toInt?⟩
    let bs ← parseBounds bounds
    match subsetChain row bs with
    | none => pure "refused"
    | some m => pure s!"ok {showAxis m} {m.shift}"
  | ["offset", scp, first, r] => do
    let scp ← scp.toInt?; let first ← first.toInt?; let r ← r.toInt?
    pure s!"{offsetFromScp scp first r}"
  | ["blocks", r0, r1, pt, cols, mbs] => do
    let r0 ← r0.toNat?; let r1 ← r1.toNat?; let pt ← pt.toNat?; let cols ← cols.toNat?
    let mbs ← (if mbs == "N" then some none else mbs.toNat?.map some)
    let rpb := rowsPerBlock mbs pt cols
    let bl := converterBlocks r0 r1 rpb
    pure s!"{rpb} {showNat2 bl} {showNat2 (writeRanges r0 bl)}"
  | ["loop", r0, r1, rpb] => do
    let r0 ← r0.toNat?; let r1 ← r1.toNat?; let rpb ← rpb.toNat?
    let bl := converterBlocks r0 r1 rpb
    pure s!"{showNat2 bl} {showNat2 (writeRanges r0 bl)}"
  | _ => none

end Sarpy.Drivers
