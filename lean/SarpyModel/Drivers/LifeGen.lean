/- line-protocol driver for the life-cycle decision kernels regenerated from /repo (Gen.Life, translate/gen_life.py) next to
   their reference definitions (Spec.Lifecycle): every answer is `<regenerated Python> | <reference>`, so that the harness sees a
   three-way comparison with the implementation (fidelity of the translator).
     request `lifegen block|band <mode_r 0/1> <bits or ->`       check_fully_written of the aggregate over children with these claims
             `lifegen array|subset <mode_r 0/1> <written> <expected>`
             `lifegen hand <item_written> <has_bytes> <force> <claims>`
             `lifegen ctor <number of temp files>`               registered files after NITFReader.__init__ / phases
             `lifegen refuses nitf|cphd|sio <check> <present>`   the existence test in front of open(path, 'wb') -/
import SarpyModel.Drivers.Util
import SarpyModel.Gen.Life
namespace Sarpy.Drivers
open Sarpy.Spec.Lifecycle

private def b01 (b : Bool) : String := if b then "1" else "0"
private def pbits (s : String) : Option (List Bool) :=
  if s == "-" then some [] else s.toList.mapM (fun c => if c == '1' then some true else if c == '0' then some false else none)

def lifeGenStep (toks : List String) : Option String :=
  match toks with
  | ["block", m, bs] => do
    let l ← pbits bs
    pure (b01 (Gen.Life.blockAggClaims (m == "1") l) ++ " | " ++ b01 (if m == "1" then true else conj l))
  | ["band", m, bs] => do
    let l ← pbits bs
    pure (b01 (Gen.Life.bandAggClaims (m == "1") l) ++ " | " ++ b01 (if m == "1" then true else conj l))
  | ["array", m, w, e] => do
    let w ← w.toNat?; let e ← e.toNat?
    pure (b01 (Gen.Life.arrayClaims (m == "1") w e) ++ " | " ++ b01 (if m == "1" then true else w == e))
  | ["subset", m, w, e] => do
    let w ← w.toNat?; let e ← e.toNat?
    pure (b01 (Gen.Life.subsetClaims (m == "1") w e) ++ " | " ++ b01 (if m == "1" then true else w == e))
  | ["hand", a, b, c, d] =>
    some (b01 (Gen.Life.handDecision (a == "1") (b == "1") (c == "1") (d == "1")) ++ " | " ++
          b01 (shouldHand (a == "1" || b == "1") (c == "1") (d == "1")))
  | ["refuses", fam, c, p] =>
    let g := if fam == "nitf" then Gen.Life.nitfRefuses (c == "1") (p == "1")
             else if fam == "cphd" then Gen.Life.cphdRefuses (c == "1") (p == "1") else Gen.Life.sioRefuses (c == "1") (p == "1")
    some (b01 g ++ " | " ++ b01 (refuses (c == "1") (p == "1")))
  | ["ctor", n] => do
    let n ← n.toNat?
    let temps := List.range n
    let g := crun cinit (Gen.Life.nitfReaderInit temps)
    let s := crun cinit (nitfCtor temps [])
    pure (s!"{b01 g.failed}:{g.registered.length}:{g.made.length} | {b01 s.failed}:{s.registered.length}:{s.made.length}")
  | _ => none

end Sarpy.Drivers
