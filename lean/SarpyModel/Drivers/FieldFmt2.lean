/-
  Line-protocol driver for Spec.FieldFmt2 over the generated descriptions (Gen/NitfTables2Defs.lean).
    fmt2 tables                          -> names of the generated descriptions
    fmt2 wf  <table>                     -> true | false
    fmt2 enc <table> <env> <value>       -> <accepted> <hex of encode> <length> <conformant(encode)>
    fmt2 dec <table> <env> <hex>         -> ok <value> <hex of rest> <conformant(hex)>   |  none
    fmt2 all <table> <env> <hex>         -> ok <list value>  |  none        (decodeAll: items until the area is used up)
  <env>   : `-` or `1=n3,2=n4` (parameter id = value)
  <value> : i<int> | n<nat> | s<hex> | r<hex> | N (absent) | [v;v;...] (record / loop, `[]` empty) | (v.v) (pair: blob = (i<ofl>.r<hex>))
            hex of the empty string is `-`
-/
import SarpyModel.Drivers.Util
import SarpyModel.Drivers.FieldFmt
import SarpyModel.Spec.FieldFmt2
import SarpyModel.Gen.NitfTables2Defs
namespace Sarpy.Drivers
open Sarpy.Spec.FieldFmt2

def isProper : Val → Bool
  | .nil => true
  | .cons _ t => isProper t
  | _ => false

def valItems : Val → List Val
  | .cons x xs => x :: valItems xs
  | _ => []

def showVal2 : Val → String
  | .int v => "i" ++ toString v
  | .nat n => "n" ++ toString n
  | .str s => "s" ++ showHex s
  | .raw s => "r" ++ showHex s
  | .none => "N"
  | .nil => "[]"
  | .cons a b =>
    if isProper b then "[" ++ showVal2 a ++ showTail2 b ++ "]"
    else "(" ++ showVal2 a ++ "." ++ showVal2 b ++ ")"
where
  showTail2 : Val → String
    | .cons x xs => ";" ++ showVal2 x ++ showTail2 xs
    | _ => ""

def takeAtom (cs : List Char) : List Char × List Char :=
  cs.span (fun c => c != ';' && c != ']' && c != ')' && c != '.')

/-- recursive descent with fuel (the length of the input bounds the depth) -/
def parseVal : Nat → List Char → Option (Val × List Char)
  | 0, _ => none
  | fuel + 1, cs =>
    match cs with
    | 'N' :: r => some (.none, r)
    | 'i' :: r => let (a, r') := takeAtom r; (String.ofList a).toInt?.map (fun v => (.int v, r'))
    | 'n' :: r => let (a, r') := takeAtom r; (String.ofList a).toNat?.map (fun v => (.nat v, r'))
    | 's' :: r => let (a, r') := takeAtom r; (parseHex (String.ofList a)).map (fun v => (.str v, r'))
    | 'r' :: r => let (a, r') := takeAtom r; (parseHex (String.ofList a)).map (fun v => (.raw v, r'))
    | '(' :: r =>
      match parseVal fuel r with
      | some (a, '.' :: r1) =>
        match parseVal fuel r1 with
        | some (b, ')' :: r2) => some (.cons a b, r2)
        | _ => none
      | _ => none
    | '[' :: ']' :: r => some (.nil, r)
    | '[' :: r => parseList fuel r
    | _ => none
where
  parseList : Nat → List Char → Option (Val × List Char)
    | 0, _ => none
    | fuel + 1, cs =>
      match parseVal fuel cs with
      | some (a, ';' :: r) => (parseList fuel r).map (fun (t, r') => (.cons a t, r'))
      | some (a, ']' :: r) => some (.cons a .nil, r)
      | _ => none

def parseVal2 (s : String) : Option Val :=
  match parseVal (s.length + 1) s.toList with
  | some (v, []) => some v
  | _ => none

def parseEnv (s : String) : Option Env :=
  if s == "-" then some [] else
  (s.splitOn ",").mapM (fun kv =>
    match kv.splitOn "=" with
    | [k, v] => do let k ← k.toNat?; let v ← parseVal2 v; pure (k, v)
    | _ => none)

def findTable (name : String) : Option (List Name × Fmt) :=
  (Sarpy.Gen.Nitf2.tables.find? (fun t => t.1 == name)).map (fun t => t.2)

def fmt2Step (toks : List String) : Option String :=
  match toks with
  | ["tables"] => some (",".intercalate (Sarpy.Gen.Nitf2.tables.map (fun t => t.1)))
  | ["wf", t] => do
    let (ps, f) ← findTable t
    pure (toString (wellFormed f ps))
  | ["enc", t, env, v] => do
    let (_, f) ← findTable t
    let env ← parseEnv env
    let v ← parseVal2 v
    let bs := encode env f v
    pure s!"{accept env f v} {showHex bs} {length env f v} {conformant env f bs}"
  | ["dec", t, env, hex] => do
    let (_, f) ← findTable t
    let env ← parseEnv env
    let bs ← parseHex hex
    match decode env f bs with
    | none => pure "none"
    | some (v, rest) => pure s!"ok {showVal2 v} {showHex rest} {conformant env f bs}"
  | ["all", t, env, hex] => do
    let (_, f) ← findTable t
    let env ← parseEnv env
    let bs ← parseHex hex
    match decodeAll env f bs with
    | none => pure "none"
    | some v => pure s!"ok {showVal2 v}"
  | _ => none

end Sarpy.Drivers
