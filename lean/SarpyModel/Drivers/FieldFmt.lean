import SarpyModel.Drivers.Util
import SarpyModel.Spec.FieldFmt
import SarpyModel.Spec.NitfAssign
namespace Sarpy.Drivers
open Sarpy.Spec.FieldFmt

def hexVal (c : Char) : Option Nat :=
  if '0' ≤ c ∧ c ≤ '9' then some (c.toNat - 48)
  else if 'a' ≤ c ∧ c ≤ 'f' then some (c.toNat - 87) else none

def parseHex (s : String) : Option Bytes :=
  if s == "-" then some [] else
  let rec go : List Char → Option Bytes
    | [] => some []
    | [_] => none
    | a :: b :: rest => do
      let x ← hexVal a; let y ← hexVal b; let r ← go rest
      pure ((16 * x + y) :: r)
  go s.toList

def hexDigit (n : Nat) : Char := if n < 10 then Char.ofNat (48 + n) else Char.ofNat (87 + n)
def showHex (bs : Bytes) : String :=
  if bs.isEmpty then "-" else String.ofList (bs.flatMap (fun b => [hexDigit (b / 16), hexDigit (b % 16)]))

def parseField (s : String) : Option Field :=
  match s.toList with
  | 'i' :: r => (String.ofList r).toNat?.map (fun w => ⟨.int, w⟩)
  | 's' :: r => (String.ofList r).toNat?.map (fun w => ⟨.str, w⟩)
  | 'r' :: r => (String.ofList r).toNat?.map (fun w => ⟨.raw, w⟩)
  | _ => none

def parseValue (f : Field) (s : String) : Option Value :=
  match f.kind with
  | .int => s.toInt?.map Value.int
  | .str => (parseHex s).map Value.str
  | .raw => (parseHex s).map Value.raw

def showValue : Value → String
  | .int v => toString v
  | .str s => showHex s
  | .raw s => showHex s

/-- descriptor: s<w> | i<w> | r<w> | e<w>:<hex>,<hex>,..:<default hex | _>  (hex of the empty string is `-`) -/
def parseDesc (s : String) : Option Sarpy.Spec.NitfAssign.Desc :=
  match s.toList with
  | 'i' :: r => (String.ofList r).toNat?.map .int
  | 's' :: r => (String.ofList r).toNat?.map .str
  | 'r' :: r => (String.ofList r).toNat?.map .raw
  | 'e' :: r =>
    match (String.ofList r).splitOn ":" with
    | [w, vals, dflt] => do
      let w ← w.toNat?
      let vals ← (vals.splitOn ",").mapM parseHex
      let dflt ← (if dflt == "_" then some none else (parseHex dflt).map some)
      pure (.enum w vals dflt)
    | _ => none
  | _ => none

/-- input: t<hex> (text) | i<int> | b<hex> (bytes) -/
def parseInput (s : String) : Option Sarpy.Spec.NitfAssign.Input :=
  match s.toList with
  | 't' :: r => (parseHex (String.ofList r)).map .text
  | 'i' :: r => (String.ofList r).toInt?.map .int
  | 'b' :: r => (parseHex (String.ofList r)).map .bytes
  | _ => none

def showStored : Sarpy.Spec.NitfAssign.Stored → String
  | .text s => "t" ++ showHex s
  | .int v => "i" ++ toString v
  | .bytes s => "b" ++ showHex s

/-- `enc f1,f2,.. v1,v2,..` → `<accepted> <hex>` ; `dec f1,f2,.. <hex>` → values and rest -/
def fieldStep (toks : List String) : Option String :=
  match toks with
  | ["enc", fs, vs] => do
    let fs ← (fs.splitOn ",").mapM parseField
    let vtoks := vs.splitOn ","
    if vtoks.length ≠ fs.length then none else
    let vals ← (fs.zip vtoks).mapM (fun (f, t) => parseValue f t)
    pure (s!"{acceptRecord fs vals} {showHex (encRecord fs vals)} {recordWidth fs}")
  | ["dec", fs, hex] => do
    let fs ← (fs.splitOn ",").mapM parseField
    let bs ← parseHex hex
    match decRecord fs bs with
    | none => pure "none"
    | some (vals, rest) => pure ("ok " ++ ",".intercalate (vals.map showValue) ++ " " ++ showHex rest)
  | ["assign", d, x] => do
    -- `assign <descriptor> <input>` -> `refused` | `<stored> <rendered hex> <wfDesc>`
    let d ← parseDesc d
    let x ← parseInput x
    match Sarpy.Spec.NitfAssign.assign d x with
    | none => pure "refused"
    | some v => pure s!"{showStored v} {showHex (Sarpy.Spec.NitfAssign.render d v)} {Sarpy.Spec.NitfAssign.wfDesc d}"
  | ["loop", cw, fs, items] => do
    let cw ← cw.toNat?
    let fs ← (fs.splitOn ",").mapM parseField
    let its ← (if items == "-" then some [] else (items.splitOn ";").mapM (fun it =>
      let vt := it.splitOn ","
      if vt.length ≠ fs.length then none else (fs.zip vt).mapM (fun (f, t) => parseValue f t)))
    let bs := encLoop cw fs its
    let back := decLoop cw fs (bs ++ [1, 2, 3])
    pure (s!"{showHex bs} {back == some (its, [1, 2, 3])}")
  | _ => none

end Sarpy.Drivers
