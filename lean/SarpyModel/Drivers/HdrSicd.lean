import SarpyModel.Drivers.Hdr
import SarpyModel.Gen.HdrSicd
namespace Sarpy.Drivers
open Sarpy.Spec.Hdr

/-- line protocol `hdrsicd ...` (harness/hdr.py): the SICD part of Drivers/Hdr.lean -/
def hdrsicdStep (toks : List String) : Option String :=
  match toks with
  | ["whdr", pt, rows, cols] =>
    match rows.toNat?, cols.toNat? with
    | some r, some c => some (s!"S={hdrExc hdrShowHdr (sicdWriterHdr (hdrStr pt) r c "")} G={hdrExc hdrShowHdr (Gen.HdrSicd.sicd_writer_hdr (hdrStr pt) r c "")}")
    | _, _ => none
  | ["read", pt, amp, pil, hs] =>
    (hdrParse hs).map (fun h =>
      let pt := hdrStr pt
      let a := amp == "1"
      let p := pil == "1"
      let ff (g : Bool) : String := match getDtype h with
        | .error e => "err:" ++ e
        | .ok d => if g then hdrExc hdrFf (Gen.HdrSicd.sicd_reader_format_function d.1 d.2.2.2.1 d.2.2.2.2 2 pt a) ++ "/" ++
                            hdrExc hdrFf (Gen.HdrSicd.sicd_writer_format_function d.1 d.2.2.2.1 d.2.2.2.2 2 pt a)
                   else hdrExc hdrFf (sicdFormatFunction d.1 d.2.2.2.1 d.2.2.2.2 2 pt a)
      s!"R={hdrOutcome (sicdRead pt a p h)} W={hdrOutcome (sicdWrite pt a p h)} C={hdrExc hdrBool (sicdReaderCompliance h p pt)} " ++
      s!"GC={hdrExc hdrBool (Gen.HdrSicd.sicd_reader_compliance h p pt)} WC={hdrExc (fun _ => "1") (nitfWriterCompliance h p)} " ++
      s!"GWC={hdrExc (fun _ => "1") (Gen.Hdr.nitf_writer_compliance h p)} F={ff false} GF={ff true}")
  | ["glue"] => some (toString (Gen.HdrSicd.glue == glueSicd))
  | _ => none

end Sarpy.Drivers
