import SarpyModel.Drivers.Util
import SarpyModel.Spec.Checker
namespace Sarpy.Drivers
open Sarpy.Spec.Checker Sarpy.Spec.CphdLayout

private def parseOp : String → Option Op
  | "n1" => some (.need true)
  | "n0" => some (.need false)
  | "w1" => some (.want true)
  | "w0" => some (.want false)
  | "p1" => some (.pre true)
  | "p0" => some (.pre false)
  | "c" => some .close
  | "r" => some .raise
  | _ => none

private def parseCheck (s : String) : Option (List Op) :=
  if s == "-" then some [] else (s.splitOn ",").mapM parseOp

private def showItem (i : Item) : String :=
  (match i.sev with | .error => "E" | .warning => "W" | .noop => "N") ++ (if i.passed then "1" else "0")

private def b01 (b : Bool) : String := if b then "1" else "0"

private def showResult (r : Result) : String :=
  let items := if r.details.isEmpty then "-" else ".".intercalate (r.details.map showItem)
  let cls := if !(failures [r]).isEmpty then "F" else if !(pyPasses [r]).isEmpty then "P" else if !(skips [r]).isEmpty then "S" else "?"
  s!"{items}:{b01 r.passed}:{cls}"

private def parsePairs (sep : String) (s : String) : Option (List (Nat × Nat)) :=
  if s == "-" then some [] else
  (s.splitOn ",").mapM (fun t => match t.splitOn sep with
    | [a, b] => do pure ((← a.toNat?), (← b.toNat?))
    | _ => none)

private def natOrN (s : String) : Option (Option Nat) := if s == "N" then some none else s.toNat?.map some

/-- `run c1;c2;…`            → `items:flag:class;… <passes> <strictPasses> <#failures> <#passes> <#skips>`
    `cphd hdrLen fileLen xmlOff xmlSize suppOff|N suppSize|N pvpOff pvpSize sigOff sigSize`
                              → `hdrBeforeXml nextAfterXml pvpAfterSupport signalAfterPvp signalAtEof` (0/1 each)
    `sigfits sigSize off:bytes,…` → 0/1
    `des urn=ver,… desshtn desshsv xmlns` → 0/1
    `fl fl fileLen header sub:item,…` → `lastEnd fileLength flRule(fl,fileLen) flRule(fileLength,lastEnd)` -/
def checkerStep (toks : List String) : Option String :=
  match toks with
  | ["run", spec] => do
    let checks ← (spec.splitOn ";").mapM parseCheck
    let rs := run checks
    pure (";".intercalate (rs.map showResult) ++
      s!" {b01 (passes rs)} {b01 (strictPasses rs)} {(failures rs).length} {(pyPasses rs).length} {(skips rs).length}")
  | ["cphd", hl, fl, xo, xs, so, ss, po, ps, go, gs] => do
    let hl ← hl.toNat?; let fl ← fl.toNat?; let xo ← xo.toNat?; let xs ← xs.toNat?
    let so ← natOrN so; let ss ← natOrN ss
    let po ← po.toNat?; let ps ← ps.toNat?; let go ← go.toNat?; let gs ← gs.toNat?
    let supp ← (match so, ss with
      | some o, some s => some (some (o, s))
      | none, none => some none
      | _, _ => none)
    let f : CphdFile := ⟨{ xmlOff := xo, xmlSize := xs, supp := supp, pvpOff := po, pvpSize := ps, sigOff := go, sigSize := gs }, hl, fl⟩
    pure s!"{b01 (decide (hdrBeforeXml f))} {b01 (decide (nextAfterXml f))} {b01 (decide (pvpAfterSupport f))} {b01 (decide (signalAfterPvp f))} {b01 (decide (signalAtEof f))}"
  | ["sigfits", sz, chans] => do
    let sz ← sz.toNat?
    let chans ← parsePairs ":" chans
    pure (b01 (signalFits sz chans))
  | ["des", table, a, b, c] => do
    let table ← (table.splitOn ",").mapM (fun t => match t.splitOn "=" with
      | [u, v] => some (u, v)
      | _ => none)
    pure (b01 (desRule table ⟨a, b, c⟩))
  | ["fl", fl, len, header, segs] => do
    let fl ← fl.toNat?; let len ← len.toNat?; let header ← header.toNat?
    let segs ← parsePairs ":" segs
    pure s!"{lastEnd header segs} {Sarpy.Spec.Layout.fileLength header segs} {b01 (decide (flRule fl len))} {b01 (decide (flRule (Sarpy.Spec.Layout.fileLength header segs) (lastEnd header segs)))}"
  | _ => none

end Sarpy.Drivers
