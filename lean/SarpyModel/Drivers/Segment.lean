import SarpyModel.Drivers.Util
import SarpyModel.Spec.Segment
namespace Sarpy.Drivers
open Sarpy Sarpy.Spec

/-
  request:  seg <op> <tree tokens ...> [<subscript>]
    tree (prefix notation):
      L <id> <shape>                      stored array (NumpyArraySegment / NumpyMemmapSegment), shape = n1,n2,... or - for 0-d
      R <id> <shape>                      the same storage behind a FileReadDataSegment
      O <rev> <perm> <tree>               reverse_axes / transpose_axes (rev = i,j,... or -)
      C <ord> <rev> <perm> <bd> <tree>    ComplexFormatFunction order IQ | QI | MP | PM (1 = IQ, 0 = QI), band axis bd (after transpose) collapsed
      CK <ord> <rev> <perm> <bd> <tree>   the same with the band dimension kept
      U1 <rev> <perm> <tree>              SingleLUTFormatFunction, 1-d table
      U2 <m> <rev> <perm> <tree>          SingleLUTFormatFunction, 2-d table with m columns
      S <sq> <defs> <tree>                subset, sq = 1 (squeeze=True) | 0, defs = a/b/c;a/b/c;... (one normal slice per parent axis)
      SR <sq> <rdefs> <rev> <perm> <tree> raw-basis subset of a parent with reverse_axes rev, transpose_axes perm over <tree> (its raw data)
      B <bd> <k> <tree>*k                 band aggregate (raw stack along bd)
      K <shape> <k> (<arr> <tree>)*k      block aggregate (raw mosaic), arr = b0:b1,b0:b1,...  (b0:b1r = definition slice(b1-1, b0-1, -1))
    subscript: a/b/c;a/b/c;...  (normalised: start int, stop int or N, step int)
  ops:  shape -> formatted shape ;  full -> shape | elements ;  read -> shape | elements ;
        write -> chunk shape | <leaf id>:<flat raw offset>=<flat position in the chunk>[.<part>] ... (the assignments, in the order performed;
                 part 0 real, 1 imaginary, 2 magnitude, 3 phase of the chunk element)
  element: F (fill), <leaf id>:<flat raw offset>, C(<re>,<im>) for a complex pair, P(<mag>,<phase>), T<c>(<x>) for column c of the table row x;
  `refused` when the tree or the subscript is not well-formed, or the code refuses the subscript (Seg.accepts)
-/

def parseNats (s : String) : Option (List Nat) :=
  if s == "-" then some [] else (s.splitOn ",").mapM (·.toNat?)

def parseNSlice (s : String) : Option NSlice :=
  match s.splitOn "/" with
  | [a, b, c] => do
    let a ← a.toInt?; let b ← parseO b; let c ← c.toInt?
    pure ⟨a, b, c⟩
  | _ => none

def parseSub (s : String) : Option (List NSlice) :=
  if s == "-" then some [] else (s.splitOn ";").mapM parseNSlice

def parseBox (s : String) : Option (List (Int × Int) × List Bool) :=
  if s == "-" then some ([], []) else do
  let l ← (s.splitOn ",").mapM (fun t =>
    let r := t.endsWith "r"
    let t := if r then (t.dropRight 1) else t
    match t.splitOn ":" with
    | [a, b] => do let a ← a.toInt?; let b ← b.toInt?; pure ((a, b), r)
    | _ => none)
  pure (l.map Prod.fst, l.map Prod.snd)

def parseOrd (s : String) : Option COrd :=
  match s with
  | "IQ" => some .IQ | "1" => some .IQ
  | "QI" => some .QI | "0" => some .QI
  | "MP" => some .MP
  | "PM" => some .PM
  | _ => none

mutual
partial def parseSeg : List String → Option (Seg × List String)
  | "L" :: id :: shape :: rest => do
    let id ← id.toNat?; let shape ← parseNats shape
    pure (.leaf id shape, rest)
  | "R" :: id :: shape :: rest => do
    let id ← id.toNat?; let shape ← parseNats shape
    pure (.fleaf id shape, rest)
  | "O" :: rev :: perm :: rest => do
    let rev ← parseNats rev; let perm ← parseNats perm
    let (p, rest) ← parseSeg rest
    pure (.orient rev perm p, rest)
  | "C" :: ord :: rev :: perm :: bd :: rest => do
    let ord ← parseOrd ord
    let rev ← parseNats rev; let perm ← parseNats perm; let bd ← bd.toNat?
    let (p, rest) ← parseSeg rest
    pure (.cplx ord rev perm bd p, rest)
  | "CK" :: ord :: rev :: perm :: bd :: rest => do
    let ord ← parseOrd ord
    let rev ← parseNats rev; let perm ← parseNats perm; let bd ← bd.toNat?
    let (p, rest) ← parseSeg rest
    pure (.cplxK ord rev perm bd p, rest)
  | "U1" :: rev :: perm :: rest => do
    let rev ← parseNats rev; let perm ← parseNats perm
    let (p, rest) ← parseSeg rest
    pure (.lut1 rev perm p, rest)
  | "U2" :: m :: rev :: perm :: rest => do
    let m ← m.toNat?
    let rev ← parseNats rev; let perm ← parseNats perm
    let (p, rest) ← parseSeg rest
    pure (.lut2 m rev perm p, rest)
  | "SR" :: sq :: defs :: rev :: perm :: rest => do
    let defs ← parseSub defs
    let rev ← parseNats rev; let perm ← parseNats perm
    let (p, rest) ← parseSeg rest
    pure (.subsetR (sq == "1") defs rev perm p, rest)
  | "S" :: sq :: defs :: rest => do
    let defs ← parseSub defs
    let (p, rest) ← parseSeg rest
    pure (.subset (sq == "1") defs p, rest)
  | "B" :: bd :: k :: rest => do
    let bd ← bd.toNat?; let k ← k.toNat?
    let (cs, rest) ← parseSegs k rest
    pure (.bands bd cs, rest)
  | "K" :: shape :: k :: rest => do
    let shape ← parseNats shape; let k ← k.toNat?
    let (cs, rest) ← parseBlks k rest
    pure (.blocks shape cs, rest)
  | _ => none
partial def parseSegs : Nat → List String → Option (Segs × List String)
  | 0, rest => some (.nil, rest)
  | k + 1, rest => do
    let (c, rest) ← parseSeg rest
    let (r, rest) ← parseSegs k rest
    pure (.cons c r, rest)
partial def parseBlks : Nat → List String → Option (Blks × List String)
  | 0, rest => some (.nil, rest)
  | k + 1, arr :: rest => do
    let (arr, rv) ← parseBox arr
    let (c, rest) ← parseSeg rest
    let (r, rest) ← parseBlks k rest
    if rv.any id then pure (.rcons arr rv c r, rest) else pure (.cons arr c r, rest)
  | _, _ => none
end

def showSrc (leaves : List (Nat × List Nat)) : Src → String
  | .fill => "F"
  | .leaf id idx =>
    match leaves.find? (fun p => p.1 == id) with
    | some (_, shape) => s!"{id}:{flatOff shape idx}"
    | none => s!"{id}:?"
  | .pair a b => "C(" ++ showSrc leaves a ++ "," ++ showSrc leaves b ++ ")"
  | .polar a b => "P(" ++ showSrc leaves a ++ "," ++ showSrc leaves b ++ ")"
  | .lut c a => s!"T{c}(" ++ showSrc leaves a ++ ")"

def showWSrc (cnt : List Nat) : WSrc → String
  | .elem idx => toString (flatOff cnt idx)
  | .part k x => showWSrc cnt x ++ "." ++ toString k

def showShape (l : List Nat) : String := if l.isEmpty then "-" else ",".intercalate (l.map toString)

def showArr (leaves : List (Nat × List Nat)) (a : Arr Src) : String :=
  showShape a.shape ++ " | " ++ " ".intercalate (a.toList.map (showSrc leaves))

def segStep (toks : List String) : Option String :=
  match toks with
  | "shape" :: rest => do
    let (t, rest) ← parseSeg rest
    if !rest.isEmpty then none else
    if !t.wf then pure "refused" else pure (showShape t.fshape)
  | "full" :: rest => do
    let (t, rest) ← parseSeg rest
    if !rest.isEmpty then none else
    if !t.wf then pure "refused" else pure (showArr t.leaves t.fullSrc)
  | "read" :: rest => do
    let (t, rest) ← parseSeg rest
    match rest with
    | [sub] =>
      let ts ← parseSub sub
      if !t.wf || !allSlicesNormal t.fshape ts || !t.accepts ts then pure "refused"
      else pure (showArr t.leaves (t.readSrc ts))
    | _ => none
  | "write" :: rest => do
    let (t, rest) ← parseSeg rest
    match rest with
    | [sub] =>
      let ts ← parseSub sub
      if !t.wf || !allSlicesNormal t.fshape ts || !t.accepts ts then pure "refused" else
      let cnt := ts.map NSlice.count
      let asg := t.write ts (idChunkW ts)
      let one (a : Nat × List Int × WSrc) : String :=
        match t.leaves.find? (fun p => p.1 == a.1) with
        | some (_, shape) => s!"{a.1}:{flatOff shape a.2.1}={showWSrc cnt a.2.2}"
        | none => s!"{a.1}:?"
      pure (showShape cnt ++ " | " ++ " ".intercalate (asg.map one))
    | _ => none
  | _ => none

end Sarpy.Drivers
