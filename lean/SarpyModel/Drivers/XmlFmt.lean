import SarpyModel.Drivers.Util
import SarpyModel.Spec.XmlFmt
/-!
  Line protocol for `Spec.XmlFmt`.  Texts, tags, namespace keys and field names are numbers interned by the harness, so the
  codec is instantiated at `P = S = Nat` with the identity text codec (the real text codecs are tested on the implementation).

  tables  := class (';' class)*            class := 'C' | 'R' [row (',' row)*] | 'Y' polyspec
  row     := name ':' tns ':' tloc ':' pns ':' ploc ':' req ':' kind
  kind    := 'p' prim | 'a' prim | 't' prim | 'c' cid | 'l' cid | 'm' prim
           | 'y' cid ':' ctns ':' ctloc ':' pctns ':' pctloc ':' ('-:-' | szns ':' szloc) ':' pszns ':' pszloc ':' min ':' max
                 ':' ('-' | idxpos) ':' ('-' | label ('.' label)*) ':' idxlimit
           | 'f' prim ':' ctns ':' ctloc ':' pctns ':' pctloc ':' szns ':' szloc ':' pszns ':' pszloc ':' ixns ':' ixloc ':' base
           | 'q' cid ':' ('-' | wns ':' wloc ':' pwns ':' pwloc)
           | 'n' prim ':' src | 'k' prim ':' const ':' asAttr | 'w' prim ':' ('-' | row '.' const ('/' row '.' const)*)
  polyspec:= two ':' 11 qualified names (coef, pcoef, dim1, pdim1, dim2, pdim2, exp1, pexp1, exp2, pexp2 as ns ':' loc)
             ':' dimOff ':' prim ':' dname ':' fill ':' ('-' | wns ':' wloc ':' pwns ':' pwloc)
  texts: canonical decimal naturals are interned as sizeBase + n (so that sizes, indices, exponents, orders and counts are
  the same text on both sides); constants in the tables are the ids of their texts
  value   := prefix token stream, ',' separated: 'A' | 'P' text | 'N' count kids... | 'B' nattrs ':' ('-'|text) ':' nchildren attrs... nodes...
  node    := 'E' ns ':' loc ':' nattrs ':' ('-'|text) ':' nchildren   then nattrs tokens  ns ':' loc ':' text   then the children
  requests (after the word `xml`):
    ser  tables cid ns:loc value   ->  wfTabs wfVal roundtrip stable node
    par  tables cid node           ->  value | none
    dict tables cid value          ->  dwfTabs wfValD roundtrip dict
    wf   tables                    ->  wfTabs dwfTabs firstBadClass
-/
namespace Sarpy.Drivers
open Sarpy.Spec.XmlFmt

abbrev V := Val Nat Nat
abbrev X := XmlNode Nat

def sizeBase : Nat := 1000000000
def idCodec : Codec Nat Nat :=
  { toText := fun _ x => x, ofText := fun _ s => some s, ok := fun _ _ => true, sizeText := fun n => sizeBase + n,
    ofSize := fun s => if s ≥ sizeBase then some (s - sizeBase) else none, natVal := fun n => sizeBase + n,
    constVal := fun k => k, peq := fun a b => a == b }
def fuel : Nat := 48

def nats (s : String) : Option (List Nat) := (s.splitOn ":").mapM (·.toNat?)

def optQ (a b : String) : Option (Option QName) :=
  if a == "-" then some none else do
    let x ← a.toNat?; let y ← b.toNat?
    pure (some (x, y))

def dotted (s : String) : Option (List Nat) := if s == "-" then some [] else (s.splitOn ".").mapM (·.toNat?)

def parseAlts (s : String) : Option (List (Nat × Nat)) :=
  if s == "-" then some [] else
  (s.splitOn "/").mapM (fun e => match e.splitOn "." with
    | [a, b] => do let a ← a.toNat?; let b ← b.toNat?; pure (a, b)
    | _ => none)

def parseKind (k : String) (rest : List String) : Option Kind :=
  match k.toList with
  | 'p' :: r => (String.ofList r).toNat?.map .prim
  | 'a' :: r => (String.ofList r).toNat?.map .attr
  | 't' :: r => (String.ofList r).toNat?.map .text
  | 'm' :: r => (String.ofList r).toNat?.map .primList
  | 'c' :: r => (String.ofList r).toNat?.map .child
  | 'l' :: r => (String.ofList r).toNat?.map .list
  | 'y' :: r => do
    let c ← (String.ofList r).toNat?
    match rest with
    | [a, b, x, y, s, t, ps, pt, mn, mx, ix, lb, lim] => do
      let a ← a.toNat?; let b ← b.toNat?; let x ← x.toNat?; let y ← y.toNat?
      let sz ← optQ s t
      let ps ← ps.toNat?; let pt ← pt.toNat?; let mn ← mn.toNat?; let mx ← mx.toNat?
      let ix ← if ix == "-" then some none else ix.toNat?.map some
      let lb ← dotted lb
      let lim ← lim.toNat?
      pure (.array c { childTag := (a, b), pChildTag := (x, y), sizeAttr := sz, pSizeAttr := (ps, pt), minLen := mn, maxLen := mx,
                       idxPos := ix, idxLabels := lb, idxLimit := lim })
    | _ => none
  | 'f' :: r => do
    let p ← (String.ofList r).toNat?
    match rest.mapM (·.toNat?) with
    | some [a, b, x, y, s, t, ps, pt, ia, ib, base] =>
      pure (.floatArr { prim := p, childTag := (a, b), pChildTag := (x, y), sizeAttr := (s, t), pSizeAttr := (ps, pt),
                        idxAttr := (ia, ib), base := base })
    | _ => none
  | 'q' :: r => do
    let c ← (String.ofList r).toNat?
    match rest with
    | ["-"] => pure (.params c none)
    | [a, b, x, y] => do
      let a ← a.toNat?; let b ← b.toNat?; let x ← x.toNat?; let y ← y.toNat?
      pure (.params c (some ((a, b), (x, y))))
    | _ => none
  | 'n' :: r => do
    let p ← (String.ofList r).toNat?
    match rest with
    | [src] => do let src ← src.toNat?; pure (.count p src)
    | _ => none
  | 'k' :: r => do
    let p ← (String.ofList r).toNat?
    match rest with
    | [k, a] => do let k ← k.toNat?; pure (.const p k (a == "1"))
    | _ => none
  | 'w' :: r => do
    let p ← (String.ofList r).toNat?
    match rest with
    | [alts] => do let alts ← parseAlts alts; pure (.which p alts)
    | _ => none
  | _ => none

def parsePolySpec (s : String) : Option PolySpec :=
  match s.splitOn ":" with
  | two :: rest =>
    match (rest.take 24).mapM (·.toNat?), rest.drop 24 with
    | some [c1, c2, pc1, pc2, d1a, d1b, pd1a, pd1b, d2a, d2b, pd2a, pd2b, e1a, e1b, pe1a, pe1b, e2a, e2b, pe2a, pe2b, off, pr, dn, fl], w =>
      let mk (wr : Option (QName × QName)) : PolySpec :=
        { two := two == "1", coefTag := (c1, c2), pCoefTag := (pc1, pc2), dim1 := (d1a, d1b), pDim1 := (pd1a, pd1b),
          dim2 := (d2a, d2b), pDim2 := (pd2a, pd2b), exp1 := (e1a, e1b), pExp1 := (pe1a, pe1b), exp2 := (e2a, e2b),
          pExp2 := (pe2a, pe2b), dimOff := off, wrapper := wr, prim := pr, dname := dn, fill := fl }
      match w with
      | ["-"] => some (mk none)
      | [a, b, x, y] => do
        let a ← a.toNat?; let b ← b.toNat?; let x ← x.toNat?; let y ← y.toNat?
        pure (mk (some ((a, b), (x, y))))
      | _ => none
    | _, _ => none
  | _ => none

def parseRowTok (s : String) : Option Row :=
  match s.splitOn ":" with
  | nm :: tn :: tl :: pn :: pl :: rq :: k :: rest => do
    let nm ← nm.toNat?; let tn ← tn.toNat?; let tl ← tl.toNat?; let pn ← pn.toNat?; let pl ← pl.toNat?
    let kind ← parseKind k rest
    pure ⟨nm, (tn, tl), (pn, pl), kind, rq == "1"⟩
  | _ => none

def parseClass (s : String) : Option ClassTab :=
  if s == "C" then some .custom
  else if s == "R" then some (.rows [])
  else match s.toList with
    | 'R' :: r => ((String.ofList r).splitOn ",").mapM parseRowTok |>.map .rows
    | 'Y' :: r => (parsePolySpec (String.ofList r)).map .poly
    | _ => none

def parseTabs (s : String) : Option Tabs := (s.splitOn ";").mapM parseClass

/-! token-stream readers (fuel = number of tokens is always enough) -/

def readAttr (s : String) : Option (QName × Nat) :=
  match nats s with
  | some [a, b, t] => some ((a, b), t)
  | _ => none

def readAttrs : Nat → List String → Option (List (QName × Nat) × List String)
  | 0, ts => some ([], ts)
  | k + 1, t :: ts => do
    let a ← readAttr t
    let (as, rest) ← readAttrs k ts
    pure (a :: as, rest)
  | _, [] => none

def optText (s : String) : Option (Option Nat) := if s == "-" then some none else s.toNat?.map some

mutual
def readNode : Nat → List String → Option (X × List String)
  | 0, _ => none
  | f + 1, t :: ts =>
    match t.toList with
    | 'E' :: r =>
      match (String.ofList r).splitOn ":" with
      | [a, b, na, tx, nc] => do
        let a ← a.toNat?; let b ← b.toNat?; let na ← na.toNat?; let tx ← optText tx; let nc ← nc.toNat?
        let (as, rest) ← readAttrs na ts
        let (ch, rest) ← readNodes f nc rest
        pure (.mk (a, b) as tx ch, rest)
      | _ => none
    | _ => none
  | _, [] => none
def readNodes : Nat → Nat → List String → Option (List X × List String)
  | 0, _, _ => none
  | _ + 1, 0, ts => some ([], ts)
  | f + 1, k + 1, ts => do
    let (x, rest) ← readNode f ts
    let (xs, rest) ← readNodes f k rest
    pure (x :: xs, rest)
end

mutual
def readVal : Nat → List String → Option (V × List String)
  | 0, _ => none
  | f + 1, t :: ts =>
    match t.toList with
    | ['A'] => some (.absent, ts)
    | 'P' :: r => (String.ofList r).toNat?.map (fun n => (.prim n, ts))
    | 'N' :: r => do
      let k ← (String.ofList r).toNat?
      let (vs, rest) ← readVals f k ts
      pure (.node vs, rest)
    | 'B' :: r =>
      match (String.ofList r).splitOn ":" with
      | [na, tx, nc] => do
        let na ← na.toNat?; let tx ← optText tx; let nc ← nc.toNat?
        let (as, rest) ← readAttrs na ts
        let (ch, rest) ← readNodes f nc rest
        pure (.blob as tx ch, rest)
      | _ => none
    | _ => none
  | _, [] => none
def readVals : Nat → Nat → List String → Option (List V × List String)
  | 0, _, _ => none
  | _ + 1, 0, ts => some ([], ts)
  | f + 1, k + 1, ts => do
    let (v, rest) ← readVal f ts
    let (vs, rest) ← readVals f k rest
    pure (v :: vs, rest)
end

def showOpt : Option Nat → String | none => "-" | some n => toString n
def showAttr (a : QName × Nat) : String := s!"{a.1.1}:{a.1.2}:{a.2}"

mutual
def showNode : Nat → X → List String
  | 0, _ => ["?"]
  | f + 1, .mk t as tx ch =>
    s!"E{t.1}:{t.2}:{as.length}:{showOpt tx}:{ch.length}" :: (as.map showAttr ++ showNodes f ch)
def showNodes : Nat → List X → List String
  | 0, _ => ["?"]
  | _ + 1, [] => []
  | f + 1, x :: xs => showNode f x ++ showNodes f xs
end

mutual
def showVal : Nat → V → List String
  | 0, _ => ["?"]
  | _ + 1, .absent => ["A"]
  | _ + 1, .prim n => [s!"P{n}"]
  | f + 1, .node ks => s!"N{ks.length}" :: showVals f ks
  | f + 1, .blob as tx ch => s!"B{as.length}:{showOpt tx}:{ch.length}" :: (as.map showAttr ++ showNodes f ch)
def showVals : Nat → List V → List String
  | 0, _ => ["?"]
  | _ + 1, [] => []
  | f + 1, v :: vs => showVal f v ++ showVals f vs
end

mutual
def showD : Nat → DVal Nat Nat → List String
  | 0, _ => ["?"]
  | _ + 1, .prim n => [s!"P{n}"]
  | f + 1, .list ds => s!"L{ds.length}" :: showDs f ds
  | f + 1, .dict es => s!"D{es.length}" :: showEs f es
  | f + 1, .blob as tx ch => s!"B{as.length}:{showOpt tx}:{ch.length}" :: (as.map showAttr ++ showNodes f ch)
def showDs : Nat → List (DVal Nat Nat) → List String
  | 0, _ => ["?"]
  | _ + 1, [] => []
  | f + 1, d :: ds => showD f d ++ showDs f ds
def showEs : Nat → List (Nat × DVal Nat Nat) → List String
  | 0, _ => ["?"]
  | _ + 1, [] => []
  | f + 1, e :: es => (s!"K{e.1}" :: showD f e.2) ++ showEs f es
end

def big : Nat := 100000
def join (l : List String) : String := ",".intercalate l

def firstBad (T : Tabs) : String :=
  match (T.zipIdx).find? (fun p => !(ClassTab.wf T.length p.1)) with
  | some p => toString p.2
  | none => "-"

def xmlStep (toks : List String) : Option String :=
  match toks with
  | ["ser", tabs, cid, tag, val] => do
    let T ← parseTabs tabs
    let c ← cid.toNat?
    let tg ← match nats tag with | some [a, b] => some (a, b) | _ => none
    let (v, rest) ← readVal big (val.splitOn ",")
    if !rest.isEmpty then none else
    let x := serializeN idCodec T fuel c tg v
    let back := parseN idCodec T fuel c x
    let rt := match back with
      | some w => showVal big w == showVal big v
      | none => false
    let stable := match back with
      | some w => showNode big (serializeN idCodec T fuel c tg w) == showNode big x
      | none => false
    pure s!"{wfTabs T} {wfValN idCodec T true fuel c v} {rt} {stable} {join (showNode big x)}"
  | ["par", tabs, cid, node] => do
    let T ← parseTabs tabs
    let c ← cid.toNat?
    let (x, rest) ← readNode big (node.splitOn ",")
    if !rest.isEmpty then none else
    match parseN idCodec T fuel c x with
    | some v => pure (join (showVal big v))
    | none => pure "none"
  | ["dict", tabs, cid, val] => do
    let T ← parseTabs tabs
    let c ← cid.toNat?
    let (v, rest) ← readVal big (val.splitOn ",")
    if !rest.isEmpty then none else
    let d := toDictN idCodec T fuel c v
    let rt := match ofDictN idCodec T fuel c d with
      | some w => showVal big w == showVal big v
      | none => false
    pure s!"{dwfTabs T} {wfValN idCodec T false fuel c v} {rt} {join (showD big d)}"
  | ["wf", tabs] => do
    let T ← parseTabs tabs
    pure s!"{wfTabs T} {dwfTabs T} {firstBad T}"
  | _ => none

end Sarpy.Drivers
