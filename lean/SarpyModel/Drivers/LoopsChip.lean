/- line-protocol driver for the regenerated chipping kernels (Gen.L, Gen/LoopsChip.lean) next to their reference definitions
   (Spec.Chip through Spec.L): every answer is `<regenerated Python> | <reference>` -/
import SarpyModel.Drivers.Util
import SarpyModel.Gen.LoopsChip
import SarpyModel.Spec.Loops
namespace Sarpy.Drivers
open Sarpy Sarpy.Spec Sarpy.Spec.L Sarpy.Spec.Chip

private def pbool (s : String) : Bool := s == "1"

def showSubset (v : (Int × Int × Int × Int) × (Int × Int) × (Int × Int)) : String :=
  s!"{v.1.1} {v.1.2.1} {v.1.2.2.1} {v.1.2.2.2} {v.2.1.1} {v.2.1.2} {v.2.2.1} {v.2.2.2}"

def showTrace (l : List Tr6) : String :=
  if l.isEmpty then "-" else ",".intercalate (l.map (fun t => s!"{t.1}:{t.2.1}:{t.2.2.1}:{t.2.2.2.1}:{t.2.2.2.2.1}:{t.2.2.2.2.2}"))

def loopscStep (toks : List String) : Option String :=
  match toks with
  | ["subset", fr, nr, fc, nc, hrb, rb0, rb1, hcb, cb0, cb1] => do
    let fr ← fr.toInt?; let nr ← nr.toInt?; let fc ← fc.toInt?; let nc ← nc.toInt?
    let rb0 ← rb0.toInt?; let rb1 ← rb1.toInt?; let cb0 ← cb0.toInt?; let cb1 ← cb1.toInt?
    let spec := match subsetKernel fr nr fc nc (optBounds (pbool hrb) rb0 rb1) (optBounds (pbool hcb) cb0 cb1) with
      | some v => "ok " ++ showSubset v
      | none => "err ValueError"
    pure (exc showSubset (Gen.L.create_subset_structure fr nr fc nc (pbool hrb) rb0 rb1 (pbool hcb) cb0 cb1) ++ " | " ++ spec)
  | ["rpb", pt, cols, mbs] => do
    let pt ← pt.toNat?; let cols ← cols.toNat?; let mbs ← mbs.toNat?
    pure (exc toString (Gen.L.get_rows_per_block pt cols mbs) ++ " | " ++ toString (max 1 (roundHalfEven mbs (bytesPerRow pt cols))))
  | ["write", mbs, pt, cols, r0, r1, c0, c1] => do
    let mbs ← (if mbs == "N" then some none else mbs.toNat?.map some)
    let pt ← pt.toNat?; let cols ← cols.toNat?; let r0 ← r0.toNat?; let r1 ← r1.toNat?; let c0 ← c0.toInt?; let c1 ← c1.toInt?
    pure (exc showTrace (Gen.L.write_data (mbs.map Int.ofNat) pt cols r0 r1 c0 c1) ++ " | " ++ showTrace (writeTrace mbs pt cols r0 r1 c0 c1))
  | _ => none

end Sarpy.Drivers
