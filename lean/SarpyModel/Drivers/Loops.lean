/- line-protocol driver for the regenerated NITF kernels with loops (Gen.L, Gen/Loops.lean) next to their reference definitions
   (Spec.L): every answer is `<regenerated Python> | <reference>` -/
import SarpyModel.Drivers.Util
import SarpyModel.Gen.Loops
import SarpyModel.Spec.Loops
namespace Sarpy.Drivers
open Sarpy Sarpy.Spec Sarpy.Spec.L

def showBoxes (l : List Box) : String :=
  if l.isEmpty then "-" else ",".intercalate (l.map (fun b => s!"{b.1}:{b.2.1}:{b.2.2.1}:{b.2.2.2}"))

def loopsStep (toks : List String) : Option String :=
  match toks with
  | ["seg", rows, cols, lim] => do
    let r ← rows.toInt?; let c ← cols.toInt?; let l ← lim.toInt?
    pure (exc showBoxes (Gen.L.default_image_segmentation r c l) ++ " | " ++ showBoxes (segBoxes r c l))
  | ["bounds", nrows, ncols, nppbv, nppbh, nbpr, nbpc] => do
    let a ← nrows.toInt?; let b ← ncols.toInt?; let c ← nppbv.toInt?; let d ← nppbh.toInt?; let e ← nbpr.toInt?; let f ← nbpc.toInt?
    let spec := match blockBounds a b c d e f with
      | some g => "ok " ++ showBoxes g
      | none => "err ValueError"
    pure (exc showBoxes (Gen.L.construct_block_bounds a b c d e f) ++ " | " ++ spec)
  | _ => none

end Sarpy.Drivers
