/- line-protocol driver for the regenerated polynomial loops (Gen.P, Gen/PolyLoops.lean) next to Spec.Poly at Int:
   every answer is `<regenerated Python> | <reference>`; integer coefficient lists `a,b,c`, matrices `a,b;c,d` -/
import SarpyModel.Drivers.Util
import SarpyModel.Gen.PolyLoops
import SarpyModel.Spec.Poly
namespace Sarpy.Drivers
open Sarpy Sarpy.Spec.Poly

def plParse (s : String) : Option (List Int) := if s == "-" then some [] else (s.splitOn ",").mapM String.toInt?
def plShow (l : List Int) : String := if l.isEmpty then "-" else ",".intercalate (l.map toString)
def plParseRows (s : String) : Option (List (List Int)) := (s.splitOn ";").mapM plParse
def plShowRows (p : List (List Int)) : String := ";".intercalate (p.map plShow)

def polylStep (toks : List String) : Option String :=
  match toks with
  | ["shift", t0, a, c] => do
    let t0 ← t0.toInt?; let a ← a.toInt?; let c ← plParse c
    pure (exc plShow (Gen.P.shift c t0 a) ++ " | " ++ plShow (shift t0 a c))
  | ["der", n, c] => do
    let n ← n.toInt?; let c ← plParse c
    pure (exc plShow (Gen.P.derivative c n) ++ " | " ++ exc plShow (polyder c n))
  | ["min", c] => do
    let c ← plParse c
    pure (exc plShow (Gen.P.minimize_order c) ++ " | " ++ plShow (minimize c))
  | ["shift2", s1, a1, s2, a2, p] => do
    let s1 ← s1.toInt?; let a1 ← a1.toInt?; let s2 ← s2.toInt?; let a2 ← a2.toInt?; let p ← plParseRows p
    pure (exc plShowRows (Gen.P.shift2 p s1 a1 s2 a2) ++ " | " ++ plShowRows (shift2 s1 a1 s2 a2 p))
  | _ => none

end Sarpy.Drivers
