import SarpyModel.Drivers.Util
import SarpyModel.Spec.XsdFmt
import SarpyModel.Spec.XsdVersion
/-
  Line protocol for the C06 model (no spaces inside a token):

    xsd rt    <tabs> <class id> <tree>     -> tree          serialize (parse tree)
    xsd valid <schema> <type id> <tree>    -> 1 | 0         validB
    xsd conf  <rows> <model>               -> <strict><weak>  e.g. 11, 01, 00
    xsd confg <rows> <model> <dIf> <dUnless> -> <strict><weak><guards>   (tag lists joined by ',', '-' = empty)
    xsd vreq  <base> <since,since,...>      -> version index       Spec.XsdVersion.requiredList ('-' = no present feature)

  <tree>   nodes in preorder joined by ';', a node is  tag,nkids,text,attr=val,attr=val...   (text / val xsdHex encoded, '-' = empty)
  <tabs>   classes joined by ';', a class is  id/rows/children[/dIf/dUnless/derive]
                                                                  rows = tag.kind joined by ','  (kind a|s|m|d), element rows in OUTPUT order
                                                                  children = tag.classid joined by ','   (default class 0)
                                                                  dIf, dUnless = legacy guard tags of a from_node override, joined by ','
                                                                  derive = tag.when.when... joined by ',': the read-only property `tag` is written
                                                                  iff no `when` tag is given or a child with one of them is present (text "0": values
                                                                  are compared by the oracle, not by the model)
           classes that are not listed are opaque
  <schema> types joined by ';', a type is  id/attrs/groups/children
           attrs = name.r|name.o joined by ','     groups joined by ',':  e.tag.min.max  |  c.opt.alt|alt  with alt = tag.min.max+tag.min.max
           (max 'u' = unbounded, opt 1|0); children = tag.typeid joined by ',' (default type 0); types not listed are opaque
-/
namespace Sarpy.Drivers.XsdNS
open Sarpy.Drivers Sarpy.Spec.XsdFmt

def xsdSplit (s : String) (sep : String) : List String := (s.splitOn sep).filter (· ≠ "")

def xsdParseRow (s : String) : Option Row :=
  match s.splitOn "." with
  | [t, k] => do
    let tag ← t.toNat?
    let kind ← (match k with | "a" => some RowKind.attr | "s" => some RowKind.single | "m" => some RowKind.multi
                              | "d" => some RowKind.derived | _ => none)
    pure ⟨tag, kind⟩
  | _ => none

def xsdParsePairNat (s : String) : Option (Nat × Nat) :=
  match s.splitOn "." with
  | [a, b] => do pure (← a.toNat?, ← b.toNat?)
  | _ => none

def xsdLookupD (m : List (Nat × Nat)) (d : Nat) (k : Nat) : Nat :=
  match m.find? (fun p => p.1 == k) with
  | some p => p.2
  | none => d

def xsdParseNats (s : String) : Option (List Nat) := (xsdSplit s ",").mapM (·.toNat?)

def xsdParseWhen (s : String) : Option (Nat × List Nat) :=
  match s.splitOn "." with
  | t :: ws => do pure (← t.toNat?, ← ws.mapM (·.toNat?))
  | _ => none

/-- the driver's stand-in for the read-only properties: written iff one of the `when` children is present (always, if none is named) -/
def xsdDerive (spec : List (Nat × List Nat)) (tag : Name) (ks : List Xml) : Option String :=
  match spec.find? (fun p => p.1 == tag) with
  | none => none
  | some p => if p.2.isEmpty || p.2.any (fun w => (tagsOf ks).contains w) then some "0" else none

def xsdParseClass (s : String) : Option (Nat × ClassEntry) :=
  match s.splitOn "/" with
  | [i, rows, ch] => do
    let id ← i.toNat?
    let rs ← (xsdSplit rows ",").mapM xsdParseRow
    let cm ← (xsdSplit ch ",").mapM xsdParsePairNat
    pure (id, ⟨rs, xsdLookupD cm 0, fun _ _ => none, [], []⟩)
  | [i, rows, ch, dif, dun, der] => do
    let id ← i.toNat?
    let rs ← (xsdSplit rows ",").mapM xsdParseRow
    let cm ← (xsdSplit ch ",").mapM xsdParsePairNat
    let spec ← (xsdSplit der ",").mapM xsdParseWhen
    pure (id, ⟨rs, xsdLookupD cm 0, xsdDerive spec, ← xsdParseNats dif, ← xsdParseNats dun⟩)
  | _ => none

def parseTabs (s : String) : Option Tabs := do
  let cs ← (xsdSplit s ";").mapM xsdParseClass
  pure (fun c => (cs.find? (fun p => p.1 == c)).map (·.2))

def xsdParseMax (s : String) : Option (Option Nat) := if s == "u" then some none else s.toNat?.map some

def parseElemP (s : String) : Option ElemP :=
  match s.splitOn "." with
  | [t, mn, mx] => do pure ⟨← t.toNat?, ← mn.toNat?, ← xsdParseMax mx⟩
  | _ => none

def xsdParseGroup (s : String) : Option Group :=
  match s.splitOn "." with
  | "e" :: rest => (parseElemP (".".intercalate rest)).map Group.elem
  | "c" :: o :: rest => do
    let alts ← (xsdSplit (".".intercalate rest) "|").mapM (fun a => (xsdSplit a "+").mapM parseElemP)
    pure (Group.choice (o == "1") alts)
  | _ => none

def parseAttrDecl (s : String) : Option AttrDecl :=
  match s.splitOn "." with
  | [n, r] => do pure ⟨← n.toNat?, r == "r"⟩
  | _ => none

def parseModelParts (attrs groups : String) : Option CModel := do
  let as ← (xsdSplit attrs ",").mapM parseAttrDecl
  let gs ← (xsdSplit groups ",").mapM xsdParseGroup
  pure ⟨as, gs⟩

def xsdParseType (s : String) : Option (Nat × TypeEntry) :=
  match s.splitOn "/" with
  | [i, attrs, groups, ch] => do
    let id ← i.toNat?
    let m ← parseModelParts attrs groups
    let cm ← (xsdSplit ch ",").mapM xsdParsePairNat
    pure (id, ⟨m, xsdLookupD cm 0⟩)
  | _ => none

def parseSchema (s : String) : Option Schema := do
  let ts ← (xsdSplit s ";").mapM xsdParseType
  pure (fun t => (ts.find? (fun p => p.1 == t)).map (·.2))

/-- xsdHex text <-> String -/
def xsdHexVal (c : Char) : Option Nat :=
  if '0' ≤ c ∧ c ≤ '9' then some (c.toNat - '0'.toNat)
  else if 'a' ≤ c ∧ c ≤ 'f' then some (c.toNat - 'a'.toNat + 10) else none

def xsdUnhexChars : List Char → Option (List UInt8)
  | [] => some []
  | [_] => none
  | a :: b :: rest => do
    let x ← xsdHexVal a
    let y ← xsdHexVal b
    let r ← xsdUnhexChars rest
    pure (UInt8.ofNat (16 * x + y) :: r)

def xsdUnhex (s : String) : Option String :=
  if s == "-" then some "" else do
    let bs ← xsdUnhexChars s.toList
    String.fromUTF8? (ByteArray.mk bs.toArray)

def xsdHexDigit (n : Nat) : Char := if n < 10 then Char.ofNat (n + '0'.toNat) else Char.ofNat (n - 10 + 'a'.toNat)

def xsdHex (s : String) : String :=
  if s.isEmpty then "-" else
    String.ofList (s.toUTF8.toList.flatMap (fun b => [xsdHexDigit (b.toNat / 16), xsdHexDigit (b.toNat % 16)]))

def parseAttrTok (s : String) : Option (Name × String) :=
  match s.splitOn "=" with
  | [k, v] => do pure (← k.toNat?, ← xsdUnhex v)
  | _ => none

mutual
def xsdParseNode : Nat → List String → Option (Xml × List String)
  | 0, _ => none
  | fuel + 1, tok :: rest =>
    match tok.splitOn "," with
    | t :: n :: x :: as => do
      let tag ← t.toNat?
      let nk ← n.toNat?
      let text ← xsdUnhex x
      let attrs ← as.mapM parseAttrTok
      let (kids, rest') ← xsdParseNodes fuel nk rest
      pure (Xml.node tag attrs text kids, rest')
    | _ => none
  | _, [] => none
def xsdParseNodes : Nat → Nat → List String → Option (List Xml × List String)
  | _, 0, toks => some ([], toks)
  | 0, _, _ => none
  | fuel + 1, n + 1, toks => do
    let (k, rest) ← xsdParseNode fuel toks
    let (ks, rest') ← xsdParseNodes fuel n rest
    pure (k :: ks, rest')
end

def xsdParseTree (s : String) : Option Xml :=
  let toks := xsdSplit s ";"
  match xsdParseNode (toks.length + 1) toks with
  | some (t, []) => some t
  | _ => none

mutual
def xsdShowNode : Xml → List String
  | .node t as x ks =>
    (",".intercalate ([toString t, toString (xsdLengthOf ks), xsdHex x] ++ as.map (fun a => toString a.1 ++ "=" ++ xsdHex a.2))) :: xsdShowNodes ks
def xsdShowNodes : List Xml → List String
  | [] => []
  | k :: ks => xsdShowNode k ++ xsdShowNodes ks
def xsdLengthOf : List Xml → Nat
  | [] => 0
  | _ :: ks => xsdLengthOf ks + 1
end

def xsdShowTree (t : Xml) : String := ";".intercalate (xsdShowNode t)

def xsdB01 (b : Bool) : String := if b then "1" else "0"

def xsdStep (toks : List String) : Option String :=
  match toks with
  | ["rt", tabs, c, tree] => do
    let T ← parseTabs tabs
    let t ← xsdParseTree tree
    pure (xsdShowTree (roundtrip T (← c.toNat?) t))
  | ["valid", schema, ty, tree] => do
    let S ← parseSchema schema
    let t ← xsdParseTree tree
    pure (xsdB01 (validB S (← ty.toNat?) t))
  | ["conf", rows, model] => do
    let rs ← (xsdSplit rows ",").mapM xsdParseRow
    match model.splitOn "/" with
    | [attrs, groups] =>
      let m ← parseModelParts attrs groups
      pure (xsdB01 (conformsB rs m) ++ xsdB01 (conformsWeakB rs m))
    | _ => none
  | ["vreq", base, sinces] => do
    let b ← base.toNat?
    let vs ← xsdParseNats (if sinces == "-" then "" else sinces)
    pure (toString (Sarpy.Spec.XsdVersion.requiredList b vs))
  | ["confg", rows, model, dif, dun] => do
    let rs ← (xsdSplit rows ",").mapM xsdParseRow
    match model.splitOn "/" with
    | [attrs, groups] =>
      let m ← parseModelParts attrs groups
      let a ← xsdParseNats (if dif == "-" then "" else dif)
      let b ← xsdParseNats (if dun == "-" then "" else dun)
      pure (xsdB01 (conformsB rs m) ++ xsdB01 (conformsWeakB rs m) ++ xsdB01 (guardsOKB a b m))
    | _ => none
  | _ => none

end Sarpy.Drivers.XsdNS

namespace Sarpy.Drivers
def xsdStep := XsdNS.xsdStep
end Sarpy.Drivers
