import SarpyModel.Drivers.Util
import SarpyModel.Drivers.Slice
import SarpyModel.Spec.Supported
/-
  Driver for the completeness part of C01 (token `supported`).  Each answer is
  `<declarative predicate> <model accepts> [<current code accepts>]` as 0/1:
    supported slice <n> <a> <b> <c>          -> decide (Supported n s)     (verifySlice n s).isSome   Gen.verify_slice ok?
    supported int <n> <i>                    -> decide (SupportedInt n i)  (verifyInt n i).isSome     Gen.verify_slice ok?
    supported sub <shape,..> <entries ...>   -> decide (SupportedSub sh l) (verifySub sh l).isSome
  `Props/C01Complete.lean` proves the columns equal for all inputs; the harness compares each of them with numpy
  (`supported()` in harness/c01.py) and with the real `verify_slice` / `verify_subscript`.
-/
namespace Sarpy.Drivers
open Sarpy Sarpy.Spec

def b01 (b : Bool) : String := if b then "1" else "0"
def okE {ε α} : Except ε α → Bool
  | .ok _ => true
  | .error _ => false

def supportedStep (toks : List String) : Option String :=
  match toks with
  | ["slice", n, a, b, c] => do
    let n ← n.toNat?; let a ← parseO a; let b ← parseO b; let c ← parseO c
    let s : PySlice := ⟨a, b, c⟩
    pure (b01 (decide (Supported n s)) ++ " " ++ b01 (verifySlice n s).isSome ++ " " ++
      b01 (okE (Gen.verify_slice (.slice s) n)))
  | ["int", n, i] => do
    let n ← n.toNat?; let i ← i.toInt?
    pure (b01 (decide (SupportedInt n i)) ++ " " ++ b01 (verifyInt n i).isSome ++ " " ++
      b01 (okE (Gen.verify_slice (.int i) n)))
  | "sub" :: shape :: entries => do
    let shape ← (shape.splitOn ",").mapM (·.toNat?)
    let l ← entries.mapM parseEntry
    pure (b01 (decide (SupportedSub shape l)) ++ " " ++ b01 (verifySub shape l).isSome)
  | _ => none

end Sarpy.Drivers
