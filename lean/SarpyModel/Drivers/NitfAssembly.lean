import SarpyModel.Drivers.Util
import SarpyModel.Drivers.Segment
import SarpyModel.Spec.NitfAssembly
namespace Sarpy.Drivers
open Sarpy Sarpy.Spec Sarpy.Spec.NitfAssembly

/-
  request:  nitfasm <op> <n> (<header> <mask>)*n <options> [<subscript>]
    header  : nrows,ncols,nbands,imode,nbpr,nbpc,nppbh,nppbv,bps,cplx,offset,size,ilocRow,ilocCol
              imode = B|P|R|S ; cplx = N | I (bands I,Q) | Q (bands Q,I)
    mask    : -   |   imdatoff/o,o,o|o,o,o   (one `|`-separated row per band for IMODE S, one row otherwise; 4294967295 = not recorded)
    options : rev,tr,mm     rev = - | digits (reverse_axes entries) ; tr = 0|1 (transpose_axes = (1,0)) ; mm = 1 memmap | 0 file-read
    n = 1 : `assemble` ; n > 1 : `assembleCollection`
  ops:  shape   -> <formatted shape> / <raw shape>   (raw shape = the shape of what lies below the outermost segment)
        wf      -> true|false  (Seg.wf of the assembled tree)
        full    -> shape | provenance of every formatted pixel      (Seg.full of the assembled tree)
        read    -> the same for a normalised formatted subscript    (Seg.read)
        rawfull / rawread -> the same for read_raw of the outermost segment
        spec    -> shape | provenance as the SPECIFICATION says (formattedSrc / collectionSrc: block, mask table, IMODE layout and the
                   documented orientation options), computed without any tree
    element: F | <file byte offset of the block>:<flat sample offset inside the block> | C(<re>,<im>) ;  `refused` when the assembly refuses
-/

def parseIMode : String → Option IMode
  | "B" => some .B | "P" => some .P | "R" => some .R | "S" => some .S | _ => none

def parseMask (s : String) : Option (Option Mask) :=
  if s == "-" then some none else
  match s.splitOn "/" with
  | [a, t] => do
    let a ← a.toNat?
    let rows ← (t.splitOn "|").mapM (fun r => if r == "" then some [] else (r.splitOn ",").mapM (·.toNat?))
    pure (some ⟨a, rows⟩)
  | _ => none

def parseHeader (hs ms : String) : Option ImageHeaderFields :=
  match hs.splitOn "," with
  | [nrows, ncols, nbands, imode, nbpr, nbpc, nppbh, nppbv, bps, cplx, offset, size, ir, ic] => do
    let nrows ← nrows.toNat?; let ncols ← ncols.toNat?; let nbands ← nbands.toNat?
    let imode ← parseIMode imode
    let nbpr ← nbpr.toNat?; let nbpc ← nbpc.toNat?; let nppbh ← nppbh.toNat?; let nppbv ← nppbv.toNat?
    let bps ← bps.toNat?
    let cplx ← (match cplx with | "N" => some none | "I" => some (some true) | "Q" => some (some false) | _ => none)
    let offset ← offset.toNat?; let size ← size.toNat?; let ir ← ir.toNat?; let ic ← ic.toNat?
    let mask ← parseMask ms
    pure ⟨nrows, ncols, nbands, imode, nbpr, nbpc, nppbh, nppbv, bps, cplx, mask, offset, size, ir, ic⟩
  | _ => none

def parseOptions (s : String) : Option ReaderOptions :=
  match s.splitOn "," with
  | [rev, tr, mm] => do
    let rev ← (if rev == "-" then some [] else rev.toList.mapM (fun ch => (String.singleton ch).toNat?))
    pure ⟨rev, tr == "1", mm == "1"⟩
  | _ => none

def parseHeaders : Nat → List String → Option (List ImageHeaderFields × List String)
  | 0, rest => some ([], rest)
  | n + 1, hs :: ms :: rest => do
    let h ← parseHeader hs ms
    let (r, rest) ← parseHeaders n rest
    pure (h :: r, rest)
  | _, _ => none

def asmTree (hs : List ImageHeaderFields) (o : ReaderOptions) : Except Err Seg :=
  match hs with
  | [h] => assemble h o
  | _ => assembleCollection hs o

def specArr (hs : List ImageHeaderFields) (o : ReaderOptions) : Arr Src :=
  match hs with
  | [h] =>
    ⟨formattedShape h.nrows h.ncols h o, fun idx => formattedSrc h o (idx 0).toNat (idx 1).toNat (idx 2).toNat⟩
  | _ =>
    let rows := (hs.map (·.nrows)).sum
    let cols := listMax (hs.map (·.ncols))
    let h0 := hs.head?.getD default
    ⟨formattedShape rows cols h0 o, fun idx => collectionSrc hs o rows cols (idx 0).toNat (idx 1).toNat (idx 2).toNat⟩

def nitfasmStep (toks : List String) : Option String :=
  match toks with
  | op :: n :: rest => do
    let n ← n.toNat?
    let (hs, rest) ← parseHeaders n rest
    match rest with
    | os :: rest =>
      let o ← parseOptions os
      match asmTree hs o with
      | .error _ => pure "refused"
      | .ok t =>
        match op, rest with
        | "shape", [] => pure (showShape t.fshape ++ " / " ++ showShape (below t).fshape)
        | "wf", [] => pure (toString t.wf)
        | "full", [] => if !t.wf then pure "refused" else pure (showArr t.leaves t.fullSrc)
        | "rawfull", [] => if !t.wf then pure "refused" else pure (showArr t.leaves (below t).fullSrc)
        | "spec", [] => pure (showArr t.leaves (specArr hs o))
        | "read", [sub] =>
          let ts ← parseSub sub
          if !t.wf || !allSlicesNormal t.fshape ts || !t.accepts ts then pure "refused" else pure (showArr t.leaves (t.readSrc ts))
        | "rawread", [sub] =>
          let ts ← parseSub sub
          if !t.wf || !allSlicesNormal (below t).fshape ts || !(below t).accepts ts then pure "refused"
          else pure (showArr t.leaves ((below t).readSrc ts))
        | _, _ => none
    | _ => none
  | _ => none

end Sarpy.Drivers
