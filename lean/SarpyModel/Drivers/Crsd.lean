import SarpyModel.Drivers.Util
import SarpyModel.Spec.CrsdHeader
namespace Sarpy.Drivers
open Sarpy.Spec.CphdLayout Sarpy.Spec.CrsdHeader

private def parseRel (rel : String) : Option (List (Nat × Nat)) :=
  if rel == "-" then some [] else
  (rel.splitOn ",").mapM (fun t => match t.splitOn ":" with
    | [a, b] => do pure ((← a.toNat?), (← b.toNat?))
    | _ => none)

/-- `header typeLen classLen relLen xmlSize suppSize|N pvpSize sigSize`
      → `hdrLen xmlOff xmlSize suppOff|N suppSize|N pvpOff pvpSize sigOff sigSize fileEnd` (or `none` when the fuel runs out)
    `packed start o:s,o:s,...` → `1 total` when the relative offsets are the running sums of the sizes, else `0 total` -/
def crsdStep (toks : List String) : Option String :=
  match toks with
  | ["header", tl, cl, rl, xs, ss, ps, gs] => do
    let tl ← tl.toNat?; let cl ← cl.toNat?; let rl ← rl.toNat?
    let xs ← xs.toNat?; let ps ← ps.toNat?; let gs ← gs.toNat?
    let ss ← (if ss == "N" then some none else ss.toNat?.map some)
    let f : Fixed := { typeLen := tl, classLen := cl, relLen := rl }
    match chooseCrsd f xs ss ps gs 16 with
    | none => pure "none"
    | some b =>
      let sp := match b.supp with | some (o, s) => s!"{o} {s}" | none => "N N"
      pure s!"{hdrLen f b} {b.xmlOff} {b.xmlSize} {sp} {b.pvpOff} {b.pvpSize} {b.sigOff} {b.sigSize} {fileEnd b}"
  | ["packed", start, rel] => do
    let start ← start.toNat?
    let rel ← parseRel rel
    pure s!"{if packedB start rel then 1 else 0} {totalSize rel}"
  | ["digits", n] => do
    let n ← n.toNat?
    pure s!"{digits n}"
  | _ => none

end Sarpy.Drivers
