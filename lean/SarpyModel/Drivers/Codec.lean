import SarpyModel.Drivers.Util
import SarpyModel.Spec.Codec
namespace Sarpy.Drivers
open Sarpy.Spec.Codec

/-- round half to even at Float (`Float.round` rounds ties away from zero): `x - floor x` is exact in binary64 -/
def rintF (x : Float) : Float :=
  let f := Float.floor x
  let d := x - f
  if d < 0.5 then f
  else if 0.5 < d then f + 1.0
  else if Float.floor (f / 2.0) * 2.0 == f then f else f + 1.0

def floatOps : Ops Float where
  add := (· + ·)
  sub := (· - ·)
  mul := (· * ·)
  div := (· / ·)
  sqrt := Float.sqrt
  cos := Float.cos
  sin := Float.sin
  atan2 := Float.atan2
  pi := 3.141592653589793
  ofNat := fun n => n.toFloat
  lt := fun a b => a < b
  rint := rintF
  floor := Float.floor

def codecBits (f : Float) : String := toString f.toBits
def codecParse (s : String) : Option Float := s.toNat?.map (fun n => Float.ofBits n.toUInt64)

/-- floats travel as their 64-bit patterns (decimal UInt64) -/
def codecStep (toks : List String) : Option String :=
  match toks with
  | ["decmp", bits, m, p] => do
    let bits ← bits.toNat?; let m ← codecParse m; let p ← codecParse p
    let r := decodeMP floatOps bits m p
    pure s!"{codecBits r.1} {codecBits r.2}"
  | ["encmp", bits, x, y] => do
    let bits ← bits.toNat?; let x ← codecParse x; let y ← codecParse y
    let r := encodeMP floatOps bits x y
    pure s!"{codecBits r.1} {codecBits r.2}"
  | ["encq", bits, x, y] => do
    -- quantised encoder; also returns the un-rounded pair so that the harness can recognise near-ties
    let bits ← bits.toNat?; let x ← codecParse x; let y ← codecParse y
    let q := encodeMPq floatOps bits x y
    let r := encodeMP floatOps bits x y
    pure s!"{codecBits q.1} {codecBits q.2} {codecBits r.1} {codecBits r.2}"
  | ["ampq", sf, x, y] => do
    let sf ← codecParse sf; let x ← codecParse x; let y ← codecParse y
    let q := encodeAmpSF floatOps sf (x, y)
    let inv := floatOps.div (floatOps.ofNat 1) sf
    pure s!"{codecBits q.1} {codecBits q.2} {codecBits (inv * x)} {codecBits (inv * y)}"
  | ["trunc", x] => do
    let x ← codecParse x
    pure (codecBits (truncZero floatOps x))
  | ["rint", x] => do
    let x ← codecParse x
    pure (codecBits (rintF x))
  | ["nearest", table, x] => do
    let t ← (table.splitOn ",").mapM codecParse
    let x ← codecParse x
    pure (toString (nearestIndex (fun a b => a < b) (· - ·) t x 0.0))
  | ["pairs", l] => do
    let xs ← (l.splitOn ",").mapM String.toInt?
    let d := deinterleave xs
    pure (";".intercalate (d.map (fun p => s!"{p.1},{p.2}")) ++ " " ++ ",".intercalate ((interleave d).map toString))
  | _ => none

end Sarpy.Drivers
