import SarpyModel.Drivers.Util
import SarpyModel.Spec.Codec
namespace Sarpy.Drivers
open Sarpy.Spec.Codec

def floatOps : Ops Float where
  add := (· + ·)
  sub := (· - ·)
  mul := (· * ·)
  div := (· / ·)
  sqrt := Float.sqrt
  cos := Float.cos
  sin := Float.sin
  atan2 := Float.atan2
  pi := 3.141592653589793
  ofNat := fun n => n.toFloat
  lt := fun a b => a < b

def codecBits (f : Float) : String := toString f.toBits
def codecParse (s : String) : Option Float := s.toNat?.map (fun n => Float.ofBits n.toUInt64)

/-- floats travel as their 64-bit patterns (decimal UInt64) -/
def codecStep (toks : List String) : Option String :=
  match toks with
  | ["decmp", bits, m, p] => do
    let bits ← bits.toNat?; let m ← codecParse m; let p ← codecParse p
    let r := decodeMP floatOps bits m p
    pure s!"{codecBits r.1} {codecBits r.2}"
  | ["encmp", bits, x, y] => do
    let bits ← bits.toNat?; let x ← codecParse x; let y ← codecParse y
    let r := encodeMP floatOps bits x y
    pure s!"{codecBits r.1} {codecBits r.2}"
  | ["nearest", table, x] => do
    let t ← (table.splitOn ",").mapM codecParse
    let x ← codecParse x
    pure (toString (nearestIndex (fun a b => a < b) (· - ·) t x 0.0))
  | ["pairs", l] => do
    let xs ← (l.splitOn ",").mapM String.toInt?
    let d := deinterleave xs
    pure (";".intercalate (d.map (fun p => s!"{p.1},{p.2}")) ++ " " ++ ",".intercalate ((interleave d).map toString))
  | _ => none

end Sarpy.Drivers
