import SarpyModel.Drivers.Util
import SarpyModel.Spec.Hdr
import SarpyModel.Gen.Hdr
namespace Sarpy.Drivers
open Sarpy.Spec.Hdr

/-! line protocol `hdr ...` (harness/hdr.py): the reference model (Spec/Hdr.lean) and the chains regenerated from the source
    (Gen/Hdr.lean) evaluated on the same header; `_` stands for an empty string. -/

def hdrStr (s : String) : String := if s == "_" then "" else s
def hdrShow (s : String) : String := if s == "" then "_" else s

def hdrKind : Kind → String
  | .u => "u" | .i => "i" | .f => "f" | .c => "c"

def hdrRaw : Option RawDtype → String
  | none => "None"
  | some d => (if d.big then ">" else "<") ++ hdrKind d.kind ++ toString d.size

def hdrLut : Option Lut → String
  | none => "-"
  | some l => ".".intercalate (l.shape.map toString)

def hdrFd : FmtDtype → String
  | .ofRaw d => "raw:" ++ hdrRaw d
  | .complex64 => "complex64"
  | .lutDtype => "lut"

def hdrFf : FmtFn → String
  | .none => "none"
  | .complex r o b => s!"complex({hdrRaw r},{o},{b})"
  | .singleLut l => s!"lut({hdrLut (some l)})"
  | .ampLookup r => s!"amp({hdrRaw r})"

def hdrExc {α : Type} (f : α → String) : Except String α → String
  | .ok v => f v
  | .error e => "err:" ++ e

def hdrInfo (d : DtypeInfo) : String :=
  s!"{hdrRaw d.1}|{hdrFd d.2.1}|{d.2.2.1}|{match d.2.2.2.1 with | some o => o | none => "N"}|{hdrLut d.2.2.2.2}"

def hdrOutcome : Outcome → String
  | .skipped => "skipped"
  | .refused e => "refused:" ++ e
  | .other => "other"
  | .reads i => s!"reads:{hdrRaw i.raw}|{i.rawBands}|{i.rawBandAxis}|{hdrFf i.fmt}|{hdrFd i.fmtDtype}|{i.fmtBands}"

def hdrParseBand (s : String) : Option Band :=
  match s.splitOn ":" with
  | [a, b, l] =>
    if l == "-" then some ⟨hdrStr a, hdrStr b, none⟩
    else
      let dims := (l.splitOn ".").map String.toNat?
      if dims.all Option.isSome then some ⟨hdrStr a, hdrStr b, some ⟨dims.map (·.getD 0)⟩⟩ else none
  | _ => none

/-- `pv,nbpp,ic,imode,icat,masked,iid1,nrows,ncols,nppbh,nppbv,nbpr,nbpc|band;band;...` (no bands: `|-`) -/
def hdrParse (s : String) : Option ImgHdr :=
  match s.splitOn "|" with
  | [f, bs] =>
    let bands := if bs == "-" then some [] else (bs.splitOn ";").mapM hdrParseBand
    match f.splitOn ",", bands with
    | [pv, nbpp, ic, imode, icat, masked, iid1, nrows, ncols, nppbh, nppbv, nbpr, nbpc], some bl =>
      match nbpp.toNat?, nrows.toNat?, ncols.toNat?, nppbh.toNat?, nppbv.toNat?, nbpr.toNat?, nbpc.toNat? with
      | some nb, some nr, some nc, some ph, some pv', some br, some bc =>
        some { pvtype := hdrStr pv, nbpp := nb, abpp := nb, irep := "", icat := hdrStr icat, ic := hdrStr ic, imode := hdrStr imode, bands := bl,
               nrows := nr, ncols := nc, nppbh := ph, nppbv := pv', nbpr := br, nbpc := bc, masked := masked == "1", iid1 := hdrStr iid1 }
      | _, _, _, _, _, _, _ => none
    | _, _ => none
  | _ => none

def hdrShowHdr (h : ImgHdr) : String :=
  ",".intercalate [hdrShow h.pvtype, toString h.nbpp, toString h.abpp, hdrShow h.irep, hdrShow h.icat, hdrShow h.ic, hdrShow h.imode,
    toString h.nrows, toString h.ncols, toString h.nppbh, toString h.nppbv, toString h.nbpr, toString h.nbpc, if h.masked then "1" else "0"] ++ "|" ++
  (if h.bands.isEmpty then "-" else ";".intercalate (h.bands.map (fun b => s!"{hdrShow b.isubcat}:{hdrShow b.irepband}:{hdrLut b.lut}")))

def hdrBool (b : Bool) : String := if b then "1" else "0"

def hdrStep (toks : List String) : Option String :=
  match toks with
  | ["npdtype", big, k, n] =>
    let kind := if k == "u" then some Kind.u else if k == "i" then some Kind.i else if k == "f" then some Kind.f else if k == "c" then some Kind.c else none
    match kind, n.toNat? with
    | some kd, some nn => some (hdrExc (fun d => hdrRaw (some d) ++ " " ++ d.name) (npDtype (big == "1") kd nn))
    | _, _ => none
  | ["dtype", hs] =>
    (hdrParse hs).map (fun h => s!"S={hdrExc hdrInfo (getDtype h)} G={hdrExc hdrInfo (Gen.Hdr.get_dtype h)}")
  | ["glue"] => some (toString (Gen.Hdr.glue == glue))
  | _ => none

end Sarpy.Drivers
