/- line-protocol driver for the reference content rules of the consistency checkers (`Spec.CheckerRules`); no generated code
   is imported here, so this driver keeps working when a regenerated rule no longer translates -/
import SarpyModel.Drivers.Util
import SarpyModel.Spec.CheckerRules
namespace Sarpy.Drivers
open Sarpy.Spec Sarpy.Spec.CheckerRules

private def b01' (b : Bool) : String := if b then "1" else "0"
private def csv (s : String) : List String := if s == "-" then [] else s.splitOn ","
private def ints (s : String) : Option (List Int) := (csv s).mapM (·.toInt?)
private def nats (s : String) : Option (List Nat) := (csv s).mapM (·.toNat?)
private def bools (s : String) : List Bool := if s == "-" then [] else s.toList.map (· == '1')
private def unq (s : String) : String := if s == "_" then "" else s

/-- the reference rule behind each translated rule name -/
def specRule (name : String) (i : List Int) (b : List Bool) : Option Bool :=
  match name, i, b with
  | "xml_early", [a], [] => some (xmlEarly a)
  | "pad_after_xml", [xo, xs, so, po], [hs] => some (padAfterXml xo xs hs so po)
  | "pad_after_support", [so, ss, po], [] => some (padAfterSupport so ss po)
  | "pad_after_pvp", [po, ps, go], [] => some (padAfterPvp po ps go)
  | "signal_at_eof", [fl, go, gs], [] => some (signalAtEof fl go gs)
  | "signal_fits", [ao, nv, ns, it, gs], [] => some (signalFits ao nv ns it gs)
  | "num_acfs", [d, p], [] => some (countMatches d p)
  | "num_apcs", [d, p], [] => some (countMatches d p)
  | "num_antpats", [d, p], [] => some (countMatches d p)
  | "polygon_size", [d, p], [] => some (countMatches d p)
  | "corner_points", [n], [] => some (fourCorners n)
  | "optional_fx", [], [f, x, y] => some (optionalFx f x y)
  | "optional_toa", [], [x, y] => some (together x y)
  | "toa_ext_together", [], [s, x, y] => some (together3 s x y)
  | "image_area_box", [x1, y1, x2, y2], [] => some (boxOrdered x1 y1 x2 y2)
  | "channel_area_box", [x1, y1, x2, y2], [] => some (boxOrdered x1 y1 x2 y2)
  | "extended_area_box", [x1, y1, x2, y2], [] => some (boxOrdered x1 y1 x2 y2)
  | "version_match", [x, y], [] => some (sameCode x y)
  | _, _, _ => none

private def sicdPixel : String → Option SicdPixel
  | "RE32F_IM32F" => some .re32f | "RE16I_IM16I" => some .re16i | "AMP8I_PHS8I" => some .amp8i | _ => none
private def siddPixel : String → Option SiddPixel
  | "MONO8I" => some .mono8i | "MONO8LU" => some .mono8lu | "RGB8LU" => some .rgb8lu | "MONO16I" => some .mono16i
  | "RGB24I" => some .rgb24i | _ => none

private def desKind : String → Option DesKind
  | "sicd" => some .sicdXml | "sidd" => some .siddXml | "oxml" => some .otherXml | "other" => some .other
  | "oldsicd" => some .oldSicd | "oldsidd" => some .oldSidd | _ => none

private def pairs (s : String) : Option (List (Nat × Nat)) :=
  (csv s).mapM (fun t => match t.splitOn ":" with
    | [a, b] => do pure ((← a.toNat?), (← b.toNat?))
    | _ => none)
private def triples (s : String) : Option (List (Nat × Nat × Nat)) :=
  (csv s).mapM (fun t => match t.splitOn ":" with
    | [a, b, c] => do pure ((← a.toNat?), (← b.toNat?), (← c.toNat?))
    | _ => none)

private def parseOp' : String → Option Checker.Op
  | "n1" => some (.need true) | "n0" => some (.need false) | "w1" => some (.want true) | "w0" => some (.want false)
  | "p1" => some (.pre true) | "p0" => some (.pre false) | "c" => some .close | "r" => some .raise | _ => none
private def parseCheck' (s : String) : Option (List Checker.Op) := if s == "-" then some [] else (s.splitOn ",").mapM parseOp'
private def showItem' (i : Checker.Item) : String :=
  (match i.sev with | .error => "E" | .warning => "W" | .noop => "N") ++ (if i.passed then "1" else "0")
private def showRes (r : Checker.Result) : String :=
  (if r.details.isEmpty then "-" else ".".intercalate (r.details.map showItem')) ++ ":" ++ b01' r.passed
private def pad3 (n : Nat) : String := let s := toString n; "check_" ++ String.ofList (List.replicate (3 - s.length) '0') ++ s

/-- one event of a history: `m<k>` the object changes to version k; `c*`, `ce:<name>.<name>`, `cp:<prefix>.<prefix>` a `check()` call
    (all / exact names / prefixes), optionally followed by `~<prefix>.<prefix>` = ignore patterns (literal prefixes) -/
private def histEvent (names : List String) (ev : String) : Option (Sum Nat (Option (List String))) :=
  if ev.startsWith "m" then (ev.drop 1).toNat?.map Sum.inl
  else if ev.startsWith "c" then
    let body := (ev.drop 1).toString
    let (sel, ign) := match body.splitOn "~" with
      | [a, b] => (a, b.splitOn ".")
      | _ => (body, [])
    let ignf := fun (n : String) => ign.any (fun p => n.startsWith p)
    let r : Option (List String) :=
      if sel == "*" then resolve names (none : Option (List String)) (fun a b => a == b) ignf
      else if sel.startsWith "e:" then resolve names (some ((sel.drop 2).toString.splitOn ".")) (fun r n => r == n) ignf
      else if sel.startsWith "p:" then resolve names (some ((sel.drop 2).toString.splitOn ".")) (fun r n => n.startsWith r) ignf
      else none
    some (Sum.inr r)
  else none

/-- `rule <name> <ints|-> <bools|->`            → 0/1
    `hist <checks of version 0>/<version 1>/… <event>/<event>/…` (checks as in `checker run`) → after every check event the
                                                  store `name=items:flag;…` sorted by name, or `refused`; events separated by `|`
    `perchan d1,d2,… id:val,… id:truth,…`        → per /Data/Channel entry 1/0 (the Parameters node found by Identifier carries the channel's own value) | N
    `repeated a,b,…`                            → `<unique 0/1> <repeated values, comma separated | ->`
    `refs r,… d,…`  /  `required r,… k,…`        → 0/1
    `indices 1,2,…`                             → 0/1
    `poly o1[,o2] e1[:e2];…`                    → 0/1
    `present a b|N`                             → 0/1            (`a == b is not None`)
    `sicdseg PT icat pvtype nbpp sub0,sub1,…`   → 0/1
    `siddseg PT icat pvtype nbpp`               → 0/1
    `sizerule rows cols iloc:nrows,… ncols,…`   → 0/1
    `allfit itemSize signalSize off:nv:ns,…`    → 0/1
    `pack itemSize nv:ns,…`                     → `<block size> off:nv:ns,…`
    `desscan sicd|sidd|oxml|other|oldsicd|oldsidd,…` → `<index of the SICD DES | N> <siddFound 0/1>` -/
def chkspecStep (toks : List String) : Option String :=
  match toks with
  | ["rule", name, i, b] => do
    let i ← ints i
    pure (b01' (← specRule name i (bools b)))
  | ["hist", versions, events] => do
    let vs ← (versions.splitOn "/").mapM (fun v => (v.splitOn ";").mapM parseCheck')
    let n := (vs.headD []).length
    let names := (List.range n).map pad3
    let t : List (String × (Nat → List Checker.Op)) := (List.range n).map (fun i => (pad3 i, fun v => ((vs.getD v []).getD i [])))
    let evs ← (events.splitOn "/").mapM (histEvent names)
    let (_, _, out) := evs.foldl (fun (acc : Nat × List (String × Checker.Result) × List String) ev =>
      let (v, store, out) := acc
      match ev with
      | .inl k => (k, store, out)
      | .inr none => (v, store, out ++ ["refused"])
      | .inr (some torun) =>
        let st := checkCall t v store torun
        let sorted := st.mergeSort (fun a b => a.1 ≤ b.1)
        (v, st, out ++ [if sorted.isEmpty then "-" else ";".intercalate (sorted.map (fun e => e.1 ++ "=" ++ showRes e.2))])) (0, [], [])
    pure (if out.isEmpty then "-" else "|".intercalate out)
  | ["perchan", ds, ps, ts] => do
    let kv := fun (s : String) => (csv s).mapM (fun t => match t.splitOn ":" with | [a, b] => some (a, b) | _ => none)
    let ps ← kv ps
    let ts ← kv ts
    let r := perChannel (fun id v => ts.lookup id == some v) (csv ds) ps
    pure (if r.isEmpty then "-" else ",".intercalate (r.map (fun e => match e.2 with | none => "N" | some b => b01' b)))
  | ["repeated", l] =>
    let l := csv l
    let r := repeated l
    some (b01' (unique l) ++ " " ++ (if r.isEmpty then "-" else ",".intercalate r))
  | ["refs", r, d] => some (b01' (refsExist (csv r) (csv d)))
  | ["required", r, k] => some (b01' (requiredPresent (csv r) (csv k)))
  | ["indices", l] => do pure (b01' (indicesPresent (← nats l)))
  | ["poly", o, cs] => do
    let o ← nats o
    let cs ← (if cs == "-" then some [] else (cs.splitOn ";").mapM (fun c => (c.splitOn ":").mapM (·.toNat?)))
    pure (b01' (polyOk o cs))
  | ["present", a, b] => some (b01' (matchesPresent a (if b == "N" then none else some b)))
  | ["sicdseg", pt, icat, pv, nbpp, subs] => do
    let pt ← sicdPixel pt
    pure (b01' (sicdSegOk pt ⟨unq icat, unq pv, ← nbpp.toNat?, (csv subs).map unq, 0, 0⟩))
  | ["siddseg", pt, icat, pv, nbpp] => do
    let pt ← siddPixel pt
    pure (b01' (siddSegOk pt ⟨unq icat, unq pv, ← nbpp.toNat?, [], 0, 0⟩))
  | ["sizerule", r, c, hs, cs] => do
    pure (b01' (sizeRule (← r.toNat?) (← c.toNat?) (← pairs hs) (← nats cs)))
  | ["allfit", it, gs, cs] => do
    pure (b01' (allSignalFit (← it.toNat?) (← gs.toNat?) (← triples cs)))
  | ["desscan", ks] => do
    let ks ← (csv ks).mapM desKind
    pure ((match sicdScan ks with | some i => toString i | none => "N") ++ " " ++ b01' (siddFound ks))
  | ["pack", it, cs] => do
    let it ← it.toNat?
    let cs ← pairs cs
    let w := writerChannels it cs
    pure (toString (signalBlockSize it cs) ++ " " ++ (if w.isEmpty then "-" else ",".intercalate (w.map (fun c => s!"{c.1}:{c.2.1}:{c.2.2}"))))
  | _ => none

end Sarpy.Drivers
