/-
  Driver for Spec.Geo at `Float` (IEEE binary64; sqrt/sin/cos/atan2/pow from the C library).
  Floats cross the line protocol as the decimal value of their 64-bit pattern, so nothing is lost
  or re-rounded by text conversion.

    geo consts                                  -> A F B A2 B2 E2 E4 OME2 EB2
    geo fwd <ll|LL> c0 c1 c2                    -> x y z             (ll = 'latlong', LL = 'longlat')
    geo inv <ll|LL> x y z                       -> c0 c1 c2 | nan
    geo norm x y z                              -> nx ny nz
    geo nedm lat lon | geo enum lat lon         -> nine entries, row major
    geo e2n|n2e|e2u|u2e <abs|rel> v0 v1 v2 o0 o1 o2 -> three entries | nan
-/
import SarpyModel.Drivers.Util
import SarpyModel.Spec.Geo
namespace Sarpy.Drivers
open Sarpy.Spec.Geo

instance geoScalarFloat : GeoScalar Float where
  ofNat := Float.ofNat
  sqrt := Float.sqrt
  sin := Float.sin
  cos := Float.cos
  atan2 := Float.atan2
  pow := Float.pow
  abs := Float.abs
  pi := Float.ofBits 0x400921FB54442D18   -- numpy.pi = 3.141592653589793
  lt a b := a < b

def geoParseF (s : String) : Option Float := s.toNat?.map (fun n => Float.ofBits (UInt64.ofNat n))
def geoShowF (x : Float) : String := toString x.toBits.toNat
def geoShowV (v : V3 Float) : String := s!"{geoShowF v.x} {geoShowF v.y} {geoShowF v.z}"
def geoShowM (m : M3 Float) : String := s!"{geoShowV m.r0} {geoShowV m.r1} {geoShowV m.r2}"
def geoShowOV : Option (V3 Float) → String
  | some v => geoShowV v
  | none => "nan"
def geoParseV (a b c : String) : Option (V3 Float) := do pure ⟨← geoParseF a, ← geoParseF b, ← geoParseF c⟩
def geoParseOrd : String → Option Bool
  | "ll" => some false
  | "LL" => some true
  | _ => none
def geoParseMode : String → Option Bool
  | "abs" => some true
  | "rel" => some false
  | _ => none

def geoStep (toks : List String) : Option String :=
  match toks with
  | ["consts"] =>
    let l : List Float := [cA, cF, cB, cA2, cB2, cE2, cE4, cOME2, cEB2]
    some (" ".intercalate (l.map geoShowF))
  | ["fwd", o, a, b, c] => do pure (geoShowV (geodeticToEcf (← geoParseOrd o) (← geoParseV a b c)))
  | ["inv", o, a, b, c] => do pure (geoShowOV (ecfToGeodetic (← geoParseOrd o) (← geoParseV a b c)))
  | ["norm", a, b, c] => do pure (geoShowV (wgs84Norm (← geoParseV a b c)))
  | ["nedm", la, lo] => do pure (geoShowM (nedMatrix (← geoParseF la) (← geoParseF lo)))
  | ["enum", la, lo] => do pure (geoShowM (enuMatrix (← geoParseF la) (← geoParseF lo)))
  | [op, m, a, b, c, p, q, r] => do
    let md ← geoParseMode m
    let v ← geoParseV a b c
    let orp ← geoParseV p q r
    match op with
    | "e2n" => pure (geoShowOV (ecfToNed v orp md))
    | "n2e" => pure (geoShowOV (nedToEcf v orp md))
    | "e2u" => pure (geoShowOV (ecfToEnu v orp md))
    | "u2e" => pure (geoShowOV (enuToEcf v orp md))
    | _ => none
  | _ => none

end Sarpy.Drivers
