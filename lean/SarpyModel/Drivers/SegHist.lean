import SarpyModel.Drivers.Util
import SarpyModel.Drivers.Segment
import SarpyModel.Spec.SegHist
namespace Sarpy.Drivers
open Sarpy Sarpy.Spec

/-
  request:  seghist <op> ...
    hist <tree tokens ...> <n> (<kind> <subscript>)*n      the object state machine (Spec.SegHist.stepR) over a history of read-side
                                                             requests on ONE object; kind = read | readraw | pfmt | praw;
                                                             answer: the n answers joined by " ;; "
    acct <tree tokens ...> <n> (w | r <subscript>)*n        written-sample accounting over a history of write (w, formatted subscript) /
                                                             write_raw (r, raw subscript) chunks: "<expected> | <incr>:<written>:<check> ..."
    rawshape <tree tokens ...>                               raw_shape of the object
  an array answer is printed as by `seg read`; a subscript answer as a/b/c;a/b/c;...
-/

def segHistShowO (o : Option Int) : String := match o with | none => "N" | some v => toString v

def segHistShowSub (l : List NSlice) : String :=
  if l.isEmpty then "-" else ";".intercalate (l.map (fun t => s!"{t.start}/{segHistShowO t.stop}/{t.step}"))

def segHistShowAns (t : Seg) : RAns → String
  | .arr a => showArr t.leaves a
  | .sub l => "sub " ++ segHistShowSub l
  | .refused => "refused"

def segHistParseReq (kind sub : String) : Option RReq := do
  let ts ← parseSub sub
  match kind with
  | "read" => some (.read ts)
  | "readraw" => some (.readRaw ts)
  | "pfmt" => some (.parentFmt ts)
  | "praw" => some (.parentRaw ts)
  | _ => none

def segHistParseReqs : Nat → List String → Option (List RReq)
  | 0, [] => some []
  | n + 1, kind :: sub :: rest => do
    let r ← segHistParseReq kind sub
    let rs ← segHistParseReqs n rest
    pure (r :: rs)
  | _, _ => none

def segHistParseOps : Nat → List String → Option (List WOp)
  | 0, [] => some []
  | n + 1, kind :: sub :: rest => do
    let ts ← parseSub sub
    let op ← (match kind with | "w" => some (WOp.write ts) | "r" => some (WOp.writeRaw ts) | _ => none)
    let os ← segHistParseOps n rest
    pure (op :: os)
  | _, _ => none

/-- run the state machine, collecting the answers -/
def segHistRun (t : Seg) : ObjSt → List RReq → List RAns
  | _, [] => []
  | st, r :: rs => (t.stepR st r).1 :: segHistRun t (t.stepR st r).2 rs

def segHistAcct (t : Seg) : Nat → List WOp → List String
  | _, [] => []
  | w, op :: os =>
    let w' := w + t.incr op
    s!"{t.incr op}:{w'}:{if (Counter.mk t.expected w').check then 1 else 0}" :: segHistAcct t w' os

def seghistStep (toks : List String) : Option String :=
  match toks with
  | "hist" :: rest => do
    let (t, rest) ← parseSeg rest
    match rest with
    | n :: rest =>
      let n ← n.toNat?
      let rs ← segHistParseReqs n rest
      pure (" ;; ".intercalate ((segHistRun t ObjSt.fresh rs).map (segHistShowAns t)))
    | _ => none
  | "acct" :: rest => do
    let (t, rest) ← parseSeg rest
    match rest with
    | n :: rest =>
      let n ← n.toNat?
      let os ← segHistParseOps n rest
      if !t.wf then pure "refused" else
      pure (s!"{t.expected} | " ++ " ".intercalate (segHistAcct t 0 os))
    | _ => none
  | "rawshape" :: rest => do
    let (t, rest) ← parseSeg rest
    if !rest.isEmpty then none else
    if !t.wf then pure "refused" else pure (showShape t.rawShape)
  | _ => none

end Sarpy.Drivers
