import SarpyModel.Drivers.Util
import SarpyModel.Spec.Opener
import SarpyModel.Spec.OpenerVendor
/-
  Line protocol for the opener model (C14).

    opener eval <rg> <magic> <imgs> <graphics> <des>        rg = 1|0 : SIDDDetails refuses graphics segments (Policy)
        -> cp=<D> cf=<D> pr=<D> pp=<D> pf=<D> rc=<D> ge=<D> op=<D> fs=<n|N> sd=<n|N> fd=<i.j>/<i.j> dd=<n>/<m>|N
           (complex path / complex file object / product / phase history path / phase history file object /
            received / general / top-level open; findSicd; sicdDetails; findSidd; siddDetails)
    opener wsicd <nseg> <extra des>                      -> descriptor written by the SICD writer model
    opener wsidd <segs> <nsicd> <graphics> <extra des>   -> descriptor written by the SIDD writer model
    opener wcphd | wcrsd | wsio                          -> descriptor

    opener vendor <rg><sk><sr><g1><g2><g3><g4> <arg> <kind> <name> <len4> <head> <big> <xml> <probe> <palsar> <dprod> <dman> <dxml> <h5py>
                  <magic> <imgs> <graphics> <des> <symbols> <labels>
        -> <vendor>=<D> for each of the 17 openers, then cx= pr= ph= rc= ge= op= (the entry points with every registered opener)
           D as above, or `D` when the decision depends on the unmodelled remainder of a foreign opener
        rg sk sr = Policy2 bits, g1..g4 = TabFlags bits (tiffShortUnguarded radarsatParseUncaught tsxDanglingRaises palsarSpecialValueError); arg = path|fileobj; kind = missing|file|dir|special; name = plain|xmlExt|productXml|manifestSafe;
        head = plain|binary|hdf5|gff|tiffShort|tiffBad|tiff42|tiff43; probe / dxml = none|declOpen|level1; the rest 0|1

  tokens: magic = none|nitf21|nitf20|nitfOther|cphd|crsd|sio ; imgs = - | c,o,d<k>,... ;
          des = - | <id>:<body>,...  id = x|os|oc|ot  body = sicd|sidd|oxml|nxml ; D = A:<reader> | R | X
-/
namespace Sarpy.Drivers
open Sarpy.Spec.Opener

def parseMagic : String → Option Magic
  | "none" => some .none | "nitf21" => some .nitf21 | "nitf20" => some .nitf20 | "nitfOther" => some .nitfOther
  | "cphd" => some .cphd | "crsd" => some .crsd | "sio" => some .sio | _ => none
def showMagic : Magic → String
  | .none => "none" | .nitf21 => "nitf21" | .nitf20 => "nitf20" | .nitfOther => "nitfOther"
  | .cphd => "cphd" | .crsd => "crsd" | .sio => "sio"

def parsePv : String → Option PvType
  | "int" => some .int | "b" => some .b | "si" => some .si | "r" => some .r | "c" => some .c | _ => none
def showPv : PvType → String
  | .int => "int" | .b => "b" | .si => "si" | .r => "r" | .c => "c"
def opParseSub : Char → Option SubCat
  | 'i' => some .i | 'q' => some .q | 'm' => some .m | 'p' => some .p | 'o' => some .other | _ => none
def showSub : SubCat → String
  | .i => "i" | .q => "q" | .m => "m" | .p => "p" | .other => "o"

/-- image tokens: c | o | d<k> | g.<s|n>.<pv>.<band labels, one letter each of i q m p o, `-` for none> -/
def parseImg (s : String) : Option Img :=
  if s.startsWith "g." then
    match s.splitOn "." with
    | [_, sar, pv, bands] => do
      let sr ← (if sar == "s" then some true else if sar == "n" then some false else none)
      let bs ← (if bands == "-" then some [] else bands.toList.mapM opParseSub)
      pure (.gen ⟨sr, ← parsePv pv, bs⟩)
    | _ => none
  else if s == "c" then some .sicdSeg
  else if s == "o" then some .other
  else if s.startsWith "d" then (s.drop 1).toNat?.map .siddSeg
  else none
def showImg : Img → String
  | .sicdSeg => "c" | .other => "o" | .siddSeg k => s!"d{k}"
  | .gen h => s!"g.{if h.sar then "s" else "n"}.{showPv h.pv}.{if h.bands.isEmpty then "-" else String.join (h.bands.map showSub)}"

def parseListTok {α} (f : String → Option α) (s : String) : Option (List α) :=
  if s == "-" then some [] else (s.splitOn ",").mapM f
def showListTok {α} (f : α → String) (l : List α) : String :=
  if l.isEmpty then "-" else ",".intercalate (l.map f)

def parseDesId : String → Option DesId
  | "x" => some .xmlData | "os" => some .oldSidd | "oc" => some .oldSicd | "ot" => some .other | _ => none
def showDesId : DesId → String
  | .xmlData => "x" | .oldSidd => "os" | .oldSicd => "oc" | .other => "ot"
def parseBody : String → Option Body
  | "sicd" => some .sicd | "sidd" => some .sidd | "oxml" => some .otherXml | "nxml" => some .nonXml | _ => none
def showBody : Body → String
  | .sicd => "sicd" | .sidd => "sidd" | .otherXml => "oxml" | .nonXml => "nxml"
def parseDes (s : String) : Option Des :=
  match s.splitOn ":" with
  | [a, b] => do pure ⟨← parseDesId a, ← parseBody b⟩
  | _ => none
def showDes (e : Des) : String := showDesId e.id ++ ":" ++ showBody e.body

def showDesc (d : Desc) : String :=
  s!"{showMagic d.magic} {showListTok showImg d.images} {d.graphics} {showListTok showDes d.des}"

def showReader : Reader → String
  | .sicd => "sicd" | .complexNitf => "complexNitf" | .sidd => "sidd" | .cphd => "cphd" | .crsd => "crsd"
  | .nitf => "nitf" | .sio => "sio"
def showDecision : Decision → String
  | .accept r => "A:" ++ showReader r | .reject => "R" | .raises => "X"
def showON : Option Nat → String
  | none => "N" | some n => toString n
def showIdx (l : List Nat) : String := if l.isEmpty then "-" else ".".intercalate (l.map toString)


def opParseArg : String → Option Arg
  | "path" => some .path | "fileobj" => some .fileobj | _ => none
def opParseKind : String → Option PathKind
  | "missing" => some .missing | "file" => some .file | "dir" => some .dir | "special" => some .special | _ => none
def opParseName : String → Option NameKind
  | "plain" => some .plain | "xmlExt" => some .xmlExt | "productXml" => some .productXml | "manifestSafe" => some .manifestSafe | _ => none
def opParseHead : String → Option VHead
  | "plain" => some .plain | "binary" => some .binary | "hdf5" => some .hdf5 | "gff" => some .gff | "tiffShort" => some .tiffShort
  | "tiffBad" => some .tiffBad | "tiff42" => some .tiff42 | "tiff43" => some .tiff43 | _ => none
def opParseProbe : String → Option Probe
  | "none" => some .none | "declOpen" => some .declOpen | "level1" => some .level1 | _ => none
def opParseBit : String → Option Bool
  | "0" => some false | "1" => some true | _ => none

def opAllVendors : List (String × Vendor) :=
  [("capella", .capella), ("csk", .csk), ("gff", .gff), ("iceye", .iceye), ("nisar", .nisar), ("palsar2", .palsar2),
   ("radarsat", .radarsat), ("sentinel", .sentinel), ("sicd", .sicd), ("sio", .sio), ("tsx", .tsx), ("final", .finalAttempt),
   ("sidd", .sidd), ("cphd", .cphd), ("crsd", .crsd), ("nitf", .nitf), ("tiff", .tiff)]

/-- a decision that may depend on the opaque remainders: evaluated under three different remainders -/
def opShowOpaque (f : (Vendor → Decision) → Decision) : String :=
  let a := f (fun _ => .reject)
  let b := f (fun _ => .raises)
  let c := f (fun _ => .accept .nitf)
  if a == b && b == c then showDecision a else "D"

def openerVendor (toks : List String) : Option String :=
  match toks with
  | [pol, ar, ki, na, l4, hd, bg, xm, pr, pn, dp, dm, dx, h5, m, im, g, ds, sy, la] => do
    let bits := pol.toList.map (· == '1')
    let b := fun (i : Nat) => bits.getD i false
    let p : Policy2 := { siddRefusesGraphics := b 0, nitf20SkipsSymLab := b 1, nitf20SarRaises := b 2, guards := ⟨b 3, b 4, b 5, b 6⟩ }
    let w : World := { arg := ← opParseArg ar, kind := ← opParseKind ki, name := ← opParseName na, len4 := ← opParseBit l4, head := ← opParseHead hd,
                       big := ← opParseBit bg, xmlParses := ← opParseBit xm, probe := ← opParseProbe pr, palsarNamed := ← opParseBit pn,
                       dirProduct := ← opParseBit dp, dirManifest := ← opParseBit dm, dirXml := ← opParseProbe dx, h5py := ← opParseBit h5 }
    let d : Desc := { magic := ← parseMagic m, images := ← parseListTok parseImg im, graphics := ← g.toNat?,
                      des := ← parseListTok parseDes ds, symbols := ← sy.toNat?, labels := ← la.toNat? }
    let vs := opAllVendors.map (fun (n, v) => n ++ "=" ++ opShowOpaque (fun deep => isAV p w d deep v))
    let es := [("cx", Entry.complex), ("pr", .product), ("ph", .phaseHistory), ("rc", .received), ("ge", .general)].map
      (fun (n, e) => n ++ "=" ++ opShowOpaque (fun deep => openEntryV p w d deep e))
    pure (" ".intercalate (vs ++ es ++ ["op=" ++ opShowOpaque (fun deep => openTopV p w d deep)]))
  | _ => none

def openerStep (toks : List String) : Option String :=
  match toks with
  | "vendor" :: rest => openerVendor rest
  | ["eval", rg, m, im, g, ds] => do
    let p : Policy := { siddRefusesGraphics := (← rg.toNat?) != 0 }
    let d : Desc := { magic := ← parseMagic m, images := ← parseListTok parseImg im, graphics := ← g.toNat?,
                      des := ← parseListTok parseDes ds }
    let fd := findSidd d.des
    let dd := match siddDetails p d with
      | none => "N"
      | some (a, b) => s!"{a}/{b}"
    pure (s!"cp={showDecision (openComplex .path d)} cf={showDecision (openComplex .fileobj d)} " ++
          s!"pr={showDecision (openProduct p d)} pp={showDecision (openPhaseHistory .path d)} " ++
          s!"pf={showDecision (openPhaseHistory .fileobj d)} rc={showDecision (openReceived d)} " ++
          s!"ge={showDecision (openGeneral d)} op={showDecision (openTop p d)} " ++
          s!"fs={showON (findSicd d.des)} sd={showON (sicdDetails d)} fd={showIdx fd.1}/{showIdx fd.2} dd={dd}")
  | ["wsicd", n, ex] => do pure (showDesc (writeSicd (← parseListTok parseDes ex) (← n.toNat?)))
  | ["wsidd", sg, ns, g, ex] => do
    pure (showDesc (writeSidd (← parseListTok parseDes ex) (← parseListTok String.toNat? sg) (← ns.toNat?) (← g.toNat?)))
  | ["wcphd"] => some (showDesc writeCphd)
  | ["wcrsd"] => some (showDesc writeCrsd)
  | ["wsio"] => some (showDesc writeSio)
  | _ => none

end Sarpy.Drivers
