/-
  line protocol for the REGENERATED dispatch functions (`Gen/Dispatch.lean`, translated from the current Python text), keyword
  `dispgen`; same request grammar as `disp` (Drivers/Dispatch.lean).  Kept in its own module so that a Python rewrite the
  translator cannot express takes down only this driver, not the model's.

    dispgen get <images> S|T <val>*  |  dispgen call|read|readraw|readchip ...  |  dispgen put ...
  answers: `err <Kind>` | `ok <image> <raw> <squeeze> <sub>`   (readers)      `err <Kind>` | `ok <segment> <raw> <start> <sub>` (writers)
-/
import SarpyModel.Drivers.Dispatch
import SarpyModel.Gen.Dispatch
namespace Sarpy.Drivers
open Sarpy Sarpy.Spec

def dspGet : Except Err Sel → String
  | .error e => "err " ++ dErr e
  | .ok s => dspSel s

def dispgenStep (toks : List String) : Option String :=
  match toks with
  | "get" :: ims :: "S" :: [v] => do
    let r ← dImages ims; let v ← dVal v
    pure (dspGet (Gen.Dispatch.dispatch_get r.length (.getitem v)))
  | "get" :: ims :: "T" :: vs => do
    let r ← dImages ims; let vs ← vs.mapM dVal
    pure (dspGet (Gen.Dispatch.dispatch_get r.length (.getitem (.tuple vs))))
  | "call" :: ims :: index :: raw :: sq :: vs => do
    let r ← dImages ims; let index ← index.toInt?; let raw ← dBool raw; let sq ← dBool sq; let vs ← vs.mapM dVal
    pure (dspGet (Gen.Dispatch.dispatch_get r.length (.call vs index raw sq)))
  | "read" :: ims :: index :: sq :: vs => do
    let r ← dImages ims; let index ← index.toInt?; let sq ← dBool sq; let vs ← vs.mapM dVal
    pure (dspGet (Gen.Dispatch.dispatch_get r.length (.read vs index sq)))
  | "readraw" :: ims :: index :: sq :: vs => do
    let r ← dImages ims; let index ← index.toInt?; let sq ← dBool sq; let vs ← vs.mapM dVal
    pure (dspGet (Gen.Dispatch.dispatch_get r.length (.readRaw vs index sq)))
  | "readchip" :: ims :: index :: sq :: vs => do
    let r ← dImages ims; let index ← index.toInt?; let sq ← dBool sq; let vs ← vs.mapM dVal
    pure (dspGet (Gen.Dispatch.dispatch_get r.length (.readChip vs index sq)))
  | ["put", flags, "call", index, raw, start, sub] => do
    let f ← dFlags flags; let index ← index.toInt?; let raw ← dBool raw; let st ← dStart start; let sb ← dSubArg sub
    pure (dspPut (Gen.Dispatch.dispatch_put f (.call ⟨st, sb, index⟩ raw)))
  | ["put", flags, kind, index, start, sub] => do
    let f ← dFlags flags; let index ← index.toInt?; let st ← dStart start; let sb ← dSubArg sub
    let a : PutArgs := ⟨st, sb, index⟩
    let req ← (if kind == "write" then some (PutRequest.write a) else if kind == "writeraw" then some (.writeRaw a)
      else if kind == "writechip" then some (.writeChip a) else none)
    pure (dspPut (Gen.Dispatch.dispatch_put f req))
  | _ => none

end Sarpy.Drivers
