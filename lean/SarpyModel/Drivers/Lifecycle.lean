import SarpyModel.Drivers.Util
import SarpyModel.Spec.Lifecycle
namespace Sarpy.Drivers
open Sarpy.Spec.Lifecycle

/-!
  request  `R <nfiles> <ntemp> <node>* | <op>*`
      node (pre-order, one root):  `<prop 0/1><closeFile 0/1><file number or ->/<number of kids>`
      op:  `r` (full read)  `r<i>` (read index i)  `c` close  `x` exit  `e` exit with exception  `d` del
    answer: one token per op  `<out>:<closed flags, pre-order>:<files open>:<temp present>`
  request  `W <p0|p1|m|r> <check 0/1> <rows>x<cols>,... | <op>*`
      op:  `w<i>,<r0>,<n>`  `f` flush  `c`  `x`  `e`  `d`
    answer: `refused`  or  `init:<clobbered>` followed by one token per op
            `<out>:<closed>:<fileOpen>:<seg>;<seg>...`   seg = `<claims>,<count>,<handed>,<deliv bits>,<rows bits>`
  request  `C <nfiles> <pre ids, comma separated, or -> <phase>* / <node>* | <op>*`      (reader construction, part (c))
      phase: `n` the list initialisation of NITFReader.__init__   `t<id>` a handler creates and registers temp file <id>
             `b:<ids or ->` BaseReader.__init__(delete_files=ids)     - guards as in Spec (`nitfCtor` / `baseCtor`)
      node, op as for `R`
    answer: `fail`  or  `init:<registered ids>:<created ids>` followed by one token per op
            `<out>:<closed flags>:<files open>:<on disk? for each id of pre ++ created>`
  request  `B <p0|p1|m|r> <check 0/1> <rows>x<cols>,... <seg>,<seg>... | <op>*`          (blocked writers, part (d))
      seg: `<data segment index>:<samples per pixel>:<r0>.<c0>.<h>.<w>/<r0>.<c0>.<h>.<w>...`
      op:  `w<i>,<a>,<n>,<c>,<m>` (rows a..a+n-1, columns c..c+m-1)  `f`  `c`  `x`  `e`  `d`
    answer: `refused`  or  `init:<clobbered>` followed by one token per op
            `<out>:<closed>:<fileOpen>:<seg>;<seg>...`   seg = `<claims>,<handed>,<blk>/<blk>...`
            blk = `<claims>.<count>.<deliv bits, row major>.<written bits, row major>`
  request  `E <a|e|f|d> <n|0|1>`     what is at the path (absent / empty file / non-empty file / directory), check_existence
                                     (not given / False / True)                                           (part (e))
    answer: `refused:<kept>` | `failed:<kept>` | `opened<clobbered>:<kept>`
-/

def bit (b : Bool) : String := if b then "1" else "0"
def bits (l : List Bool) : String := if l.isEmpty then "-" else String.join (l.map bit)
def showOut : Out → String
  | .ok => "ok"
  | .refused => "refused"
  | .gone => "gone"
def parseBit (c : Char) : Option Bool := if c == '1' then some true else if c == '0' then some false else none

def parseNode (tok : String) : Option (Bool × Bool × Option Nat × Nat) :=
  match tok.splitOn "/" with
  | [a, k] => do
    let k ← k.toNat?
    match a.toList with
    | p :: cf :: f => do
      let p ← parseBit p
      let cf ← parseBit cf
      let fs := String.ofList f
      let file ← if fs == "-" then some none else fs.toNat?.map some
      pure (p, cf, file, k)
    | _ => none
  | _ => none

def parseForest : Nat → Nat → List String → Option (Forest × List String)
  | _, 0, toks => some (.nil, toks)
  | 0, _ + 1, _ => none
  | _ + 1, _ + 1, [] => none
  | fuel + 1, k + 1, tok :: toks => do
    let (p, cf, file, nk) ← parseNode tok
    let (kids, toks1) ← parseForest fuel nk toks
    let (rest, toks2) ← parseForest fuel k toks1
    pure (.cons false p file cf kids rest, toks2)

def parseROp (t : String) : Option ROp :=
  if t == "r" then some (.read none)
  else if t.startsWith "r" then (t.drop 1).toNat?.map (fun i => .read (some i))
  else if t == "c" then some .close
  else if t == "x" then some .exit
  else if t == "e" then some .exitErr
  else if t == "d" then some .del
  else none

def showR (s : RState) (o : Out) : String :=
  s!"{showOut o}:{bits (flags s.root)}:{bits s.files}:{bits s.temp}"

def runR (s : RState) : List ROp → List String
  | [] => []
  | op :: ops => let r := rstep s op; showR r.1 r.2 :: runR r.1 ops

def parseWOp (t : String) : Option WOp :=
  if t.startsWith "w" then
    match (t.drop 1).toString.splitOn "," with
    | [i, r0, n] => do pure (.write (← i.toNat?) (← r0.toNat?) (← n.toNat?))
    | _ => none
  else if t == "f" then some .flush
  else if t == "c" then some .close
  else if t == "x" then some .exit
  else if t == "e" then some .exitErr
  else if t == "d" then some .del
  else none

def showSeg (g : Seg) : String :=
  s!"{bit g.claims},{g.count},{bit g.handed},{bits g.deliv},{bits g.rows}"

def showW (s : WState) (o : Out) : String :=
  s!"{showOut o}:{bit s.closed}:{bit s.fileOpen}:" ++ ";".intercalate (s.segs.map showSeg)

def runW (s : WState) : List WOp → List String
  | [] => []
  | op :: ops => let r := wstep s op; showW r.1 r.2 :: runW r.1 ops

def parseShape (t : String) : Option (Nat × Nat) :=
  match t.splitOn "x" with
  | [r, c] => do pure (← r.toNat?, ← c.toNat?)
  | _ => none

def parseTarget (t : String) : Option Target :=
  if t == "p0" then some (.path false) else if t == "p1" then some (.path true)
  else if t == "m" then some .callerMem else if t == "r" then some .callerReal else none

def splitBar (toks : List String) : List String × List String :=
  (toks.takeWhile (· ≠ "|"), (toks.dropWhile (· ≠ "|")).drop 1)

def ids (l : List Nat) : String := if l.isEmpty then "-" else ",".intercalate (l.map toString)
def parseIds (t : String) : Option (List Nat) :=
  if t == "-" then some [] else (t.splitOn ",").mapM (·.toNat?)

/-- phases of a construction request, with the guards the Spec constructors have -/
def parsePhase (t : String) : Option (List Phase) :=
  if t == "n" then some [.initList true]
  else if t.startsWith "t" then (t.drop 1).toNat?.map (fun f => [.mkTemp f true])
  else if t.startsWith "b:" then (parseIds (t.drop 2).toString).map baseCtor
  else none

def showC (x : CReader) (o : Out) : String :=
  s!"{showOut o}:{bits (flags x.r.root)}:{bits x.r.files}:{bits ((x.pre ++ x.c.made).map x.onDisk)}"

def runC (x : CReader) : List ROp → List String
  | [] => []
  | op :: ops => let r := x.step op; showC r.1 r.2 :: runC r.1 ops

def bits2 (p : List (List Bool)) : String := bits p.flatten

def showBlk (spp : Nat) (b : Blk) : String :=
  s!"{bit (b.claims spp)}.{b.count}.{bits2 b.deliv}.{bits2 b.pix}"

def showBSeg (g : BSeg) : String :=
  s!"{bit g.claims},{bit g.handed}," ++ "/".intercalate (g.blocks.map (showBlk g.spp))

def showWB (s : WBState) (o : Out) : String :=
  s!"{showOut o}:{bit s.closed}:{bit s.fileOpen}:" ++ ";".intercalate (s.segs.map showBSeg)

def runWB (s : WBState) : List WBOp → List String
  | [] => []
  | op :: ops => let r := wbstep s op; showWB r.1 r.2 :: runWB r.1 ops

def parseWBOp (t : String) : Option WBOp :=
  if t.startsWith "w" then
    match (t.drop 1).toString.splitOn "," with
    | [i, a, n, c, m] => do pure (.write (← i.toNat?) (← a.toNat?) (← n.toNat?) (← c.toNat?) (← m.toNat?))
    | _ => none
  else if t == "f" then some .flush
  else if t == "c" then some .close
  else if t == "x" then some .exit
  else if t == "e" then some .exitErr
  else if t == "d" then some .del
  else none

def parseBlkDef (t : String) : Option (Nat × Nat × Nat × Nat) :=
  match t.splitOn "." with
  | [a, b, c, d] => do pure (← a.toNat?, ← b.toNat?, ← c.toNat?, ← d.toNat?)
  | _ => none

def parseBSegDef (t : String) : Option (Nat × Nat × List (Nat × Nat × Nat × Nat)) :=
  match t.splitOn ":" with
  | [coll, spp, bl] => do pure (← coll.toNat?, ← spp.toNat?, ← (bl.splitOn "/").mapM parseBlkDef)
  | _ => none

def splitSlash (toks : List String) : List String × List String :=
  (toks.takeWhile (· ≠ "/"), (toks.dropWhile (· ≠ "/")).drop 1)

def parsePre (t : String) : Option PrePath :=
  if t == "a" then some .absent else if t == "e" then some .emptyFile
  else if t == "f" then some .nonEmptyFile else if t == "d" then some .directory else none

def parseCheck (t : String) : Option (Option Bool) :=
  if t == "n" then some none else if t == "0" then some (some false) else if t == "1" then some (some true) else none

def lifeStep (toks : List String) : Option String :=
  match toks with
  | ["E", pre, ck] => do
    let pre ← parsePre pre
    let ck ← parseCheck ck
    let k := bit (kept pre ck)
    pure (match pathCtor pre ck with
      | .refused => s!"refused:{k}"
      | .failed => s!"failed:{k}"
      | .opened c => s!"opened{bit c}:{k}")
  | "C" :: nf :: pre :: rest => do
    let nf ← nf.toNat?
    let pre ← parseIds pre
    let (ptoks, rest2) := splitSlash rest
    let phases ← ptoks.mapM parsePhase
    let (nodes, ops) := splitBar rest2
    let (forest, left) ← parseForest (nodes.length + 1) 1 nodes
    if !left.isEmpty then none
    let ops ← ops.mapM parseROp
    match forest with
    | .nil => none
    | .cons _ p f cf kids _ =>
      match cinitReader phases.flatten pre p f cf kids nf with
      | none => pure "fail"
      | some x => pure (" ".intercalate (s!"init:{ids x.c.registered}:{ids x.c.made}" :: runC x ops))
  | "B" :: tg :: ck :: shapes :: segs :: rest => do
    let tg ← parseTarget tg
    let ck ← (ck.toList.head?).bind parseBit
    let shapes ← (shapes.splitOn ",").mapM parseShape
    let segs ← (segs.splitOn ",").mapM parseBSegDef
    let (_, ops) := splitBar rest
    let ops ← ops.mapM parseWBOp
    match wbinit { target := tg, check := ck, shapes := shapes, segs := segs } with
    | none => pure "refused"
    | some s => pure (" ".intercalate (s!"init:{bit s.clobbered}" :: runWB s ops))
  | "R" :: nf :: nt :: rest => do
    let nf ← nf.toNat?
    let nt ← nt.toNat?
    let (nodes, ops) := splitBar rest
    let (forest, left) ← parseForest (nodes.length + 1) 1 nodes
    if !left.isEmpty then none
    let ops ← ops.mapM parseROp
    match forest with
    | .nil => none
    | .cons _ p f cf kids _ =>
      let out := runR (rinit p f cf kids nf nt) ops
      pure (if out.isEmpty then "-" else " ".intercalate out)
  | "W" :: tg :: ck :: shapes :: rest => do
    let tg ← parseTarget tg
    let ck ← (ck.toList.head?).bind parseBit
    let shapes ← (shapes.splitOn ",").mapM parseShape
    let (_, ops) := splitBar rest
    let ops ← ops.mapM parseWOp
    match winit { target := tg, check := ck, shapes := shapes } with
    | none => pure "refused"
    | some s => pure (" ".intercalate (s!"init:{bit s.clobbered}" :: runW s ops))
  | _ => none

end Sarpy.Drivers
