/- line-protocol driver for the regenerated location loop of `_get_collection_element_coordinate_limits` (Gen.L.collection_locations,
   Gen/LoopsAttach.lean) next to the reference (Spec.L.decodeTree inside Spec.L.collectionLimits): the headers are put in display-level
   order and checked by the hand model, then located by the regenerated loop | by the reference, then renormalised -/
import SarpyModel.Drivers.Util
import SarpyModel.Gen.LoopsAttach
import SarpyModel.Spec.Loops
namespace Sarpy.Drivers
open Sarpy Sarpy.Spec Sarpy.Spec.L

private def showBoxesA (l : List Box) : String :=
  if l.isEmpty then "-" else ",".intercalate (l.map (fun b => s!"{b.1}:{b.2.1}:{b.2.2.1}:{b.2.2.2}"))

private def parseHdr6 (s : String) : Option Hdr6 :=
  match (s.splitOn ":").mapM String.toInt? with
  | some [a, b, c, d, e, f] => some (a, b, c, d, e, f)
  | _ => none

def loopsaStep (toks : List String) : Option String :=
  match toks with
  | ["limits", hs] => do
    let hs ← (hs.splitOn ",").mapM parseHdr6
    let s := sortByLvl hs
    if !validCollection s then pure "err ValueError | err ValueError" else
    let spec := match collectionLimits hs with
      | some g => "ok " ++ showBoxesA g
      | none => "err ValueError"
    pure (exc (fun g => showBoxesA (normalizeBoxes g)) (Gen.L.collection_locations s) ++ " | " ++ spec)
  | _ => none

end Sarpy.Drivers
