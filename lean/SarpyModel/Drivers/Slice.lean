import SarpyModel.Drivers.Util
import SarpyModel.Spec.Slice
import SarpyModel.Spec.Subscript
import SarpyModel.Gen.Slices
namespace Sarpy.Drivers
open Sarpy Sarpy.Spec

def pn (t : NSlice) : String := ps t.toPy
def pon : Option NSlice → String
  | none => "refused"
  | some t => "ok " ++ pn t

def toN (s : PySlice) : Option NSlice :=
  match s.start, s.step with
  | some a, some c => some ⟨a, s.stop, c⟩
  | _, _ => none

/-- one entry of a tuple subscript: `E` | `N` | `i<int>` | `s<a>/<b>/<c>` -/
def parseEntry (s : String) : Option SubEntry :=
  if s == "E" then some .ell
  else if s == "N" then some (.item .none)
  else if s.startsWith "i" then ((s.drop 1).toString).toInt?.map (fun i => .item (.int i))
  else if s.startsWith "s" then
    match ((s.drop 1).toString).splitOn "/" with
    | [a, b, c] => do
      let a ← parseO a; let b ← parseO b; let c ← parseO c
      pure (.item (.slice ⟨a, b, c⟩))
    | _ => none
  else none

/-- answers: `<gen result> | <spec result>` -/
def sliceStep (toks : List String) : Option String :=
  match toks with
  | "sub" :: shape :: entries => do
    let shape ← (shape.splitOn ",").mapM (·.toNat?)
    let l ← entries.mapM parseEntry
    match verifySub shape l with
    | none => pure "refused"
    | some ts => pure ("ok " ++ ";".intercalate (ts.map pn) ++ " " ++ pl (readFlat shape ts))
  | ["np", n, a, b, c] => do
    let n ← n.toNat?; let a ← parseO a; let b ← parseO b; let c ← parseO c
    pure (pl (npIndices n ⟨a, b, c⟩))
  | ["verify", n, a, b, c] => do
    let n ← n.toInt?; let a ← parseO a; let b ← parseO b; let c ← parseO c
    let s : PySlice := ⟨a, b, c⟩
    pure (exc ps (Gen.verify_slice (.slice s) n) ++ " | " ++ pon (verifySlice n s))
  | ["verifyint", n, i] => do
    let n ← n.toInt?; let i ← i.toInt?
    pure (exc ps (Gen.verify_slice (.int i) n) ++ " | " ++ pon (verifyInt n i))
  | ["size", a, b, c] => do
    let a ← parseO a; let b ← parseO b; let c ← parseO c
    let s : PySlice := ⟨a, b, c⟩
    pure (exc toString (Gen.get_slice_result_size s) ++ " | " ++
      (match toN s with | some t => s!"ok {t.count}" | none => "refused"))
  | ["mirror", n, a, b, c] => do
    let n ← n.toInt?; let a ← parseO a; let b ← parseO b; let c ← parseO c
    let s : PySlice := ⟨a, b, c⟩
    pure (exc ps (Gen.reformat_slice s n true) ++ " | " ++
      (match toN s with | some t => "ok " ++ pn (mirror n t) | none => "refused"))
  | ["overlap", a, b, c, b0, b1] => do
    let a ← parseO a; let b ← parseO b; let c ← parseO c; let b0 ← b0.toInt?; let b1 ← b1.toInt?
    let s : PySlice := ⟨a, b, c⟩
    let g := exc (fun (x : Option PySlice × Option PySlice) =>
        (match x.1 with | none => "None" | some s => ps s) ++ " " ++ (match x.2 with | none => "None" | some s => ps s))
      (Gen.find_slice_overlap s ⟨some b0, some b1, some 1⟩)
    let sp := match toN s with
      | some t => (match overlap t b0 b1 with
          | none => "ok None None"
          | some (p, c) => "ok " ++ pn p ++ " " ++ pn c)
      | none => "refused"
    pure (g ++ " | " ++ sp)
  | ["reverse", a, b, c] => do
    let a ← parseO a; let b ← parseO b; let c ← parseO c
    let s : PySlice := ⟨a, b, c⟩
    pure (exc ps (Gen.reverse_slice s) ++ " | " ++
      (match toN s with | some t => "ok " ++ pn (reverseSlice t) | none => "refused"))
  | ["compose", full, a, b, c, d, e, f] => do
    let full ← full.toInt?
    let a ← a.toInt?; let b ← parseO b; let c ← c.toInt?
    let d ← d.toInt?; let e ← parseO e; let f ← f.toInt?
    pure ("ok " ++ pn (compose full ⟨a, b, c⟩ ⟨d, e, f⟩))
  | _ => none

end Sarpy.Drivers
