/- line-protocol driver for the regenerated method kernels (Gen.K2) next to their reference definitions (Spec.K2):
   every answer is `<regenerated Python> | <reference>` so that the harness sees a three-way comparison with the implementation -/
import SarpyModel.Drivers.Util
import SarpyModel.Gen.Kernels2
import SarpyModel.Spec.Kernels2
namespace Sarpy.Drivers
open Sarpy Sarpy.Spec Sarpy.Spec.K2

private def pb (s : String) : Bool := s == "1"
private def nsl (a b c : String) : Option NSlice := do pure ⟨← a.toInt?, ← parseO b, ← c.toInt?⟩
private def showNS (t : NSlice) : String := s!"{t.start},{po t.stop},{t.step}"

def k2Step (toks : List String) : Option String :=
  match toks with
  | ["rowlimit", which, v, nc, ps] => do
    let v ← parseO v; let nc ← nc.toInt?; let ps ← ps.toInt?
    let g := if which == "sidd" then Gen.K2.sidd_row_limit v nc ps else Gen.K2.sicd_row_limit v nc ps
    pure (exc toString g ++ " | " ++ toString (rowLimit v (nc * ps)))
  | ["blocksize", which, nrows, ncols, nppbv, nppbh, nbpp, nbands, s] => do
    let a ← nrows.toInt?; let b ← ncols.toInt?; let c ← nppbv.toInt?; let d ← nppbh.toInt?; let e ← nbpp.toInt?; let f ← nbands.toInt?
    let g := if which == "0" then Gen.K2.block_size0 a b c d e f (pb s) else Gen.K2.block_size a b c d e f (pb s)
    pure (exc toString g ++ " | " ++ toString (blockBytes a b c d e f (pb s)))
  | ["fullsize", which, nbpr, nbpc, nbands, s, bs] => do
    let a ← nbpr.toInt?; let b ← nbpc.toInt?; let c ← nbands.toInt?; let d ← bs.toInt?
    let g := if which == "0" then Gen.K2.full_image_size0 a b c (pb s) d else Gen.K2.full_image_size a b c (pb s) d
    pure (exc toString g ++ " | " ++ toString (fullImageBytes a b c (pb s) d))
  | ["tpxcd", bits] => do
    let b ← bits.toInt?
    pure (exc toString (Gen.K2.tpxcd_length b) ++ " | " ++ toString (tpxcdBytes b))
  | ["fromparent", pa, pb', pc, da, db, dc] => do
    let p ← nsl pa pb' pc; let d ← nsl da db dc
    pure (exc ps (Gen.K2.from_parent_axis p.toPy d.toPy) ++ " | " ++ showNS (fromParentAxis p d))
  | _ => none

end Sarpy.Drivers
