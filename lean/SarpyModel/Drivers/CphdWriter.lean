import SarpyModel.Drivers.Util
import SarpyModel.Spec.CphdWriter
import SarpyModel.Spec.CphdHeaderText
import SarpyModel.Gen.CphdKernels
namespace Sarpy.Drivers
open Sarpy.Spec.CphdWriter

/-- provenance cells: where a byte of the file came from -/
inductive Cell where
  | z                       -- zero fill
  | h (i : Nat)             -- header text byte i
  | t (i : Nat)             -- terminator byte i
  | x (i : Nat)             -- XML byte i
  | d (op : Nat) (j : Nat)  -- byte j of the data handed to operation number `op`
deriving DecidableEq, Repr, Inhabited

private def natList (s : String) (sep : String) : Option (List Nat) :=
  if s == "-" then some [] else (s.splitOn sep).mapM (·.toNat?)

private def parseItem (t : String) : Option ItemCfg :=
  match t.splitOn ":" with
  | [k, o, sz, r, rb] => do
    let kind ← (match k with | "p" => some Kind.pvp | "s" => some Kind.support | "g" => some Kind.signal | _ => none)
    pure { kind, off := (← o.toNat?), size := (← sz.toNat?), rows := (← r.toNat?), rowBytes := (← rb.toNat?) }
  | _ => none

private def parseOp (idx : Nat) (t : String) : Option (Op Cell) :=
  let blk (n : Nat) : Blk Cell := ⟨n, fun j => Cell.d idx j⟩
  match t.splitOn "." with
  | ["P", i, n] => do pure (.writePvp (← i.toNat?) (blk (← n.toNat?)) idx)       -- the AmpSF column of a PVP write is named by the op number
  | ["S", j, n] => do pure (.writeSup (← j.toNat?) (blk (← n.toNat?)))
  | ["G", i, r0, n, raw] => do pure (.writeSig (← i.toNat?) (← r0.toNat?) (blk (← n.toNat?)) (raw == "1"))
  | ["F"] => some .flush
  | ["C"] => some .close
  | _ => none

private def showOut : Out → String
  | .ok => "o"
  | .refused => "r"
  | .report h m => s!"R{if h then 1 else 0}:" ++ (if m.isEmpty then "-" else ".".intercalate (m.map toString))

private def showLog (l : List (Nat × Nat)) : String :=
  if l.isEmpty then "-" else ",".intercalate (l.map (fun p => s!"{p.1}:{p.2}"))

private def cellKey : Cell → Nat × Nat × Nat
  | .z => (0, 0, 0) | .h i => (1, 0, i) | .t i => (2, 0, i) | .x i => (3, 0, i) | .d o j => (4, o, j)

private def showSrc : Cell → String
  | .z => "z" | .h i => s!"h{i}" | .t i => s!"t{i}" | .x i => s!"x{i}" | .d o j => s!"d{o}.{j}"

/-- run-length description of the image: `start:len:src` where `src` names the cell of the first byte and the following
    bytes of the run are the following cells of the same source (zero fill: all zero) -/
private def runs (rdp : Nat → Cell) (n : Nat) : List String := Id.run do
  let mut out : Array String := #[]
  let mut start := 0
  let mut first := Cell.z
  let mut prev := Cell.z
  for p in [0:n] do
    let c := rdp p
    if p == 0 then
      start := 0; first := c; prev := c
    else
      let (a, b, i) := cellKey prev
      let (a', b', i') := cellKey c
      let cont := a == a' && b == b' && (a == 0 || i' == i + 1)
      if cont then
        prev := c
      else
        out := out.push s!"{start}:{p - start}:{showSrc first}"
        start := p; first := c; prev := c
  if n > 0 then out := out.push s!"{start}:{n - start}:{showSrc first}"
  return out.toList

/-- `wrun inMem ampSF hdrLen termLen xmlOff xmlLen nchan nsup items ops`
      items : `kind:off:size:rows:rowBytes,...` (kind p|s|g, in table order)      ops : `P.i.len;S.j.len;G.i.r0.len.raw;F;C`
    → `outs | foLog | mmLog | flags (written.bytes.count.canReg per item) | closed hdrWritten pos fileLen | runs |
       per channel: installed AmpSF tag / formatted chunks oldest first as firstRow:rows:tag` (tag = number of the PVP op, N = none) -/
def cphdwStep (toks : List String) : Option String :=
  match toks with
  | ["wrun", im, amp, hl, tl, xo, xl, nc, ns, items, ops] => do
    let hl ← hl.toNat?; let tl ← tl.toNat?; let xo ← xo.toNat?; let xl ← xl.toNat?
    let nc ← nc.toNat?; let ns ← ns.toNat?
    let its ← (if items == "-" then some [] else (items.splitOn ",").mapM parseItem)
    let opl ← (if ops == "-" then some [] else ((ops.splitOn ";").zipIdx).mapM (fun (t, i) => parseOp i t))
    let c : Cfg Cell := { zero := .z, inMem := im == "1", ampSF := amp == "1", hdr := ⟨hl, Cell.h⟩, term := ⟨tl, Cell.t⟩,
                          xmlOff := xo, xml := ⟨xl, Cell.x⟩, nchan := nc, nsup := ns, item := fun k => its.getD k default }
    let s := run c (init c) opl
    let os := outs c (init c) opl
    let flags := (List.range c.n).map (fun k =>
      let e := s.el k
      s!"{if e.written then 1 else 0}.{if e.bytes.isSome then 1 else 0}.{e.count}.{if e.canReg then 1 else 0}")
    let n := fileLen c s
    let showA (a : Option Nat) : String := match a with | some v => toString v | none => "N"
    let amps := (List.range c.nchan).map (fun i =>
      let e := s.el (c.sigIdx i)
      showA e.amp ++ "/" ++ (if e.scaled.isEmpty then "-" else ",".intercalate (e.scaled.reverse.map (fun t => s!"{t.1}:{t.2.1}:{showA t.2.2}"))))
    pure (" | ".intercalate [
      (if os.isEmpty then "-" else ",".intercalate (os.map showOut)),
      showLog (foLog s), showLog (mmLog s),
      (if flags.isEmpty then "-" else ",".intercalate flags),
      s!"{if s.closed then 1 else 0} {if s.hdrWritten then 1 else 0} {s.pos} {n}",
      " ".intercalate (runs (rd c s) n),
      (if amps.isEmpty then "-" else " ".intercalate amps)])
  | _ => none

/-! the regenerated kernels, run on the same inputs as the hand model (three-way comparison Python / Gen / Spec) -/

private def showO (o : Option Int) : String := match o with | some v => toString v | none => "N"

/-- `gen cphd|crsd xmlOff xmlSize numSupport suppSize pvpSize sigSize hdrBytes`
      → `xmlSize xmlOff suppSize|N suppOff|N pvpSize pvpOff sigSize sigOff retry|N` from the regenerated `chain` and `retry` -/
def cphdGenStep (toks : List String) : Option String :=
  match toks with
  | ["gen", fam, xo, xs, ns, ss, ps, gs, hb] => do
    let xo ← xo.toInt?; let xs ← xs.toInt?; let ns ← ns.toInt?; let ss ← ss.toInt?; let ps ← ps.toInt?; let gs ← gs.toInt?
    let hb ← hb.toInt?
    let (ch, rt) ← (match fam with
      | "cphd" => some (Gen.Cphd.chain xo xs ns ss ps gs, Gen.Cphd.retry xo hb)
      | "crsd" => some (Gen.Crsd.chain xo xs ns ss ps gs, Gen.Crsd.retry xo hb)
      | _ => none)
    match ch, rt with
    | .ok (a, b, c, d, e, f, g, h), .ok r =>
      pure (" ".intercalate ([a, b, c, d, e, f, g, h].map showO ++ [showO r]))
    | .error e, _ => pure ("err " ++ e)
    | _, .error e => pure ("err " ++ e)
  | _ => none

private def hexVal (c : Char) : Option Nat :=
  if '0' ≤ c ∧ c ≤ '9' then some (c.toNat - 48) else if 'a' ≤ c ∧ c ≤ 'f' then some (c.toNat - 87) else none

private def unhex : List Char → Option (List Nat)
  | [] => some []
  | a :: b :: rest => do
    let hi ← hexVal a; let lo ← hexVal b; let tl ← unhex rest
    pure ((hi * 16 + lo) :: tl)
  | _ => none

private def hexOf (l : List Nat) : String :=
  String.ofList (l.flatMap (fun b => [(Nat.toDigits 16 (b / 16)).headD '0', (Nat.toDigits 16 (b % 16)).headD '0']))

open Sarpy.Spec.CphdLayout Sarpy.Spec.CphdHeaderText in
/-- `hdrtext typHex clsHex relHex xmlSize suppSize|N pvpSize sigSize`
      → `none` or `xmlOff hex(header text)` for the layout the retry rule (fuel 16) returns, text rendered by `headerBytes` -/
def cphdHdrStep (toks : List String) : Option String :=
  match toks with
  | ["hdrtext", ty, cl, rl, xs, ss, ps, gs] => do
    let ty ← unhex (if ty == "-" then [] else ty.toList)
    let cl ← unhex (if cl == "-" then [] else cl.toList)
    let rl ← unhex (if rl == "-" then [] else rl.toList)
    let xs ← xs.toNat?; let ps ← ps.toNat?; let gs ← gs.toNat?
    let ss ← (if ss == "N" then some none else ss.toNat?.map some)
    let t : Texts := { typ := ty, cls := cl, rel := rl }
    match chooseText t xs ss ps gs 16 with
    | none => pure "none"
    | some b => pure s!"{b.xmlOff} {hexOf (headerBytes t b)}"
  | _ => none

end Sarpy.Drivers
