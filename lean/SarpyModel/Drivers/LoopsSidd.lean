/- line-protocol driver for the regenerated SIDD header loop (Gen.L.sidd_segment_headers, Gen/LoopsSidd.lean) next to its reference
   definition (Spec.L.siddHeaders of the segmentation): the answer is `<regenerated Python> | <reference>` -/
import SarpyModel.Drivers.Util
import SarpyModel.Gen.LoopsSidd
import SarpyModel.Spec.Loops
namespace Sarpy.Drivers
open Sarpy Sarpy.Spec Sarpy.Spec.L

def showHdr (h : Hdr9) : String :=
  s!"{h.1}:{h.2.1}:{h.2.2.1}:{h.2.2.2.1}:{h.2.2.2.2.1}:{h.2.2.2.2.2.1}:{h.2.2.2.2.2.2.1}:{h.2.2.2.2.2.2.2.1}:{h.2.2.2.2.2.2.2.2}"

def showHdrs (v : List Hdr9 × List Int) : String :=
  (if v.1.isEmpty then "-" else ";".intercalate (v.1.map showHdr)) ++ "/" ++ (if v.2.isEmpty then "-" else ",".intercalate (v.2.map toString))

def loopssStep (toks : List String) : Option String :=
  match toks with
  | ["hdr", si, start, rows, cols, lim] => do
    let si ← si.toInt?; let start ← start.toInt?; let r ← rows.toInt?; let c ← cols.toInt?; let l ← lim.toInt?
    let boxes := segBoxes r c l
    pure (exc showHdrs (Gen.L.sidd_segment_headers si start r c l) ++ " | " ++ showHdrs (siddHeaders si start boxes, siddIndicesFrom start boxes))
  | _ => none

end Sarpy.Drivers
