/-
  Line protocol for Spec.Proj at `Float` (IEEE double).  Every number travels as the decimal value of its
  64-bit pattern, so the transfer is exact in both directions.

    proj plane <arp> <varp> <r> <rdot> <gref> <uZ>                       -> x,y,z | nan
    proj coa  <COA> <METHOD> <pts>                                        -> r,rdot,t,ax,ay,az,vx,vy,vz ; ...
    proj i2p  <COA> <METHOD> <gref> <uZ> <pts>                            -> x,y,z | nan ; ...
    proj blocks <n> <len>                                                 -> block lengths
  <COA>    = <tcoa rows ;> <arpX> <arpY> <arpZ> <rowShift> <rowMult> <colShift> <colMult> <dArp> <dVarp> <rangeBias>
  <METHOD> = pfa <scp> <polarAng> <ksf> | rgaz <scp> <azSF> | inca <rCaScp> <timeCA> <drsf rows ;>
           | plane <scp> <uRow> <uCol> | sidd <srp> <row0> <col0> <rowVec> <colVec>
  vectors and coefficient lists are comma separated, rows / points `;` separated.
-/
import SarpyModel.Drivers.Util
import SarpyModel.Spec.Proj
namespace Sarpy.Drivers.ProjNS
open Sarpy.Drivers
open Sarpy.Spec.Proj

instance projSqrtFloat : Sqrt Float := ⟨Float.sqrt⟩
instance projTrigFloat : Trig Float := ⟨Float.sin, Float.cos⟩
instance projNatCastFloat : NatCast Float := ⟨Float.ofNat⟩

def parseF (s : String) : Option Float := s.toNat?.map (fun n => Float.ofBits n.toUInt64)
def showF (f : Float) : String := toString f.toBits.toNat
def parseFs (s : String) : Option (List Float) := if s == "-" then some [] else (s.splitOn ",").mapM parseF
def parseFRows (s : String) : Option (List (List Float)) := (s.splitOn ";").mapM parseFs
def parseV (s : String) : Option (V3 Float) :=
  match parseFs s with
  | some [a, b, c] => some ⟨a, b, c⟩
  | _ => none
def showV (v : V3 Float) : String := s!"{showF v.x},{showF v.y},{showF v.z}"
def showOV : Option (V3 Float) → String
  | none => "nan"
  | some v => showV v
def parsePts (s : String) : Option (List (Float × Float)) :=
  (s.splitOn ";").mapM (fun t => match parseFs t with
    | some [a, b] => some (a, b)
    | _ => none)

def parseCoa : List String → Option (Coa Float × List String)
  | tc :: ax :: ay :: az :: rs :: rm :: cs :: cm :: da :: dv :: rb :: rest => do
    let c : Coa Float := {
      tcoa := ← parseFRows tc, arpX := ← parseFs ax, arpY := ← parseFs ay, arpZ := ← parseFs az,
      rowShift := ← parseF rs, rowMult := ← parseF rm, colShift := ← parseF cs, colMult := ← parseF cm,
      dArp := ← parseV da, dVarp := ← parseV dv, rangeBias := ← parseF rb }
    pure (c, rest)
  | _ => none

def parseMethod : List String → Option (Method Float × List String)
  | "pfa" :: scp :: pa :: ksf :: rest => do pure (.pfa (← parseV scp) (← parseFs pa) (← parseFs ksf), rest)
  | "rgaz" :: scp :: a :: rest => do pure (.rgazcomp (← parseV scp) (← parseF a), rest)
  | "inca" :: r :: tca :: d :: rest => do pure (.inca (← parseF r) (← parseFs tca) (← parseFRows d), rest)
  | "plane" :: scp :: ur :: uc :: rest => do pure (.plane (← parseV scp) (← parseV ur) (← parseV uc), rest)
  | "sidd" :: srp :: r0 :: c0 :: rv :: cv :: rest => do
    pure (.siddPlane (← parseV srp) (← parseF r0) (← parseF c0) (← parseV rv) (← parseV cv), rest)
  | _ => none

def showOut (o : CoaOut Float) : String :=
  s!"{showF o.r},{showF o.rdot},{showF o.t},{showV o.arp},{showV o.varp}"

def projStep (toks : List String) : Option String :=
  match toks with
  | ["plane", arp, varp, r, rdot, gref, uz] => do
    pure (showOV (planePoint (← parseV arp) (← parseV varp) (← parseV gref) (← parseV uz) (← parseF r) (← parseF rdot)))
  | "coa" :: rest => do
    let (c, rest) ← parseCoa rest
    let (m, rest) ← parseMethod rest
    match rest with
    | [pts] => pure (";".intercalate ((← parsePts pts).map (fun p => showOut (projection c m p.1 p.2))))
    | _ => none
  | "i2p" :: rest => do
    let (c, rest) ← parseCoa rest
    let (m, rest) ← parseMethod rest
    match rest with
    | [gref, uz, pts] =>
      pure (";".intercalate ((imageToPlaneBatch c m (← parseV gref) (← parseV uz) (← parsePts pts)).map showOV))
    | _ => none
  | ["coacache", ops] => do
    -- ops: comma separated `<param set index>:<0|1 override>`; answer: index in effect (N = nothing stored)
    let parsed ← (if ops == "-" then some [] else (ops.splitOn ",").mapM (fun t => match t.splitOn ":" with
      | [i, o] => do pure ((← i.toNat?), o == "1")
      | _ => none))
    pure (match coaRun parsed with | none => "N" | some i => toString i)
  | ["blocks", n, len] => do
    let n ← n.toNat?
    let len ← len.toNat?
    pure (pl ((blocks n (List.range len)).map (fun b => (b.length : Int))))
  | _ => none

end Sarpy.Drivers.ProjNS

namespace Sarpy.Drivers
def projStep (toks : List String) : Option String := ProjNS.projStep toks
end Sarpy.Drivers
