/-
  line protocol for the reader / writer dispatch model (`Spec/Dispatch.lean`), keyword `disp`:

    disp get <images> S <val>                     reader[val]            (val not a tuple)
    disp get <images> T <val>*                    reader[(val, ...)]
    disp call <images> <index> <raw> <squeeze> <val>*
    disp read|readraw|readchip <images> <index> <squeeze> <val>*
    disp fetch <images> <index> <entry>*          FullResolutionFetcher(reader, index=index)[entries]
    disp fullres <images> <index> <slice> <slice> reader[(rows, cols, index)]
    disp sizes <images>
    disp aggmap <counts>
    disp subset <count> <index>
    disp put <flags> call <index> <raw> <start> <sub>     writer(data, start_indices=, subscript=, index=, raw=)
    disp put <flags> write|writeraw|writechip <index> <start> <sub>

  <images> = image+image+...   image = f0,f1,..:r0,r1,..   (formatted shape : raw shape)
  <val>    = N | E | O | i<int> | mr | mn | mu | s<a>/<b>/<c> | t(<val>;<val>;...)
  <entry>  = E | N | i<int> | s<a>/<b>/<c>
  <start>  = N | i<int> | t(<int>;...)        <sub> = N | <entry>,<entry>,...  (`-` for the empty tuple)

  reader answers:  `err <Kind>`  |  `ok <image> <raw> <squeeze> <sub> | refused`  |
                   `ok <image> <raw> <squeeze> <sub> | <slice>;<slice>... | <result shape>`
-/
import SarpyModel.Drivers.Util
import SarpyModel.Spec.Dispatch
namespace Sarpy.Drivers
open Sarpy Sarpy.Spec

def dErr : Err → String
  | .typeError => "TypeError"
  | .indexError => "IndexError"
  | .valueError => "ValueError"
  | .keyError => "KeyError"

def dSlice (s : String) : Option PySlice :=
  match s.splitOn "/" with
  | [a, b, c] => do
    let a ← parseO a; let b ← parseO b; let c ← parseO c
    pure ⟨a, b, c⟩
  | _ => none

/-- a value that is not a tuple -/
def dAtom (s : String) : Option PyVal :=
  if s == "N" then some .none
  else if s == "E" then some .ell
  else if s == "O" then some .other
  else if s == "mr" then some (.str .raw)
  else if s == "mn" then some (.str .nosqueeze)
  else if s == "mu" then some (.str .unknown)
  else if s.startsWith "i" then ((s.drop 1).toString).toInt?.map PyVal.int
  else if s.startsWith "s" then (dSlice ((s.drop 1).toString)).map PyVal.slice
  else none

def dVal (s : String) : Option PyVal :=
  if s.startsWith "t(" && s.endsWith ")" then
    let body := ((s.drop 2).dropEnd 1).toString
    if body == "" then some (.tuple []) else ((body.splitOn ";").mapM dAtom).map PyVal.tuple
  else dAtom s

def dEntry (s : String) : Option SubEntry :=
  if s == "E" then some .ell
  else if s == "N" then some (.item .none)
  else if s.startsWith "i" then ((s.drop 1).toString).toInt?.map (fun i => .item (.int i))
  else if s.startsWith "s" then (dSlice ((s.drop 1).toString)).map (fun x => .item (.slice x))
  else none

def dShape (s : String) : Option (List Nat) :=
  if s == "" then some [] else (s.splitOn ",").mapM (·.toNat?)

def dImage (s : String) : Option Image :=
  match s.splitOn ":" with
  | [f, r] => do
    let f ← dShape f; let r ← dShape r
    pure ⟨f, r⟩
  | _ => none

def dImages (s : String) : Option (List Image) :=
  if s == "-" then some [] else (s.splitOn "+").mapM dImage

def dBool (s : String) : Option Bool :=
  if s == "1" then some true else if s == "0" then some false else none

def dspEntry : SubEntry → String
  | .ell => "E"
  | .item .none => "N"
  | .item (.int i) => s!"i{i}"
  | .item (.slice s) => "s" ++ s!"{po s.start}/{po s.stop}/{po s.step}"

def dspSub : Option (List SubEntry) → String
  | none => "N"
  | some [] => "-"
  | some l => ",".intercalate (l.map dspEntry)

def dspB (b : Bool) : String := if b then "1" else "0"
def dspN (t : NSlice) : String := ps t.toPy
def dspShape (l : List Nat) : String := "(" ++ ",".intercalate (l.map toString) ++ ")"
def dspSel (s : Sel) : String := s!"ok {s.image} {dspB s.raw} {dspB s.squeeze} {dspSub s.sub}"

/-- dispatch, then what the chosen segment makes of the subscript -/
def dspServe (r : List Image) (d : Except Err Sel) : String :=
  match d with
  | .error e => "err " ++ dErr e
  | .ok sel =>
    match r[sel.image]? with
    | none => dspSel sel ++ " | no-such-image"
    | some im =>
      match resolveSub (im.shapeFor sel.raw) sel.sub with
      | none => dspSel sel ++ " | refused"
      | some ts => dspSel sel ++ " | " ++ ";".intercalate (ts.map dspN) ++ " | " ++ dspShape (resultShape sel.squeeze ts)

def dStart (s : String) : Option StartArg :=
  if s == "N" then some .none
  else if s.startsWith "i" then ((s.drop 1).toString).toInt?.map StartArg.int
  else if s.startsWith "t(" && s.endsWith ")" then
    let body := ((s.drop 2).dropEnd 1).toString
    if body == "" then some (.tup []) else ((body.splitOn ";").mapM String.toInt?).map StartArg.tup
  else none

def dSubArg (s : String) : Option (Option (List SubEntry)) :=
  if s == "N" then some none
  else if s == "-" then some (some [])
  else ((s.splitOn ",").mapM dEntry).map some

def dspStart : StartArg → String
  | .none => "N"
  | .int i => s!"i{i}"
  | .tup l => "t(" ++ ";".intercalate (l.map toString) ++ ")"

def dspPut : Except Err PutSel → String
  | .error e => "err " ++ dErr e
  | .ok p => s!"ok {p.segment} {dspB p.raw} {dspStart p.start} {dspSub p.sub}"

def dFlags (s : String) : Option (List Bool) :=
  if s == "-" then some [] else s.toList.mapM (fun c => if c == '1' then some true else if c == '0' then some false else none)

def dispStep (toks : List String) : Option String :=
  match toks with
  | "get" :: ims :: "S" :: [v] => do
    let r ← dImages ims; let v ← dVal v
    pure (dspServe r (dispatchGet r.length (.getitem v)))
  | "get" :: ims :: "T" :: vs => do
    let r ← dImages ims; let vs ← vs.mapM dVal
    pure (dspServe r (dispatchGet r.length (.getitem (.tuple vs))))
  | "call" :: ims :: index :: raw :: sq :: vs => do
    let r ← dImages ims; let index ← index.toInt?; let raw ← dBool raw; let sq ← dBool sq; let vs ← vs.mapM dVal
    pure (dspServe r (dispatchGet r.length (.call vs index raw sq)))
  | "read" :: ims :: index :: sq :: vs => do
    let r ← dImages ims; let index ← index.toInt?; let sq ← dBool sq; let vs ← vs.mapM dVal
    pure (dspServe r (dispatchGet r.length (.read vs index sq)))
  | "readraw" :: ims :: index :: sq :: vs => do
    let r ← dImages ims; let index ← index.toInt?; let sq ← dBool sq; let vs ← vs.mapM dVal
    pure (dspServe r (dispatchGet r.length (.readRaw vs index sq)))
  | "readchip" :: ims :: index :: sq :: vs => do
    let r ← dImages ims; let index ← index.toInt?; let sq ← dBool sq; let vs ← vs.mapM dVal
    pure (dspServe r (dispatchGet r.length (.readChip vs index sq)))
  | "fetch" :: ims :: index :: es => do
    let r ← dImages ims; let index ← index.toNat?; let es ← es.mapM dEntry
    pure (dspServe r (fetcherGetitem r index es))
  | ["fullres", ims, index, a, b] => do
    let r ← dImages ims; let index ← index.toNat?
    let a ← dSlice ((a.drop 1).toString); let b ← dSlice ((b.drop 1).toString)
    pure (dspServe r (fetcherFullRes r.length index a b))
  | ["sizes", ims] => do
    let r ← dImages ims
    let sz := fun (s : Sizes) => match s with
      | .one s => dspShape s
      | .many l => "(" ++ ",".intercalate (l.map dspShape) ++ ")"
    pure (s!"{imageCount r} {sz (dataSize r)} {sz (rawDataSize r)} " ++
      "(" ++ ",".intercalate ((getDataSizeAsTuple r).map dspShape) ++ ") " ++
      "(" ++ ",".intercalate ((getRawDataSizeAsTuple r).map dspShape) ++ ")")
  | ["aggmap", counts] => do
    let c ← dShape counts
    pure (",".intercalate ((aggMap c).map (fun p => s!"{p.1}:{p.2}")))
  | ["subset", count, index] => do
    let c ← count.toNat?; let i ← index.toInt?
    pure (match subsetParent c i with | .ok k => s!"ok {k}" | .error e => "err " ++ dErr e)
  | ["put", flags, "call", index, raw, start, sub] => do
    let f ← dFlags flags; let index ← index.toInt?; let raw ← dBool raw; let st ← dStart start; let sb ← dSubArg sub
    pure (dspPut (dispatchPut f (.call ⟨st, sb, index⟩ raw)))
  | ["put", flags, kind, index, start, sub] => do
    let f ← dFlags flags; let index ← index.toInt?; let st ← dStart start; let sb ← dSubArg sub
    let a : PutArgs := ⟨st, sb, index⟩
    let req ← (if kind == "write" then some (PutRequest.write a) else if kind == "writeraw" then some (.writeRaw a)
      else if kind == "writechip" then some (.writeChip a) else none)
    pure (dspPut (dispatchPut f req))
  | _ => none

end Sarpy.Drivers
