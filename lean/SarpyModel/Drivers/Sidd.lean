import SarpyModel.Drivers.Util
import SarpyModel.Spec.Sidd
namespace Sarpy.Drivers
open Sarpy.Spec.Sidd

def showGroups (g : List (List Nat)) : String := ";".intercalate (g.map (fun l => ",".intercalate (l.map toString)))

def siddStep (toks : List String) : Option String :=
  match toks with
  | ["regroup", n, elems] => do
    let n ← n.toNat?
    let es ← (if elems == "-" then some [] else (elems.splitOn ",").mapM String.toNat?)
    pure (match regroup n es with | none => "refused" | some g => "ok " ++ showGroups g)
  | ["iid", counts] => do
    let cs ← (counts.splitOn ",").mapM String.toNat?
    pure (",".intercalate ((iidList cs).map toString) ++ " " ++ showGroups (expectedGroups 0 cs))
  | _ => none

end Sarpy.Drivers
