/- line-protocol driver for the comparisons regenerated from the consistency checkers of /repo (`Gen.Chk`, translate/gen_checker.py).
   Kept apart from the reference-rule driver: when a rule no longer translates (or the generated file no longer compiles) only
   this driver is lost -/
import SarpyModel.Drivers.Util
import SarpyModel.Gen.CheckerRules
namespace Sarpy.Drivers

/-- `rule <name> <ints|-> <bools|->` → `ok 1` | `ok 0` | `err <Python exception>` | `none` (rule not translated) -/
def chkgenStep (toks : List String) : Option String :=
  match toks with
  | ["rule", name, i, b] => do
    let i ← (if i == "-" then some [] else (i.splitOn ",").mapM (·.toInt?))
    let b := if b == "-" then [] else b.toList.map (· == '1')
    match Sarpy.Gen.Chk.evalRule name i b with
    | none => pure "none"
    | some r => pure (exc (fun v => if v then "1" else "0") r)
  | _ => none

end Sarpy.Drivers
