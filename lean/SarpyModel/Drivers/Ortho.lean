/-
  Driver for Spec.Ortho at `Float` (IEEE binary64).  Floats cross the line protocol as the decimal value of
  their 64-bit pattern.  A plane is 13 floats: ref(3) refRow refCol rowVec(3) colVec(3) rowSS colSS.

    ortho o2e <plane> r c            -> x y z                         PGProjection.ortho_to_ecf
    ortho e2o <plane> x y z          -> r c                           PGProjection.plane_ecf_to_ortho
    ortho prod <plane> r0 c0 i j     -> x y z                         ground point of product pixel (i, j) by the SIDD plane
    ortho idx g0 n x                 -> <code index|F> <nearest index|F> <nearest pixel> <repaired index|F>
    ortho nn g0r nr g0c nc x y       -> c:<i>,<j>|c:F n:<i>,<j>|n:F   code / specification sample of vals i j = (i, j)
    ortho fbs bytes full             -> block size                    get_fetch_block_size
    ortho blocks size step           -> a:b,a:b,…                     extract_blocks (relative to the first index)
    ortho asm R C step dim           -> eq|ne                         blocks assembled == whole product (vals r c = r*C + c)
-/
import SarpyModel.Drivers.Util
import SarpyModel.Spec.Ortho
namespace Sarpy.Drivers
open Sarpy.Spec.Ortho
open Sarpy.Spec.Geo (V3)

instance orthoScalarFloat : OrthoScalar Float where
  ofInt := Float.ofInt
  floor x := (Float.floor x).toInt64.toInt
  le a b := decide (a ≤ b)
  lt a b := decide (a < b)

def orthoParseF (s : String) : Option Float := s.toNat?.map (fun n => Float.ofBits (UInt64.ofNat n))
def orthoShowF (x : Float) : String := toString x.toBits.toNat
def orthoShowV (v : V3 Float) : String := s!"{orthoShowF v.x} {orthoShowF v.y} {orthoShowF v.z}"

def orthoParsePlane (t : List String) : Option (Plane Float) := do
  let f ← t.mapM orthoParseF
  match f with
  | [a, b, c, rr, rc, d, e, g, h, i, j, rs, cs] =>
    pure { ref := ⟨a, b, c⟩, refRow := rr, refCol := rc, rowVec := ⟨d, e, g⟩, colVec := ⟨h, i, j⟩, rowSS := rs, colSS := cs }
  | _ => none

def orthoShowIdx : Option Nat → String
  | some k => toString k
  | none => "F"

def orthoShowPair (tag : String) : Option (Nat × Nat) → String
  | some (i, j) => s!"{tag}:{i},{j}"
  | none => s!"{tag}:F"

def orthoStep (toks : List String) : Option String :=
  match toks with
  | "o2e" :: rest =>
    if rest.length = 15 then do
      let P ← orthoParsePlane (rest.take 13)
      let r ← orthoParseF (rest.getD 13 "")
      let c ← orthoParseF (rest.getD 14 "")
      pure (orthoShowV (orthoToEcf P r c))
    else none
  | "e2o" :: rest =>
    if rest.length = 16 then do
      let P ← orthoParsePlane (rest.take 13)
      let x ← orthoParseF (rest.getD 13 "")
      let y ← orthoParseF (rest.getD 14 "")
      let z ← orthoParseF (rest.getD 15 "")
      let o := planeEcfToOrtho P ⟨x, y, z⟩
      pure s!"{orthoShowF o.1} {orthoShowF o.2}"
    else none
  | "prod" :: rest =>
    if rest.length = 17 then do
      let P ← orthoParsePlane (rest.take 13)
      let r0 ← orthoParseF (rest.getD 13 "")
      let c0 ← orthoParseF (rest.getD 14 "")
      let i ← orthoParseF (rest.getD 15 "")
      let j ← orthoParseF (rest.getD 16 "")
      pure (orthoShowV (orthoToEcf (productPlane P r0 c0) i j))
    else none
  | ["idx", g0, n, x] => do
    let g0 ← g0.toInt?
    let n ← n.toNat?
    let x ← orthoParseF x
    pure s!"{orthoShowIdx (codeIndex g0 n x)} {orthoShowIdx (nearestIndex g0 n x)} {nearestPixel x} {orthoShowIdx (fixedIndex g0 n x)}"
  | ["nn", g0r, nr, g0c, nc, x, y] => do
    let g0r ← g0r.toInt?
    let nr ← nr.toNat?
    let g0c ← g0c.toInt?
    let nc ← nc.toNat?
    let x ← orthoParseF x
    let y ← orthoParseF y
    let vals : Nat → Nat → Option (Nat × Nat) := fun i j => some (i, j)
    pure s!"{orthoShowPair "c" (codeSample vals none g0r nr g0c nc x y)} {orthoShowPair "n" (nearestSample vals none g0r nr g0c nc x y)}"
  | ["fbs", b, f] => do
    let b ← b.toNat?
    let f ← f.toNat?
    if f = 0 then none else pure (toString (fetchBlockSize b f))
  | ["blocks", size, step] => do
    let size ← size.toNat?
    let step ← step.toNat?
    if step = 0 then none else
    pure (",".intercalate ((orthoBlocks size step).map (fun p => s!"{p.1}:{p.2}")))
  | ["asm", R, C, step, dim] => do
    let R ← R.toNat?
    let C ← C.toNat?
    let step ← step.toNat?
    if step = 0 then none else
    let pix : Nat → Nat → Nat := fun r c => r * C + c
    let whole := productWhole pix R C
    let got ← match dim with
      | "0" => some (assembleCols pix R (orthoBlocks C step))
      | "1" => some (assembleRows pix C (orthoBlocks R step))
      | _ => none
    pure (if got == whole then "eq" else "ne")
  | _ => none

end Sarpy.Drivers
