import SarpyModel.Drivers.Util
import SarpyModel.Spec.Remap
/-
  Line-protocol driver for Spec.Remap at `Float` (IEEE double, the type numpy uses).

  Floats cross the protocol as the decimal value of their 64 bit patterns (no text rounding).
  Embedding of IEEE specials: an input amplitude that is NaN becomes `Amp.nan`, +-inf becomes
  `Amp.inf`; a computed raw value is re-classified (`extNorm`) before the clip-and-cast, so that
  NaN/inf produced *inside* a Float computation are handled by the model's tags and never by
  Lean's `min`/`max` on NaN.

  requests (after the first word `remap`):
    cc    M  xs                          clipCast of raw values
    dens  M dmin mmult mean  amps        Density family / GDM       -> raw:int per pixel
    pedf  M dmin mmult mean  amps        PEDF
    lin   M lo hi  amps                  Linear
    log   M lo hi  amps                  Logarithmic
    nrl   M knee amin amax chg  amps     NRL
    coded dens|pedf M dmin mmult mean amps    the chunk function with the all-zero short cut -> ints
    lut   row;row;...  i,i,...           table lookup (rows are opaque strings)
-/
namespace Sarpy.Drivers
open Sarpy.Spec.Remap

instance remapNatCastFloat : NatCast Float := ⟨Float.ofNat⟩

instance remapFnsFloat : RemapFns Float where
  log10 := Float.log10
  log2 := Float.log2
  trunc x := x.toUInt64.toNat

def parseF (s : String) : Option Float := s.toNat?.map (fun n => Float.ofBits (UInt64.ofNat n))
def parseFs (s : String) : Option (List Float) := if s == "-" then some [] else (s.splitOn ",").mapM parseF
def showF (x : Float) : String := toString x.toBits.toNat

def ampOf (x : Float) : Amp Float := if x.isNaN then .nan else if x.isInf then .inf else .fin x

def extNorm : Ext Float → Ext Float
  | .fin x => if x.isNaN then .nan else if x.isInf then (if x > 0 then .pinf else .ninf) else .fin x
  | e => e

def extToFloat : Ext Float → Float
  | .fin x => x
  | .pinf => 1.0 / 0.0
  | .ninf => -1.0 / 0.0
  | .nan => 0.0 / 0.0

def showPx (M : Nat) (raw : Ext Float) : String :=
  let r := extNorm raw
  s!"{showF (extToFloat r)}:{clipCast M r}"

def showAll (M : Nat) (f : Amp Float → Ext Float) (amps : List Float) : String :=
  if amps.isEmpty then "-" else ",".intercalate (amps.map (fun a => showPx M (f (ampOf a))))

def showNats (l : List Nat) : String := if l.isEmpty then "-" else ",".intercalate (l.map toString)

/-- final pixel value with the re-classification step in between -/
def pxOf (M : Nat) (f : Amp Float → Ext Float) (p : Amp Float) : Nat := clipCast M (extNorm (f p))

def remapStep (toks : List String) : Option String :=
  match toks with
  | ["cc", m, xs] => do
    let M ← m.toNat?
    let l ← parseFs xs
    pure (showNats (l.map (fun x => clipCast M (extNorm (.fin x)))))
  | ["dens", m, dmin, mmult, mean, amps] => do
    pure (showAll (← m.toNat?) (densityRaw (← m.toNat?) (← parseF dmin) (← parseF mmult) (← parseF mean)) (← parseFs amps))
  | ["pedf", m, dmin, mmult, mean, amps] => do
    pure (showAll (← m.toNat?) (pedfRaw (← m.toNat?) (← parseF dmin) (← parseF mmult) (← parseF mean)) (← parseFs amps))
  | ["lin", m, lo, hi, amps] => do
    pure (showAll (← m.toNat?) (linearRaw (← m.toNat?) (← parseF lo) (← parseF hi)) (← parseFs amps))
  | ["log", m, lo, hi, amps] => do
    pure (showAll (← m.toNat?) (logRaw (← m.toNat?) (← parseF lo) (← parseF hi)) (← parseFs amps))
  | ["nrl", m, knee, amin, amax, chg, amps] => do
    pure (showAll (← m.toNat?) (nrlRaw (← m.toNat?) (← parseF knee) (← parseF amin) (← parseF amax) (← parseF chg)) (← parseFs amps))
  | ["coded", kind, m, dmin, mmult, mean, amps] => do
    let M ← m.toNat?
    let d ← parseF dmin
    let mm ← parseF mmult
    let mu ← parseF mean
    let l ← parseFs amps
    let raw ← (match kind with
      | "dens" => some (densityRaw M d mm mu)
      | "pedf" => some (pedfRaw M d mm mu)
      | _ => none)
    pure (showNats (chunkCoded (pxOf M raw) (l.map ampOf)))
  | ["lut", rows, idx] => do
    let table := rows.splitOn ";"
    let is ← if idx == "-" then some [] else (idx.splitOn ",").mapM String.toNat?
    pure (";".intercalate (lutRemap table "?" id is))
  | _ => none

end Sarpy.Drivers
