import SarpyModel.Spec.PyPrelude
namespace Sarpy.Drivers
open Sarpy

def po : Option Int → String
  | none => "N"
  | some v => toString v
def ps (s : PySlice) : String := s!"{po s.start},{po s.stop},{po s.step}"
def parseO (s : String) : Option (Option Int) :=
  if s == "N" then some none else (s.toInt?).map some
def pl (l : List Int) : String := "[" ++ ",".intercalate (l.map toString) ++ "]"
def exc {α} (f : α → String) : Except String α → String
  | .ok v => "ok " ++ f v
  | .error e => "err " ++ e

end Sarpy.Drivers
