import SarpyModel.Drivers.Util
import SarpyModel.Spec.Poly
namespace Sarpy.Drivers
open Sarpy.Spec.Poly

def parseQ (s : String) : Option Rat :=
  match s.splitOn "/" with
  | [a] => a.toInt?.map (fun n => (n : Rat))
  | [a, b] => do
    let n ← a.toInt?
    let d ← b.toNat?
    if d == 0 then none else pure (mkRat n d)
  | _ => none

def showQ (q : Rat) : String := s!"{q.num}/{q.den}"
def parseQs (s : String) : Option (List Rat) := if s == "-" then some [] else (s.splitOn ",").mapM parseQ
def showQs (l : List Rat) : String := if l.isEmpty then "-" else ",".intercalate (l.map showQ)
def parseRows (s : String) : Option (List (List Rat)) := (s.splitOn ";").mapM parseQs
def showRows (p : List (List Rat)) : String := ";".intercalate (p.map showQs)

def polyStep (toks : List String) : Option String :=
  match toks with
  | ["eval", c, x] => do pure (showQ (eval (← parseQs c) (← parseQ x)))
  | ["shift", t0, a, c] => do pure (showQs (shift (← parseQ t0) (← parseQ a) (← parseQs c)))
  | ["der", n, c] => do pure (showQs (derN (← n.toNat?) (← parseQs c)))
  | ["min", c] => do pure (showQs (minimize (← parseQs c)))
  | ["min2", p] => do pure (showRows (minimize2 (← parseRows p)))
  | ["eval2", p, x, y] => do pure (showQ (eval2 (← parseRows p) (← parseQ x) (← parseQ y)))
  | ["shift2", s1, a1, s2, a2, p] => do
    pure (showRows (shift2 (← parseQ s1) (← parseQ a1) (← parseQ s2) (← parseQ a2) (← parseRows p)))
  | ["xyz", n, px, py, pz, ts] => do
    pure (showQs (xyzDerEvalFlat (← n.toNat?) (← parseQs px) (← parseQs py) (← parseQs pz) (← parseQs ts)))
  | _ => none

end Sarpy.Drivers
