/-
  Line-protocol driver for the TRE envelope (Spec.Tre) over the generated TRE descriptions (Gen/TreTablesDefs.lean).
    tre tables                      -> names of the generated descriptions, comma separated
    tre dispatch                    -> <name>:<len>=<variant>/<len>=<variant>,...    (hand-written from_bytes overrides)
    tre wf  <name>                  -> true | false
    tre enc <name> <value>          -> <okTre> <hex of encTre> <treLen> <conformant(payload)>
    tre dec <name> <hex>            -> ok <value> <hex of rest> <conformant(payload)>   |  none
    tre pick <name> <hex>           -> variant name | none                              (dispatch by announced length)
  <value> syntax: see Drivers/FieldFmt2.lean
-/
import SarpyModel.Drivers.Util
import SarpyModel.Drivers.FieldFmt2
import SarpyModel.Spec.Tre
import SarpyModel.Gen.TreTablesDefs
namespace Sarpy.Drivers
open Sarpy.Spec.FieldFmt2 Sarpy.Spec.Tre

def findTre (name : String) : Option (Sarpy.Spec.FieldFmt.Bytes × Fmt) :=
  (Sarpy.Gen.Tre.tables.find? (fun t => t.1 == name)).map (fun t => t.2)

def treStep (toks : List String) : Option String :=
  match toks with
  | ["tables"] => some (",".intercalate (Sarpy.Gen.Tre.tables.map (fun t => t.1)))
  | ["dispatch"] => some (",".intercalate (Sarpy.Gen.Tre.dispatch.map (fun d =>
      d.1 ++ ":" ++ "/".intercalate (d.2.2.map (fun p => toString p.1 ++ "=" ++ p.2)))))
  | ["wf", t] => do
    let (_, f) ← findTre t
    pure (toString (wellFormed f [1]))
  | ["enc", t, v] => do
    let (tag, f) ← findTre t
    let v ← parseVal2 v
    let payload := encode (treEnv f v) f v
    pure s!"{okTre f v} {showHex (encTre tag f v)} {treLen f v} {conformant (treEnv f v) f payload}"
  | ["dec", t, hex] => do
    let (tag, f) ← findTre t
    let bs ← parseHex hex
    match decTre tag f bs with
    | none => pure "none"
    | some (v, rest) =>
      let l := bs.length - 11 - rest.length
      pure s!"ok {showVal2 v} {showHex rest} {conformant [(1, .nat l)] f ((bs.drop 11).take l)}"
  | ["pick", d, hex] => do
    let e ← Sarpy.Gen.Tre.dispatch.find? (fun t => t.1 == d)
    let bs ← parseHex hex
    pure ((pickVariant e.2.2 bs).getD "none")
  | _ => none

end Sarpy.Drivers
