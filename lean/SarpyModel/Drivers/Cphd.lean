import SarpyModel.Drivers.Util
import SarpyModel.Spec.CphdLayout
import SarpyModel.Drivers.CphdWriter
namespace Sarpy.Drivers
open Sarpy.Spec.CphdLayout

/-- `layout xmlOff xmlSize suppSize|N pvpSize sigSize` → `xmlOff xmlSize suppOff|N suppSize|N pvpOff pvpSize sigOff sigSize fileEnd` -/
def cphdStep (toks : List String) : Option String :=
  match toks with
  | ["layout", xo, xs, ss, ps, gs] => do
    let xo ← xo.toNat?; let xs ← xs.toNat?; let ps ← ps.toNat?; let gs ← gs.toNat?
    let ss ← (if ss == "N" then some none else ss.toNat?.map some)
    let b := layout xo xs ss ps gs
    let sp := match b.supp with | some (o, s) => s!"{o} {s}" | none => "N N"
    pure s!"{b.xmlOff} {b.xmlSize} {sp} {b.pvpOff} {b.pvpSize} {b.sigOff} {b.sigSize} {fileEnd b}"
  | ["ranges", off, rel] => do
    let off ← off.toNat?
    let rel ← (rel.splitOn ",").mapM (fun t => match t.splitOn ":" with
      | [a, b] => do pure ((← a.toNat?), (← b.toNat?))
      | _ => none)
    pure (",".intercalate ((elementRanges off rel).map (fun r => s!"{r.1}:{r.2}")))
  | ["retry", xo, hb] => do
    let xo ← xo.toNat?; let hb ← hb.toNat?
    pure (match retryOffset xo hb with | some v => toString v | none => "N")
  | "wrun" :: _ => cphdwStep toks          -- writer state machine (Drivers/CphdWriter.lean)
  | "gen" :: _ => cphdGenStep toks         -- regenerated make_file_header kernels
  | "hdrtext" :: _ => cphdHdrStep toks     -- explicit header text + retry rule
  | _ => none

end Sarpy.Drivers
