import SarpyModel.Drivers.Hdr
import SarpyModel.Gen.HdrSidd
namespace Sarpy.Drivers
open Sarpy.Spec.Hdr

/-- line protocol `hdrsidd ...` (harness/hdr.py): the SIDD part of Drivers/Hdr.lean -/
def hdrsiddStep (toks : List String) : Option String :=
  match toks with
  | ["whdr", pt, rows, cols] =>
    match rows.toNat?, cols.toNat? with
    | some r, some c => some (s!"S={hdrExc hdrShowHdr (siddWriterHdr (hdrStr pt) r c "")} G={hdrExc hdrShowHdr (Gen.HdrSidd.sidd_writer_hdr (hdrStr pt) r c "")}")
    | _, _ => none
  | ["read", pil, hs] =>
    (hdrParse hs).map (fun h =>
      let p := pil == "1"
      s!"R={hdrOutcome (siddRead p h)} W={hdrOutcome (siddWrite p h)} C={hdrBool (siddReaderCompliance h p)} " ++
      s!"GC={hdrExc hdrBool (Gen.HdrSidd.sidd_reader_compliance h p)} WC={hdrExc (fun _ => "1") (nitfWriterCompliance h p)} " ++
      s!"GWC={hdrExc (fun _ => "1") (Gen.Hdr.nitf_writer_compliance h p)} " ++
      s!"NC={hdrBool (nitfReaderCompliance h p)} GNC={hdrExc hdrBool (Gen.Hdr.nitf_reader_compliance h p)}")
  | ["glue"] => some (toString (Gen.HdrSidd.glue == glueSidd))
  | _ => none

end Sarpy.Drivers
