import SarpyModel.Drivers.Util
import SarpyModel.Spec.Scatter
namespace Sarpy.Drivers
open Sarpy.Spec

/-- request: `hist n c1;c2;...` where each chunk is `pos:val,pos:val,...`.
    answer: `<store> | <pixelsWritten> <reportsFullyWritten> <fullyWritten>` -/
def parseChunk (s : String) : Option (Chunk Int) :=
  if s == "" then some [] else
  (s.splitOn ",").mapM (fun t => match t.splitOn ":" with
    | [a, b] => do let a ← a.toNat?; let b ← b.toInt?; pure (a, b)
    | _ => none)

def scatterStep (toks : List String) : Option String :=
  match toks with
  | ["hist", n, body] => do
    let n ← n.toNat?
    let chunks ← ((body.splitOn ";").filter (· ≠ "-")).mapM parseChunk
    let st := writeAll (emptyStore Int n) chunks
    let cells := st.map (fun o => match o with | none => "_" | some v => toString v)
    pure (",".intercalate cells ++ s!" | {pixelsWritten chunks} {reportsFullyWritten n chunks} {fullyWritten st}")
  | _ => none

end Sarpy.Drivers
