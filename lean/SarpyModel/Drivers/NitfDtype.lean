import SarpyModel.Drivers.Util
import SarpyModel.Spec.NitfDtype
namespace Sarpy.Drivers
open Sarpy.Spec.NitfDtype

/-- `nitfdtype order <labels separated by commas, _ for an empty label> <pvtype>`:
    `<order or N> <formatted bands> <pvtype admitted 1/0>` -/
def nitfdtypeStep (toks : List String) : Option String :=
  match toks with
  | ["order", labs, pv] =>
    let subs := (labs.splitOn ",").map (fun s => if s == "_" then "" else s)
    match complexOrder subs with
    | some o => some s!"{o.name} {formattedBands subs} {if pvtypeOK o pv then 1 else 0}"
    | none => some s!"N {formattedBands subs} 1"
  | _ => none

end Sarpy.Drivers
