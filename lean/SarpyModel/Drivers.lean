import SarpyModel.Drivers.Slice
import SarpyModel.Drivers.Scatter
import SarpyModel.Drivers.Poly
import SarpyModel.Drivers.FieldFmt
import SarpyModel.Drivers.Layout
import SarpyModel.Drivers.Sidd
import SarpyModel.Drivers.Cphd
import SarpyModel.Drivers.Codec
import SarpyModel.Drivers.Geo
import SarpyModel.Drivers.Remap
import SarpyModel.Drivers.Opener
import SarpyModel.Drivers.Crsd
import SarpyModel.Drivers.Proj
import SarpyModel.Drivers.Lifecycle
import SarpyModel.Drivers.XmlFmt
import SarpyModel.Drivers.Checker
import SarpyModel.Drivers.Ortho
import SarpyModel.Drivers.Chip
import SarpyModel.Drivers.Supported
import SarpyModel.Drivers.Segment
import SarpyModel.Drivers.FieldFmt2
import SarpyModel.Drivers.XsdFmt
import SarpyModel.Drivers.Kernels2
import SarpyModel.Drivers.Loops
import SarpyModel.Drivers.LoopsChip
import SarpyModel.Drivers.LoopsSidd
import SarpyModel.Drivers.LoopsAttach
import SarpyModel.Drivers.PolyLoops
import SarpyModel.Drivers.NitfAssembly
import SarpyModel.Drivers.LifeGen
import SarpyModel.Drivers.CheckerRules
import SarpyModel.Drivers.CheckerGen
import SarpyModel.Drivers.Tre
import SarpyModel.Drivers.Dispatch
import SarpyModel.Drivers.DispatchGen
import SarpyModel.Drivers.NitfDtype
import SarpyModel.Drivers.Hdr
import SarpyModel.Drivers.HdrSicd
import SarpyModel.Drivers.HdrSidd
import SarpyModel.Drivers.SegHist
namespace Sarpy.Drivers

def step (line : String) : String :=
  let toks := (line.trimAscii.toString.splitOn " ").filter (· ≠ "")
  match toks with
  | "slice" :: rest => (sliceStep rest).getD "bad-op"
  | "scatter" :: rest => (scatterStep rest).getD "bad-op"
  | "poly" :: rest => (polyStep rest).getD "bad-op"
  | "nitf" :: rest => (fieldStep rest).getD "bad-op"
  | "layout" :: rest => (layoutStep rest).getD "bad-op"
  | "sidd" :: rest => (siddStep rest).getD "bad-op"
  | "cphd" :: rest => (cphdStep rest).getD "bad-op"
  | "codec" :: rest => (codecStep rest).getD "bad-op"
  | "geo" :: rest => (geoStep rest).getD "bad-op"
  | "remap" :: rest => (remapStep rest).getD "bad-op"
  | "opener" :: rest => (openerStep rest).getD "bad-op"
  | "crsd" :: rest => (crsdStep rest).getD "bad-op"
  | "proj" :: rest => (projStep rest).getD "bad-op"
  | "life" :: rest => (lifeStep rest).getD "bad-op"
  | "xml" :: rest => (xmlStep rest).getD "bad-op"
  | "checker" :: rest => (checkerStep rest).getD "bad-op"
  | "ortho" :: rest => (orthoStep rest).getD "bad-op"
  | "chip" :: rest => (chipStep rest).getD "bad-op"
  | "supported" :: rest => (supportedStep rest).getD "bad-op"
  | "seg" :: rest => (segStep rest).getD "bad-op"
  | "fmt2" :: rest => (fmt2Step rest).getD "bad-op"
  | "xsd" :: rest => (xsdStep rest).getD "bad-op"
  | "k2" :: rest => (k2Step rest).getD "bad-op"
  | "loops" :: rest => (loopsStep rest).getD "bad-op"
  | "loopsc" :: rest => (loopscStep rest).getD "bad-op"
  | "loopss" :: rest => (loopssStep rest).getD "bad-op"
  | "loopsa" :: rest => (loopsaStep rest).getD "bad-op"
  | "polyl" :: rest => (polylStep rest).getD "bad-op"
  | "nitfasm" :: rest => (nitfasmStep rest).getD "bad-op"
  | "lifegen" :: rest => (lifeGenStep rest).getD "bad-op"
  | "chkspec" :: rest => (chkspecStep rest).getD "bad-op"
  | "chkgen" :: rest => (chkgenStep rest).getD "bad-op"
  | "tre" :: rest => (treStep rest).getD "bad-op"
  | "disp" :: rest => (dispStep rest).getD "bad-op"
  | "dispgen" :: rest => (dispgenStep rest).getD "bad-op"
  | "nitfdtype" :: rest => (nitfdtypeStep rest).getD "bad-op"
  | "hdr" :: rest => (hdrStep rest).getD "bad-op"
  | "hdrsicd" :: rest => (hdrsicdStep rest).getD "bad-op"
  | "hdrsidd" :: rest => (hdrsiddStep rest).getD "bad-op"
  | "seghist" :: rest => (seghistStep rest).getD "bad-op"
  | _ => "bad-op"

partial def loop (h : IO.FS.Stream) : IO Unit := do
  let line ← h.getLine
  if line.isEmpty then return ()
  IO.println (step line)
  loop h

def mainLoop : IO Unit := do loop (← IO.getStdin)

end Sarpy.Drivers
