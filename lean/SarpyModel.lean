-- root of the library: every model, proof and property file
import SarpyModel.Props.C01
import SarpyModel.Props.C07
import SarpyModel.Props.C16
import SarpyModel.Props.C13
import SarpyModel.Props.C03
import SarpyModel.Props.C02
import SarpyModel.Props.C10
import SarpyModel.Props.C09
import SarpyModel.Props.C08
import SarpyModel.Props.C12
import SarpyModel.Props.C17
import SarpyModel.Props.C14
import SarpyModel.Props.C11
import SarpyModel.Props.C04
import SarpyModel.Props.C19
import SarpyModel.Gen.NitfTables
import SarpyModel.Drivers
