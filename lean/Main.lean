/-
  Line-protocol driver for the executable models.  One request per line on stdin, one answer
  per line on stdout.  Run with `lake env lean --run Main.lean`.
-/
import SarpyModel.Drivers

def main : IO Unit := Sarpy.Drivers.mainLoop
