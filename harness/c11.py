"""C11 — a CRSD written by sarpy reads back identically and its header describes the file.

proof side : lean/SarpyModel/Props/C11.lean (CRSD instantiation: ordered / disjoint / aligned blocks, file end, header text fits for the
             layout the retry rule returns, XML offset aligned, packed elements tile their block) on top of Props/C09.lean; Props/C11W.lean (explicit
             CRSD header text, retry termination, writer state machine restated for CRSDWriter1); Bridge/Cphd.lean (the kernels and header tables
             regenerated from CRSD.py equal the reference definitions)
tie        : translator (translate/gen_cphd.py, Gen/CphdKernels.lean regenerated from CRSD.py on every run, bridge theorems in REQUIRED, three-way
             differential Python fragment / Gen / Spec); op-history correspondence of the writer machine with CRSDWriter1 (harness/cphdwriter.py);
             the header CRSDWriter1 actually wrote is compared, number by number, with the Lean model:
             `cphd layout` (block chain), `crsd header` (header text length + retry rule from offset 1024), `cphd ranges` / `crsd packed`
             (per-channel / per-support-array byte ranges from the metadata's relative offsets)
search     : independent byte-level parser of the written file (cphdgen.check_layout), the payload bytes found at the independently computed
             positions, reopen through open_received and compare every PVP field, support array, raw / formatted signal, sub-region reads, metadata
"""
import io
import json
import logging
import os
import random
import shutil
import tempfile

import numpy

from common import Check, Driver, Infra, sarpy_guard
import cphdgen
import crsdgen
import cphdwriter
import cphdkernels
from c02 import meta_diff

REQUIRED = ['crsd_layout_sound', 'blocks_disjoint', 'file_end_bounds', 'no_support_special_case', 'packedB_iff', 'packed_ranges_within',
            'packed_ranges_first', 'packed_ranges_last', 'elements_tile_block', 'digits_pos', 'hdrLen_lower', 'choose_second', 'crsd_first_guess',
            'crsd_header_fits', 'choose_xml_aligned', 'crsd_xml_aligned', 'crsd_file_wellformed',
            # Bridge/Cphd.lean: regenerated CRSD.py kernels / tables = reference definitions
            'gen_align', 'gen_retry_align', 'gen_chain', 'gen_retry', 'gen_header_tables'] + cphdwriter.REQUIRED_W11
KIND = 'CRSD'
VERSION = '1.0.0'            # the only CRSD version sarpy declares writable (crsd_schema.WRITABLE_VERSIONS)

KEY_AMPSF = 'crsd-writer-ampsf-pvp-write'
KEY_INTIDX = 'crsd-writer-integer-channel-index'
KEY_HDRFIT = 'crsd-header-fit-counts-characters'


def gen_case(rng):
    fmt = rng.choice(['CI2', 'CI4', 'CF8'])
    nch = rng.choice([1, 1, 2, 3, 4])
    sizes = [(rng.randint(1, 9) if rng.random() < 0.3 else rng.randint(4, 12), rng.randint(1, 8)) for _ in range(nch)]
    amp = rng.random() < 0.5
    nsup = rng.choice([0, 0, 1, 2, 3])
    sup = [(rng.randint(1, 5), rng.randint(1, 6), rng.choice(sorted(crsdgen.SUPPORT_KINDS))) for _ in range(nsup)]
    text = rng.choice([None, None, 'café Ünïcode', 'x' * rng.randint(1, 70), '日本'])
    opts = [o for o in ('DGRGC', 'SIGNAL', 'RcvAntenna', 'TxPulse', 'AddedPVP') if rng.random() < 0.35]
    if 'TxPulse' in opts:
        opts += [o for o in ('TxLFM', 'TxAntenna') if rng.random() < 0.5]
    collect = rng.choice(['MONOSTATIC', 'BISTATIC']) if 'TxPulse' in opts else rng.choice(['MONOSTATIC', 'RECEIVE ONLY'])
    release = rng.choice(['UNRESTRICTED'] * 5 + ['APPROVED FOR TEST USE', 'R' * rng.randint(700, 1100), ('LONG RELEASE TEXT ' * rng.randint(50, 120)).strip(),
                                                 'DIFFUSION RESTREINTE \u2013 ' + '\u00c9' * rng.randint(5, 900)])
    classification = rng.choice(['UNCLASSIFIED'] * 4 + ['UNCLASSIFIED//TEST DATA ONLY', ('UNCLASSIFIED//' + 'HANDLING CAVEAT ' * rng.randint(48, 80)).strip()])
    target = rng.choice(['path', 'bytesio', 'fileobj'])
    plan = {'mode': rng.choice(['file', 'pieces']), 'formatted': rng.random() < 0.5, 'chunks': rng.random() < 0.7,
            'order': rng.sample(['pvp', 'support', 'signal'], 3), 'index_by': 'name'}
    if plan['mode'] == 'pieces' and rng.random() < 0.35:
        plan['index_by'] = 'int'
    plan['permute_pvp_fields'] = rng.random() < 0.3
    if amp and plan['formatted'] and plan['mode'] == 'pieces' and plan['order'].index('pvp') > plan['order'].index('signal'):
        plan['order'] = ['pvp'] + [x for x in plan['order'] if x != 'pvp']   # AmpSF must be known before formatted writes (documented)
    return {'fmt': fmt, 'sizes': sizes, 'amp_sf': amp, 'support': sup, 'text': text, 'pvp_options': opts, 'collect_type': collect,
            'release_info': release, 'classification': classification, 'target': target, 'plan': plan, 'data_seed': rng.getrandbits(48)}


def case_class(c):
    return (c['fmt'], min(len(c['sizes']), 3), c['amp_sf'], min(len(c['support']), 2), c['text'] is not None and not c['text'].isascii(),
            c['target'], c['plan']['mode'], c['plan']['formatted'], c['plan']['index_by'], len(c['release_info']) > 600, len(c['classification']) > 600, c['release_info'].isascii(),
            bool(c['pvp_options']))


def write_case(rng, meta, pvp, raw, support, case, tmpdir, index_by):
    """writes one file as the plan says; returns its bytes"""
    from sarpy.io.received.crsd import CRSDWriter1
    plan, target = case['plan'], case['target']
    path = os.path.join(tmpdir, 'out.crsd')
    if os.path.exists(path):
        os.remove(path)
    fo = path if target == 'path' else (io.BytesIO() if target == 'bytesio' else open(path, 'w+b'))
    w = None
    try:
        w = CRSDWriter1(fo, meta.copy(), check_existence=False)
        if plan.get('permute_pvp_fields'):
            pvp = cphdgen.permute_pvp_fields(rng, pvp)
        amp = {k: (v['AmpSF'] if 'AmpSF' in v.dtype.names else None) for k, v in pvp.items()}
        # the caller's arrays may be big-endian (as the file), little-endian or native: the file must hold the VALUES
        order = rng.choice(cphdwriter.BYTE_ORDERS)
        raw_in = raw
        pvp = {k: cphdwriter.reorder(v, order) for k, v in pvp.items()}
        support = {k: cphdwriter.reorder(v, rng.choice(cphdwriter.BYTE_ORDERS)) for k, v in (support or {}).items()}
        chan_ids = [c.Identifier for c in meta.Data.Channels]
        sup_ids = [s.Identifier for s in (meta.Data.SupportArrays or [])]
        key = (lambda ids, k: ids.index(k)) if index_by == 'int' else (lambda ids, k: k)
        if plan['mode'] == 'file':
            if plan['formatted']:
                w.write_file(pvp, {k: cphdgen.formatted(v, amp[k]) for k, v in raw.items()}, support or None)
            else:
                w.write_file_raw(pvp, {k: cphdwriter.reorder(v, order) for k, v in raw_in.items()}, support or None)
        else:
            for step in plan['order']:
                if step == 'pvp':
                    for k in chan_ids:
                        w.write_pvp_array(key(chan_ids, k), pvp[k])
                elif step == 'support':
                    for k in sup_ids:
                        w.write_support_array(key(sup_ids, k), support[k])
                elif step == 'signal':
                    for k in chan_ids:
                        v = raw[k]
                        nv = v.shape[0]
                        cuts = sorted(rng.sample(range(1, nv), min(nv - 1, rng.randint(0, 2)))) if (plan['chunks'] and nv > 1) else []
                        edges = [0] + cuts + [nv]
                        pieces = list(zip(edges[:-1], edges[1:]))
                        rng.shuffle(pieces)
                        for a, b in pieces:
                            where = cphdwriter.place_kwargs(rng.choice(cphdwriter.FORMS + ['int']), a, b, not plan['formatted'], v.shape[1])
                            if plan['formatted']:
                                w.write(cphdgen.formatted(v[a:b], None if amp[k] is None else amp[k][a:b]), index=key(chan_ids, k), **where)
                            else:
                                w.write_raw(cphdwriter.reorder(v[a:b], rng.choice(cphdwriter.BYTE_ORDERS)), index=key(chan_ids, k), **where)
        w.close()
        if target == 'path':
            return open(path, 'rb').read()
        if fo.closed:
            raise ValueError("the writer closed the caller's file object")
        if target == 'bytesio':
            return fo.getvalue()
        fo.flush()
        fo.seek(0)
        return fo.read()
    except Exception:
        if w is not None:      # clean up after the failure that is being reported (else the half-written writer complains again when collected)
            try:
                w.close()
            except Exception:
                pass
        raise
    finally:
        if target == 'fileobj' and not fo.closed:
            fo.close()


def classify_write_error(e, case, index_by):
    s = f'{type(e).__name__}: {e}'
    if 'closed the caller' in s:
        return 'writer-closes-caller-file'
    if isinstance(e, AttributeError) and 'SignalCompressionID' in s and case['amp_sf']:
        return KEY_AMPSF
    if isinstance(e, AttributeError) and 'NumCPHDChannels' in s and index_by == 'int':
        return KEY_INTIDX
    return None


def header_fixed_lengths(ver, meta):
    """byte lengths (UTF-8) of the strings of the header text that do not depend on the layout (independent of sarpy's header class)"""
    return len(f'{KIND}/{ver}'.encode()), len(meta.CollectionID.Classification.encode()), len(meta.CollectionID.ReleaseInfo.encode())


def header_overrun(buf, case):
    """the specific configuration of KEY_HDRFIT: the file starts with the expected header text, but the text (non-ASCII strings) is cut off by
    the XML block before its RELEASE_INFO line and terminator are complete"""
    want = f'RELEASE_INFO := {case["release_info"]}\n'.encode() + b'\f\n'
    xml_at = buf.find(b'<CRSD')
    return buf.startswith(f'{KIND}/'.encode()) and want not in buf and xml_at > 0 and want[:24] in buf[:xml_at]


def one_case(case, tmpdir, drv=None):
    """runs one case on the real code. Returns (fails, stats increments, model job or None)"""
    from sarpy.io.received.converter import open_received
    fails, st, job = [], {}, None
    bump = lambda k: st.__setitem__(k, st.get(k, 0) + 1)
    rng = random.Random(case['data_seed'])
    meta = crsdgen.build_meta(case['fmt'], [tuple(s) for s in case['sizes']], case['amp_sf'], [tuple(s) for s in case['support']], case['text'],
                              case['pvp_options'], case['collect_type'], case['classification'], case['release_info'])
    try:
        errs = crsdgen.validate(meta)
    except ImportError:
        errs = None
    if errs:
        raise Infra('the CRSD metadata generator produced a document the bundled schema refuses: ' + '; '.join(errs[:2]))
    bump('schema_validated' if errs is not None else 'schema_not_validated')
    pvp, raw, support = crsdgen.make_pvp(meta, rng), crsdgen.make_raw(meta, rng), crsdgen.make_support(meta, rng)
    amp = case['amp_sf']
    buf = None
    for index_by in ([case['plan']['index_by']] + (['name'] if case['plan']['index_by'] == 'int' else [])):
        try:
            buf = write_case(random.Random(case['data_seed'] + 1), meta, pvp, raw, support, case, tmpdir, index_by)
            break
        except Exception as e:
            key = classify_write_error(e, case, index_by)
            fails.append({'kind': 'write', 'msg': f'CRSD write failed ({"integer" if index_by == "int" else "string"} channel / support array identifiers): '
                                                   f'{type(e).__name__}: {e}', 'case': case, 'key': key})
            if key != KEY_INTIDX:
                break           # only the integer-identifier failure is retried (with names) to keep the rest of the case covered
    if buf is None:
        return fails, st, None
    bump('files')
    # ---- independent parse of the bytes
    ascii_header = case['classification'].isascii() and case['release_info'].isascii()
    parser_clash = None
    if ascii_header:
        problems, kv = cphdgen.check_layout(buf, KIND)
        p2, kv2 = crsdgen.check_layout(buf, KIND)       # the UTF-8 twin of the parser must say the same
        if bool(problems) != bool(p2) or (not problems and kv != kv2):
            # two independent parsers disagree about a file sarpy wrote: that is a statement about the file (reported with the file), not about the harness
            parser_clash = f'the two independent header parsers disagree about the written file: {problems} / {p2}'
        if p2:
            problems = p2           # the UTF-8 parser states overruns exactly; the ASCII one may only fail to decode
        if kv is None:
            kv = kv2
    else:
        bump('non_ascii_header')
        problems, kv = crsdgen.check_layout(buf, KIND)
    if problems or parser_clash:
        case = dict(case, file_bytes=len(buf), file_head_hex=buf[:1536].hex())      # the replay carries the head of the file itself
    if parser_clash:
        fails.append({'kind': 'layout', 'msg': parser_clash, 'case': case, 'key': None})
    hkey = KEY_HDRFIT if (problems and not ascii_header and header_overrun(buf, case)) else None
    for p in problems:
        fails.append({'kind': 'layout', 'msg': 'header does not describe the file: ' + p, 'case': case, 'key': hkey})
    if kv and not problems:
        _, ver, _, hend = crsdgen.parse_header(buf)
        g = lambda k: int(kv[k])
        if ver != VERSION:
            fails.append({'kind': 'layout', 'msg': f'file declares CRSD/{ver}, the writable CRSD version is {VERSION}', 'case': case})
        for name in ['XML', 'SUPPORT', 'PVP', 'SIGNAL']:
            if name + '_BLOCK_BYTE_OFFSET' in kv and g(name + '_BLOCK_BYTE_OFFSET') % 64 != 0:
                fails.append({'kind': 'layout', 'msg': f'{name} block offset {g(name + "_BLOCK_BYTE_OFFSET")} is not 64-byte aligned', 'case': case})
        if ('SUPPORT_BLOCK_BYTE_OFFSET' in kv) != bool(support) or ('SUPPORT_BLOCK_SIZE' in kv) != bool(support):
            fails.append({'kind': 'layout', 'msg': f'header {"has" if "SUPPORT_BLOCK_SIZE" in kv else "lacks"} a SUPPORT block entry for {len(support)} support arrays', 'case': case})
        if kv.get('CLASSIFICATION') != case['classification'] or kv.get('RELEASE_INFO') != case['release_info']:
            fails.append({'kind': 'layout', 'msg': 'header CLASSIFICATION / RELEASE_INFO differ from CollectionID', 'case': case})
        if g('XML_BLOCK_BYTE_OFFSET') != 1024:
            bump('retry_layouts')
            if len(case['release_info'].encode()) > 600:
                bump('retry_by_release_info')
            if len(case['classification'].encode()) > 600:
                bump('retry_by_classification')
        # payload bytes at the independently computed places (sizes only; cumulative)
        er = crsdgen.element_ranges(meta)
        blocks = {'pvp': ('PVP', [c.Identifier for c in meta.Data.Channels], pvp), 'signal': ('SIGNAL', [c.Identifier for c in meta.Data.Channels], raw)}
        if support:
            blocks['support'] = ('SUPPORT', [s.Identifier for s in meta.Data.SupportArrays], support)
        absr = {}
        for bk, (hname, ids, arrays) in blocks.items():
            boff, bsize = g(hname + '_BLOCK_BYTE_OFFSET'), g(hname + '_BLOCK_SIZE')
            total = sum(n for _, n in er[bk])
            if total != bsize:
                fails.append({'kind': 'layout', 'msg': f'{hname}_BLOCK_SIZE {bsize} is not the sum {total} of the element sizes', 'case': case})
            absr[bk] = [(boff + a, boff + a + n) for a, n in er[bk]]
            for ident, (a, n) in zip(ids, er[bk]):
                want = numpy.ascontiguousarray(arrays[ident]).tobytes()
                if len(want) != n or buf[boff + a:boff + a + n] != want:
                    fails.append({'kind': 'bytes', 'msg': f'{hname} element {ident}: the {n} bytes at file offset {boff + a} are not the bytes handed to the writer', 'case': case})
        if drv is not None:
            ss = str(g('SUPPORT_BLOCK_SIZE')) if 'SUPPORT_BLOCK_SIZE' in kv else 'N'
            tl, cl, rl = header_fixed_lengths(ver, meta)
            d = meta.Data
            bps = crsdgen.BPS[d.SignalArrayFormat]
            declared = {'pvp': [(c.PVPArrayByteOffset, c.NumVectors * d.NumBytesPVP) for c in d.Channels],
                        'signal': [(c.SignalArrayByteOffset, c.NumVectors * c.NumSamples * bps) for c in d.Channels]}
            if support:
                declared['support'] = [(s.ArrayByteOffset, s.NumRows * s.NumCols * s.BytesPerElement) for s in d.SupportArrays]
            rel = lambda lst: ','.join(f'{a}:{n}' for a, n in lst)
            job = {'case': case, 'kv': kv, 'hend': hend, 'absr': absr, 'blocks': {bk: (g(v[0] + '_BLOCK_BYTE_OFFSET'), g(v[0] + '_BLOCK_SIZE')) for bk, v in blocks.items()},
                   'layout': drv.ask(f'cphd layout {g("XML_BLOCK_BYTE_OFFSET")} {g("XML_BLOCK_SIZE")} {ss} {g("PVP_BLOCK_SIZE")} {g("SIGNAL_BLOCK_SIZE")}'),
                   'gen': drv.ask(f'cphd gen crsd {g("XML_BLOCK_BYTE_OFFSET")} {g("XML_BLOCK_SIZE")} {meta.Data.NumSupportArrays} {0 if ss == "N" else ss} '
                                  f'{g("PVP_BLOCK_SIZE")} {g("SIGNAL_BLOCK_SIZE")} {hend}'),
                   'header': drv.ask(f'crsd header {tl} {cl} {rl} {g("XML_BLOCK_SIZE")} {ss} {g("PVP_BLOCK_SIZE")} {g("SIGNAL_BLOCK_SIZE")}'),
                   'ranges': {bk: drv.ask(f'cphd ranges {g(blocks[bk][0] + "_BLOCK_BYTE_OFFSET")} {rel(declared[bk])}') for bk in blocks},
                   'packed': {bk: drv.ask(f'crsd packed 0 {rel(declared[bk])}') for bk in blocks}}
    # ---- reopen through the public opener
    path = os.path.join(tmpdir, 'rd.crsd')
    with open(path, 'wb') as f:
        f.write(buf)
    try:
        rdr = open_received(path)
    except Exception as e:
        fails.append({'kind': 'read', 'msg': f'open_received raised {type(e).__name__}: {e}', 'case': case, 'key': hkey})
        return fails, st, job
    try:
        if kv and not problems:
            h = rdr.crsd_header
            for k in kv:
                if k.endswith('_SIZE') or k.endswith('_OFFSET'):
                    if getattr(h, k) != int(kv[k]):
                        fails.append({'kind': 'read', 'msg': f'the reader sees header field {k} = {getattr(h, k)}, the file says {kv[k]}', 'case': case})
        if tuple(rdr.get_data_size_as_tuple()) != tuple((nv, ns) for nv, ns in case['sizes']):
            fails.append({'kind': 'read', 'msg': f'reader data sizes {rdr.get_data_size_as_tuple()} differ from the channel sizes', 'case': case})
        rp, rs = rdr.read_pvp_block(), rdr.read_support_block()
        rraw, rfmt = rdr.read_signal_block_raw(), rdr.read_signal_block()
        if sorted(rp) != sorted(pvp) or sorted(rs) != sorted(support) or sorted(rraw) != sorted(raw) or sorted(rfmt) != sorted(raw):
            fails.append({'kind': 'data', 'msg': 'the reader returns different channel / support array identifiers', 'case': case})
        for ci, k in enumerate(c.Identifier for c in meta.Data.Channels):
            if rp[k].dtype.names != pvp[k].dtype.names:
                fails.append({'kind': 'data', 'msg': f'PVP fields of channel {k} differ: {rp[k].dtype.names}', 'case': case})
                continue
            for name in pvp[k].dtype.names:
                if not numpy.array_equal(rp[k][name], pvp[k][name]):
                    fails.append({'kind': 'data', 'msg': f'PVP field {name} of channel {k} differs after write/read', 'case': case})
                    break
                one = rdr.read_pvp_variable(name, k)
                if one is None or not numpy.array_equal(one, pvp[k][name]):
                    fails.append({'kind': 'data', 'msg': f'read_pvp_variable({name}) of channel {k} differs after write/read', 'case': case})
                    break
            if not numpy.array_equal(numpy.asarray(rraw[k]).reshape(raw[k].shape), raw[k]):
                fails.append({'kind': 'data', 'msg': f'raw signal of channel {k} differs after write/read', 'case': case})
            want = cphdgen.formatted(raw[k], pvp[k]['AmpSF'] if amp else None)
            nv, ns = want.shape
            for _r in range(3):     # sub-region reads of the formatted signal (offset, strided, trailing rows), channel by integer or by name
                a = rng.randrange(nv)
                b = rng.randint(a + 1, nv)
                stp = rng.choice([1, 1, 2])
                c0 = rng.randrange(ns)
                c1 = rng.randint(c0 + 1, ns)
                idx = ci if rng.random() < 0.5 else k
                try:
                    got = rdr.read(slice(a, b, stp), slice(c0, c1, 1), index=idx, squeeze=False)
                    graw = rdr.read_raw(slice(a, b, stp), slice(c0, c1, 1), index=idx, squeeze=False)
                except Exception as e:
                    fails.append({'kind': 'data', 'msg': f'sub-region read [{a}:{b}:{stp}, {c0}:{c1}] of channel {k} raised {type(e).__name__}: {e}', 'case': case})
                    break
                w_ = want[a:b:stp, c0:c1]
                if got.shape != w_.shape or not numpy.allclose(got, w_, rtol=1e-6, atol=0):
                    fails.append({'kind': 'data', 'msg': f'sub-region read [{a}:{b}:{stp}, {c0}:{c1}] of the formatted signal of channel {k} differs from the written values', 'case': case})
                    break
                if not numpy.array_equal(numpy.asarray(graw).reshape(raw[k][a:b:stp, c0:c1].shape), raw[k][a:b:stp, c0:c1]):
                    fails.append({'kind': 'data', 'msg': f'sub-region raw read [{a}:{b}:{stp}, {c0}:{c1}] of channel {k} differs from the written values', 'case': case})
                    break
            if numpy.size(rfmt[k]) != want.size or not numpy.allclose(numpy.reshape(rfmt[k], want.shape), want, rtol=1e-6, atol=0):
                fails.append({'kind': 'data', 'msg': f'formatted signal of channel {k} differs after write/read', 'case': case})
        for k in support:
            got = numpy.asarray(rs[k])
            if got.dtype != support[k].dtype or got.shape != support[k].shape or not numpy.array_equal(got, support[k]):
                fails.append({'kind': 'data', 'msg': f'support array {k} differs after write/read', 'case': case})
        m = meta_diff(meta.to_dict(), rdr.crsd_meta.to_dict())
        if m:
            fails.append({'kind': 'metadata', 'msg': 'metadata differs after write/read: ' + m, 'case': case})
    except Exception as e:
        fails.append({'kind': 'read', 'msg': f'reading back raised {type(e).__name__}: {e}', 'case': case})
    finally:
        rdr.close()
    return fails, st, job


def run(tier):
    sarpy_guard()
    chk = Check('C11', tier)
    rng = chk.rng
    gen_info = cphdkernels.regenerate()
    broken = chk.prove(['SarpyModel.Props.C11All', 'SarpyModel.Props.C09', 'SarpyModel.Drivers'], 'SarpyModel.Props.C11All', 'Sarpy.Props.C11', REQUIRED, gen_info)
    if gen_info['unsupported']:
        broken.append('translator could not express: ' + json.dumps(gen_info['unsupported']))
    fails, stats, seen, jobs, disagreements = [], {}, set(), [], []
    tw_jobs, w_jobs, w_stats, w_seen = [], [], {}, set()
    drv = Driver()
    tmpdir = tempfile.mkdtemp(prefix='c11_', dir=os.environ.get('VERIF_SCRATCH', '/var/tmp'))
    logging.disable(logging.CRITICAL)
    try:
        for _ in range(110 if tier == "quick" else 3000):
            case = gen_case(rng)
            seen.add(case_class(case))
            f, st, job = one_case(case, tmpdir, drv)
            fails += f
            for k, v in st.items():
                stats[k] = stats.get(k, 0) + v
            if job:
                jobs.append(job)
        # translator tie: Python fragment / regenerated Lean / reference on random integers
        tw_jobs, tw_problems = cphdkernels.three_way(KIND, rng, drv, 150 if tier == 'quick' else 3000)
        broken += tw_problems
        # writer state machine: op histories on the real CRSDWriter1 vs the Lean machine, plus the direct oracle of the writer clauses
        w_jobs, w_fails, w_stats, w_seen = cphdwriter.run_batch(KIND, rng, 60 if tier == 'quick' else 1500, tmpdir, drv)
        fails += w_fails
        fails += cphdwriter.finding_probes(KIND, tmpdir)
    finally:
        shutil.rmtree(tmpdir, ignore_errors=True)
        logging.disable(logging.NOTSET)
    try:
        ans = drv.run()
        disagreements += cphdkernels.settle_three_way(KIND, tw_jobs, ans)
        disagreements += cphdwriter.settle(w_jobs, ans)
        for job in jobs:
            stats['model_cases'] = stats.get('model_cases', 0) + 1
            kv, case = job['kv'], job['case']
            g = lambda k: kv.get(k)
            impl = [g('XML_BLOCK_BYTE_OFFSET'), g('XML_BLOCK_SIZE'), g('SUPPORT_BLOCK_BYTE_OFFSET') or 'N', g('SUPPORT_BLOCK_SIZE') or 'N',
                    g('PVP_BLOCK_BYTE_OFFSET'), g('PVP_BLOCK_SIZE'), g('SIGNAL_BLOCK_BYTE_OFFSET'), g('SIGNAL_BLOCK_SIZE')]
            t = ans[job['layout']].split()
            if t[:8] != impl:
                disagreements.append({'what': 'block chain (cphd layout)', 'case': case, 'model': t, 'impl': impl})
            gt = ans[job['gen']].split()      # regenerated kernels: sizes/offsets in the order of the header fields, then the retry decision
            gimpl = [impl[1], impl[0], impl[3], impl[2], impl[5], impl[4], impl[7], impl[6], 'N']
            if gt != gimpl:
                disagreements.append({'what': 'regenerated make_file_header kernels (cphd gen crsd) vs the header of the written file', 'case': case, 'model': gt, 'impl': gimpl})
            t = ans[job['header']].split()
            if t[0] == 'none' or t[1:9] != impl or int(t[0]) != job['hend']:
                disagreements.append({'what': 'header text length / retry rule from offset 1024 (crsd header)', 'case': case, 'model': t, 'impl': [job['hend']] + impl})
            for bk, i in job['ranges'].items():
                model = [tuple(int(x) for x in r.split(':')) for r in ans[i].split(',')]
                if model != job['absr'][bk]:
                    disagreements.append({'what': f'{bk} element ranges (cphd ranges on the declared relative offsets vs. cumulative sizes)', 'case': case, 'model': model, 'impl': job['absr'][bk]})
            for bk, i in job['packed'].items():
                t = ans[i].split()
                if t[0] != '1' or int(t[1]) != job['blocks'][bk][1]:
                    disagreements.append({'what': f'{bk} relative offsets packed / block size = sum of sizes (crsd packed)', 'case': case, 'model': t, 'impl': job['blocks'][bk]})
    except Infra as e:
        broken.append('model driver does not build/run: ' + str(e)[:300])
    chk.coverage.update({
        'evaluations': stats.get('files', 0) + stats.get('model_cases', 0) + len(tw_jobs) + w_stats.get('histories', 0),
        'distinct_nontrivial': len(seen) + len(w_seen), 'writer_histories': w_stats, 'kernel_three_way_cases': len(tw_jobs),
        'rule': 'CRSD 1.0.0 metadata constructed in code and validated against the bundled schema: 1-4 channels of differing sizes x CI2/CI4/CF8 x AmpSF '
                'present/absent x optional PVP groups (DGRGC, SIGNAL, RcvAntenna, TxPulse[+TxLFM, TxAntenna], AddedPVP) x 0-3 support arrays (IAZ F4, gain/phase '
                '2xF4, added I2 / F8 / CI4) x ASCII / non-ASCII / long CollectorName x short / >700 character / non-ASCII ReleaseInfo (header retry, header bytes vs characters) x write_file vs '
                'piecewise writes (PVP / support / signal in random order, signal in shuffled row chunks, formatted or raw, channels by name or integer) x '
                'path / BytesIO / caller file; distinct = the tuple of those classes. Writer histories (CRSDWriter1): 1-3 channels x 0-2 support arrays of every kind x '
                'AmpSF x short / >700 byte release string x BytesIO / caller file (both behind a logging proxy) / path x complete (shuffled, chunked, with flushes, '
                'repeated, malformed and out-of-range calls) / random / premature-close op lists. Kernel three-way: random integers up to 2^44 incl. alignment boundaries',
        'samples': [j['case'] for j in jobs[:2]] + [j['case'] for j in w_jobs[:1]], 'stats': stats,
        'traces_validated_against_impl': stats.get('model_cases', 0) + w_stats.get('histories', 0) + len(tw_jobs),
        'disagreements_checked': len(disagreements)})
    chk.assumptions += ['termination of the make_file_header retry is proved for files below 10^18 bytes (at most 7 attempts, Props/C09H retry_terminates_7 / C11W); the driver uses 16',
                        'make_file_header: one attempt and the retry decision are regenerated from CRSD.py and bridged by theorem; the recursion is the hand-written `choose`',
                        'writer machine: hand model of cphd.py / crsd.py (no translator), tied by op-history correspondence with CRSDWriter1; see harness/cphdwriter.py',
                        'header length model: byte lengths of the classification / release strings are inputs; the decimal digit count is a structural '
                        'definition checked against the real header text length on every file; classification is kept ASCII, release info is not',
                        '_align is computed in floating point by sarpy (exact below 2^53 bytes); the model uses natural numbers',
                        'signal compression does not exist in CRSD 1.0; XML payload equality is C05/C06 (here: to_dict equality after reopening)',
                        'bytes between blocks (padding) are not constrained']
    unknown = [f for f in fails if not (f.get('key') and chk.known(f['key']))]
    firsts, rest, kinds = [], [], set()
    for f in unknown:           # report one input per distinct failure key / kind first
        kk = f.get('key') or f['kind']
        (rest if kk in kinds else firsts).append(f)
        kinds.add(kk)
    unknown = firsts + rest
    for f in unknown[:5]:
        chk.violation(f['msg'], {'case': f, 'replay_cmd': f'./check {chk.pid} --replay <this file>'}, True)
    if len(unknown) > 5:
        chk.notes.append(f'{len(unknown)} failing inputs found, first 5 reported')
        byk = {}
        for f in unknown:
            byk[f.get('key') or f['kind']] = byk.get(f.get('key') or f['kind'], 0) + 1
        chk.notes.append('failing inputs by key/kind: ' + json.dumps(byk, sort_keys=True))
    if not unknown and (broken or disagreements):
        chk.violation('proof obligation or correspondence no longer checks: ' + '; '.join(broken[:3] + [json.dumps(d, default=str)[:300] for d in disagreements[:2]]),
                      {'broken_obligations': broken, 'disagreements': disagreements[:10]}, False)
    chk.coverage['failing_inputs'] = len(fails)
    return chk.finish()


def replay(path):
    """re-runs the stored case on the current /repo (the model side is not needed to reproduce a failing input)"""
    sarpy_guard()
    rec = json.load(open(path))
    case = rec.get('case', {})
    case = case.get('case', case)
    if isinstance(case, dict) and 'ops' in case and 'seed' in case:      # a writer history
        print('case:', json.dumps(case)[:1500])
        tmpdir = tempfile.mkdtemp(prefix='c11_', dir=os.environ.get('VERIF_SCRATCH', '/var/tmp'))
        logging.disable(logging.CRITICAL)
        try:
            fails = cphdwriter.replay_case(case, tmpdir)
        finally:
            shutil.rmtree(tmpdir, ignore_errors=True)
            logging.disable(logging.NOTSET)
        for f in fails:
            print('FAIL:', f['msg'])
        if not fails:
            print('no failure on the current source')
        return 1 if fails else 0
    if 'data_seed' not in case:
        print(json.dumps(rec)[:2000])
        return 1
    print('case:', json.dumps(case)[:1500])
    tmpdir = tempfile.mkdtemp(prefix='c11_', dir=os.environ.get('VERIF_SCRATCH', '/var/tmp'))
    logging.disable(logging.CRITICAL)
    try:
        fails, _, _ = one_case(case, tmpdir, None)
    finally:
        shutil.rmtree(tmpdir, ignore_errors=True)
        logging.disable(logging.NOTSET)
    for f in fails:
        print('FAIL:', f['msg'], '' if not f.get('key') else f'[key {f["key"]}]')
    if not fails:
        print('no failure on the current source')
    return 1 if fails else 0
