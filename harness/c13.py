"""C13 — NITF headers, subheaders and TREs encode to fixed-width bytes and decode back.

proof side : lean/SarpyModel/Props/C13.lean (field codec, records, counted loops; unbounded)
tie        : translator (tables_nitf.py reflects every element class on every run: field kinds, widths, override list)
             + correspondence: every instance's to_bytes is reproduced by the Lean record codec from the reflected
             fields (nested / hand-written parts enter as opaque raw fields), and decoded back
search     : byte-level oracle on the implementation (len(to_bytes) == get_bytes_length, from_bytes(to_bytes(x)) == x,
             re-encode identity, rejection of values that do not fit) + standard-side length anchors (MIL-STD-2500C)
"""
import json
import logging
import os
import sys

from common import Check, Driver, Infra, VERIF, sarpy_guard
import c13x
import c13t
import c13a
import c13b

sys.path.insert(0, os.path.join(VERIF, 'translate'))

REQUIRED = ['padDigits_length', 'fromDigits_padDigits', 'encInt_length', 'decInt_encInt', 'encStr_length', 'decStr_encStr',
            'encField_length', 'decField_encField', 'encRecord_length', 'decRecord_encRecord', 'decLoop_encLoop',
            'encLoop_length', 'accepted_never_overflows']

# lengths taken from MIL-STD-2500C (NITF 2.1), independent of sarpy: minimal headers with no extensions
STANDARD_MIN_LENGTHS = {
    'NITFSecurityTags': 167,
    'NITFHeader': 388,            # 360 fixed + 6 x 3 counts + UDHDL 5 + XHDL 5
    'TextSegmentHeader': 282,     # TE 2, TEXTID 7, TXTALVL 3, TXTDT 14, TXTITL 80, security 167, ENCRYP 1, TXTFMT 3, TXSHDL 5
    'DataExtensionHeader': 200,   # DE 2, DESID 25, DESVER 2, security 167, DESSHL 4
    'GraphicsSegmentHeader': 258,
    'ReservedExtensionHeader': 200,
}


def rand_text(rng, w, ascii_only=True):
    n = rng.choice([0, 1, w, w, max(0, w - 1), rng.randint(0, w)])
    alphabet = 'ABCDEFGHIJKLMNOPQRSTUVWXYZ0123456789 _-/.:abcxyz'
    s = ''.join(rng.choice(alphabet) for _ in range(n))
    return s.rstrip()


def rand_int(rng, w):
    lo, hi = -10 ** (w - 1) + 1, 10 ** w - 1
    return rng.choice([0, 1, hi, lo if w > 1 else 0, rng.randint(lo, hi), rng.randint(0, hi)])


def instance_fields(inst):
    """reflect one instance: list of (name, kind, width, value/bytes) reproducing to_bytes through the generic machinery"""
    from sarpy.io.general.nitf_elements import base as B
    out = []
    cls = inst.__class__
    for fld in cls._ordering:
        ln = inst._get_attribute_length(fld)
        if ln == 0:
            continue
        d = getattr(cls, fld, None)
        plain = fld in cls._lengths and fld not in getattr(cls, '_binary_format', {}) and cls._lengths[fld] == ln \
            and isinstance(d, (B._IntegerDescriptor, B._StringDescriptor, B._StringEnumDescriptor))
        val = getattr(inst, fld)
        if plain and isinstance(d, B._IntegerDescriptor) and isinstance(val, int):
            out.append((fld, 'i', ln, val))
        elif plain and isinstance(val, str) and val.isascii():
            out.append((fld, 's', ln, val))
        else:
            out.append((fld, 'r', ln, inst._get_attribute_bytes(fld)))
    return out


def line_for(fields):
    fs = ','.join(f'{k}{w}' for _, k, w, _ in fields)
    vs = []
    for _, k, w, v in fields:
        if k == 'i':
            vs.append(str(v))
        elif k == 's':
            vs.append(v.encode('utf-8').hex() or '-')
        else:
            vs.append(bytes(v).hex() or '-')
    return fs, ','.join(vs)


def build_instances(rng, tier):
    """instances of every element class, mostly valid; returns list of (label, instance)"""
    from sarpy.io.general.nitf_elements import base as B
    from sarpy.io.general.nitf_elements.security import NITFSecurityTags, NITFSecurityTags0
    from sarpy.io.general.nitf_elements.nitf_head import NITFHeader, NITFHeader0, ImageSegmentsType, DataExtensionsType, TextSegmentsType, \
        GraphicsSegmentsType, ReservedExtensionsType
    from sarpy.io.general.nitf_elements.image import ImageSegmentHeader, ImageSegmentHeader0, ImageBand, ImageBands, ImageComment, \
        ImageComments, MaskSubheader
    from sarpy.io.general.nitf_elements.des import DataExtensionHeader, DataExtensionHeader0, XMLDESSubheader, DESUserHeader
    from sarpy.io.general.nitf_elements.text import TextSegmentHeader, TextSegmentHeader0
    from sarpy.io.general.nitf_elements.graphics import GraphicsSegmentHeader
    from sarpy.io.general.nitf_elements.res import ReservedExtensionHeader, ReservedExtensionHeader0
    from sarpy.io.general.nitf_elements.label import LabelSegmentHeader
    from sarpy.io.general.nitf_elements.symbol import SymbolSegmentHeader
    import numpy
    out = []

    def generic(cls, n):
        for _ in range(n):
            kw = {}
            for fld in cls._ordering:
                d = getattr(cls, fld, None)
                if fld not in cls._lengths or rng.random() < 0.3:
                    continue
                w = cls._lengths[fld]
                if isinstance(d, B._IntegerDescriptor):
                    kw[fld] = rand_int(rng, w)
                elif isinstance(d, B._StringEnumDescriptor):
                    kw[fld] = rng.choice(sorted(d.values))
                elif isinstance(d, B._StringDescriptor):
                    kw[fld] = rand_text(rng, w)
            try:
                out.append((cls.__name__, cls(**kw)))
            except Exception:
                pass

    n = 6 if tier == 'quick' else 40
    for cls in (NITFSecurityTags, NITFSecurityTags0, TextSegmentHeader, TextSegmentHeader0, GraphicsSegmentHeader, LabelSegmentHeader,
                XMLDESSubheader, ImageComment, ReservedExtensionHeader, ReservedExtensionHeader0, DataExtensionHeader, DataExtensionHeader0,
                SymbolSegmentHeader):
        try:
            out.append((cls.__name__ + ':default', cls()))
        except Exception:
            pass   # a class without usable defaults (NITF 2.0 symbol header): only explicit instances are exercised
        generic(cls, n)
    # DES subheaders whose conditional fields (DESOFLW / DESITEM, user-defined subheader) are present
    for _ in range(n):
        try:
            kw = dict(DESID='TRE_OVERFLOW', DESOFLW=rng.choice(['XHD', 'IXSHD', 'SXSHD', 'TXSHD', 'UDHD', 'UDID']), DESITEM=rng.randint(0, 999),
                      DESVER=rng.randint(1, 99))
            out.append(('DataExtensionHeader:overflow', DataExtensionHeader(**kw)))
            uh = DESUserHeader(data=bytes(rng.randrange(32, 127) for _ in range(rng.randint(1, 60))))
            out.append(('DataExtensionHeader:userheader', DataExtensionHeader(DESID=rand_text(rng, 25).strip() or 'X', UserHeader=uh)))
            out.append(('DataExtensionHeader:overflow+userheader', DataExtensionHeader(UserHeader=uh, **kw)))
            tag = rng.choice(['TRE_OVERFLOW', 'Registered Extensions', 'Controlled Extensions'])
            out.append(('DataExtensionHeader0:overflow', DataExtensionHeader0(DESTAG=tag, DESOFLW=rng.choice(['XHD', 'IXSHD', 'UDHD', 'UDID']),
                                                                             DESITEM=rng.randint(0, 999))))
        except Exception as e:
            out.append(('DataExtensionHeader:construct', e))
    # file headers with item arrays
    for _ in range(n):
        ni, nd, nt = rng.randint(0, 4), rng.randint(0, 3), rng.randint(0, 2)
        kw = dict(ImageSegments=ImageSegmentsType(subhead_sizes=numpy.array([rng.randint(1, 999999) for _ in range(ni)], dtype='int64'),
                                                  item_sizes=numpy.array([rng.randint(1, 9999999999) for _ in range(ni)], dtype='int64')),
                  DataExtensions=DataExtensionsType(subhead_sizes=numpy.array([rng.randint(1, 9999) for _ in range(nd)], dtype='int64'),
                                                    item_sizes=numpy.array([rng.randint(1, 999999999) for _ in range(nd)], dtype='int64')),
                  TextSegments=TextSegmentsType(subhead_sizes=numpy.array([rng.randint(1, 9999) for _ in range(nt)], dtype='int64'),
                                                item_sizes=numpy.array([rng.randint(1, 99999) for _ in range(nt)], dtype='int64')),
                  FTITLE=rand_text(rng, 80), OSTAID=rand_text(rng, 10), FL=rng.randint(0, 10 ** 12 - 1), CLEVEL=rng.choice([3, 5, 6, 7, 9]))
        try:
            h = NITFHeader(**kw)
            h.HL = h.get_bytes_length()
            out.append(('NITFHeader', h))
        except Exception as e:
            out.append(('NITFHeader:construct', e))
    out.append(('NITFHeader:default', NITFHeader()))
    try:
        out.append(('NITFHeader0:default', NITFHeader0(FVER='02.00')))
    except Exception:
        pass
    # image subheaders: bands 1..12, LUTs, comments, conditional fields
    for _ in range(n * 2):
        nb = rng.choice([1, 1, 2, 3, 9, 10, 12])
        bands = []
        for b in range(nb):
            if rng.random() < 0.25:
                nl = rng.choice([1, 2, 3])
                ne = rng.choice([1, 4, 256])
                bands.append(ImageBand(ISUBCAT=rng.choice(['I', 'Q', 'M', 'P', '']), IREPBAND=rng.choice(['', 'LU', 'R']),
                                       LUTD=numpy.arange(nl * ne, dtype='uint8').reshape((nl, ne))))
            else:
                bands.append(ImageBand(ISUBCAT=rng.choice(['I', 'Q', 'M', 'P', '']), IREPBAND=rng.choice(['', 'M', 'R', 'G', 'B'])))
        ncom = rng.choice([0, 0, 1, 3, 9])
        kw = dict(IID1=rand_text(rng, 10), NROWS=rng.randint(1, 99999999), NCOLS=rng.randint(1, 99999999),
                  PVTYPE=rng.choice(['INT', 'SI', 'R', 'C']), IREP=rng.choice(['MONO', 'NODISPLY', 'RGB']), ICAT=rng.choice(['SAR', 'VIS']),
                  ABPP=rng.choice([8, 16, 32]), NBPP=rng.choice([8, 16, 32]), IC=rng.choice(['NC', 'NC', 'NM']),
                  ICORDS=rng.choice(['', 'G', 'D']), Bands=ImageBands(values=bands),
                  Comments=ImageComments(values=[ImageComment(COMMENT=rand_text(rng, 80)) for _ in range(ncom)]),
                  IMODE=rng.choice(['B', 'P', 'R', 'S']), NBPR=rng.randint(1, 9999), NBPC=rng.randint(1, 9999),
                  NPPBH=rng.randint(0, 8192), NPPBV=rng.randint(0, 8192), IDLVL=rng.randint(1, 999), IALVL=rng.randint(0, 998),
                  ILOC=rand_text(rng, 10), IMAG=rng.choice(['1.0 ', '/2  ']))
        if kw['ICORDS'] != '':
            kw['IGEOLO'] = ''.join(rng.choice('0123456789NSEW') for _ in range(60))
        try:
            out.append(('ImageSegmentHeader', ImageSegmentHeader(**kw)))
        except Exception as e:
            out.append(('ImageSegmentHeader:construct', e))
    try:
        out.append(('ImageSegmentHeader0:default', ImageSegmentHeader0()))
    except Exception:
        pass
    # mask tables
    for _ in range(n):
        nblk = rng.randint(1, 12)
        try:
            kw = dict(IMDATOFF=0, BMRLNTH=4, TMRLNTH=0, TPXCDLNTH=0,
                      BMR=numpy.array([rng.choice([0xFFFFFFFF, rng.randint(0, 10 ** 6)]) for _ in range(nblk)], dtype='uint32').reshape((1, nblk)))
            m = MaskSubheader(band_depth=1, blocks=nblk, **kw)
            out.append(('MaskSubheader', m))
        except Exception as e:
            out.append(('MaskSubheader:construct', e))
    # TRE containers with unknown TREs and user headers
    for _ in range(n):
        try:
            tres = []
            for _k in range(rng.randint(0, 3)):
                tag = ''.join(rng.choice('ABCDEFXYZ') for _ in range(6))
                tres.append(B.UnknownTRE(TAG=tag, data=bytes(rng.randrange(256) for _ in range(rng.randint(0, 40)))))
            uh = B.UserHeaderType(data=B.TREList(tres=tres))
            out.append(('UserHeaderType', uh))
            th = TextSegmentHeader(TEXTID=rand_text(rng, 7), UserHeader=uh)
            out.append(('TextSegmentHeader+TRE', th))
        except Exception as e:
            out.append(('UserHeaderType:construct', e))
    return out


def element_oracle(label, inst):
    """byte-level statement of the property on the implementation; returns list of messages"""
    msgs = []
    try:
        b = inst.to_bytes()
        ln = inst.get_bytes_length()
    except Exception as e:
        return [f'{label}: to_bytes/get_bytes_length raised {type(e).__name__}: {e}']
    if len(b) != ln:
        msgs.append(f'{label}: len(to_bytes()) = {len(b)} but get_bytes_length() = {ln}')
    try:
        if inst.__class__.__name__ == 'MaskSubheader':
            back = inst.__class__.from_bytes(b + b'\x07TRAILING', 0, band_depth=inst.band_depth, blocks=inst.blocks)
        else:
            back = inst.__class__.from_bytes(b + b'\x07TRAILING', 0)
        b2 = back.to_bytes()
        if b2 != b:
            i = next((k for k in range(min(len(b), len(b2))) if b[k] != b2[k]), min(len(b), len(b2)))
            msgs.append(f'{label}: decode then re-encode differs at byte {i} (lengths {len(b)} -> {len(b2)})')
        if back.get_bytes_length() != ln:
            msgs.append(f'{label}: decoded object reports length {back.get_bytes_length()} != {ln}')
        def canon(o):
            # None, '' and b'' all denote an absent / empty payload and encode to the same (zero) bytes
            if isinstance(o, dict):
                return {k: canon(v) for k, v in o.items()}
            if isinstance(o, (list, tuple)):
                return [canon(v) for v in o]
            if o is None or o == '' or o == b'':
                return ''
            if isinstance(o, bytes):
                return o.hex()
            return o
        j1, j2 = canon(inst.to_json()), canon(back.to_json())
        if json.dumps(j1, default=repr, sort_keys=True) != json.dumps(j2, default=repr, sort_keys=True):
            def _diff(a_, b_, path_=''):
                if isinstance(a_, dict) and isinstance(b_, dict):
                    for k_ in sorted(set(a_) | set(b_)):
                        r_ = _diff(a_.get(k_), b_.get(k_), path_ + '.' + str(k_))
                        if r_:
                            return r_
                    return None
                if isinstance(a_, list) and isinstance(b_, list) and len(a_) == len(b_):
                    for i_, (x_, y_) in enumerate(zip(a_, b_)):
                        r_ = _diff(x_, y_, f'{path_}[{i_}]')
                        if r_:
                            return r_
                    return None
                return None if json.dumps(a_, default=repr, sort_keys=True) == json.dumps(b_, default=repr, sort_keys=True) else f'{path_}: {a_!r} -> {b_!r}'
            msgs.append(f'{label}: decoded object differs from the encoded one (field values): {str(_diff(j1, j2))[:200]}')
    except Exception as e:
        msgs.append(f'{label}: from_bytes(to_bytes(x)) raised {type(e).__name__}: {e}')
    return msgs


def rejection_cases(rng, fails, stats):
    """values that cannot be rendered must be rejected or truncated at assignment, never written over the neighbour"""
    from sarpy.io.general.nitf_elements.nitf_head import NITFHeader
    from sarpy.io.general.nitf_elements.image import ImageSegmentHeader
    from sarpy.io.general.nitf_elements.text import TextSegmentHeader
    cases = [(NITFHeader, 'CLEVEL', 100), (NITFHeader, 'CLEVEL', -10), (NITFHeader, 'FL', 10 ** 12), (ImageSegmentHeader, 'NROWS', 10 ** 8),
             (ImageSegmentHeader, 'IDLVL', 1000), (TextSegmentHeader, 'TXTALVL', -100),
             (NITFHeader, 'FTITLE', 'x' * 81), (NITFHeader, 'OSTAID', 'abcdefghijk'), (TextSegmentHeader, 'TEXTID', '12345678')]
    from sarpy.io.general.nitf_elements.image import ImageBands, ImageBand

    def mk(cls):
        if cls is ImageSegmentHeader:
            return cls(PVTYPE='INT', IREP='MONO', ICAT='SAR', ABPP=8, NBPP=8, IMODE='B', Bands=ImageBands(values=[ImageBand()]))
        return cls()
    for cls, fld, val in cases:
        stats['rejections'] = stats.get('rejections', 0) + 1
        inst = mk(cls)
        base_len = inst.get_bytes_length()
        try:
            setattr(inst, fld, val)
        except Exception:
            continue
        b = inst.to_bytes()
        if len(b) != base_len or len(b) != inst.get_bytes_length():
            fails.append({'kind': 'reject', 'msg': f'{cls.__name__}.{fld} = {val!r} was accepted and renders {len(b)} bytes instead of {base_len}',
                          'case': [cls.__name__, fld, repr(val)]})
    # non-ASCII text: characters vs bytes
    for cls, fld, val in [(NITFHeader, 'FTITLE', 'café'), (TextSegmentHeader, 'TXTITL', 'über'), (NITFHeader, 'ONAME', '日本')]:
        stats['rejections'] = stats.get('rejections', 0) + 1
        inst = cls()
        base_len = inst.get_bytes_length()
        try:
            setattr(inst, fld, val)
        except Exception:
            continue
        try:
            b = inst.to_bytes()
        except Exception:
            continue
        if len(b) != base_len:
            fails.append({'kind': 'reject', 'key': 'non-ascii-text-overflows-field',
                          'msg': f'{cls.__name__}.{fld} = {val!r} (non-ASCII) is accepted and renders {len(b)} bytes instead of {base_len}: the following field is displaced',
                          'case': [cls.__name__, fld, val]})


def tre_cases(rng, tier, fails, stats):
    """registered TREs: parse a payload, re-encode: same length, decode again to the same field values"""
    try:
        from sarpy.io.general.nitf_elements.tres.registration import find_tre
        from sarpy.io.general.nitf_elements.base import TRE
    except Exception:
        return
    data_dir = os.path.join(os.environ.get('SARPY_REPO', '/repo'), 'tests', 'data')
    import glob
    for path in sorted(glob.glob(os.path.join(data_dir, '*tre*'))) + sorted(glob.glob(os.path.join(data_dir, '*.TRE'))):
        try:
            raw = open(path, 'rb').read()
        except OSError:
            continue
        stats['tres'] = stats.get('tres', 0) + 1
        try:
            t = TRE.from_bytes(raw, 0)
            b = t.to_bytes()
            if len(b) != t.get_bytes_length() or len(b) != len(raw[:len(b)]):
                fails.append({'kind': 'tre', 'msg': f'TRE {os.path.basename(path)}: re-encoded length {len(b)} vs reported {t.get_bytes_length()}', 'case': path})
            t2 = TRE.from_bytes(b, 0)
            if json.dumps(t.to_json(), default=repr, sort_keys=True) != json.dumps(t2.to_json(), default=repr, sort_keys=True):
                fails.append({'kind': 'tre', 'msg': f'TRE {os.path.basename(path)}: decode of re-encoding differs', 'case': path})
        except Exception as e:
            stats['tre_parse_errors'] = stats.get('tre_parse_errors', 0) + 1


def run(tier):
    sarpy_guard()
    logging.disable(logging.CRITICAL)
    chk = Check('C13', tier)
    rng = chk.rng
    xs = c13x.Session(chk, tier)          # C13x: regenerates Gen/NitfTables2*.lean (must exist before the driver is built)
    ts = c13t.Session(chk, tier)          # C13t: regenerates Gen/TreTables*.lean from the TRE modules (same)
    import tables_nitf
    gen = tables_nitf.generate(os.path.join(VERIF, 'lean', 'SarpyModel', 'Gen', 'NitfTables.lean'))
    gen_info = {'table_driven': sorted(gen['tables']), 'overrides': gen['overrides'], 'loops': gen['loops'], 'changed': gen['changed']}
    broken = chk.prove(['SarpyModel.Props.C13', 'SarpyModel.Gen.NitfTables', 'SarpyModel.Drivers'], 'SarpyModel.Props.C13',
                       'Sarpy.Props.C13', REQUIRED, gen_info)
    broken += xs.prove()
    asg = c13a.Session(chk, tier, gen, c13x.controllers(xs.descs))    # C13a: assignment-time clause over the descriptors of Gen/NitfDescs.lean
    broken += asg.prove()
    bnd = c13b.Session(chk, tier, gen)    # C13b: capacities of count / length fields (Gen/NitfSlots.lean), boundary families, refused assignments
    broken += bnd.prove()
    # the pad pixel code width is regenerated from MaskSubheader.define_tpxcd_length and bridged (Bridge/Kernels2.lean)
    import kernels2
    from common import audit as _audit
    k2_info = kernels2.regen()
    chk.coverage.setdefault('translator', {})['method_kernels'] = k2_info
    if any(n == 'tpxcd_length' for n, _ in k2_info['unsupported']):
        broken.append('translator could not express define_tpxcd_length: ' + json.dumps(k2_info['unsupported']))
    from common import lake_build as _lb, ALLOWED_AXIOMS as _AA
    _ok, _failed, _errs, _log = _lb(['SarpyModel.Bridge.Kernels2'])
    if not _ok:
        broken.append('SarpyModel.Bridge.Kernels2 (lake build failed): ' + '; '.join(f'{f}:{l}: {m}' for f, l, c, m in _errs[:3]))
    else:
        _k = _audit('SarpyModel.Bridge.Kernels2', 'Sarpy.Bridge.K2')
        for r in ('gen_tpxcd_length', 'tpxcdBytes_spec'):
            nm = 'Sarpy.Bridge.K2.' + r
            if nm not in _k:
                broken.append(nm + ' (required theorem missing)')
            elif set(_k[nm]) - _AA:
                broken.append(nm + ' depends on non-standard axioms')
            else:
                chk.coverage['obligations'] = chk.coverage.get('obligations', 0) + 1
                chk.coverage['discharged'] = chk.coverage.get('discharged', 0) + 1
                chk.coverage.setdefault('theorems', []).append(nm)
    broken += ts.prove()

    fails = []
    stats = {}
    disagreements = []
    insts = build_instances(rng, tier)
    drv = Driver()
    jobs = []
    classes_seen = set()
    for label, inst in insts:
        if isinstance(inst, Exception):
            fails.append({'kind': 'construct', 'msg': f'{label}: constructing a valid element raised {type(inst).__name__}: {inst}', 'case': label})
            continue
        stats['instances'] = stats.get('instances', 0) + 1
        classes_seen.add(label.split(':')[0].split('+')[0])
        for m in element_oracle(label, inst):
            fails.append({'kind': 'element', 'msg': m, 'case': label, 'bytes': inst.to_bytes().hex()[:2000] if hasattr(inst, 'to_bytes') else None})
        if hasattr(inst.__class__, '_ordering') and hasattr(inst, '_get_attribute_length'):
            try:
                fields = instance_fields(inst)
                fs, vs = line_for(fields)
                if fields:
                    jobs.append((label, inst, fields, drv.ask(f'nitf enc {fs} {vs}'), drv.ask(f'nitf dec {fs} {inst.to_bytes().hex() or "-"}ff')))
            except Exception as e:
                fails.append({'kind': 'element', 'msg': f'{label}: reflecting the instance raised {type(e).__name__}: {e}', 'case': label})
    # standard-side anchors
    from sarpy.io.general.nitf_elements import nitf_head, security, text, des, graphics, res
    mods = {'NITFSecurityTags': security.NITFSecurityTags, 'NITFHeader': nitf_head.NITFHeader, 'TextSegmentHeader': text.TextSegmentHeader,
            'DataExtensionHeader': des.DataExtensionHeader, 'GraphicsSegmentHeader': graphics.GraphicsSegmentHeader,
            'ReservedExtensionHeader': res.ReservedExtensionHeader}
    for name, want in STANDARD_MIN_LENGTHS.items():
        stats['standard_anchors'] = stats.get('standard_anchors', 0) + 1
        got = len(mods[name]().to_bytes())
        if got != want:
            fails.append({'kind': 'standard', 'msg': f'default {name} encodes to {got} bytes; MIL-STD-2500C gives {want}', 'case': name})
    # the file header of the captured NITF must decode and re-encode byte for byte
    try:
        raw = open(os.path.join(os.environ.get('SARPY_REPO', '/repo'), 'tests', 'data', 'iq.nitf'), 'rb').read()
        h = nitf_head.NITFHeader.from_bytes(raw, 0)
        if h.to_bytes() != raw[:h.HL] or h.get_bytes_length() != h.HL:
            fails.append({'kind': 'standard', 'msg': 'tests/data/iq.nitf: header does not re-encode byte for byte / HL mismatch', 'case': 'iq.nitf'})
        stats['captured_headers'] = 1
    except Exception as e:
        stats['captured_headers_error'] = str(e)[:100]
    rejection_cases(rng, fails, stats)
    tre_cases(rng, tier, fails, stats)
    # loops through the model
    for cnt in (0, 1, 3, 9):
        items = [rand_text(rng, 80) or 'X' for _ in range(cnt)]
        from sarpy.io.general.nitf_elements.image import ImageComments, ImageComment
        py = ImageComments(values=[ImageComment(COMMENT=s) for s in items]).to_bytes().hex() or '-'
        body = ';'.join(s.encode().hex() or '-' for s in items) or '-'
        jobs.append(('loop', py, None, drv.ask(f'nitf loop 1 s80 {body}'), None))
    xs.enqueue(drv)
    ts.enqueue(drv)
    # assignment-time clause: a separate batch of live instances (they are assigned to and restored, so they are not shared with the above)
    live = [(l, i, None) for l, i in build_instances(rng, 'quick') if not isinstance(i, Exception)]
    live += [(l, i, p) for l, _d, i, p in c13x.build_instances(rng, 'quick') if not isinstance(i, Exception)]
    asg.enqueue(drv, live)
    bnd.run()
    try:
        ans = drv.run()
    except Infra as e:
        ans = None
        broken.append('model driver does not build/run: ' + str(e)[:300])
    if ans is not None:
        for label, inst, fields, i_enc, i_dec in jobs:
            stats['model_records'] = stats.get('model_records', 0) + 1
            if label == 'loop':
                hexs, ok = ans[i_enc].split()
                if hexs != inst or ok != 'true':
                    disagreements.append({'case': 'ImageComments loop', 'model': ans[i_enc][:120], 'python': inst[:120]})
                continue
            acc, hexs, width = ans[i_enc].split()
            py = inst.to_bytes().hex() or '-'
            if acc != 'true':
                disagreements.append({'case': label, 'msg': 'model does not accept the field values the implementation holds',
                                      'fields': [(n, k, w, (v if not isinstance(v, bytes) else v.hex()[:40])) for n, k, w, v in fields][:40]})
            elif hexs != py:
                disagreements.append({'case': label, 'msg': 'model encoding differs from to_bytes', 'model': hexs[:200], 'python': py[:200]})
            elif int(width) != inst.get_bytes_length():
                disagreements.append({'case': label, 'msg': f'model record width {width} != get_bytes_length {inst.get_bytes_length()}'})
            if not ans[i_dec].startswith('ok ') or not ans[i_dec].endswith(' ff'):
                disagreements.append({'case': label, 'msg': 'model decode of to_bytes()+trailer failed: ' + ans[i_dec][:80]})

    f2, d2, s2 = xs.collect(ans)
    fails += f2
    disagreements += d2
    stats.update(s2)
    classes_seen |= set(s2.get('x_classes', []))
    f5, d5, s5 = bnd.collect()
    fails += f5
    disagreements += d5
    stats.update(s5)
    f4, d4, s4 = asg.collect(ans)
    fails += f4
    disagreements += d4
    stats.update(s4)
    f3, d3, s3 = ts.collect(ans)
    fails += f3
    disagreements += d3
    stats.update(s3)
    classes_seen |= {'TRE:' + n for n in ts.cov}
    chk.coverage.update({
        'evaluations': stats.get('instances', 0) + stats.get('rejections', 0) + stats.get('model_records', 0)
                       + stats.get('x_instances', 0) + stats.get('x_model_records', 0) + stats.get('x_tre_lists', 0)
                       + stats.get('t_payloads', 0) + stats.get('t_model_records', 0) + stats.get('t_dispatch_cases', 0) + stats.get('t_probes', 0)
                       + stats.get('t_snapshot_payloads', 0) + stats.get('a_assignments', 0) + stats.get('a_model_assignments', 0)
                       + stats.get('h_steps', 0) + stats.get('b_cases', 0) + stats.get('b_tre_loop_cases', 0) + stats.get('b_refused_assignments', 0),
        'distinct_nontrivial': len(classes_seen),
        'rule': 'instances of every NITF 2.1/2.0 element class (defaults + random accepted values: edge-of-width integers incl. negatives, strings up to the width, '
                'enumerations; file headers with 0-4 item arrays; image subheaders with 1-12 bands incl. the >9 extension, LUTs with 1-3 tables, 0-9 comments, '
                'conditional IGEOLO; mask tables of 1-12 blocks; user headers with unknown TREs); a separate stream of values that do not fit; '
                'registered TREs: payload values generated from each translated description (constants of every condition round robin + other text, '
                'mask bits at random, loop counts cycling through 1, 2, 0, 3 and 4..12, lengths 0 / 1 / 2 / 5 / maximum, integers at both ends of the '
                'width incl. negatives, text empty / one character / full width, bytes random / 00 / FF / ASCII, floats incl. infinities and -0), '
                'until every condition was seen true and false (5..14 payloads per TRE quick, 200+ thorough); one right-justified-text variant per TRE; '
                'distinct = element classes instantiated; non-trivial = the instance encodes to at least one byte',
        'samples': [f'{l}: {inst.to_bytes()[:48]!r}' for l, inst in insts[:3] if not isinstance(inst, Exception)],
        'stats': stats,
        'traces_validated_against_impl': stats.get('model_records', 0) + stats.get('x_model_records', 0) + stats.get('x_tre_lists', 0)
                                         + stats.get('t_decoded', 0) + stats.get('t_expected_refusals', 0),
        'disagreements_checked': len(disagreements),
    })
    chk.assumptions += [
        'reflection-based translator tables_nitf.py (kinds/widths read from descriptors and _lengths on every run)',
        'classes with hand-written byte logic (listed under translator.overrides) enter the model as opaque raw fields: their internal layout is covered by the byte-level oracle only',
        'registered TREs: the field layout (widths, conditions, loops, computed lengths) of every registered TRE is translated from the AST of the TRE '
        'modules by translate/tables_tre.py on every run and each description is kernel-checked well formed; the fidelity of the translator is '
        'not proved - it is checked on every run by the payload cross-check (values generated from the descriptions, encoded by the Lean codec, '
        'decoded by sarpy and compared field by field / byte by byte; see coverage.tre_coverage for what was exercised)',
        'TRE text fields are modelled as ASCII (acceptance refuses bytes >= 128); ieee754_binary32 fields as 4 opaque bytes (NaN payloads are '
        'not generated: CPython quiets signalling NaNs on unpack); non-digit bytes in a field read by int() make sarpy refuse, the model reads 0 '
        '(such payloads are not generated)',
        'translate/tre_snapshot.json (the TRE layouts of the pinned commit) is the reference layout for the search; it was taken from sarpy '
        'itself, not transcribed from STDI-0002',
        "Python's '{:0wd}' / '{:ws}' formatting is specified by Spec.FieldFmt.encInt / encStr and validated by this correspondence",
        'standard-side lengths (MIL-STD-2500C) are a hand transcription',
    ]
    nk = kernels2.run_kernels(rng, tier, ['tpxcd'], fails, disagreements, stats)
    chk.coverage['evaluations'] = chk.coverage.get('evaluations', 0) + nk
    unknown = [f for f in fails if not (f.get('key') and chk.known(f['key']))]
    # one case per distinct defect first (key, else element / TRE name), so that the five reported cases are five different things
    first, rest, seen_groups = [], [], set()
    for f in unknown:
        g = f.get('key') or (f.get('kind'), f.get('tre') or str(f.get('case')))
        (rest if g in seen_groups else first).append(f)
        seen_groups.add(g)
    unknown = first + rest
    for f in unknown[:5]:
        chk.violation(f['msg'], {'case': f, 'replay_cmd': './check C13 --replay <this file>'}, True)
    if len(unknown) > 5:
        chk.notes.append(f'{len(unknown)} failing inputs found, first 5 reported')
    if not unknown and (broken or disagreements):
        chk.violation('proof obligation or correspondence no longer checks: ' + '; '.join(broken[:3] + [json.dumps(d, default=str)[:300] for d in disagreements[:2]]),
                      {'broken_obligations': broken, 'disagreements': disagreements[:10]}, False)
    chk.coverage['failing_inputs'] = len(fails)
    return chk.finish()


def replay(path):
    sarpy_guard()
    case = json.load(open(path))['case']
    print(json.dumps(case)[:1500])
    if isinstance(case, dict) and case.get('tre') and case.get('bytes'):
        return c13t.replay_case(case)
    if isinstance(case, dict) and case.get('kind') == 'assign' and isinstance(case.get('case'), dict):
        return c13a.replay_case(case['case'])
    if isinstance(case, dict) and case.get('history') and case.get('bytes'):
        return c13x.replay_case(case)
    return 1
