"""Correspondence between the Lean segment model (Spec/Segment.lean, driver token `seg`) and the real sarpy data
segment classes (built by segtree.Builder), for C01 (reads) and C07 (writes).

Every stored leaf array is filled with `leaf_id * 10**6 + flat raw offset`, so the value of a formatted pixel *is*
its provenance; the model prints the same provenance (`<leaf id>:<flat raw offset>`, `F` for the fill value,
`C(<re>,<im>)` for a complex pair).  Modelled: array / memmap / file-read leaves, reverse + transpose, ReorientationSegment,
subsets (squeeze or not), band and block aggregates (holes), ComplexFormatFunction IQ/QI with collapsed band axis (reads);
everything else raises `Unsupported` in `encode` and is counted in `stats['unsupported']`.

Two-phase API, so that the caller can share one `Driver` run:

    jobs = segmodel.plan_reads(drv, rng, tier)        # before drv.run()
    dis, stats = segmodel.check_reads(jobs, ans)      # after ans = drv.run()   (optional third argument: scratch dir)

    jobs = segmodel.plan_writes(drv, rng, tier, rand_wtree)
    dis, stats = segmodel.check_writes(jobs, ans)

`dis` is a list of disagreement dicts (model vs implementation); each carries the tree, the subscript and both
answers.  `obligations_reads(chk, broken)` / `obligations_writes(chk, broken)` audit the theorems of Props/C01Seg.lean /
Props/C07Seg.lean (axioms, required names) and append to `broken`.
"""
import copy
import os
import shutil
import tempfile

import numpy

import segtree

BASE = 10 ** 6
FILL = -7

REQUIRED_SEG = [
    'read_refines', 'read_eq_select', 'read_shape', 'full_shape', 'full_local', 'full_read', 'full_in_store', 'read_in_store',
    'orient_refines', 'subset_refines', 'fleaf_refines', 'cplx_refines', 'block_some', 'block_none', 'block_axes',
    'mirror_point', 'overlap_point', 'normalSub_iff', 'selIdx_inR',
]
SEG_MODULE = 'SarpyModel.Props.C01Seg'
SEG_NS = 'Sarpy.Props.C01Seg'
REQUIRED_WSEG = [
    'write_routes', 'write_then_full', 'write_then_full_selected', 'write_then_full_other', 'injective_of_distinct',
    'writes_disjoint', 'chunks_commute', 'chunks_commute_scatter', 'full_eval', 'overlapsW_eq', 'data_entry',
    'leaf_routes', 'orient_routes', 'subset_routes', 'bands_routes', 'block_routes', 'fullOnto_char', 'tiled_plain',
]
WSEG_MODULE = 'SarpyModel.Props.C07Seg'
WSEG_NS = 'Sarpy.Props.C07Seg'


# ------------------------------------------------------------------ tree encoding

class Unsupported(Exception):
    pass


def _nats(l):
    return ','.join(str(int(x)) for x in l) if len(l) else '-'


def _o(v):
    return 'N' if v is None else str(int(v))


def sub_token(sub):
    return ';'.join(f'{_o(a)}/{_o(b)}/{_o(c)}' for a, b, c in sub) if len(sub) else '-'


def _count(n, d):
    return len(range(*slice(*d).indices(n)))


def encode(spec):
    """-> (tokens, spec copy with provenance bases, number of leaves).  Raises Unsupported for what the model does not
    cover (complex / LUT format functions, raw-basis subsets, block arrangements with step -1)."""
    spec = copy.deepcopy(spec)
    counter = [0]
    toks = _enc(spec, counter)
    return toks, spec, counter[0]


def _orient_tokens(spec, ndim):
    rev = spec.get('rev') or []
    trans = spec.get('trans')
    perm = list(trans) if trans is not None else list(range(ndim))
    return ['O', _nats(sorted(set(rev))), _nats(perm)]


def _enc(spec, counter):
    k = spec['kind']
    f = spec.get('fmt')
    if f and not (k in ('array', 'memmap', 'fileread') and f['kind'] == 'complex' and f['collapsed'] and f['order'] in ('IQ', 'QI')):
        raise Unsupported('format function ' + f['kind'] + ('' if f['kind'] != 'complex' else ' (band dimension kept)'))
    if k in ('array', 'memmap', 'fileread'):
        lid = counter[0]
        counter[0] += 1
        spec['base'] = lid * BASE
        spec['dtype'] = 'int32'
        spec['_id'] = lid
        shape = list(spec['shape'])
        leaf = ['R' if k == 'fileread' else 'L', str(lid), _nats(shape)]
        if f:
            if lid > 15:
                raise Unsupported('complex64 cannot carry the provenance of more than 16 leaves exactly')
            o = _orient_tokens(spec, len(shape))
            return ['C', '1' if f['order'] == 'IQ' else '0', o[1], o[2], str(f['band_dim'])] + leaf
        return _orient_tokens(spec, len(shape)) + leaf
    if k == 'reorient':
        inner = _enc(spec['parent'], counter)
        nd = len(segtree.full_shape_of(spec['parent']))
        return _orient_tokens(spec, nd) + inner
    if k == 'subset':
        if spec.get('basis', 'formatted') != 'formatted':
            raise Unsupported('raw-basis subset')
        inner = _enc(spec['parent'], counter)
        return ['S', '1' if spec.get('squeeze', True) else '0', sub_token(spec['def'])] + inner
    if k == 'bands':
        ch = [_enc(c, counter) for c in spec['children']]
        nd = len(segtree.full_shape_of(spec['children'][0])) + 1
        out = _orient_tokens(spec, nd) + ['B', str(spec['band_dim']), str(len(ch))]
        for c in ch:
            out += c
        return out
    if k == 'blocks':
        ch = [_enc(c, counter) for c in spec['children']]
        shape = list(spec['shape'])
        spec['fill'] = FILL
        out = _orient_tokens(spec, len(shape)) + ['K', _nats(shape), str(len(ch))]
        for a, c in zip(spec['arrangement'], ch):
            if any(x[2] != 1 for x in a):
                raise Unsupported('block arrangement with step != 1')
            out += [','.join(f'{x[0]}:{x[1]}' for x in a)] + c
        return out
    raise Unsupported(k)


def show(arr):
    """implementation array of provenance values -> the driver's text form"""
    def one(v):
        v = int(v)
        return 'F' if v == FILL else f'{v // BASE}:{v % BASE}'

    def elem(v):
        if numpy.iscomplexobj(arr):
            return f'C({one(v.real)},{one(v.imag)})'
        return one(v)
    return _nats(arr.shape) + ' | ' + ' '.join(elem(v) for v in arr.reshape(-1))


def rand_sub(rng, shape):
    return [segtree.rand_norm_slice(rng, n, steps=(1, 1, -1, 2, -2, 3, -3)) for n in shape]


def py_sub(sub):
    return tuple(slice(*x) for x in sub)


# ------------------------------------------------------------------ reads (C01)

def plan_reads(drv, rng, tier, trees=None):
    """ask the model for: formatted shape, full image and `per` random normalised subscripts of random trees"""
    ntrees = 120 if tier == 'quick' else 2500
    per = 8 if tier == 'quick' else 16
    jobs = []
    stats = {'trees': 0, 'unsupported': 0}
    source = trees if trees is not None else (segtree.rand_tree(rng, rng.choice([0, 1, 1, 2, 2, 3])) for _ in range(ntrees))
    for spec in source:
        try:
            toks, spec2, nleaves = encode(spec)
            shape = segtree.full_shape_of(spec2)
        except Unsupported:
            stats['unsupported'] += 1
            continue
        if not shape or any(n == 0 for n in shape):
            continue
        stats['trees'] += 1
        tline = ' '.join(toks)
        job = {'tree': spec2, 'tokens': tline, 'shape_q': drv.ask('seg shape ' + tline), 'full_q': drv.ask('seg full ' + tline),
               'subs': []}
        for _ in range(per):
            sub = rand_sub(rng, shape)
            job['subs'].append((sub, drv.ask('seg read ' + tline + ' ' + sub_token(sub))))
        jobs.append(job)
    return {'jobs': jobs, 'stats': stats}


def _with_tmp(fn):
    def wrapped(plan, ans, tmpdir=None):
        if tmpdir is not None:
            return fn(plan, ans, tmpdir)
        d = tempfile.mkdtemp(prefix='segmodel_', dir=os.environ.get('VERIF_SCRATCH', '/var/tmp'))
        try:
            return fn(plan, ans, d)
        finally:
            shutil.rmtree(d, ignore_errors=True)
    wrapped.__doc__ = fn.__doc__
    return wrapped


@_with_tmp
def check_reads(plan, ans, tmpdir):
    """-> (disagreements, stats): the model's provenance against the real segment's values"""
    dis = []
    stats = dict(plan['stats'])
    stats.update({'reads': 0, 'full_reads': 0, 'classes': set()})
    for job in plan['jobs']:
        spec = job['tree']
        b = segtree.Builder('r', tmpdir)
        try:
            try:
                seg, _ = b.build(spec)
            except Exception as e:
                if ans[job['shape_q']] != 'refused':
                    dis.append({'tree': spec, 'sub': None, 'model': ans[job['shape_q']], 'impl': f'construction refused: {type(e).__name__}: {e}',
                                'tie': 'segment model (well-formedness)'})
                continue
            stats['classes'].add(segtree.tree_class(spec))
            m_shape = ans[job['shape_q']]
            if m_shape != _nats(seg.formatted_shape):
                dis.append({'tree': spec, 'sub': None, 'model': m_shape, 'impl': _nats(seg.formatted_shape), 'tie': 'segment model (formatted_shape)'})
                continue
            try:
                got = show(seg.read(None, squeeze=False))
            except Exception as e:
                got = f'raised {type(e).__name__}: {e}'
            stats['full_reads'] += 1
            if got != ans[job['full_q']]:
                dis.append({'tree': spec, 'sub': None, 'model': ans[job['full_q']][:300], 'impl': got[:300], 'tie': 'segment model (full image)'})
                continue
            for sub, q in job['subs']:
                stats['reads'] += 1
                try:
                    got = show(seg.read(py_sub(sub), squeeze=False))
                except Exception as e:
                    got = f'raised {type(e).__name__}: {e}'
                if got != ans[q]:
                    dis.append({'tree': spec, 'sub': sub, 'model': ans[q][:300], 'impl': got[:300], 'tie': 'segment model (read)'})
                    break
            try:
                seg.close()
            except Exception:
                pass
        finally:
            b.cleanup()
    stats['classes'] = len(stats['classes'])
    return dis, stats


# ------------------------------------------------------------------ writes (C07)

def plan_writes(drv, rng, tier, rand_wtree, trees=None):
    """ask the model where every element of `per` random (normalised, possibly strided / reversed) chunks is stored"""
    ntrees = 100 if tier == 'quick' else 2000
    per = 5 if tier == 'quick' else 10
    jobs = []
    stats = {'trees': 0, 'unsupported': 0}
    source = trees if trees is not None else (rand_wtree(rng, rng.choice([0, 1, 1, 2, 2])) for _ in range(ntrees))
    for spec in source:
        try:
            toks, spec2, nleaves = encode(spec)
            shape = segtree.full_shape_of(spec2)
        except Unsupported:
            stats['unsupported'] += 1
            continue
        if not shape or any(n == 0 for n in shape) or ' C ' in ' ' + ' '.join(toks):
            continue        # complex formats are modelled for reads only
        stats['trees'] += 1
        tline = ' '.join(toks)
        job = {'tree': spec2, 'tokens': tline, 'nleaves': nleaves, 'subs': []}
        for j in range(per):
            sub = [[0, n, 1] for n in shape] if j == 0 else rand_sub(rng, shape)
            job['subs'].append((sub, drv.ask('seg write ' + tline + ' ' + sub_token(sub))))
        jobs.append(job)
    return {'jobs': jobs, 'stats': stats}


def _model_assignments(answer):
    if answer == 'refused' or ' | ' not in answer and not answer.endswith(' |'):
        return None, answer
    shape, _, body = answer.partition(' |')
    out = {}
    dup = 0
    for tok in body.split():
        key, _, pos = tok.partition('=')
        lid, _, off = key.partition(':')
        k = (int(lid), int(off))
        dup += k in out
        out[k] = int(pos)
    return out, shape.strip(), dup


@_with_tmp
def check_writes(plan, ans, tmpdir):
    """-> (disagreements, stats): every chunk is written into a fresh real segment tree (stores pre-set to -1) with the
    chunk element at flat position p carrying the value p; the changed raw samples are compared with the model's assignments"""
    dis = []
    stats = dict(plan['stats'])
    stats.update({'writes': 0, 'assignments': 0, 'classes': set()})
    for job in plan['jobs']:
        spec = job['tree']
        for sub, q in job['subs']:
            b = segtree.Builder('w', tmpdir)
            try:
                try:
                    seg, _ = b.build(spec)
                except Exception as e:
                    if ans[q] != 'refused':
                        dis.append({'tree': spec, 'sub': sub, 'model': ans[q][:200], 'impl': f'construction refused: {type(e).__name__}: {e}',
                                    'tie': 'segment model (well-formedness)'})
                    break
                if len(b.leaves) != job['nleaves'] or not seg.can_write_regular:
                    break
                stats['classes'].add(segtree.tree_class(spec))
                counts = tuple(_count(n, d) for n, d in zip(seg.formatted_shape, sub))
                data = numpy.arange(int(numpy.prod(counts)), dtype='int32').reshape(counts)
                stats['writes'] += 1
                try:
                    seg.write(data, subscript=py_sub(sub))
                    impl = {}
                    for lid, (_, arr) in enumerate(b.leaves):
                        flat = numpy.array(arr).reshape(-1)
                        for off in numpy.nonzero(flat != -1)[0]:
                            impl[(lid, int(off))] = int(flat[off])
                except Exception as e:
                    impl = f'raised {type(e).__name__}: {e}'
                parsed = _model_assignments(ans[q])
                if parsed[0] is None or isinstance(impl, str):
                    if not (parsed[0] is None and isinstance(impl, str)):
                        dis.append({'tree': spec, 'sub': sub, 'model': ans[q][:300], 'impl': str(impl)[:300], 'tie': 'segment model (write)'})
                        break
                    continue
                model, mshape, dup = parsed
                stats['assignments'] += len(model)
                if mshape != _nats(counts) or model != impl or dup:
                    dis.append({'tree': spec, 'sub': sub, 'model': ans[q][:300], 'impl': ' '.join(f'{k[0]}:{k[1]}={v}' for k, v in sorted(impl.items()))[:300],
                                'duplicate_assignments': dup, 'tie': 'segment model (write)'})
                    break
                try:
                    seg.close()
                except Exception:
                    pass
            finally:
                b.cleanup()
    stats['classes'] = len(stats['classes'])
    return dis, stats


# ------------------------------------------------------------------ proof obligations

def _obligations(chk, broken, module, ns, required, tag):
    from common import audit, ALLOWED_AXIOMS
    try:
        k = audit(module, ns)
    except Exception as e:
        broken.append(f'{module} audit failed: {str(e)[:200]}')
        chk.coverage['obligations'] = chk.coverage.get('obligations', 0) + len(required)
        return
    missing = [r for r in required if ns + '.' + r not in k]
    for r in missing:
        broken.append(ns + '.' + r + ' (required theorem missing)')
    bad = {n: a for n, a in k.items() if set(a) - ALLOWED_AXIOMS}
    for n, a in bad.items():
        broken.append(f'{n} depends on non-standard axioms {sorted(set(a) - ALLOWED_AXIOMS)}')
    chk.coverage['obligations'] = chk.coverage.get('obligations', 0) + len(k) + len(missing)
    chk.coverage['discharged'] = chk.coverage.get('discharged', 0) + len(k) - len(bad)
    chk.coverage['theorems'] = sorted(set(chk.coverage.get('theorems', [])) | {tag + '.' + n[len(ns) + 1:] for n in k})
    chk.coverage['axioms_used'] = sorted(set(chk.coverage.get('axioms_used', [])) | {a for v in k.values() for a in v})


def obligations_reads(chk, broken):
    """audit Props/C01Seg.lean (add SEG_MODULE to the chk.prove targets so that it is built)"""
    _obligations(chk, broken, SEG_MODULE, SEG_NS, REQUIRED_SEG, 'C01Seg')


def obligations_writes(chk, broken):
    """audit Props/C07Seg.lean (add WSEG_MODULE to the chk.prove targets); the read theorems are obligations too"""
    _obligations(chk, broken, WSEG_MODULE, WSEG_NS, REQUIRED_WSEG, 'C07Seg')
    _obligations(chk, broken, SEG_MODULE, SEG_NS, ['read_refines', 'full_shape', 'full_local'], 'C01Seg')
