"""Correspondence between the Lean segment model (Spec/Segment.lean, driver token `seg`) and the real sarpy data
segment classes (built by segtree.Builder), for C01 (reads) and C07 (writes).

Every stored leaf array is filled with `leaf_id * 10**6 + flat raw offset`, so the value of a formatted pixel *is*
its provenance; the model prints the same provenance (`<leaf id>:<flat raw offset>`, `F` for the fill value,
`C(<re>,<im>)` for a complex pair, `P(<mag>,<phase>)` for a magnitude / phase pair, `T<c>(<x>)` for a table look-up).
Modelled: array / memmap / file-read leaves, reverse + transpose, ReorientationSegment, subsets (squeeze or not, formatted
basis; raw basis over a parent with the identity format function), band and block aggregates (holes, block definitions with
step -1), ComplexFormatFunction IQ / QI / MP / PM with the band axis collapsed or kept (reads and writes),
SingleLUTFormatFunction with a 1-d or 2-d table; everything else raises `Unsupported` in `encode` and is counted in
`stats['unsupported']` (raw-basis subsets over subsets / complex / LUT parents: numpy oracle only).  Block definitions with
step -1 and 2-d tables are modelled as the REPAIRED code behaves (notes/NOTES_SEGFIX.md, patches F1 and F5).

Trees with a magnitude / phase or LUT format are compared by VALUE: the model's provenance expression is evaluated on the
harness's own copy of the leaf arrays (magnitude * exp(i * 2 pi phase / 2^bits), table[x]) and compared with what sarpy
returns (tolerance 1e-5 relative, far below the distance between distinct samples); all other trees are compared
exactly, provenance string against provenance string.

Two-phase API, so that the caller can share one `Driver` run:

    jobs = segmodel.plan_reads(drv, rng, tier)        # before drv.run()
    dis, stats = segmodel.check_reads(jobs, ans)      # after ans = drv.run()   (optional third argument: scratch dir)

    jobs = segmodel.plan_writes(drv, rng, tier, rand_wtree)
    dis, stats = segmodel.check_writes(jobs, ans)

`dis` is a list of disagreement dicts (model vs implementation); each carries the tree, the subscript and both
answers.  `obligations_reads(chk, broken)` / `obligations_writes(chk, broken)` audit the theorems of Props/C01Seg.lean /
Props/C07Seg.lean (axioms, required names) and append to `broken`.
"""
import copy
import os
import shutil
import tempfile

import numpy

import segtree

BASE = 10 ** 6
FILL = -7

REQUIRED_SEG = [
    'read_refines', 'read_eq_select', 'read_shape', 'full_shape', 'full_local', 'full_read', 'full_in_store', 'read_in_store',
    'orient_refines', 'subset_refines', 'fleaf_refines', 'cplx_refines', 'block_some', 'block_none', 'block_axes',
    'mirror_point', 'overlap_point', 'normalSub_iff', 'selIdx_inR',
    # SEG2: raw-basis subsets, reversed block definitions, kept band dimension, MP / PM, lookup tables, the supported set
    'read_refines_total', 'accepts_of_total', 'subsetR_full_raw', 'fmtSub_orient', 'fmtSub_normal', 'squeeze_congr',
    'flipSlice_spec', 'overlapsR_spec', 'block_axesR', 'block_someR', 'block_noneR', 'kept_refines', 'rawSubK_eq', 'rawSubK_reversed_not_normal', 'dblAt_normal',
    'lutMap_refines', 'lutCols_refines',
]
SEG_MODULE = 'SarpyModel.Props.C01Seg'
SEG_NS = 'Sarpy.Props.C01Seg'
REQUIRED_WSEG = [
    'write_routes', 'write_then_full', 'write_then_full_selected', 'write_then_full_other', 'injective_of_distinct',
    'writes_disjoint', 'chunks_commute', 'chunks_commute_scatter', 'full_eval', 'overlapsW_eq', 'data_entry',
    'leaf_routes', 'orient_routes', 'subset_routes', 'bands_routes', 'block_routes', 'fullOnto_char', 'tiled_plain',
    # SEG2: routing of every part of a written pixel, complex format functions included (Props/C07SegG.lean)
    'write_routesG', 'routesG_plain', 'stores_comb', 'stores_leaf', 'routes_transfer', 'leaf_routesG', 'orient_routesG',
    'subset_routesG', 'cplx_routesG', 'kept_routesG', 'bands_routesG', 'block_routesG', 'fullOnto_charP', 'orient_inj', 'subset_inj',
    # SEGFIX: block definitions with step -1 are served (repair F1): routing through the mirrored block-relative slice
    'block_routesRQ', 'overlapsWR_eq', 'block_axes_stepR', 'block_dataR',
]
WSEG_MODULE = 'SarpyModel.Props.C07SegG'
WSEG_NS = 'Sarpy.Props.C07Seg'


# ------------------------------------------------------------------ tree encoding

class Unsupported(Exception):
    pass


def _nats(l):
    return ','.join(str(int(x)) for x in l) if len(l) else '-'


def _o(v):
    return 'N' if v is None else str(int(v))


def sub_token(sub):
    return ';'.join(f'{_o(a)}/{_o(b)}/{_o(c)}' for a, b, c in sub) if len(sub) else '-'


def _count(n, d):
    return len(range(*slice(*d).indices(n)))


def encode(spec):
    """-> (tokens, spec copy with provenance bases, number of leaves).  Raises Unsupported for what the model does not
    cover (complex / LUT format functions, raw-basis subsets, block arrangements with step -1)."""
    spec = copy.deepcopy(spec)
    counter = [0]
    _required_dtype(spec)
    toks = _enc(spec, counter)
    return toks, spec, counter[0]


def _orient_tokens(spec, ndim):
    """prefix for the node's own reverse / transpose / format function"""
    rev = spec.get('rev') or []
    trans = spec.get('trans')
    perm = list(trans) if trans is not None else list(range(ndim))
    f = spec.get('fmt')
    if f is None:
        return ['O', _nats(sorted(set(rev))), _nats(perm)]
    if f['kind'] == 'complex':
        return ['C' if f['collapsed'] else 'CK', f['order'], _nats(sorted(set(rev))), _nats(perm), str(f['band_dim'])]
    if f['kind'] == 'lut':
        if isinstance(f['table'][0], list):
            # tied since the repair F5_lut_2d_raw_subscript (DataSegment.read hands the formatted column slice on)
            return ['U2', str(len(f['table'][0])), _nats(sorted(set(rev))), _nats(perm)]
        return ['U1', _nats(sorted(set(rev))), _nats(perm)]
    raise Unsupported('format function ' + f['kind'])


def _required_dtype(spec, want='int32'):
    """stored dtype of every leaf below: uint16 under a magnitude / phase format, uint8 under a table, else int32"""
    f = spec.get('fmt')
    if f is not None:
        if want != 'int32':
            raise Unsupported('format function below a format function')
        if f['kind'] == 'complex' and f['order'] in ('MP', 'PM'):
            want = 'uint16'
        elif f['kind'] == 'lut':
            want = 'uint8'
        elif f['kind'] == 'complex':
            want = 'cint32'      # int32 storage read as complex pairs (float32 carries < 2^24 exactly)
    if spec['kind'] in ('array', 'memmap', 'fileread'):
        spec['_want'] = want
    if 'parent' in spec:
        _required_dtype(spec['parent'], want)
    for c in spec.get('children', []):
        _required_dtype(c, want)


def _enc_raw(spec, counter):
    """tokens of what lies below the node's own orientation (its raw data)"""
    k = spec['kind']
    if k in ('array', 'memmap', 'fileread'):
        lid = counter[0]
        counter[0] += 1
        want = spec.get('_want', 'int32')
        n = int(numpy.prod(spec['shape'])) if spec['shape'] else 1
        if want == 'uint16':
            if lid > 15 or n > 3000:
                raise Unsupported('uint16 provenance range')
            spec['base'], spec['dtype'] = lid * 4000 + 1, 'uint16'
        elif want == 'uint8':
            if n > 250:
                raise Unsupported('uint8 provenance range')
            spec['base'], spec['dtype'] = lid * 53, 'uint8'
        else:
            if want == 'cint32' and lid > 15:
                raise Unsupported('complex64 cannot carry the provenance of more than 16 leaves exactly')
            spec['base'], spec['dtype'] = lid * BASE, 'int32'
        spec['_id'] = lid
        return ['R' if k == 'fileread' else 'L', str(lid), _nats(list(spec['shape']))], len(spec['shape'])
    if k == 'reorient':
        return _enc(spec['parent'], counter), len(segtree.full_shape_of(spec['parent']))
    if k == 'bands':
        ch = [_enc(c, counter) for c in spec['children']]
        nd = len(segtree.full_shape_of(spec['children'][0])) + 1
        out = ['B', str(spec['band_dim']), str(len(ch))]
        for c in ch:
            out += c
        return out, nd
    if k == 'blocks':
        ch = [_enc(c, counter) for c in spec['children']]
        shape = list(spec['shape'])
        spec['fill'] = FILL
        out = ['K', _nats(shape), str(len(ch))]
        for a, c in zip(spec['arrangement'], ch):
            ent = []
            for x in a:
                if x[2] == 1:
                    ent.append(f'{x[0]}:{x[1]}')
                elif x[2] == -1:
                    ent.append(f'{0 if x[1] is None else x[1] + 1}:{x[0] + 1}r')
                else:
                    raise Unsupported('block arrangement with |step| != 1')
            out += [','.join(ent)] + c
        return out, len(shape)
    raise Unsupported(k)


def _enc(spec, counter):
    k = spec['kind']
    if k == 'subset':
        if spec.get('fmt'):
            raise Unsupported('format function on a subset')
        if spec.get('basis', 'formatted') == 'formatted':
            inner = _enc(spec['parent'], counter)
            return ['S', '1' if spec.get('squeeze', True) else '0', sub_token(spec['def'])] + inner
        ps = spec['parent']
        if ps['kind'] == 'subset' or ps.get('fmt'):
            raise Unsupported('raw-basis subset over a subset or over a complex / LUT format function (outside the model)')
        raw, nd = _enc_raw(ps, counter)
        o = _orient_tokens(ps, nd)
        return ['SR', '1' if spec.get('squeeze', True) else '0', sub_token(spec['def']), o[1], o[2]] + raw
    raw, nd = _enc_raw(spec, counter)
    return _orient_tokens(spec, nd) + raw


def needs_values(spec):
    """compare by value (magnitude / phase arithmetic, table look-up) instead of by provenance string"""
    f = spec.get('fmt')
    if f and (f['kind'] == 'lut' or (f['kind'] == 'complex' and f['order'] in ('MP', 'PM'))):
        return True
    if 'parent' in spec and needs_values(spec['parent']):
        return True
    return any(needs_values(c) for c in spec.get('children', []))


def leaf_specs(spec):
    if spec['kind'] in ('array', 'memmap', 'fileread'):
        return [spec]
    out = []
    if 'parent' in spec:
        out += leaf_specs(spec['parent'])
    for c in spec.get('children', []):
        out += leaf_specs(c)
    return out


def _parse_elem(tok, pos=0):
    """provenance expression -> nested tuple; returns (expr, next position)"""
    c = tok[pos]
    if c == 'F':
        return ('F',), pos + 1
    if c in 'CP':
        a, p = _parse_elem(tok, pos + 2)
        b, p = _parse_elem(tok, p + 1)
        return (c, a, b), p + 1
    if c == 'T':
        j = tok.index('(', pos)
        a, p = _parse_elem(tok, j + 1)
        return ('T', int(tok[pos + 1:j]), a), p + 1
    j = pos
    while j < len(tok) and (tok[j].isdigit() or tok[j] == ':'):
        j += 1
    lid, _, off = tok[pos:j].partition(':')
    return ('L', int(lid), int(off)), j


def evaluate(answer, leaves, table, phase_scale):
    """model answer `shape | elements` -> numpy array of the values those provenance expressions denote"""
    shape, _, body = answer.partition(' |')
    shape = tuple(int(x) for x in shape.strip().split(',')) if shape.strip() != '-' else ()

    def ev(e):
        if e[0] == 'F':
            return FILL
        if e[0] == 'L':
            return leaves[e[1]].reshape(-1)[e[2]]
        if e[0] == 'C':
            return complex(float(ev(e[1])), float(ev(e[2])))
        if e[0] == 'P':
            return float(ev(e[1])) * numpy.exp(1j * float(ev(e[2])) * phase_scale)
        if e[0] == 'T':
            row = table[int(ev(e[2]))]
            return row[e[1]] if isinstance(row, list) else row
        raise ValueError(e)
    vals = [ev(_parse_elem(t)[0]) for t in body.split()]
    return numpy.array(vals).reshape(shape)


def _fmt_params(spec):
    """(table, phase scale) of the format function in the tree (at most one kind per tree, see _required_dtype)"""
    f = spec.get('fmt')
    if f and f['kind'] == 'lut':
        return f['table'], 0.0
    if f and f['kind'] == 'complex' and f['order'] in ('MP', 'PM'):
        return None, 2.0 * numpy.pi / 65536.0
    for c in ([spec['parent']] if 'parent' in spec else []) + list(spec.get('children', [])):
        t, s_ = _fmt_params(c)
        if t is not None or s_:
            return t, s_
    return None, 0.0


def show(arr):
    """implementation array of provenance values -> the driver's text form"""
    def one(v):
        v = int(v)
        return 'F' if v == FILL else f'{v // BASE}:{v % BASE}'

    def elem(v):
        if numpy.iscomplexobj(arr):
            return f'C({one(v.real)},{one(v.imag)})'
        return one(v)
    return _nats(arr.shape) + ' | ' + ' '.join(elem(v) for v in arr.reshape(-1))


def rand_sub(rng, shape):
    return [segtree.rand_norm_slice(rng, n, steps=(1, 1, -1, 2, -2, 3, -3)) for n in shape]


def py_sub(sub):
    return tuple(slice(*x) for x in sub)


# ------------------------------------------------------------------ reads (C01)

def plan_reads(drv, rng, tier, trees=None):
    """ask the model for: formatted shape, full image and `per` random normalised subscripts of random trees"""
    ntrees = 120 if tier == 'quick' else 2500
    per = 8 if tier == 'quick' else 16
    jobs = []
    stats = {'trees': 0, 'unsupported': 0}
    source = trees if trees is not None else (segtree.rand_tree(rng, rng.choice([0, 1, 1, 2, 2, 3])) for _ in range(ntrees))
    for spec in source:
        try:
            toks, spec2, nleaves = encode(spec)
            shape = segtree.full_shape_of(spec2)
        except Unsupported:
            stats['unsupported'] += 1
            continue
        if not shape or any(n == 0 for n in shape):
            continue
        stats['trees'] += 1
        tline = ' '.join(toks)
        job = {'tree': spec2, 'tokens': tline, 'shape_q': drv.ask('seg shape ' + tline), 'full_q': drv.ask('seg full ' + tline),
               'fullread_q': drv.ask('seg read ' + tline + ' ' + sub_token([[0, n, 1] for n in shape])), 'subs': []}
        for _ in range(per):
            sub = rand_sub(rng, shape)
            job['subs'].append((sub, drv.ask('seg read ' + tline + ' ' + sub_token(sub))))
        jobs.append(job)
    return {'jobs': jobs, 'stats': stats}


def _with_tmp(fn):
    def wrapped(plan, ans, tmpdir=None):
        if tmpdir is not None:
            return fn(plan, ans, tmpdir)
        d = tempfile.mkdtemp(prefix='segmodel_', dir=os.environ.get('VERIF_SCRATCH', '/var/tmp'))
        try:
            return fn(plan, ans, d)
        finally:
            shutil.rmtree(d, ignore_errors=True)
    wrapped.__doc__ = fn.__doc__
    return wrapped


REFUSALS = (ValueError, KeyError)


def _read_agrees(seg, sub, model, valctx):
    """-> (agree, implementation text).  A refusal (ValueError / KeyError, what sarpy raises for a subscript it does not
    serve) agrees with the model answer `refused` and with nothing else."""
    try:
        got = seg.read(None if sub is None else py_sub(sub), squeeze=False)
    except REFUSALS as e:
        return model == 'refused', f'raised {type(e).__name__}: {e}'
    except Exception as e:
        return False, f'raised {type(e).__name__}: {e}'
    if model == 'refused':
        return False, show_any(got)
    if valctx is None:
        text = show(got)
        return text == model, text
    leaves, table, scale, approx = valctx
    want = evaluate(model, leaves, table, scale)
    ok = segtree.arrays_equal(numpy.asarray(got), want.astype(got.dtype) if not approx else want, approx)
    return ok, show_any(got)


def show_any(arr):
    return _nats(arr.shape) + ' | ' + ' '.join(str(v) for v in arr.reshape(-1)[:40])


@_with_tmp
def check_reads(plan, ans, tmpdir):
    """-> (disagreements, stats): the model's provenance against the real segment's values"""
    dis = []
    stats = dict(plan['stats'])
    stats.update({'reads': 0, 'full_reads': 0, 'refused_both': 0, 'by_value': 0, 'classes': set()})
    for job in plan['jobs']:
        spec = job['tree']
        b = segtree.Builder('r', tmpdir)
        try:
            try:
                seg, _ = b.build(spec)
            except Exception as e:
                if ans[job['shape_q']] != 'refused':
                    dis.append({'tree': spec, 'sub': None, 'model': ans[job['shape_q']], 'impl': f'construction refused: {type(e).__name__}: {e}',
                                'tie': 'segment model (well-formedness)'})
                continue
            stats['classes'].add(segtree.tree_class(spec))
            m_shape = ans[job['shape_q']]
            if m_shape != _nats(seg.formatted_shape):
                dis.append({'tree': spec, 'sub': None, 'model': m_shape, 'impl': _nats(seg.formatted_shape), 'tie': 'segment model (formatted_shape)'})
                continue
            valctx = None
            if needs_values(spec):
                table, scale = _fmt_params(spec)
                valctx = ([segtree.Builder('r').leaf_array(l) for l in leaf_specs(spec)], table, scale, segtree.has_polar(spec))
                stats['by_value'] += 1
            # the full image: the denotation `Seg.full` (always defined) against read(None) when the code serves it
            stats['full_reads'] += 1
            m_read_full = ans[job['fullread_q']]
            ok, got = _read_agrees(seg, None, ans[job['full_q']] if m_read_full != 'refused' else 'refused', valctx)
            stats['refused_both'] += m_read_full == 'refused' and ok
            if not ok:
                dis.append({'tree': spec, 'sub': None, 'model': (m_read_full if m_read_full == 'refused' else ans[job['full_q']])[:300],
                            'impl': got[:300], 'tie': 'segment model (full image)'})
                continue
            for sub, q in job['subs']:
                stats['reads'] += 1
                ok, got = _read_agrees(seg, sub, ans[q], valctx)
                stats['refused_both'] += ans[q] == 'refused' and ok
                if not ok:
                    dis.append({'tree': spec, 'sub': sub, 'model': ans[q][:300], 'impl': got[:300], 'tie': 'segment model (read)'})
                    break
            try:
                seg.close()
            except Exception:
                pass
        finally:
            b.cleanup()
    stats['classes'] = len(stats['classes'])
    return dis, stats


# ------------------------------------------------------------------ writes (C07)

def _fmts(spec):
    out = [spec['fmt']] if spec.get('fmt') else []
    if 'parent' in spec:
        out += _fmts(spec['parent'])
    for c in spec.get('children', []):
        out += _fmts(c)
    return out


def write_kind(spec):
    """'plain' | 'pair' (IQ / QI) | 'polar' (MP / PM) | None (not writable through the model: LUT, mixed formats)"""
    fs = _fmts(spec)
    if not fs:
        return 'plain'
    if any(f['kind'] != 'complex' for f in fs):
        return None
    kinds = {'polar' if f['order'] in ('MP', 'PM') else 'pair' for f in fs}
    return kinds.pop() if len(kinds) == 1 else None


def plan_writes(drv, rng, tier, rand_wtree, trees=None):
    """ask the model where every element of `per` random (normalised, possibly strided / reversed) chunks is stored"""
    ntrees = 100 if tier == 'quick' else 2000
    per = 5 if tier == 'quick' else 10
    jobs = []
    stats = {'trees': 0, 'unsupported': 0}
    source = trees if trees is not None else (rand_wtree(rng, rng.choice([0, 1, 1, 2, 2])) for _ in range(ntrees))
    for spec in source:
        try:
            toks, spec2, nleaves = encode(spec)
            shape = segtree.full_shape_of(spec2)
        except Unsupported:
            stats['unsupported'] += 1
            continue
        kind = write_kind(spec2)
        if not shape or any(n == 0 for n in shape) or kind is None:
            continue
        stats['trees'] += 1
        tline = ' '.join(toks)
        job = {'tree': spec2, 'tokens': tline, 'nleaves': nleaves, 'kind': kind, 'subs': []}
        for j in range(per):
            sub = [[0, n, 1] for n in shape] if j == 0 else rand_sub(rng, shape)
            job['subs'].append((sub, drv.ask('seg write ' + tline + ' ' + sub_token(sub))))
        jobs.append(job)
    return {'jobs': jobs, 'stats': stats}


def _model_assignments(answer):
    if answer == 'refused' or ' | ' not in answer and not answer.endswith(' |'):
        return None, answer
    shape, _, body = answer.partition(' |')
    out = {}
    dup = 0
    for tok in body.split():
        key, _, pos = tok.partition('=')
        lid, _, off = key.partition(':')
        k = (int(lid), int(off))
        dup += k in out
        out[k] = pos
    return out, shape.strip(), dup


def chunk_data(kind, counts):
    """the chunk whose element at flat position p tells p (and, for complex formats, which part of it a stored sample is):
    plain p;  pair 2p + i (2p + 1);  polar magnitude 2p + 1, phase (2p + 2) / 65536 of a turn"""
    n = int(numpy.prod(counts)) if len(counts) else 1
    p = numpy.arange(n, dtype='float64')
    if kind == 'plain':
        return numpy.arange(n, dtype='int32').reshape(counts)
    if kind == 'pair':
        return (2 * p + 1j * (2 * p + 1)).astype('complex64').reshape(counts)
    return ((2 * p + 1) * numpy.exp(2j * numpy.pi * (2 * p + 2) / 65536.0)).astype('complex64').reshape(counts)


def decode_sample(kind, v):
    """stored raw sample -> the model's text for it (`p` or `p.<part>`)"""
    v = int(v)
    if kind == 'plain':
        return str(v)
    if kind == 'pair':
        return f'{v // 2}.{v % 2}'
    return f'{(v - 1) // 2}.2' if v % 2 else f'{(v - 2) // 2}.3'


@_with_tmp
def check_writes(plan, ans, tmpdir):
    """-> (disagreements, stats): every chunk is written into a fresh real segment tree (stores pre-set to a sentinel) with
    `chunk_data`; the changed raw samples, decoded, are compared with the model's assignments"""
    dis = []
    stats = dict(plan['stats'])
    stats.update({'writes': 0, 'assignments': 0, 'refused_both': 0, 'complex_trees': 0, 'classes': set()})
    for job in plan['jobs']:
        spec = job['tree']
        kind = job['kind']
        stats['complex_trees'] += kind != 'plain'
        for sub, q in job['subs']:
            b = segtree.Builder('w', tmpdir)
            try:
                try:
                    seg, _ = b.build(spec)
                except Exception as e:
                    if ans[q] != 'refused':
                        dis.append({'tree': spec, 'sub': sub, 'model': ans[q][:200], 'impl': f'construction refused: {type(e).__name__}: {e}',
                                    'tie': 'segment model (well-formedness)'})
                    break
                if len(b.leaves) != job['nleaves'] or not seg.can_write_regular:
                    break
                stats['classes'].add(segtree.tree_class(spec))
                counts = tuple(_count(n, d) for n, d in zip(seg.formatted_shape, sub))
                if kind == 'polar' and int(numpy.prod(counts)) > 30000:
                    break
                data = chunk_data(kind, counts)
                stats['writes'] += 1
                try:
                    seg.write(data, subscript=py_sub(sub))
                    impl = {}
                    for lid, (_, arr) in enumerate(b.leaves):
                        flat = numpy.array(arr).reshape(-1)
                        for off in numpy.nonzero(flat != segtree.sentinel(flat.dtype))[0]:
                            impl[(lid, int(off))] = decode_sample(kind, flat[off])
                except REFUSALS as e:
                    impl = f'raised {type(e).__name__}: {e}'
                except Exception as e:
                    impl = f'raised unexpectedly {type(e).__name__}: {e}'
                parsed = _model_assignments(ans[q])
                if parsed[0] is None or isinstance(impl, str):
                    if not (parsed[0] is None and isinstance(impl, str) and not impl.startswith('raised unexpectedly')):
                        dis.append({'tree': spec, 'sub': sub, 'model': ans[q][:300], 'impl': str(impl)[:300], 'tie': 'segment model (write)'})
                        break
                    stats['refused_both'] += 1
                    continue
                model, mshape, dup = parsed
                stats['assignments'] += len(model)
                if mshape != _nats(counts) or model != impl or dup:
                    dis.append({'tree': spec, 'sub': sub, 'model': ans[q][:300], 'impl': ' '.join(f'{k[0]}:{k[1]}={v}' for k, v in sorted(impl.items()))[:300],
                                'duplicate_assignments': dup, 'tie': 'segment model (write)'})
                    break
                try:
                    seg.close()
                except Exception:
                    pass
            finally:
                b.cleanup()
    stats['classes'] = len(stats['classes'])
    return dis, stats


# ------------------------------------------------------------------ proof obligations

def _obligations(chk, broken, module, ns, required, tag):
    from common import audit, ALLOWED_AXIOMS
    try:
        k = audit(module, ns)
    except Exception as e:
        broken.append(f'{module} audit failed: {str(e)[:200]}')
        chk.coverage['obligations'] = chk.coverage.get('obligations', 0) + len(required)
        return
    missing = [r for r in required if ns + '.' + r not in k]
    for r in missing:
        broken.append(ns + '.' + r + ' (required theorem missing)')
    bad = {n: a for n, a in k.items() if set(a) - ALLOWED_AXIOMS}
    for n, a in bad.items():
        broken.append(f'{n} depends on non-standard axioms {sorted(set(a) - ALLOWED_AXIOMS)}')
    chk.coverage['obligations'] = chk.coverage.get('obligations', 0) + len(k) + len(missing)
    chk.coverage['discharged'] = chk.coverage.get('discharged', 0) + len(k) - len(bad)
    chk.coverage['theorems'] = sorted(set(chk.coverage.get('theorems', [])) | {tag + '.' + n[len(ns) + 1:] for n in k})
    chk.coverage['axioms_used'] = sorted(set(chk.coverage.get('axioms_used', [])) | {a for v in k.values() for a in v})


def obligations_reads(chk, broken):
    """audit Props/C01Seg.lean (add SEG_MODULE to the chk.prove targets so that it is built)"""
    _obligations(chk, broken, SEG_MODULE, SEG_NS, REQUIRED_SEG, 'C01Seg')


def obligations_writes(chk, broken):
    """audit Props/C07Seg.lean (add WSEG_MODULE to the chk.prove targets); the read theorems are obligations too"""
    _obligations(chk, broken, WSEG_MODULE, WSEG_NS, REQUIRED_WSEG, 'C07Seg')
    _obligations(chk, broken, SEG_MODULE, SEG_NS, ['read_refines', 'full_shape', 'full_local', 'accepts_of_total',
                                                   'rawSubK_eq', 'rawSubK_reversed_not_normal', 'fmtSub_normal'], 'C01Seg')
