"""C16 — metadata polynomials evaluate, differentiate and re-centre as polynomials do.

proof side : lean/SarpyModel/Props/C16.lean (over any commutative ring; any degree)
tie        : correspondence in exact rationals: float inputs are converted exactly to Q, the Lean model
             (Spec.Poly at Rat) computes the exact answer, sarpy's float64 result must lie within a running
             error bound of it
search     : the same exact-rational comparison restated directly (property oracle: shift-then-evaluate equals
             evaluate at the transformed argument; derivative vs difference of exact polynomial; minimise keeps values)
"""
import json
import math
import os
from fractions import Fraction

import numpy

from common import Check, Driver, Infra, VERIF, sarpy_guard

REQUIRED = ['eval_pass', 'eval_shift0', 'eval_scale', 'eval_shift', 'eval_eq', 'toPoly_der', 'eval_derN',
            'eval_minimize', 'minimize_nonempty', 'eval2_minimize2', 'minimize2_nonempty', 'eval_take', 'eval2_shift02', 'eval2_scaleRowsAux', 'eval2_map_rows', 'xyz_shift',
            'xyzEvalFlat_length', 'xyzEvalFlat_get', 'xyzEvalFlat_single', 'xyzDerEvalFlat_get']
EPS = 2.0 ** -52


def q(x):
    f = Fraction(float(x))
    return f'{f.numerator}/{f.denominator}'


def qs(l):
    return ','.join(q(x) for x in l) if len(l) else '-'


def parse_q(s):
    a, _, b = s.partition('/')
    return Fraction(int(a), int(b or 1))


def parse_qs(s):
    return [] if s == '-' else [parse_q(t) for t in s.split(',')]


def rand_float(rng, kind):
    if kind == 'int':
        return float(rng.randint(-5, 5))
    if kind == 'small':
        return rng.uniform(-2, 2)
    if kind == 'wide':
        return rng.choice([-1, 1]) * 10 ** rng.uniform(-6, 4)
    return rng.choice([0.0, 1.0, -1.0, 0.5, 2.0, 1e-3, 3.0])


def rand_coefs(rng, n):
    kind = rng.choice(['int', 'small', 'wide', 'special'])
    c = [rand_float(rng, kind) for _ in range(n)]
    if rng.random() < 0.3:
        for k in range(rng.randint(1, n), n):
            c[k] = 0.0     # trailing zeros (order minimisation)
    if rng.random() < 0.1:
        c = [0.0] * n
    return c


def close(py, exact, scale, n, what):
    """py: float, exact: Fraction, scale: magnitude of the sum of absolute terms"""
    tol = 64.0 * (n + 2) ** 2 * EPS * float(scale) + 1e-300
    if not math.isfinite(py):
        return f'{what}: non-finite value {py}'
    err = abs(Fraction(py) - exact)
    if err > Fraction(tol):
        return f'{what}: float result {py!r} differs from the exact value {float(exact)!r} by {float(err):.3e} (bound {tol:.3e})'
    return None


def abs_eval(c, x):
    return sum(abs(Fraction(ck)) * abs(Fraction(x)) ** k for k, ck in enumerate(c)) if len(c) else Fraction(0)


def shift_scale(c, t0, a):
    """per-coefficient magnitude scale of the exact shifted coefficients: sum_j |p_j| C(j,k) |t0|^(j-k) |a|^k"""
    n = len(c)
    out = []
    for k in range(n):
        s = Fraction(0)
        for j in range(k, n):
            s += abs(Fraction(c[j])) * math.comb(j, k) * abs(Fraction(t0)) ** (j - k)
        out.append(s * abs(Fraction(a)) ** k)
    return out


def run(tier):
    sarpy_guard()
    from sarpy.io.complex.sicd_elements.blocks import Poly1DType, Poly2DType, XYZPolyType
    chk = Check('C16', tier)
    rng = chk.rng
    broken = chk.prove(['SarpyModel.Props.C16', 'SarpyModel.Drivers'], 'SarpyModel.Props.C16', 'Sarpy.Props.C16', REQUIRED)

    drv = Driver()
    jobs = []   # (kind, payload, driver index)
    ncase = 400 if tier == 'quick' else 6000
    feats = set()
    for _ in range(ncase):
        n = rng.choice([1, 1, 2, 3, 4, 5, 6, 8, 13])
        c = rand_coefs(rng, n)
        t0 = rng.choice([0.0, 0.0, rand_float(rng, 'small'), rand_float(rng, 'wide'), 1.0])
        a = rng.choice([1.0, 1.0, rand_float(rng, 'small'), 0.0, -1.0, 2.0, rand_float(rng, 'wide')])
        xs = [rand_float(rng, rng.choice(['int', 'small', 'special'])) for _ in range(3)]
        der = rng.randint(0, min(n + 1, 5))
        feats.add((n, t0 == 0, a == 1, der, 'p1'))
        jobs.append(('shift', (c, t0, a), drv.ask(f'poly shift {q(t0)} {q(a)} {qs(c)}')))
        jobs.append(('der', (c, der), drv.ask(f'poly der {der} {qs(c)}')))
        jobs.append(('min', (c,), drv.ask(f'poly min {qs(c)}')))
        for x in xs:
            jobs.append(('eval', (c, x), drv.ask(f'poly eval {qs(c)} {q(x)}')))
        # two variables
        if rng.random() < 0.5:
            r, k = rng.choice([1, 2, 3, 4]), rng.choice([1, 2, 3, 5])
            rows = [rand_coefs(rng, k) for _ in range(r)]
            s1, a1 = rng.choice([0.0, rand_float(rng, 'small')]), rng.choice([1.0, rand_float(rng, 'small')])
            s2, a2 = rng.choice([0.0, rand_float(rng, 'small')]), rng.choice([1.0, rand_float(rng, 'small')])
            x, y = rand_float(rng, 'small'), rand_float(rng, 'small')
            feats.add((r, k, s1 == 0, a1 == 1, s2 == 0, a2 == 1, 'p2'))
            body = ';'.join(qs(row) for row in rows)
            jobs.append(('shift2', (rows, s1, a1, s2, a2), drv.ask(f'poly shift2 {q(s1)} {q(a1)} {q(s2)} {q(a2)} {body}')))
            jobs.append(('eval2', (rows, x, y), drv.ask(f'poly eval2 {body} {q(x)} {q(y)}')))
            # trimming: zero patterns that reach every branch of Poly2DType.minimize_order
            pat = rng.choice(['dense', 'zero-rows', 'zero-cols', 'both', 'first-var-only', 'second-var-only', 'constant', 'all-zero', 'L'])
            r2, k2 = r + rng.randint(0, 2), k + rng.randint(0, 2)
            mrows = [[(rows[i][j] if i < r and j < k else 0.0) for j in range(k2)] for i in range(r2)]
            if pat in ('first-var-only', 'constant'):
                mrows = [[v if j == 0 else 0.0 for j, v in enumerate(row)] for row in mrows]
            if pat in ('second-var-only', 'constant'):
                mrows = [[v if i == 0 else 0.0 for v in row] for i, row in enumerate(mrows)]
            if pat == 'all-zero':
                mrows = [[0.0] * k2 for _ in range(r2)]
            if pat == 'L':
                mrows = [[v if (i == 0 or j == 0) else 0.0 for j, v in enumerate(row)] for i, row in enumerate(mrows)]
            if pat == 'dense':
                mrows = [list(row) for row in rows]
            feats.add(('min2', pat))
            which = rng.choice(['Poly2DType', 'GainPhasePoly', 'GainPhasePoly-cphd'])
            jobs.append(('min2', (mrows, which), drv.ask('poly min2 ' + ';'.join(qs(row) for row in mrows))))
    # vector polynomials on array arguments of every rank (XYZPolyType.__call__ / derivative_eval): result shape t.shape + (3,),
    # row-major entry (i, c) = component c at point i (theorems xyzEvalFlat_length / xyzEvalFlat_get / xyzDerEvalFlat_get)
    XYZ_SHAPES = [(), (1,), (5,), (2, 3), (3, 2), (4, 3), (3, 3), (1, 1), (2, 1, 3), (2, 2, 2), (0,), (2, 0)]
    for _ in range(24 if tier == 'quick' else 400):
        cs = [rand_coefs(rng, rng.choice([1, 2, 3, 5])) for _ in range(3)]
        sh = rng.choice(XYZ_SHAPES)
        npts = 1
        for d_ in sh:
            npts *= d_
        ts = [rand_float(rng, rng.choice(['int', 'small'])) for _ in range(npts)]
        d = rng.choice([0, 0, 1, 2])
        feats.add(('xyzarr', len(sh), d))
        jobs.append(('xyzarr', (cs, sh, ts, d), drv.ask(f'poly xyz {d} {qs(cs[0])} {qs(cs[1])} {qs(cs[2])} {qs(ts)}')))
    try:
        ans = drv.run()
    except Infra as e:
        ans = None
        broken.append('model driver does not build/run: ' + str(e)[:300])

    disagreements = []
    fails = []
    evaluations = 0

    def note(kind, payload, msg, direct):
        (fails if direct else disagreements).append({'kind': kind, 'payload': payload, 'msg': msg})

    for kind, payload, i in jobs:
        evaluations += 1
        try:
            if kind == 'eval':
                c, x = payload
                p = Poly1DType(Coefs=c)
                shapes = [(), (3,), (2, 2)]
                for sh in shapes[:1 + (evaluations % 3)]:
                    arr = numpy.full(sh, x) if sh else x
                    got = p(arr)
                    if numpy.shape(got) != sh:
                        note(kind, payload, f'evaluation at shape {sh} returns shape {numpy.shape(got)}', True)
                    v = float(numpy.ravel(got)[0])
                    exact = sum(Fraction(ck) * Fraction(x) ** k for k, ck in enumerate(c))
                    m = close(v, exact, abs_eval(c, x), len(c), 'value')
                    if m:
                        note(kind, payload, m, True)
                    if ans is not None and parse_q(ans[i]) != exact:
                        note(kind, payload, f'model eval {ans[i]} != exact {exact}', False)
            elif kind == 'shift':
                c, t0, a = payload
                p = Poly1DType(Coefs=c)
                out = p.shift(t0, a, return_poly=False)
                outp = p.shift(t0, a, return_poly=True)
                if not numpy.array_equal(out, outp.Coefs) or not numpy.array_equal(p.Coefs, numpy.array(c)):
                    note(kind, payload, 'shift(return_poly=True) differs from the coefficient form, or shift modified the object', True)
                # property oracle: shift then evaluate == evaluate at alpha*t - t0 (exact polynomial of the float coefficients)
                scl = shift_scale(c, t0, a)
                exact_coefs = []
                n = len(c)
                for k in range(n):
                    s = Fraction(0)
                    for j in range(k, n):
                        s += Fraction(c[j]) * math.comb(j, k) * (-Fraction(t0)) ** (j - k)
                    exact_coefs.append(s * Fraction(a) ** k)
                if len(out) != n:
                    note(kind, payload, f'shift returned {len(out)} coefficients for {n}', True)
                else:
                    for k in range(n):
                        m = close(float(out[k]), exact_coefs[k], scl[k], n, f'shifted coefficient {k} (P(alpha*t - t0))')
                        if m:
                            note(kind, payload, m, True)
                            break
                if ans is not None and parse_qs(ans[i]) != exact_coefs:
                    note(kind, payload, f'model shift {ans[i]} != exact expansion', False)
            elif kind == 'der':
                c, d = payload
                p = Poly1DType(Coefs=c)
                out = p.derivative(der_order=d, return_poly=False)
                exact = list(map(Fraction, c))
                for _ in range(d):
                    exact = [k * exact[k] for k in range(1, len(exact))] or [Fraction(0)]
                model = parse_qs(ans[i]) if ans is not None else None
                # numpy keeps one zero coefficient; the model returns [] for a vanished polynomial: compare as polynomials
                def strip(l):
                    l = list(l)
                    while l and l[-1] == 0:
                        l.pop()
                    return l
                ex = list(exact) + [Fraction(0)] * max(0, len(out) - len(exact))
                bad = len(strip([Fraction(float(v)) for v in out])) > len(ex)
                for k, v in enumerate(out):
                    if k < len(ex) and abs(Fraction(float(v)) - ex[k]) > abs(ex[k]) * Fraction(EPS * 64):
                        bad = True
                if len(strip(exact)) > len(out):
                    bad = True
                if bad:
                    note(kind, payload, f'derivative order {d}: coefficients {list(out)} differ from the analytic derivative', True)
                if model is not None and strip(model) != strip(exact):
                    note(kind, payload, f'model derivative {ans[i]} != analytic', False)
                x = 0.75
                ev = float(p.derivative_eval(x, der_order=d))
                exv = sum(ck * Fraction(x) ** k for k, ck in enumerate(exact))
                m = close(ev, exv, sum(abs(ck) * Fraction(x) ** k for k, ck in enumerate(exact)), len(c), f'derivative_eval order {d}')
                if m:
                    note(kind, payload, m, True)
            elif kind == 'min':
                (c,) = payload
                p = Poly1DType(Coefs=list(c))
                p.minimize_order()
                out = list(p.Coefs)
                model = parse_qs(ans[i]) if ans is not None else None
                if len(out) < 1:
                    note(kind, payload, 'minimize_order left no coefficient', True)
                for x in (0.0, 1.0, -2.5):
                    v0 = sum(Fraction(ck) * Fraction(x) ** k for k, ck in enumerate(c))
                    v1 = sum(Fraction(float(ck)) * Fraction(x) ** k for k, ck in enumerate(out))
                    if v0 != v1:
                        note(kind, payload, f'minimize_order changed the value at {x}', True)
                        break
                if model is not None and [Fraction(float(v)) for v in out] != model:
                    note(kind, payload, f'model minimize {ans[i]} != implementation {out}', False)
            elif kind == 'min2':
                rows, which = payload
                if which == 'Poly2DType':
                    p = Poly2DType(Coefs=rows)
                    p.minimize_order()
                    outs = [p.Coefs]
                else:
                    if which == 'GainPhasePoly':
                        from sarpy.io.complex.sicd_elements.blocks import GainPhasePolyType
                    else:
                        from sarpy.io.phase_history.cphd1_elements.Antenna import GainPhasePolyType
                    g = GainPhasePolyType(GainPoly=rows, PhasePoly=[list(reversed(rw)) for rw in rows])
                    g.minimize_order()
                    outs = [g.GainPoly.Coefs]
                out = numpy.asarray(outs[0])
                if out.ndim != 2 or out.shape[0] < 1 or out.shape[1] < 1:
                    note(kind, payload, f'minimize_order left shape {out.shape}', True)
                    continue
                for (x, y) in ((0.0, 0.0), (1.0, 1.0), (-2.0, 0.5), (0.5, 3.0)):
                    v0 = sum(Fraction(rows[i_][j]) * Fraction(x) ** i_ * Fraction(y) ** j for i_ in range(len(rows)) for j in range(len(rows[0])))
                    v1 = sum(Fraction(float(out[i_, j])) * Fraction(x) ** i_ * Fraction(y) ** j for i_ in range(out.shape[0]) for j in range(out.shape[1]))
                    if v0 != v1:
                        note(kind, payload, f'{which}.minimize_order changed the polynomial: value at ({x}, {y}) {float(v0)!r} -> {float(v1)!r}; coefficients {rows} -> {out.tolist()}', True)
                        break
                if out.shape != (1, 1) and (not numpy.any(out[-1, :] != 0) or not numpy.any(out[:, -1] != 0)):
                    note(kind, payload, f'{which}.minimize_order left a trailing all-zero row or column: {out.tolist()}', True)
                if ans is not None:
                    model = [parse_qs(t) for t in ans[i].split(';')]
                    if [[Fraction(float(v)) for v in row] for row in out.tolist()] != model:
                        note(kind, payload, f'model minimize2 {ans[i]} != implementation {out.tolist()}', False)
            elif kind == 'eval2':
                rows, x, y = payload
                p = Poly2DType(Coefs=rows)
                v = float(p(x, y))
                exact = sum(Fraction(rows[i_][j]) * Fraction(x) ** i_ * Fraction(y) ** j for i_ in range(len(rows)) for j in range(len(rows[0])))
                scale = sum(abs(Fraction(rows[i_][j])) * abs(Fraction(x)) ** i_ * abs(Fraction(y)) ** j for i_ in range(len(rows)) for j in range(len(rows[0])))
                m = close(v, exact, scale, len(rows) * len(rows[0]), '2-d value')
                if m:
                    note(kind, payload, m, True)
                if ans is not None and parse_q(ans[i]) != exact:
                    note(kind, payload, f'model eval2 {ans[i]} != exact', False)
                got = p(numpy.full((2, 3), x), numpy.full((2, 3), y))
                if numpy.shape(got) != (2, 3):
                    note(kind, payload, f'2-d evaluation at shape (2,3) returns shape {numpy.shape(got)}', True)
            elif kind == 'shift2':
                rows, s1, a1, s2, a2 = payload
                p = Poly2DType(Coefs=rows)
                out = p.shift(t1_shift=s1, t1_scale=a1, t2_shift=s2, t2_scale=a2, return_poly=False)
                r, k = len(rows), len(rows[0])
                if out.shape != (r, k):
                    note(kind, payload, f'2-d shift returned shape {out.shape}', True)
                    continue
                # oracle at sample points: Q(x, y) == P(a1 x - s1, a2 y - s2)
                for (x, y) in ((0.5, -0.25), (1.0, 2.0)):
                    X, Y = Fraction(a1) * Fraction(x) - Fraction(s1), Fraction(a2) * Fraction(y) - Fraction(s2)
                    want = sum(Fraction(rows[i_][j]) * X ** i_ * Y ** j for i_ in range(r) for j in range(k))
                    scale = sum(abs(Fraction(rows[i_][j])) * (abs(Fraction(a1) * Fraction(x)) + abs(Fraction(s1))) ** i_ *
                                (abs(Fraction(a2) * Fraction(y)) + abs(Fraction(s2))) ** j for i_ in range(r) for j in range(k))
                    gotv = sum(Fraction(float(out[i_, j])) * Fraction(x) ** i_ * Fraction(y) ** j for i_ in range(r) for j in range(k))
                    if abs(gotv - want) > Fraction(256.0 * (r * k + 2) ** 2 * EPS) * scale + Fraction(1, 10 ** 300):
                        note(kind, payload, f'2-d shift: Q({x},{y}) = {float(gotv)!r} but P(a1 x - s1, a2 y - s2) = {float(want)!r}', True)
                        break
                if ans is not None:
                    model = [parse_qs(t) for t in ans[i].split(';')]
                    for i_ in range(r):
                        for j in range(k):
                            mv = model[i_][j]
                            if abs(Fraction(float(out[i_, j])) - mv) > Fraction(256.0 * (r * k + 2) ** 2 * EPS) * (abs(mv) + sum(abs(Fraction(v)) for row in rows for v in row) * (1 + abs(Fraction(s1))) ** r * (1 + abs(Fraction(s2))) ** k * (1 + abs(Fraction(a1))) ** r * (1 + abs(Fraction(a2))) ** k):
                                note(kind, payload, f'model shift2[{i_}][{j}] = {float(mv)!r} vs implementation {float(out[i_, j])!r}', False)
            if kind == 'xyzarr':
                cs, sh, ts, d = payload
                P = XYZPolyType(X=cs[0], Y=cs[1], Z=cs[2])
                arr = numpy.array(ts, dtype='float64').reshape(sh) if sh else float(ts[0])
                got = P(arr) if d == 0 else P.derivative_eval(arr, der_order=d)
                if d == 0 and rng.random() < 0.5:
                    got2 = P.derivative_eval(arr, der_order=0)
                    if numpy.shape(got2) != numpy.shape(got) or not numpy.array_equal(numpy.asarray(got2), numpy.asarray(got)):
                        note(kind, payload, 'XYZ derivative_eval of order 0 differs from evaluation', True)
                if numpy.shape(got) != tuple(sh) + (3,):
                    note(kind, payload, f'XYZ {"evaluation" if d == 0 else "derivative_eval"} of an argument of shape {tuple(sh)} returns shape {numpy.shape(got)}, expected {tuple(sh) + (3,)}', True)
                else:
                    flat = numpy.ravel(numpy.asarray(got, dtype='float64'))
                    for i_, t in enumerate(ts):
                        for ax, c in enumerate(cs):
                            ex = list(map(Fraction, c))
                            for _k in range(d):
                                ex = [k * ex[k] for k in range(1, len(ex))] or [Fraction(0)]
                            want = sum(ck * Fraction(t) ** k for k, ck in enumerate(ex))
                            m = close(float(flat[3 * i_ + ax]), want, sum(abs(ck) * abs(Fraction(t)) ** k for k, ck in enumerate(ex)), len(c) + 2,
                                      f'XYZ array argument of shape {tuple(sh)}: entry (point {i_}, component {ax}), derivative order {d}')
                            if m:
                                note(kind, payload, m, True)
                                break
                    if ans is not None:
                        model = parse_qs(ans[i])
                        if len(model) != flat.size:
                            note(kind, payload, f'model returns {len(model)} values, implementation {flat.size}', False)
                        else:
                            for k_, mv in enumerate(model):
                                if abs(Fraction(float(flat[k_])) - mv) > Fraction(1e-9) * (1 + abs(mv)):
                                    note(kind, payload, f'model entry {k_} = {float(mv)!r} vs implementation {float(flat[k_])!r}', False)
                                    break
        except Exception as e:
            note(kind, payload, f'raised {type(e).__name__}: {e}', True)

    # vector polynomials: componentwise
    for _ in range(20 if tier == 'quick' else 200):
        evaluations += 1
        cs = [rand_coefs(rng, rng.choice([1, 2, 4])) for _ in range(3)]
        t0, a, t = rand_float(rng, 'small'), rand_float(rng, 'small'), rand_float(rng, 'small')
        d = rng.randint(0, 2)
        try:
            P = XYZPolyType(X=cs[0], Y=cs[1], Z=cs[2])
            sh = P.shift(t0, a, return_poly=True)
            got = sh(t)
            dv = P.derivative_eval(t, der_order=d)
            for ax, c in enumerate(cs):
                want = sum(Fraction(ck) * (Fraction(a) * Fraction(t) - Fraction(t0)) ** k for k, ck in enumerate(c))
                scale = sum(abs(Fraction(ck)) * (abs(Fraction(a) * Fraction(t)) + abs(Fraction(t0))) ** k for k, ck in enumerate(c))
                m = close(float(got[ax]), want, scale, len(c) + 2, f'XYZ component {ax} after shift')
                if m:
                    note('xyz', (cs, t0, a, t), m, True)
                ex = list(map(Fraction, c))
                for _k in range(d):
                    ex = [k * ex[k] for k in range(1, len(ex))] or [Fraction(0)]
                wantd = sum(ck * Fraction(t) ** k for k, ck in enumerate(ex))
                m = close(float(dv[ax]), wantd, sum(abs(ck) * abs(Fraction(t)) ** k for k, ck in enumerate(ex)), len(c) + 2, f'XYZ derivative_eval component {ax}')
                if m:
                    note('xyz', (cs, t, d), m, True)
            if numpy.shape(P(numpy.zeros((4,)))) != (4, 3):
                note('xyz', (cs,), f'XYZ evaluation of shape (4,) gives shape {numpy.shape(P(numpy.zeros((4,))))}', True)
        except Exception as e:
            note('xyz', (cs, t0, a, t), f'raised {type(e).__name__}: {e}', True)

    chk.coverage.update({
        'evaluations': evaluations,
        'distinct_nontrivial': len(feats),
        'rule': 'random coefficient arrays (orders 0..12; integer, small, wide-range and special values; trailing zeros; all-zero) x '
                'shift/scale parameters incl. the 0 and 1 fast paths x derivative orders 0..5 x argument shapes (), (3,), (2,2); '
                '2-D arrays up to 4x5; XYZ polynomials on scalar and array arguments of rank 0..3 (incl. empty and (n,3) shapes), evaluation and derivative_eval; distinct = distinct (order, t0==0, alpha==1, derivative order) / 2-D (shape, fast-path flags) tuples; '
                'comparison in exact rationals with a running-error bound',
        'samples': [f'poly shift {q(1.5)} {q(2.0)} {qs([1.0, -4.0, 0.0, 5.0])}'] + [j[0] + ' ' + json.dumps(j[1])[:160] for j in jobs[:2]],
        'traces_validated_against_impl': evaluations,
        'disagreements_checked': len(disagreements),
    })
    chk.assumptions += [
        'IEEE-754 rounding of sarpy/numpy polynomial code is not proved: float results are compared with the exact rational value under an error bound (64 (n+2)^2 eps x magnitude scale)',
        'loop -> recursion step of the in-place triangular update (pass / shift0) is validated by this correspondence, not proved',
        'numpy.polynomial.polynomial.polyval/polyder are modelled by Horner evaluation and (k+1) c_{k+1}',
    ]
    unknown = [f for f in fails if not chk.known(f.get('key', ''))]
    for f in unknown[:5]:
        chk.violation(f['msg'], {'case': f, 'replay_cmd': './check C16 --replay <this file>'}, True)
    if not unknown and (broken or disagreements):
        chk.violation('proof obligation or correspondence no longer checks: ' + '; '.join(broken[:3] + [d['msg'][:200] for d in disagreements[:2]]),
                      {'broken_obligations': broken, 'disagreements': disagreements[:10]}, False)
    chk.coverage['failing_inputs'] = len(fails)
    return chk.finish()


def replay(path):
    from sarpy.io.complex.sicd_elements.blocks import Poly1DType, Poly2DType
    case = json.load(open(path))['case']
    print(json.dumps(case)[:600])
    kind, payload = case['kind'], case['payload']
    if kind == 'shift':
        c, t0, a = payload
        out = Poly1DType(Coefs=c).shift(t0, a)
        print('shift ->', list(out))
        t = 0.5
        print('Q(t) =', float(numpy.polynomial.polynomial.polyval(t, out)), ' P(a t - t0) =', float(numpy.polynomial.polynomial.polyval(a * t - t0, numpy.array(c))))
    return 1
