"""C19 — readers and writers have a sound open/close life cycle.

proof side : lean/SarpyModel/Props/C19.lean — theorems by induction over arbitrary op histories about the two
             state machines of lean/SarpyModel/Spec/Lifecycle.lean (reader / segment tree; writer)
tie        : correspondence by line protocol: random op histories (length <= 12) are run on real sarpy objects
             (segment trees, BaseReader / AggregateReader, file readers, NITF / SICD / SIDD / CPHD / SIO writers to a
             path, to an in-memory file object and to a caller-opened real file); after every op the harness observes
             exception class (-> ok / refused), `.closed` of the object and of everything below it, `.closed` of
             the file objects, os.path.exists of temp files, pixel counter / fully-written claim, which rows'
             bytes are in the target; the same history is run by the Lean model driver and the traces are diffed
search     : direct oracle on the implementation — the clauses of the property as assertions on those
             observations, independent of the model (see `oracle_reader`, `oracle_writer`)
extension  : Props/C19Ctor.lean (reader construction as phases: created temp files are registered), Props/C19Blocks.lean
             (writers over blocked image segments: per-block accounting, conjunction, hand-over), Bridge/Life.lean (the
             decision kernels regenerated from /repo by translate/gen_life.py equal the reference definitions); object
             kinds of harness/c19x.py: NITFReader over JPEG / JPEG 2000 compressed NITF (temp files sarpy creates itself),
             re-entrant BaseReader construction, general NITFWriter / SICDWriter / SIDDWriter over blocked and
             multi-segment (row limit) images with adversarial chunk orders and non-forced flushes, CRSDWriter1, HDF5
             leaves, readers sharing children (DAG, through the tree unfolding)
"""
import builtins
import gc
import io
import json
import logging
import os
import shutil
import tempfile

import numpy

from common import Check, Driver, Infra, VERIF, REPO, sarpy_guard

REQUIRED = [
    'r_close_idempotent', 'r_exit_is_close', 'r_del_is_close', 'r_closed_after_close', 'r_use_after_close',
    'r_use_after_close_history', 'r_read_ok_before_close', 'r_temp_files_removed', 'r_reached_objects_closed',
    'r_owned_files_closed', 'r_caller_file_untouched',
    'w_close_idempotent', 'w_exit_is_close', 'w_closed_after_close', 'w_use_after_close', 'w_use_after_close_history',
    'w_caller_file_never_closed', 'w_owned_file_closed', 'w_closed_full_size',
    'w_existing_path_refused_unless_disabled', 'w_clobber_only_if_disabled',
    'w_claims_iff_complete_partial', 'w_incomplete_never_claims_written_partial', 'w_caller_file_complete_partial',
    'claims_without_fresh_is_false',
    # Props/C19Ctor.lean - reader construction as a sequence of phases
    'c_created_registered', 'c_never_fails_after_init', 'nitfCtor_ok', 'baseCtor_ok', 'unguarded_base_init_loses_all',
    'ctor_invariant_needs_guard', 'c_temp_files_removed', 'c_temp_files_kept_while_open', 'c_unguarded_leaves_file',
    # Props/C19Blocks.lean - writers over blocked image segments
    'conj_eq_all', 'conj_cons', 'conj_append', 'claims_iff_all_blocks', 'lastOnly_eq_getLast', 'blk_claims_iff',
    'wb_close_idempotent', 'wb_exit_is_close', 'wb_del_is_close', 'wb_closed_after_close', 'wb_use_after_close',
    'wb_use_after_close_history', 'wb_caller_file_never_closed', 'wb_owned_file_closed', 'wb_closed_full_size',
    'wb_existing_path_refused_unless_disabled', 'wb_claims_iff_complete_partial',
    'wb_incomplete_never_claims_written_partial', 'wb_handed_only_when_complete_partial',
    'wb_no_written_pixel_lost_partial', 'wb_caller_file_complete_partial', 'hand_iff_shouldHand', 'lastOnly_is_unsound',
    'lastOnly_loses_rows',
    # Props/C19Exist.lean - the existence check over what is at the path x check_existence
    'e_refused_iff', 'e_default_is_checked', 'e_refusal_independent_of_content', 'e_empty_like_nonempty',
    'e_refused_keeps_target', 'e_existing_kept_unless_disabled', 'e_clobber_only_if_disabled', 'e_enabled_keeps',
    'e_agrees_with_winit', 'e_agrees_with_wbinit', 'size_sensitive_check_overwrites',
]

# Bridge/Life.lean: the kernels regenerated from /repo (translate/gen_life.py) are the reference definitions
BRIDGE_MODULE, BRIDGE_NS = 'SarpyModel.Bridge.Life', 'Sarpy.Bridge.Life'
BRIDGE_REQUIRED = [
    'gen_blockAggClaims', 'gen_blockAggClaims_read', 'gen_bandAggClaims', 'gen_arrayClaims', 'gen_subsetClaims',
    'gen_handDecision', 'gen_handGuards', 'gen_closeForces', 'gen_baseReaderInit', 'gen_handlers_register',
    'gen_nitfReaderInit', 'gen_nitfRefuses', 'gen_cphdRefuses', 'gen_sioRefuses', 'gen_checkDefaults', 'gen_checkPassedOn',
    'code_refusal_ignores_size', 'code_block_claims_iff_all', 'code_ctor_registers_all', 'code_ctor_guarded',
    'code_flush_needs_claim',
]

# stable keys of the genuine defects this check can classify (see NOTES_C19.md)
K_CPHD_CLOSE = 'CPHDWriter1.close-closes-caller-file-object'
K_CPHD_MEM = 'CPHDWriter1-in-memory-complete-signal-array-never-written'
K_SIO_OPEN = 'SIOWriter.close-leaves-own-file-open'
K_AGG = 'aggregate-segment-close-ignores-close_children'
K_REWRITE = 'fully-written-claim-counts-rewritten-pixels'
K_SHARED = 'segment-close-fails-when-shared-child-already-closed'

REFUSED = ('ValueError', 'KeyError', 'IndexError', 'TypeError', 'SarpyIOError')
_real_open = builtins.open


# ------------------------------------------------------------------------------------------------ helpers

class CapBytesIO(io.BytesIO):
    """caller's in-memory file object; remembers its content if somebody closes it"""

    def __init__(self):
        super().__init__()
        self.final = None

    def close(self):
        if not self.closed:
            self.final = self.getvalue()
        super().close()

    def content(self):
        return self.final if self.closed else self.getvalue()


class OpenTracker:
    """records every file object opened (by sarpy or numpy) on paths under `root` while active"""

    def __init__(self, root):
        self.root = root
        self.handles = []

    def __enter__(self):
        def topen(f, *a, **k):
            fo = _real_open(f, *a, **k)
            try:
                if isinstance(f, (str, os.PathLike)) and str(os.fspath(f)).startswith(self.root):
                    self.handles.append(fo)
            except Exception:
                pass
            return fo
        builtins.open = topen
        return self

    def __exit__(self, *a):
        builtins.open = _real_open

    def any_open(self):
        return any(not h.closed for h in self.handles)


def call(fn):
    """-> (out, exception class name or None, value)"""
    try:
        v = fn()
        return 'ok', None, v
    except Exception as e:      # noqa: the class is what is observed
        return 'refused', type(e).__name__, None


def bits(l):
    return ''.join('1' if b else '0' for b in l) if len(l) else '-'


# ------------------------------------------------------------------------------------------------ (a) readers

R0, C0 = 3, 4          # every leaf is a 3 x 4 uint16 array
INDEXED = ('reader', 'flat', 'aggreader', 'filereader', 'basewriter')      # root kinds whose use op takes an index


H5 = []          # file indices of the case being generated that are HDF5 files (h5py.File objects), set by gen_reader_case


def gen_leaf(rng, nfiles, mode='r'):
    k = rng.choice(['array', 'array', 'memmap', 'fileread'] if mode == 'r' else ['array', 'memmap'])
    if k == 'array' or nfiles == 0:
        return {'k': 'array', 'prop': True, 'file': None, 'cf': False, 'kids': []}
    f = rng.randrange(nfiles)
    if f in H5:
        k = 'hdf5'
    return {'k': k, 'prop': True, 'file': f, 'cf': rng.random() < 0.5, 'kids': []}


def gen_seg(rng, depth, nfiles, allow_band=True, mode='r'):
    """random segment tree; `prop` is close_parent / close_children"""
    r = rng.random()
    if depth <= 0 or r < 0.3:
        return gen_leaf(rng, nfiles, mode)
    if r < 0.5:
        return {'k': 'reorient', 'prop': rng.random() < 0.65, 'file': None, 'cf': False,
                'kids': [gen_seg(rng, depth - 1, nfiles, allow_band, mode)]}
    if r < 0.7:
        return {'k': 'subset', 'prop': rng.random() < 0.65, 'file': None, 'cf': False,
                'kids': [gen_seg(rng, depth - 1, nfiles, allow_band, mode)]}
    if r < 0.85 and allow_band:
        return {'k': 'band', 'prop': rng.random() < 0.8, 'file': None, 'cf': False,
                'kids': [gen_leaf(rng, nfiles, mode) for _ in range(rng.randint(2, 3))]}
    return {'k': 'block', 'prop': rng.random() < 0.8, 'file': None, 'cf': False,
            'kids': [gen_seg(rng, depth - 1, nfiles, False, mode) for _ in range(rng.randint(2, 3))]}


def h5_ok():
    try:
        import h5py      # noqa
        return True
    except Exception:
        return False


def gen_reader_case(rng):
    case = _gen_reader_case(rng)
    case['h5'] = list(H5)
    return case


def _gen_reader_case(rng):
    nfiles = rng.choice([0, 1, 2, 2, 3])
    rk = rng.random()
    ntemp = 0
    H5[:] = []
    writable = rng.random() < 0.25
    if not writable and nfiles and h5_ok() and rng.random() < 0.35:
        H5[:] = sorted(rng.sample(range(nfiles), rng.randint(1, nfiles)))
    if writable:
        # writable segment trees: the "use" op is a full write instead of a full read
        if rk < 0.6:
            root = gen_seg(rng, rng.randint(0, 3), nfiles, mode='w')
        else:
            root = {'k': 'basewriter', 'prop': True, 'file': None, 'cf': False,
                    'kids': [gen_seg(rng, rng.randint(0, 2), nfiles, mode='w') for _ in range(rng.choice([1, 2, 3]))]}
        return {'machine': 'R', 'mode': 'w', 'root': root, 'nfiles': nfiles, 'ntemp': 0, 'ops': gen_rops(rng, root)}
    if rk < 0.3:
        root = gen_seg(rng, rng.randint(0, 3), nfiles)
        if root['k'] in ('array', 'memmap', 'fileread') and rng.random() < 0.5:
            root = {'k': 'reorient', 'prop': rng.random() < 0.7, 'file': None, 'cf': False, 'kids': [root]}
    elif rk < 0.8:
        ntemp = rng.choice([0, 1, 2, 3])
        root = {'k': 'reader', 'prop': rng.random() < 0.75, 'file': None, 'cf': False,
                'kids': [gen_seg(rng, rng.randint(0, 2), nfiles) for _ in range(rng.choice([1, 1, 2, 3]))]}
    elif rk < 0.9:
        root = {'k': 'flat', 'prop': rng.random() < 0.7, 'file': None, 'cf': False,
                'kids': [{'k': 'array', 'prop': True, 'file': None, 'cf': False, 'kids': []}]}
    else:
        root = {'k': 'aggreader', 'prop': rng.random() < 0.6, 'file': None, 'cf': False,
                'kids': [{'k': 'reader', 'prop': rng.random() < 0.75, 'file': None, 'cf': False,
                          'kids': [gen_seg(rng, rng.randint(0, 1), nfiles)]} for _ in range(rng.randint(1, 3))]}
    return {'machine': 'R', 'root': root, 'nfiles': nfiles, 'ntemp': ntemp, 'ops': gen_rops(rng, root)}


def gen_rops(rng, root, n=None):
    is_reader = root['k'] in INDEXED
    nk = len(root['kids'])
    # index validation of the format readers is not a life-cycle matter; BaseWriter never ignores the index
    only_valid = root['k'] in ('filereader', 'basewriter')
    n = rng.randint(1, 12) if n is None else n
    ops = []
    for j in range(n):
        r = rng.random()
        if r < 0.4:
            if is_reader:
                i = rng.randrange(nk) if (only_valid or rng.random() < 0.9) else nk + rng.randint(0, 2)
                ops.append(f'r{i}')
            else:
                ops.append('r')
        elif r < 0.7:
            ops.append('c')
        elif r < 0.85 and is_reader:
            ops.append(rng.choice(['x', 'e']))
        elif r < 0.92 and j >= n - 2:
            ops.append('d')
        else:
            ops.append('c' if rng.random() < 0.5 else ('r0' if is_reader else 'r'))
    return ops


def node_tokens(node):
    f = '-' if node['file'] is None else str(node['file'])
    out = [f"{int(bool(node['prop']))}{int(bool(node['cf']))}{f}/{len(node['kids'])}"]
    for k in node['kids']:
        out += node_tokens(k)
    return out


def reader_line(case):
    return f"life R {case['nfiles']} {case['ntemp']} " + ' '.join(node_tokens(case['root'])) + ' | ' + ' '.join(case['ops'])


def preorder(node):
    out = [node]
    for k in node['kids']:
        out += preorder(k)
    return out


class RBuilt:
    pass


class H5Handle:
    """an h5py.File the caller opened, with the `.closed` / `.close()` face of a Python file object"""

    def __init__(self, h5):
        self.h5 = h5

    @property
    def closed(self):
        return not bool(self.h5.id.valid)

    def close(self):
        if self.h5.id.valid:
            self.h5.close()


def build_reader(case, scratch):
    """construct the real objects of a reader case; returns RBuilt with objs (pre-order), files, temps"""
    from sarpy.io.general.data_segment import NumpyArraySegment, NumpyMemmapSegment, FileReadDataSegment, \
        SubsetSegment, BandAggregateSegment, BlockAggregateSegment, ReorientationSegment
    from sarpy.io.general.base import BaseReader, FlatReader, AggregateReader, BaseWriter
    b = RBuilt()
    mode = case.get('mode', 'r')
    b.files, b.paths, b.arrays = [], [], []
    for i in range(case['nfiles']):
        if i in case.get('h5', ()):
            import h5py
            p = os.path.join(scratch, f'data{i}.h5')
            with h5py.File(p, 'w') as f:
                f.create_dataset('d', data=numpy.arange(R0 * C0, dtype='<u2').reshape(R0, C0) + 7)
            b.paths.append(p)
            b.files.append(H5Handle(h5py.File(p, 'r')))
            continue
        p = os.path.join(scratch, f'data{i}.bin')
        with _real_open(p, 'wb') as f:
            f.write(numpy.arange(7 + R0 * C0, dtype='<u2').tobytes())
        b.paths.append(p)
        b.files.append(_real_open(p, 'rb' if mode == 'r' else 'r+b'))
    b.temps = []
    for i in range(case['ntemp']):
        p = os.path.join(scratch, f'temp{i}.tmp')
        with _real_open(p, 'wb') as f:
            f.write(b'temp')
        b.temps.append(p)
    b.objs = []          # filled in pre-order

    def mk(node, is_root):
        slot = len(b.objs)
        b.objs.append(None)
        k = node['k']
        kids = [mk(c, False) for c in node['kids']]
        if k == 'array':
            a = numpy.arange(R0 * C0, dtype='uint16').reshape(R0, C0) + 100 * slot
            b.arrays.append(a)
            o = NumpyArraySegment(a, mode=mode)
        elif k == 'memmap':
            o = NumpyMemmapSegment(b.files[node['file']], 14, '<u2', (R0, C0), mode=mode, close_file=node['cf'])
        elif k == 'fileread':
            o = FileReadDataSegment(b.files[node['file']], 14, '<u2', (R0, C0), '<u2', (R0, C0), close_file=node['cf'])
        elif k == 'hdf5':
            from sarpy.io.general.data_segment import HDF5DatasetSegment
            o = HDF5DatasetSegment(b.files[node['file']].h5, 'd', close_file=node['cf'])
        elif k == 'reorient':
            o = ReorientationSegment(kids[0], reverse_axes=(0, ), close_parent=node['prop'])
        elif k == 'subset':
            sh = kids[0].formatted_shape
            d = tuple(slice(1 if (ax == 1 and n > 1) else 0, n, 1) for ax, n in enumerate(sh))
            o = SubsetSegment(kids[0], d, 'formatted', squeeze=False, close_parent=node['prop'])
        elif k == 'band':
            o = BandAggregateSegment(kids, 2, close_children=node['prop'])
        elif k == 'block':
            arr, c0 = [], 0
            for ch in kids:
                sh = ch.formatted_shape
                arr.append((slice(0, sh[0], 1), slice(c0, c0 + sh[1], 1)))
                c0 += sh[1]
            o = BlockAggregateSegment(kids, arr, 'raw', 0, (R0, c0), 'uint16', (R0, c0), close_children=node['prop'])
        elif k == 'reader':
            o = BaseReader(kids, close_segments=node['prop'], delete_files=(list(b.temps) if is_root else None))
        elif k == 'aggreader':
            o = AggregateReader(kids, close_readers=node['prop'])
        elif k == 'basewriter':
            o = BaseWriter(kids)
        else:
            raise Infra('unknown node kind ' + k)
        b.objs[slot] = o
        return o

    if case['root']['k'] == 'flat':
        # FlatReader builds its own NumpyArraySegment
        o = FlatReader(numpy.arange(R0 * C0, dtype='uint16').reshape(R0, C0), close_segments=case['root']['prop'])
        b.objs = [o, o.data_segment]
    else:
        mk(case['root'], True)
    b.nodes = preorder(case['root'])
    b.is_reader = case['root']['k'] in INDEXED
    b.tracker = None
    b.mode = mode
    return b


def build_filereader(case, scratch, refs):
    """a sarpy file reader over a file written beforehand: root reader -> one data segment (the file)"""
    b = RBuilt()
    kind, tgt = case['fkind'], case['ftarget']
    src = refs.reader_file(kind)
    p = os.path.join(scratch, 'in' + os.path.splitext(src)[1])
    shutil.copyfile(src, p)
    b.temps = []
    b.tracker = OpenTracker(scratch)
    b.caller = None
    with b.tracker:
        if tgt == 'path':
            arg = p
        elif tgt == 'real':
            arg = b.caller = _real_open(p, 'rb')
        else:
            arg = b.caller = io.BytesIO(_real_open(p, 'rb').read())
        b.tracker.handles.clear()
        if kind == 'SICD':
            from sarpy.io.complex.sicd import SICDReader
            o = SICDReader(arg)
        elif kind == 'NITF':
            from sarpy.io.general.nitf import NITFReader
            o = NITFReader(arg)
        elif kind == 'SIO':
            from sarpy.io.complex.sio import SIOReader
            o = SIOReader(arg)
        elif kind == 'CPHD':
            from sarpy.io.phase_history.cphd import CPHDReader
            o = CPHDReader(arg)
        elif kind == 'CRSD':
            from sarpy.io.received.crsd import CRSDReader
            o = CRSDReader(arg)
        else:
            raise Infra(kind)
    segs = list(o.get_data_segment_as_tuple())
    b.objs = [o] + segs
    b.files = [None]
    b.mode = 'r'
    b.arrays, b.paths = [], []
    b.nodes = preorder(case['root'])
    b.is_reader = True
    return b


def run_reader_case(case, scratch, refs=None):
    """run the history on real objects. returns (trace tokens, oracle failures, info)"""
    if case['root']['k'] == 'filereader':
        b = build_filereader(case, scratch, refs)
    else:
        b = build_reader(case, scratch)
    nodes = b.nodes
    nn = len(nodes)
    if len(b.objs) != nn:
        raise Infra(f'built {len(b.objs)} objects for {nn} nodes')

    def files_open():
        if b.tracker is not None:
            if case['nfiles'] == 0:
                if b.tracker.any_open():
                    raise Infra(f"{case['fkind']} reader keeps a file handle on a path; the case description says it does not")
                return []
            return [(not b.caller.closed) if b.caller is not None else b.tracker.any_open()]
        return [not f.closed for f in b.files]

    def temps_present():
        return [os.path.exists(p) for p in b.temps]

    gone = False
    root_flag = False

    def flags():
        out = []
        for i, o in enumerate(b.objs):
            if i == 0 and gone:
                out.append(root_flag)
            else:
                out.append(bool(o.closed))
        return out

    base = {}
    trace, obs, exc_classes = [], [], {}
    fails = []

    def fail(key, msg, step):
        fails.append({'key': key, 'msg': msg, 'step': step, 'case': case})

    tr_ctx = b.tracker if b.tracker is not None else _Null()
    with tr_ctx:
        for step, op in enumerate(case['ops']):
            before = (flags(), files_open(), temps_present())
            store_before = store_snapshot(b) if (b.mode == 'w' and op[0] == 'r' and flags()[0]) else None
            if gone:
                out, ecls = 'gone', None
            elif op[0] == 'r':
                i = int(op[1:]) if b.is_reader else -1
                out, ecls, v = do_read(b, i)
                if store_before is not None and store_before != store_snapshot(b):
                    fail('', f'step {step} {op}: a write after close modified the stored data', step)
                if out == 'ok' and b.mode == 'w':
                    pass
                elif out == 'ok':
                    if not isinstance(v, numpy.ndarray) or v.size == 0:
                        fail('', f'step {step} {op}: read returned {type(v).__name__} without data', step)
                    elif i in base and not numpy.array_equal(base[i], v):
                        fail('', f'step {step} {op}: a repeated read returned different data', step)
                    else:
                        base[i] = v
            elif op == 'c':
                out, ecls, _ = call(lambda: b.objs[0].close())
            elif op == 'x':
                def f():
                    with b.objs[0]:
                        pass
                out, ecls, _ = call(f)
            elif op == 'e':
                out, ecls, _ = call(lambda: b.objs[0].__exit__(ValueError, ValueError('x'), None))
            elif op == 'd':
                root_flag = True       # not observable any more; the model's value is taken on trust
                b.objs[0] = None
                gc.collect()
                gone = True
                out, ecls = 'ok', None
            else:
                raise Infra('bad op ' + op)
            if ecls:
                exc_classes[ecls] = exc_classes.get(ecls, 0) + 1
            fl, fo, tp = flags(), files_open(), temps_present()
            trace.append(f'{out}:{bits(fl)}:{bits(fo)}:{bits(tp)}')
            obs.append({'op': op, 'out': out, 'exc': ecls, 'flags': fl, 'files': fo, 'temps': tp, 'before': before,
                        'gone': gone})
    oracle_reader(case, nodes, obs, fail)
    # the other read entry points of the phase-history / received-data readers (per-vector parameters, support arrays): after close
    # they raise like read() does, they do not return data
    if case['root']['k'] == 'filereader' and case.get('fkind') in ('CPHD', 'CRSD') and b.objs and b.objs[0] is not None:
        o_ = b.objs[0]
        if not getattr(o_, 'closed', False):
            call(o_.close)
        if getattr(o_, 'closed', False):
            aux = [('read_pvp_array(0)', lambda: o_.read_pvp_array(0)), ('read_pvp_variable(first field, 0)', None), ('read_pvp_block()', lambda: o_.read_pvp_block()),
                   ('read_support_block()', lambda: o_.read_support_block()), ('read_signal_block()', lambda: o_.read_signal_block())]
            for nm_, fn_ in aux:
                if fn_ is None or not hasattr(o_, nm_.split('(')[0]):
                    continue
                out_, ecls_, v_ = call(fn_)
                has_data = isinstance(v_, numpy.ndarray) or (isinstance(v_, dict) and any(isinstance(x_, numpy.ndarray) and x_.size for x_ in v_.values()))
                if out_ == 'ok' and has_data:
                    fail('', f"{case['fkind']} reader: {nm_} after close() returned data instead of raising", len(case['ops']))
                v_ = None
        o_ = None
    # cleanup
    for f in (b.files or []):
        try:
            if f is not None:
                f.close()
        except Exception:
            pass
    if b.tracker is not None:
        for h in b.tracker.handles:
            try:
                h.close()
            except Exception:
                pass
        if b.caller is not None:
            b.caller.close()
    b.objs = None
    gc.collect()
    return trace, fails, {'exc': exc_classes, 'nodes': nn}


def do_read(b, i):
    """one use of the root object - a full read, or a full write for writable trees; keeps no reference to it"""
    if b.mode == 'w':
        seg = b.objs[0].data_segment[i] if (i >= 0 and i < len(b.objs[0].data_segment or ())) else None
        if i >= 0:
            sh, dt = (seg.formatted_shape, seg.formatted_dtype) if seg is not None else ((R0, C0), 'uint16')
            d = numpy.full(sh, 7, dtype=dt)
            seg = None
            out, ecls, _ = call(lambda: b.objs[0].write(d, start_indices=0, index=i))
        else:
            d = numpy.full(b.objs[0].formatted_shape, 7, dtype=b.objs[0].formatted_dtype)
            out, ecls, _ = call(lambda: b.objs[0].write(d, start_indices=0))
        return out, ecls, (d if out == 'ok' else None)
    if i >= 0:
        return call(lambda: b.objs[0].read(index=i))
    return call(lambda: b.objs[0].read(None))


def store_snapshot(b):
    """content of everything a write could reach: the leaf arrays and the data files"""
    out = [a.tobytes() for a in b.arrays]
    for p in b.paths:
        with _real_open(p, 'rb') as f:
            out.append(f.read())
    return out


class _Null:
    def __enter__(self):
        return self

    def __exit__(self, *a):
        return False


def oracle_reader(case, nodes, obs, fail):
    """the property clauses, stated directly on the observations (independent of the Lean model)"""
    root = case['root']
    nn = len(nodes)
    # which nodes does a close of the root reach through the ownership options, which does it not
    reach, unreach_reason = [False] * nn, {}
    idx = [0]

    def walk(node, reached, via):
        me = idx[0]
        idx[0] += 1
        reach[me] = reached
        if not reached:
            unreach_reason[me] = via
        for c in node['kids']:
            walk(c, reached and bool(node['prop']), via if not reached else (node['k'] if not node['prop'] else None))
    walk(root, True, None)
    owned_any = {n['file'] for n in nodes if n['file'] is not None and n['cf']}
    owned_reach = {n['file'] for i, n in enumerate(nodes) if n['file'] is not None and n['cf'] and reach[i]}
    closed_seen = False
    for step, o in enumerate(obs):
        op, out = o['op'], o['out']
        bf, bo, bt = o['before']
        if out == 'gone':
            continue
        if op in ('c', 'x', 'e', 'd'):
            if out != 'ok':
                fail('', f"step {step} {op}: close/context exit raised {o['exc']}", step)
            if closed_seen and (o['flags'][1:] != bf[1:] or o['files'] != bo or o['temps'] != bt):
                fail('', f'step {step} {op}: a repeated close changed the state', step)
            closed_seen = True
            if op != 'd' and not o['flags'][0]:
                fail('', f'step {step} {op}: object does not report closed after close', step)
        if op[0] == 'r':
            if closed_seen and out == 'ok':
                fail('', f'step {step} {op}: read after close returned data', step)
            if closed_seen and (o['flags'] != bf or o['files'] != bo or o['temps'] != bt):
                fail('', f'step {step} {op}: read after close changed the state', step)
            if not closed_seen and out != 'ok':
                in_range = (not root['k'] in INDEXED) or (len(root['kids']) == 1 and root['k'] != 'basewriter') \
                    or int(op[1:]) < len(root['kids'])
                if in_range:
                    fail('', f"step {step} {op}: read of an open object raised {o['exc']}", step)
        if closed_seen:
            if any(o['temps']):
                fail('', f'step {step} {op}: temp files still present after close', step)
            for i in range(1, nn):
                if reach[i] and not o['flags'][i]:
                    fail('', f"step {step} {op}: object {i} ({nodes[i]['k']}) below the closed root was not closed", step)
                if not reach[i] and o['flags'][i]:
                    via = unreach_reason.get(i)
                    key = K_AGG if via in ('band', 'block') else ''
                    fail(key, f"step {step} {op}: object {i} ({nodes[i]['k']}) was closed although the {via} above it "
                              f"was told not to close what is below it", step)
            for f, is_open in enumerate(o['files']):
                if f in owned_reach and is_open:
                    fail('', f'step {step} {op}: file object {f} owned by a closed segment is still open', step)
        else:
            if not all(o['temps']):
                fail('', f'step {step} {op}: temp file removed before close', step)
            if any(o['flags'][1:]):
                fail('', f'step {step} {op}: an object below the open root is closed', step)
        for f, is_open in enumerate(o['files']):
            if f not in owned_any and not is_open:
                fail('', f"step {step} {op}: the caller's file object {f} (close_file=False everywhere) was closed", step)
            if f in owned_any and f not in owned_reach and not is_open:
                via = [unreach_reason.get(i) for i, n in enumerate(nodes) if n['file'] == f and n['cf']]
                key = K_AGG if any(v in ('band', 'block') for v in via) else ''
                fail(key, f'step {step} {op}: file object {f} was closed although its segment must have stayed open', step)


# ------------------------------------------------------------------------------------------------ shared children

def gen_shared_case(rng):
    """a reader over two segments that share the object below them (a DAG - outside the Lean tree model;
    checked by the direct oracle only)"""
    root = {'k': 'reader', 'kids': [None, None]}
    return {'machine': 'S', 'views': [rng.choice(['subset', 'reorient', 'band', 'block']) for _ in range(2)],
            'ntemp': rng.choice([0, 1, 2]), 'ops': gen_rops(rng, root, rng.randint(1, 8))}


def run_shared_case(case, scratch):
    from sarpy.io.general.data_segment import NumpyArraySegment, SubsetSegment, BandAggregateSegment, \
        BlockAggregateSegment, ReorientationSegment
    from sarpy.io.general.base import BaseReader
    shared = NumpyArraySegment(numpy.arange(R0 * C0, dtype='uint16').reshape(R0, C0), mode='r')
    objs = [shared]
    views = []
    for j, k in enumerate(case['views']):
        if k == 'subset':
            v = SubsetSegment(shared, (slice(0, R0, 1), slice(j, j + 2, 1)), 'formatted', squeeze=False)
        elif k == 'reorient':
            v = ReorientationSegment(shared, reverse_axes=(j, ))
        else:
            other = NumpyArraySegment(numpy.arange(R0 * C0, dtype='uint16').reshape(R0, C0) + 50, mode='r')
            objs.append(other)
            if k == 'band':
                v = BandAggregateSegment([shared, other], 2)
            else:
                v = BlockAggregateSegment([shared, other], [(slice(0, R0, 1), slice(0, C0, 1)), (slice(0, R0, 1), slice(C0, 2 * C0, 1))],
                                          'raw', 0, (R0, 2 * C0), 'uint16', (R0, 2 * C0))
        views.append(v)
    temps = []
    for i in range(case['ntemp']):
        p = os.path.join(scratch, f'temp{i}.tmp')
        with _real_open(p, 'wb') as f:
            f.write(b'temp')
        temps.append(p)
    holder = [BaseReader(views, delete_files=list(temps))]
    objs = views + objs
    fails, trace, exc = [], [], {}

    def fail(msg, step):
        fails.append({'key': K_SHARED, 'msg': msg, 'step': step, 'fields': [], 'case': case})
    closed_seen, gone = False, False
    for step, op in enumerate(case['ops']):
        if gone:
            trace.append('gone')
            continue
        if op[0] == 'r':
            i = int(op[1:])
            out, ecls, _ = call(lambda: holder[0].read(index=i))
            if closed_seen and out == 'ok':
                fail(f'step {step} {op}: read after close returned data', step)
            if not closed_seen and out != 'ok' and i < 2:
                fail(f'step {step} {op}: read of an open reader raised {ecls}', step)
        elif op == 'd':
            holder[0] = None
            gc.collect()
            gone, out, ecls = True, 'ok', None
            closed_seen = True
        else:
            if op == 'c':
                out, ecls, _ = call(lambda: holder[0].close())
            elif op == 'x':
                out, ecls, _ = call(lambda: holder[0].__exit__(None, None, None))
            else:
                out, ecls, _ = call(lambda: holder[0].__exit__(ValueError, ValueError('x'), None))
            closed_seen = True
            if out != 'ok':
                fail(f'step {step} {op}: close of a reader over {case["views"]} sharing one segment raised {ecls}', step)
            elif not holder[0].closed:
                fail(f'step {step} {op}: reader does not report closed after close', step)
        if ecls:
            exc[ecls] = exc.get(ecls, 0) + 1
        fl = [bool(o.closed) for o in objs]
        tp = [os.path.exists(p) for p in temps]
        trace.append(f'{out}:{bits(fl)}:{bits(tp)}')
        if closed_seen:
            if any(tp):
                fail(f'step {step} {op}: temp files still present after close', step)
            if not all(fl):
                fail(f'step {step} {op}: after close of the reader the segments report closed = {bits(fl)} '
                     f'(views {case["views"]}, then the shared and other leaves)', step)
    # clean-up: objects that cannot be closed any more are marked closed so that their finalisers stay quiet
    for o in objs + ([holder[0]] if holder[0] is not None else []):
        if call(o.close)[0] != 'ok' or not o.closed:
            try:
                o._closed = True
            except Exception:
                pass
    for p in temps:
        if os.path.exists(p):
            os.remove(p)
    return trace, fails, {'exc': exc}


# ------------------------------------------------------------------------------------------------ (b) writers

WKINDS = ['NITF', 'SICD', 'SIDD', 'CPHD', 'SIO', 'CRSD']
WSHAPES = {          # (rows, cols) per data segment
    'NITF': [[(2, 5)]],
    'SICD': [[(3, 2)], [(4, 3)], [(2, 2)]],
    'SIDD': [[(3, 4), (2, 5)], [(2, 3)]],
    'CPHD': [[(3, 4)], [(2, 3)]],
    'SIO': [[(3, 3)], [(2, 4)]],
    'CRSD': [[(3, 4)], [(2, 3)]],
}


class Refs:
    """metadata templates and reference outputs (written once per configuration through the plain API)"""

    def __init__(self, scratch):
        self.scratch = os.path.join(scratch, 'refs')
        os.makedirs(self.scratch, exist_ok=True)
        self.cache = {}
        self._sicd = None
        self._sidd = None
        self._nitf = None
        self.n = 0

    # ---- metadata
    def sicd(self, r, c):
        from sarpy.io.complex.sicd_elements.SICD import SICDType
        if self._sicd is None:
            self._sicd = SICDType.from_xml_file(os.path.join(REPO, 'tests/data/example.sicd.xml'))
        s = self._sicd.copy()
        s.ImageData.NumRows, s.ImageData.NumCols = r, c
        s.ImageData.FullImage.NumRows, s.ImageData.FullImage.NumCols = r, c
        s.ImageData.FirstRow, s.ImageData.FirstCol = 0, 0
        s.ImageData.SCPPixel.Row, s.ImageData.SCPPixel.Col = r // 2, c // 2
        s.ImageData.ValidData = None
        s.ImageData.PixelType = 'RE32F_IM32F'
        if s.ImageCreation is not None:
            s.ImageCreation.DateTime = numpy.datetime64('2020-01-02T03:04:05')
        return s

    def sidd(self, r, c):
        from sarpy.io.product.sidd2_elements.SIDD import SIDDType
        if self._sidd is None:
            self._sidd = SIDDType.from_xml_file(os.path.join(REPO, 'tests/data/example.sidd.xml'))
        x = self._sidd.copy()
        x.Measurement.PixelFootprint.Row, x.Measurement.PixelFootprint.Col = r, c
        return x

    def cphd(self, r, c):
        from sarpy.io.phase_history.cphd1_elements.CPHD import CPHDType
        meta = CPHDType.from_xml_file(os.path.join(REPO, 'tests/data/syntax-only-cphd-1.1.0-monostatic-minimal.xml'))
        meta.Data.NumBytesPVP = meta.PVP.get_vector_dtype().itemsize      # make the syntax-only document self-consistent
        ch = meta.Data.Channels[0]
        ch.NumVectors, ch.NumSamples = r, c
        return meta

    def crsd(self, r, c):
        import crsdgen
        key = ('crsdmeta', r, c)
        if key not in self.cache:
            self.cache[key] = crsdgen.build_meta('CF8', [(r, c)], False, [])      # schema-valid CRSD 1.0 built in code (harness/crsdgen.py, C11)
        return self.cache[key].copy()

    def nitf_details(self):
        import sarpy.io.general.nitf as N
        with N.NITFReader(os.path.join(REPO, 'tests/data/iq.nitf')) as reader:
            return N.NITFWritingDetails(reader.nitf_details.nitf_header,
                                        (N.ImageSubheaderManager(reader.get_image_header(0)), ),
                                        reader.image_segment_collections)

    # ---- writers
    def make_writer(self, kind, shapes, target, check=True):
        kw = {} if check is None else {'check_existence': check}       # None: the argument is not given (the default applies)
        if kind == 'NITF':
            from sarpy.io.general.nitf import NITFWriter
            return NITFWriter(target, self.nitf_details(), **kw)
        if kind == 'SICD':
            from sarpy.io.complex.sicd import SICDWriter
            return SICDWriter(target, self.sicd(*shapes[0]), **kw)
        if kind == 'SIDD':
            from sarpy.io.product.sidd import SIDDWriter
            return SIDDWriter(target, [self.sidd(r, c) for r, c in shapes], self.sicd(3, 2), **kw)
        if kind == 'CPHD':
            from sarpy.io.phase_history.cphd import CPHDWriter1
            meta = self.cphd(*shapes[0])
            w = CPHDWriter1(target, meta, **kw)
            w.write_pvp_array(0, numpy.zeros((shapes[0][0], ), dtype=meta.PVP.get_vector_dtype()))
            return w
        if kind == 'SIO':
            from sarpy.io.complex.sio import SIOWriter
            return SIOWriter(target, self.sicd(*shapes[0]), **kw)
        if kind == 'CRSD':
            from sarpy.io.received.crsd import CRSDWriter1
            meta = self.crsd(*shapes[0])
            w = CRSDWriter1(target, meta, **kw)
            w.write_pvp_array(0, numpy.zeros((shapes[0][0], ), dtype=meta.PVP.get_vector_dtype()))
            return w
        raise Infra(kind)

    @staticmethod
    def data(kind, shapes, i):
        r, c = shapes[i]
        base = numpy.arange(r * c).reshape(r, c)
        if kind == 'SIDD':
            return (150 + 40 * i + base).astype('uint8')
        return ((base + 1 + 30 * i) + 1j * (base + 1.5 + 30 * i)).astype('complex64')

    @staticmethod
    def rawcols(kind, shapes, i):
        return shapes[i][1] * (1 if kind == 'SIDD' else 2)

    def _write_ref(self, kind, shapes, rows):
        """reference output: the given rows {seg: set(rows)} written, to a new path, plain `with` use"""
        self.n += 1
        p = os.path.join(self.scratch, f'ref{self.n}')
        with self.make_writer(kind, shapes, p) as w:
            for i, rs in rows.items():
                d = self.data(kind, shapes, i)
                for r in sorted(rs):
                    w.write(d[r:r + 1], start_indices=(r, 0), index=i)
        with _real_open(p, 'rb') as f:
            out = f.read()
        os.remove(p)
        return out

    def get(self, kind, shapes):
        key = (kind, tuple(shapes))
        if key in self.cache:
            return self.cache[key]
        zero = self._write_ref(kind, shapes, {})
        zero2 = self._write_ref(kind, shapes, {})
        if zero != zero2:
            raise Infra(f'{kind} writer output is not deterministic; the reference comparison is not usable')
        full = self._write_ref(kind, shapes, {i: set(range(s[0])) for i, s in enumerate(shapes)})
        if len(full) != len(zero):
            raise Infra(f'{kind}: complete and empty reference outputs differ in size')
        pos = []
        claimed = numpy.zeros(len(full), dtype=bool)
        fa, za = numpy.frombuffer(full, 'u1'), numpy.frombuffer(zero, 'u1')
        for i, s in enumerate(shapes):
            pos.append([])
            for r in range(s[0]):
                one = numpy.frombuffer(self._write_ref(kind, shapes, {i: {r}}), 'u1')
                if len(one) != len(full):
                    raise Infra(f'{kind}: reference output size depends on what was written')
                p = numpy.nonzero(one != za)[0]
                if len(p) == 0 or numpy.any(one[p] != fa[p]) or numpy.any(claimed[p]):
                    raise Infra(f'{kind}: cannot attribute bytes of the reference output to segment {i} row {r}')
                claimed[p] = True
                pos[-1].append(p)
        if numpy.any((fa != za) & ~claimed):
            raise Infra(f'{kind}: the complete reference output has bytes that belong to no row')
        ref = {'zero': zero, 'full': full, 'pos': pos, 'fa': fa, 'za': za}
        self.cache[key] = ref
        return ref

    def reader_file(self, kind):
        """a complete file of the given kind for the file-reader cases"""
        key = ('file', kind)
        if key not in self.cache:
            if kind == 'NITF':
                self.cache[key] = os.path.join(REPO, 'tests/data/iq.nitf')
            else:
                shapes = WSHAPES[kind][0]
                p = os.path.join(self.scratch, 'readerfile_' + kind + {'SICD': '.nitf', 'SIO': '.sio', 'CPHD': '.cphd', 'CRSD': '.crsd'}[kind])
                with _real_open(p, 'wb') as f:
                    f.write(self.get(kind, shapes)['full'])
                self.cache[key] = p
        return self.cache[key]


def declared_size(kind, content):
    """size the container declares for itself, parsed out of band from its own header bytes"""
    try:
        if kind in ('NITF', 'SICD', 'SIDD'):
            if content[:9] != b'NITF02.10':
                return None
            return int(content[342:354])
        if kind in ('CPHD', 'CRSD'):
            head = content[:content.index(b'\f\n')].decode('ascii')
            kv = dict(l.split(' := ') for l in head.splitlines()[1:] if ' := ' in l)
            return int(kv['SIGNAL_BLOCK_BYTE_OFFSET']) + int(kv['SIGNAL_BLOCK_SIZE'])
        if kind == 'SIO':
            magic = int.from_bytes(content[:4], 'big')
            if magic not in (0xFF017FFE, 0xFE7F01FF, 0xFF027FFD, 0xFD7F02FF):
                return None
            en = 'big' if magic in (0xFF017FFE, 0xFF027FFD) else 'little'
            nr, nc, _, esz = [int.from_bytes(content[4 + 4 * k: 8 + 4 * k], en) for k in range(4)]
            off = 20
            if magic in (0xFF027FFD, 0xFD7F02FF):
                n = int.from_bytes(content[20:24], en)
                off = 24
                for _ in range(n):
                    for _k in range(2):
                        ln = int.from_bytes(content[off:off + 4], en)
                        off += 4 + ln
            return off + nr * nc * esz
    except Exception:
        return None
    return None


def read_back(kind, path):
    """open the container with the matching sarpy reader; returns list of arrays (one per segment)"""
    if kind == 'SICD':
        from sarpy.io.complex.sicd import SICDReader as RD
    elif kind == 'SIDD':
        from sarpy.io.product.sidd import SIDDReader as RD
    elif kind == 'NITF':
        from sarpy.io.general.nitf import NITFReader as RD
    elif kind == 'SIO':
        from sarpy.io.complex.sio import SIOReader as RD
    elif kind == 'CPHD':
        from sarpy.io.phase_history.cphd import CPHDReader as RD
    elif kind == 'CRSD':
        from sarpy.io.received.crsd import CRSDReader as RD
    with RD(path) as r:
        n = len(r.get_data_segment_as_tuple())
        return [numpy.array(r.read(index=i)) if n > 1 else numpy.array(r.read()) for i in range(n)]


def gen_writer_case(rng, kind=None, rewrite=False):
    kind = kind or rng.choice(WKINDS)
    shapes = [list(s) for s in rng.choice(WSHAPES[kind])]
    tgt = rng.choice(['p0', 'p0', 'p1', 'p2', 'm', 'm', 'r', 'r'])       # p1: an existing non-empty file, p2: an existing empty file
    check = rng.random() < 0.5 if tgt in ('p1', 'p2') else rng.random() < 0.8
    n = rng.randint(1, 12)
    ops = []
    # a plan of chunks: mostly a (possibly incomplete) partition of the rows in random order
    chunks = []
    for i, (r, c) in enumerate(shapes):
        cuts = sorted(rng.sample(range(1, r), rng.randint(0, r - 1))) if r > 1 else []
        edges = [0] + cuts + [r]
        chunks += [(i, a, b - a) for a, b in zip(edges[:-1], edges[1:])]
    rng.shuffle(chunks)
    style = rng.random()
    if style < 0.45:
        pass                                     # complete
    elif style < 0.85:
        chunks = chunks[:rng.randint(0, max(0, len(chunks) - 1))]     # incomplete
    else:
        chunks = []
    pending = list(chunks)
    written = []
    for j in range(n):
        r = rng.random()
        remaining = n - j
        if pending and (r < 0.55 or remaining <= len(pending) + 1 and r < 0.9):
            ch = pending.pop(0)
            ops.append('w%d,%d,%d' % ch)
            written.append(ch)
        elif r < 0.62 and rewrite and written:
            ops.append('w%d,%d,%d' % rng.choice(written))
        elif r < 0.66:
            ops.append('w%d,0,1' % (len(shapes) + rng.randint(0, 1)))      # no such segment
        elif r < 0.78:
            ops.append('f')
        elif r < 0.9:
            ops.append(rng.choice(['c', 'c', 'x', 'e']))
        elif r < 0.94 and j >= n - 2:
            ops.append('d')
        else:
            ops.append(rng.choice(['f', 'c']))
    if not rewrite and rng.random() < 0.3:
        # non-forced flushes between the chunks: nothing incomplete may be frozen by them
        ops2 = []
        for op in ops:
            ops2.append(op)
            if op[0] == 'w' and rng.random() < 0.6:
                ops2.append('f')
        ops = ops2[:14]
    if rewrite and not any(op.startswith('w') and ops.count(op) > 1 for op in ops) and written:
        ops.insert(rng.randint(1, len(ops)), 'w%d,%d,%d' % rng.choice(written))
        ops = ops[:12]
    return {'machine': 'W', 'kind': kind, 'shapes': shapes, 'target': tgt, 'check': bool(check), 'ops': ops}


def writer_line(case):
    sh = ','.join(f'{r}x{c * (1 if case["kind"] == "SIDD" else 2)}' for r, c in case['shapes'])
    tgt = 'p1' if case['target'] == 'p2' else case['target']        # the model does not look at the size of what exists (e_refusal_independent_of_content)
    return f"life W {tgt} {int(case['check'])} {sh} | " + ' '.join(case['ops'])


def leaves_of(seg):
    ch = getattr(seg, 'children', None)
    if ch is not None:
        return [l for c in ch for l in leaves_of(c)]
    par = getattr(seg, 'parent', None)
    if par is not None:
        return leaves_of(par)
    return [seg]


def run_writer_case(case, scratch, refs, final_readback=True):
    kind, shapes, tgt = case['kind'], [tuple(s) for s in case['shapes']], case['target']
    ref = refs.get(kind, shapes)
    fails = []

    def fail(key, msg, step, fields=()):
        fails.append({'key': key, 'msg': msg, 'step': step, 'fields': list(fields), 'case': case})

    path = os.path.join(scratch, 'out.bin')
    if os.path.exists(path):
        os.remove(path)
    pre = None
    if tgt in ('p1', 'p2'):
        pre = b'PREEXISTING' * 5000 if tgt == 'p1' else b''
        with _real_open(path, 'wb') as f:
            f.write(pre)
        os.utime(path, (1000000000, 1000000000))
    caller = None
    tracker = OpenTracker(scratch)
    exc_classes = {}
    trace, obs = [], []
    with tracker:
        if tgt == 'm':
            caller = CapBytesIO()
            target = caller
        elif tgt == 'r':
            caller = _real_open(path, 'wb')
            target = caller
        else:
            target = path
        tracker.handles.clear()
        out, ecls, w = call(lambda: refs.make_writer(kind, shapes, target, case['check']))
        if out != 'ok':
            # construction refused
            exc_classes[ecls] = 1
            if not (tgt in ('p1', 'p2') and case['check'] and ecls == 'SarpyIOError'):
                fail('', f'construction raised {ecls} for target {tgt} check_existence={case["check"]}', -1)
            else:
                st = os.stat(path)
                with _real_open(path, 'rb') as f:
                    now = f.read()
                if now != pre or int(st.st_mtime) != 1000000000:
                    fail('', 'the existing file was modified although the writer refused it', -1)
            if tracker.any_open():
                fail('', 'construction failed but left a file handle open', -1)
                for h in tracker.handles:
                    h.close()
            if caller is not None:
                caller.close()
            return ['refused'], fails, {'exc': exc_classes, 'refused': True}
        if tgt in ('p1', 'p2') and case['check']:
            fail('', f"an existing {'empty ' if tgt == 'p2' else ''}file was accepted (and truncated) although check_existence=True", -1)
        trace.append('init:%d' % int(tgt in ('p1', 'p2')))
        segs = list(w.data_segment)
        leaves = [leaves_of(s) for s in segs]
        nseg = len(segs)
        if nseg != len(shapes):
            raise Infra(f'{kind}: writer has {nseg} data segments for {len(shapes)} shapes')
        rows = [[False] * s[0] for s in shapes]     # ground truth kept by the harness
        rewrote = False
        gone = False
        closed_flag = False

        def snapshot():
            if tgt == 'm':
                return caller.content()
            with _real_open(path, 'rb') as f:
                return f.read()

        def file_open():
            if caller is not None:
                return not caller.closed
            return tracker.any_open()

        def seg_obs(content):
            buf = numpy.zeros(len(ref['full']), dtype='u1')
            a = numpy.frombuffer(content[:len(buf)], 'u1')
            buf[:len(a)] = a
            out_ = []
            for i in range(nseg):
                claims = all(bool(l.check_fully_written()) for l in leaves[i])
                cnts = [getattr(l, '_pixels_written', None) for l in leaves[i]]
                count = None if any(c is None for c in cnts) else int(sum(cnts))
                deliv, corrupt = [], False
                for r in range(shapes[i][0]):
                    p = ref['pos'][i][r]
                    if numpy.array_equal(buf[p], ref['fa'][p]):
                        deliv.append(True)
                    elif numpy.array_equal(buf[p], ref['za'][p]):
                        deliv.append(False)
                    else:
                        deliv.append(False)
                        corrupt = True
                out_.append({'claims': claims, 'count': count, 'deliv': deliv, 'corrupt': corrupt})
            return out_

        for step, op in enumerate(case['ops']):
            was_closed = closed_flag
            before_content = snapshot() if was_closed and not gone else None
            before_mtime = os.stat(path).st_mtime_ns if (was_closed and tgt != 'm' and not gone) else None
            if gone:
                out, ecls = 'gone', None
            elif op[0] == 'w':
                i, r0, n = [int(t) for t in op[1:].split(',')]
                if i < nseg:
                    d = refs.data(kind, shapes, i)[r0:r0 + n]
                else:
                    d = refs.data(kind, shapes, 0)[0:1]
                out, ecls, _ = call(lambda: w.write(d, start_indices=(r0, 0), index=i))
                if out == 'ok' and i < nseg:
                    if any(rows[i][r0:r0 + n]):
                        rewrote = True
                    for r in range(r0, r0 + n):
                        rows[i][r] = True
            elif op == 'f':
                out, ecls, _ = call(lambda: w.flush())
            elif op == 'c':
                out, ecls, _ = call(lambda: w.close())
            elif op == 'x':
                def f():
                    with w:
                        pass
                out, ecls, _ = call(f)
            elif op == 'e':
                out, ecls, _ = call(lambda: w.__exit__(ValueError, ValueError('x'), None))
            elif op == 'd':
                closed_flag = True
                w = None
                gc.collect()
                gone = True
                out, ecls = 'ok', None
            else:
                raise Infra('bad op ' + op)
            if ecls:
                exc_classes[ecls] = exc_classes.get(ecls, 0) + 1
            if not gone:
                closed_flag = bool(w.closed)
            content = snapshot()
            so = seg_obs(content)
            fo = file_open()
            o = {'op': op, 'out': out, 'exc': ecls, 'closed': closed_flag, 'fileOpen': fo, 'segs': so,
                 'size': len(content), 'gone': gone, 'rows': [list(r) for r in rows], 'rewrote': rewrote,
                 'was_closed': was_closed}
            if before_content is not None:
                o['untouched'] = (before_content == content) and (before_mtime is None or before_mtime == os.stat(path).st_mtime_ns)
            obs.append(o)
            trace.append(f"{out}:{int(closed_flag)}:{int(fo)}:" + ';'.join(
                f"{int(s['claims'])},{'?' if s['count'] is None else s['count']},{bits(s['deliv'])}" for s in so))
        # ---- end of history: if still open, nothing more is asserted about the file
        final = snapshot()
        other_open = [h for h in tracker.handles if not h.closed]
    info = {'exc': exc_classes, 'refused': False, 'rewrote': rewrote,
            'complete': all(all(r) for r in rows), 'closed': closed_flag}
    oracle_writer(case, ref, obs, final, other_open, path, fail, final_readback, refs)
    if w is not None:
        call(lambda: w.close())      # clean-up only, not observed
    for h in tracker.handles:
        try:
            h.close()
        except Exception:
            pass
    if caller is not None:
        caller.close()
    w = segs = leaves = None
    gc.collect()
    return trace, fails, info


def oracle_writer(case, ref, obs, final, other_open, path, fail, final_readback, refs):
    kind, tgt = case['kind'], case['target']
    shapes = [tuple(s) for s in case['shapes']]
    closed_seen = False
    for step, o in enumerate(obs):
        op, out = o['op'], o['out']
        if out == 'gone':
            continue
        rw = o['rewrote']
        if any(s['corrupt'] for s in o['segs']):
            fail(K_REWRITE if rw else '', f'step {step} {op}: the bytes of a row in the target are neither the written data nor untouched', step, ['deliv'])
        if op in ('c', 'x', 'e', 'd'):
            if out != 'ok':
                fail('', f"step {step} {op}: close/context exit raised {o['exc']}", step)
            elif op != 'd' and not o['closed']:
                fail('', f'step {step} {op}: writer does not report closed after close', step)
            if closed_seen and o.get('untouched') is False:
                fail('', f'step {step} {op}: a repeated close modified the target', step)
            closed_seen = True
        elif op[0] in 'wf':
            if o['was_closed']:
                if out == 'ok':
                    fail('', f'step {step} {op}: write/flush after close did not raise', step)
                if o.get('untouched') is False:
                    fail('', f'step {step} {op}: write/flush after close touched the file', step, ['deliv'])
            else:
                bad_index = op[0] == 'w' and int(op[1:].split(',')[0]) >= len(shapes)
                if bad_index and out == 'ok':
                    fail('', f'step {step} {op}: write to a missing segment did not raise', step)
                if not bad_index and out != 'ok':
                    fail('', f"step {step} {op}: write/flush on an open writer raised {o['exc']}", step)
        # ownership of the file object
        if tgt in ('m', 'r') and not o['fileOpen']:
            key = K_CPHD_CLOSE if kind == 'CPHD' and closed_seen else ''
            fail(key, f"step {step} {op}: the caller's file object was closed by the writer", step, ['fileOpen'])
        if tgt in ('p0', 'p1', 'p2'):
            if closed_seen and o['fileOpen']:
                fail(K_SIO_OPEN if kind == 'SIO' else '', f'step {step} {op}: the file the writer opened itself is still open after close', step, ['fileOpen'])
            if not closed_seen and not o['fileOpen']:
                pass    # handle strategy before close is the writer's business
        if closed_seen:
            for i, s in enumerate(o['segs']):
                row_ok = all(o['rows'][i])
                if not row_ok and s['claims']:
                    fail(K_REWRITE if rw else '', f'step {step} {op}: segment {i} reports fully written but rows '
                         f"{[r for r, b in enumerate(o['rows'][i]) if not b]} were never written", step, ['claims'])
                # every written row is in the target, no unwritten row is
                if s['deliv'] != o['rows'][i]:
                    if kind == 'CPHD' and tgt == 'm' and s['claims'] and not any(s['deliv']):
                        key = K_CPHD_MEM
                    elif rw:
                        key = K_REWRITE
                    else:
                        key = ''
                    fail(key, f"step {step} {op}: after close the target holds rows {bits(s['deliv'])} of segment {i}, "
                         f"written were {bits(o['rows'][i])}", step, ['deliv'])
            if o['size'] != len(ref['full']):
                key = K_CPHD_MEM if (kind == 'CPHD' and tgt == 'm' and any(s['claims'] for s in o['segs'])) else ''
                fail(key, f"step {step} {op}: closed container has {o['size']} bytes, the full declared size is {len(ref['full'])}", step, ['size'])
    if closed_seen:
        last = obs[-1]
        dsz = declared_size(kind, final)
        if dsz is None:
            fail('', 'the closed container does not start with a parsable header', len(obs) - 1)
        elif dsz != len(final):
            key = K_CPHD_MEM if (kind == 'CPHD' and tgt == 'm' and any(s['claims'] for s in last['segs'])) else ''
            fail(key, f'closed container: {len(final)} bytes, header declares {dsz}', len(obs) - 1, ['size'])
        if all(all(r) for r in last['rows']) and final != ref['full']:
            rw = last['rewrote']
            key = K_CPHD_MEM if (kind == 'CPHD' and tgt == 'm') else (K_REWRITE if rw else '')
            fail(key, 'all pixels were written but the closed output differs from the complete reference output', len(obs) - 1, ['deliv', 'size'])
        if other_open and tgt in ('m', 'r'):
            fail('', f'{len(other_open)} file handle(s) the writer opened itself are still open after close', len(obs) - 1)
        if final_readback and dsz == len(final):
            # structurally valid: the matching reader opens it; written rows read back, unwritten rows are zero
            p = os.path.join(os.path.dirname(path), 'readback.bin')
            with _real_open(p, 'wb') as f:
                f.write(final)
            out, ecls, arrs = call(lambda: read_back(kind, p))
            if out != 'ok':
                fail('', f'the closed container cannot be opened / read by its reader: {ecls}', len(obs) - 1)
            else:
                for i, a in enumerate(arrs):
                    want = refs.data(kind, shapes, i).copy()
                    for r, b in enumerate(last['rows'][i]):
                        if not b:
                            want[r] = 0
                    ok = a.shape == want.shape and numpy.array_equal(a, want)
                    if not ok and not (last['segs'][i]['deliv'] != last['rows'][i]):
                        fail(K_REWRITE if last['rewrote'] else '', f'segment {i} read back from the closed container differs from what was written', len(obs) - 1)
            os.remove(p)


# ------------------------------------------------------------------------------------------------ comparison

def compare_reader(model_line, trace, fails):
    """returns list of disagreement strings; fields touched by a keyed oracle failure are masked from its step on"""
    mt = model_line.split(' ')
    if len(mt) != len(trace):
        return [f'model answered {len(mt)} steps for {len(trace)}: {model_line[:120]}']
    mask_from = min([f['step'] for f in fails if f['key']], default=None)
    out = []
    for k, (m, t) in enumerate(zip(mt, trace)):
        mo, mf, mfi, mte = m.split(':')
        to, tf, tfi, tte = t.split(':')
        if mask_from is not None and k >= mask_from:
            mf, tf = mf[:1], tf[:1]
            mfi = tfi = ''
        if (mo, mf, mfi, mte) != (to, tf, tfi, tte):
            out.append(f'step {k}: model {m} implementation {t}')
    return out


def compare_writer(model_line, trace, fails):
    mt = model_line.split(' ')
    if mt == ['refused'] or trace == ['refused']:
        return [] if mt == trace else [f'construction: model {mt[0]} implementation {trace[0]}']
    if len(mt) != len(trace):
        return [f'model answered {len(mt)} steps for {len(trace)}: {model_line[:120]}']
    out = []
    if mt[0] != trace[0]:
        out.append(f'init: model {mt[0]} implementation {trace[0]}')
    masked = {}
    for f in fails:
        if f['key']:
            for fld in f['fields']:
                masked[fld] = 0
    for k, (m, t) in enumerate(zip(mt[1:], trace[1:])):
        mo, mc, mfo, msegs = m.split(':')
        to, tc, tfo, tsegs = t.split(':')
        if masked.get('fileOpen', 10 ** 9) <= k:
            mfo = tfo = ''
        ms, ts = msegs.split(';'), tsegs.split(';')
        ok = (mo, mc, mfo) == (to, tc, tfo) and len(ms) == len(ts)
        if ok:
            for a, b in zip(ms, ts):
                mcl, mcnt, _handed, mdel, _rows = a.split(',')
                tcl, tcnt, tdel = b.split(',')
                if tcnt == '?':
                    mcnt = '?'
                if masked.get('deliv', 10 ** 9) <= k:
                    mdel = tdel = ''
                if masked.get('claims', 10 ** 9) <= k:
                    mcl = tcl = ''
                if (mcl, mcnt, mdel) != (tcl, tcnt, tdel):
                    ok = False
        if not ok:
            out.append(f'step {k}: model {m} implementation {t}')
    return out


# ------------------------------------------------------------------------------------------------ run

def gen_filereader_case(rng):
    kind = rng.choice(['SICD', 'SICD', 'NITF', 'SIO', 'CPHD', 'CRSD'])
    tgt = rng.choice(['path', 'path', 'real', 'mem']) if kind in ('SICD', 'NITF') else 'path'
    holds = not (kind == 'SIO' and tgt == 'path')      # SIOReader maps the file by name and keeps no handle
    root = {'k': 'filereader', 'prop': True, 'file': None, 'cf': False,
            'kids': [{'k': 'fileseg', 'prop': True, 'file': 0 if holds else None, 'cf': holds and tgt == 'path', 'kids': []}]}
    return {'machine': 'R', 'root': root, 'nfiles': 1 if holds else 0, 'ntemp': 0, 'fkind': kind, 'ftarget': tgt,
            'ops': gen_rops(rng, root)}


def run_case(case, scratch, refs):
    d = tempfile.mkdtemp(dir=scratch)
    try:
        if case['machine'] == 'R':
            return run_reader_case(case, d, refs)
        if case['machine'] == 'S':
            return run_shared_case(case, d)
        if case['machine'] in 'CBDAE':
            import c19x
            if case['machine'] == 'A':
                return c19x.run_aggregate_case(case, d)
            if case['machine'] == 'E':
                return c19x.run_exist_case(case, d, refs)
            if case['machine'] == 'C':
                return c19x.run_ctor_case(case, d, refs)
            if case['machine'] == 'D':
                return c19x.run_dag_case(case, d)
            if not hasattr(refs, 'brefs'):
                refs.brefs = c19x.BRefs(refs)
            return c19x.run_blocked_case(case, d, refs.brefs)
        return run_writer_case(case, d, refs)
    finally:
        shutil.rmtree(d, ignore_errors=True)


def case_class(case, info):
    if case['machine'] == 'A':
        return ('A', case['agg'], len(case['done']), sum(case['done']), bool(case['done'][-1]))
    if case['machine'] == 'E':
        return ('E', case['kind'], case['pre'], case['check'])
    if case['machine'] in 'CBD':
        ops = case['ops']
        first_close = next((i for i, o in enumerate(ops) if o in 'cxed'), None)
        tail = (first_close is not None, first_close is not None and any(o[0] in 'rwf' for o in ops[first_close + 1:]),
                sum(1 for o in ops if o in 'cxe') > 1, 'd' in ops)
        if case['machine'] == 'C':
            return ('C', case['ckind'], tuple(sorted(set(case.get('segs', ())))), case.get('ftarget'), len(case['pre']) > 0,
                    sum(1 for p in case['plan'] if p[0] == 'b') > 1, sum(1 for p in case['plan'] if p[0] == 't') > 1) + tail
        if case['machine'] == 'D':
            return ('D', case['shape'], case['close_readers'], tuple(case['close_segments'])) + tail
        return ('B', case['kind'], case['target'], case['check'], case['order'], info.get('refused'), info.get('complete'),
                min(info.get('nsegs', 0), 3), min(info.get('nblocks', 0), 6),
                'f' in ops[:first_close if first_close is not None else len(ops)]) + tail
    if case['machine'] == 'S':
        ops = case['ops']
        return ('S', tuple(sorted(case['views'])), case['ntemp'] > 0, any(o in 'cxed' for o in ops))
    if case['machine'] == 'R':
        root = case['root']
        kinds = sorted({n['k'] for n in preorder(root)})
        ops = case['ops']
        first_close = next((i for i, o in enumerate(ops) if o in 'cxed'), None)
        return ('R', case.get('mode', 'r'), root['k'], tuple(kinds), case.get('fkind'), case.get('ftarget'),
                any(not n['prop'] for n in preorder(root)), case['ntemp'] > 0,
                first_close is not None, first_close is not None and any(o[0] == 'r' for o in ops[first_close + 1:]),
                sum(1 for o in ops if o in 'cxe') > 1, 'd' in ops)
    ops = case['ops']
    first_close = next((i for i, o in enumerate(ops) if o in 'cxed'), None)
    return ('W', case['kind'], case['target'], case['check'], info.get('refused'), info.get('complete'), info.get('rewrote'),
            first_close is not None, first_close is not None and any(o[0] in 'wf' for o in ops[first_close + 1:]),
            'f' in ops[:first_close if first_close is not None else len(ops)], 'd' in ops)


def witness_cases():
    """the negation witness of Props/C19.lean (claims_without_fresh_is_false) replayed on every writer family,
    and the design-time suspicion (CPHD writer and the caller's file object)"""
    out = []
    for kind in WKINDS:
        shapes = [list(s) for s in WSHAPES[kind][0]]
        for tgt in ('m', 'p0'):
            out.append({'machine': 'W', 'kind': kind, 'shapes': shapes, 'target': tgt, 'check': True,
                        'ops': ['w0,0,1', 'w0,0,1', 'c'] if shapes[0][0] == 2 else ['w0,0,1', 'w0,0,1', 'w0,0,1', 'c'][:shapes[0][0] + 1],
                        'witness': True})
    for tgt in ('m', 'r'):
        sh = [list(s) for s in WSHAPES['CPHD'][0]]
        out.append({'machine': 'W', 'kind': 'CPHD', 'shapes': sh, 'target': tgt, 'check': True,
                    'ops': [f'w0,0,{sh[0][0]}', 'c'], 'witness': True})
    return out


def bridge_obligations(chk):
    """regenerate Gen/Life.lean from the current source (translate/gen_life.py), build and audit Bridge/Life.lean.
    returns (translator info, broken obligations)"""
    import re
    import gen_life
    from common import lake_build, audit, ALLOWED_AXIOMS, LEAN
    gen = gen_life.generate(os.path.join(LEAN, 'SarpyModel', 'Gen', 'Life.lean'))
    info = {'module': 'translate/gen_life.py -> Gen/Life.lean', 'source_hashes': gen['hashes'], 'unsupported': gen['unsupported'],
            'changed_since_last_run': gen['changed']}
    broken = []
    if gen['unsupported']:
        broken.append('translator could not express: ' + json.dumps(gen['unsupported']))
    ok, failed, errors, log = lake_build([BRIDGE_MODULE])
    cov = chk.coverage
    if not ok:
        src = open(os.path.join(LEAN, 'SarpyModel', 'Bridge', 'Life.lean')).read().split('\n')
        starts = [(i + 1, m.group(1)) for i, l in enumerate(src) for m in [re.match(r'theorem\s+(\w+)', l)] if m]
        names = []
        for f, l, c, m in errors:
            if f.endswith('Bridge/Life.lean'):
                cand = [n for (ln, n) in starts if ln <= int(l)]
                if cand and cand[-1] not in names:
                    names.append(cand[-1])
        broken += [f'{BRIDGE_NS}.{n} (no longer proves against the code regenerated from the current source)' for n in names] \
            or [f'{BRIDGE_MODULE} (lake build failed)']
        cov['obligations'] = cov.get('obligations', 0) + len(BRIDGE_REQUIRED)
        cov['build_errors'] = cov.get('build_errors', []) + [f'{f}:{l}:{c}: {m}' for f, l, c, m in errors[:10]]
        info['broken_bridge_theorems'] = names
    else:
        k = audit(BRIDGE_MODULE, BRIDGE_NS)
        missing = [r for r in BRIDGE_REQUIRED if f'{BRIDGE_NS}.{r}' not in k]
        for r in missing:
            broken.append(f'{BRIDGE_NS}.{r} (required theorem missing)')
        bad = {n: a for n, a in k.items() if set(a) - ALLOWED_AXIOMS}
        for n, a in bad.items():
            broken.append(f'{n} depends on non-standard axioms {sorted(set(a) - ALLOWED_AXIOMS)}')
        cov['obligations'] = cov.get('obligations', 0) + len(k) + len(missing)
        cov['discharged'] = cov.get('discharged', 0) + len(k) - len(bad)
        cov['theorems'] = sorted(set(cov.get('theorems', [])) | {'Bridge.Life.' + n[len(BRIDGE_NS) + 1:] for n in k})
        cov['axioms_used'] = sorted(set(cov.get('axioms_used', [])) | {a for v in k.values() for a in v})
    cov['checker_cmd'] = cov.get('checker_cmd', '') + f' && lake build {BRIDGE_MODULE}'
    return info, broken


def case_line(c):
    import c19x
    m = c['machine']
    if m == 'R':
        return reader_line(c)
    if m == 'W':
        return writer_line(c)
    if m == 'C':
        return c19x.ctor_line(c)
    if m == 'B':
        return c19x.blocked_line(c)
    if m == 'D':
        return c19x.dag_line(c)
    if m == 'E':
        return c19x.exist_line(c)
    if m == 'A':
        return None      # goes to the driver of the regenerated kernels (its own process)
    return None


def case_name(c):
    m = c['machine']
    if m == 'S':
        return 'shared-child:' + '+'.join(sorted(c['views']))
    if m == 'R':
        return ('w:' if c.get('mode') == 'w' else '') + c['root']['k'] + (':' + c['fkind'] + ':' + c['ftarget'] if 'fkind' in c else '') \
            + (':hdf5' if any(n['k'] == 'hdf5' for n in preorder(c['root'])) else '')
    if m == 'C':
        return 'ctor:' + (('NITFReader[' + '+'.join(sorted(set(c['segs']))) + ']:' + c['ftarget']) if c['ckind'] == 'nitf' else 're-entrant-init')
    if m == 'B':
        return f"blocked:{c['kind']}:{c['target']}"
    if m == 'D':
        return 'dag:' + c['shape']
    if m == 'A':
        return 'aggregate:' + c['agg']
    if m == 'E':
        return 'existence-check:' + c['kind']
    return f"{c['kind']}:{c['target']}"


def run(tier):
    sarpy_guard()
    logging.disable(logging.CRITICAL)
    import warnings
    warnings.simplefilter('ignore')
    import c19x
    chk = Check('C19', tier)
    rng = chk.rng
    import seg_hist
    segstate_info = seg_hist.regen()       # Gen/SegState.lean: the accounting sites and field writes of data_segment.py
    broken = chk.prove(['SarpyModel.Props.C19All', 'SarpyModel.Drivers'] + seg_hist.targets_writes(), 'SarpyModel.Props.C19All', 'Sarpy.Props.C19', REQUIRED,
                       extra=seg_hist.extra_writes())
    gen_info, bridge_broken = bridge_obligations(chk)
    chk.coverage['translator'] = gen_info
    broken += bridge_broken
    widen = 2 if bridge_broken else 1          # a broken bridge obligation widens the search on the kinds it speaks about

    nr, nf, nw, nrw = (160, 40, 200, 24) if tier == 'quick' else (2000, 300, 2400, 250)
    nc, nb, nd, ncfg = ((60, 120, 30, 3) if tier == 'quick' else (600, 1500, 300, 12))
    import sys
    unraisable = []
    old_hook = sys.unraisablehook
    sys.unraisablehook = lambda u: unraisable.append(f'{type(u.exc_value).__name__} in {getattr(u.object, "__qualname__", u.object)}')
    cases = witness_cases()
    cases += [gen_reader_case(rng) for _ in range(nr)]
    cases += [gen_filereader_case(rng) for _ in range(nf)]
    cases += [gen_shared_case(rng) for _ in range(12 if tier == 'quick' else 200)]
    cases += [gen_writer_case(rng) for _ in range(nw)]
    cases += [gen_writer_case(rng, rewrite=True) for _ in range(nrw)]
    # ---- extension: construction, blocked writers, shared children
    cfgs = {k: [c19x.gen_blocked_cfg(rng, k) for _ in range(ncfg)] for k in c19x.BKINDS}
    ext = [c19x.gen_ctor_case(rng, 'nitf') for _ in range(3)] + [c19x.gen_ctor_case(rng, 'reinit') for _ in range(3)]
    for k in c19x.BKINDS:       # directed: every block of every configuration completed alone, last block first, flush after each chunk
        for j in range(len(cfgs[k])):
            d = c19x.gen_blocked_case(rng, {k: [cfgs[k][j]]}, k, directed=True)
            d['directed'] = True
            ext.append(d)
    ext += [c19x.gen_ctor_case(rng) for _ in range(nc * widen)]
    ext += [c19x.gen_blocked_case(rng, cfgs) for _ in range(nb * widen)]
    dag = [c19x.gen_dag_case(rng) for _ in range(nd)]
    for c in dag:
        c['ops'] = [(o if not (o[0] == 'r' and int(o[1:]) > 1) else 'r%d' % (int(o[1:]) % 2)) for o in c['ops']]
    agg_cases = c19x.gen_aggregate_cases()
    exist_cases = c19x.gen_exist_cases(WKINDS)
    cases += ext + dag + agg_cases + exist_cases
    if tier == 'thorough':
        cases += exhaustive_cases()

    drv = Driver()
    for c in cases:
        line = case_line(c)
        if line is not None:
            c['_q'] = drv.ask(line)
    try:
        ans = drv.run()
    except Infra as e:
        ans = None
        broken.append('model driver does not build/run: ' + str(e)[:300])
    # translator fidelity: Python originals / regenerated Lean / reference definitions on a small-scope enumeration
    # (its own driver process: a Gen/Life.lean that does not build must not take the model driver down)
    kreq = c19x.kernel_requests()
    kdrv = Driver()
    for line, _ in kreq:
        kdrv.ask(line)
    for c in agg_cases:
        c['_k'] = kdrv.ask(c19x.aggregate_line(c))
    for c in exist_cases:
        c['_k'] = kdrv.ask(c19x.exist_gen_line(c))
    kernel_dis, kernel_n, kans = [], 0, None
    try:
        kans = kdrv.run()
        kernel_n, kernel_dis = c19x.kernel_threeway(kans, kreq)
    except Infra as e:
        if not bridge_broken:
            broken.append('driver of the regenerated kernels does not build/run: ' + str(e)[:300])
        chk.notes.append('regenerated kernels could not be run: ' + str(e)[:200])

    scratch = tempfile.mkdtemp(prefix='c19_', dir='/var/tmp')
    fails, disagreements = [], []
    disagreements += [{'case': {'machine': 'K', 'ops': []}, 'msg': d['msg']} for d in kernel_dis]
    classes, exc_hist, kinds_hist = set(), {}, {}
    samples, wsamples, xsamples = [], [], {}
    masked_histories = 0
    lag = {}
    ctor_stats = {'readers_with_cache_files': 0, 'cache_files_created': 0, 'cache_files_registered_when_init_returned': 0}
    try:
        refs = Refs(scratch)
        for c in cases:
            q = c.pop('_q', None)
            trace, fl, info = run_case(c, scratch, refs)
            for k, v in info.get('exc', {}).items():
                exc_hist[k] = exc_hist.get(k, 0) + v
            name = case_name(c)
            kinds_hist[name] = kinds_hist.get(name, 0) + 1
            classes.add(case_class(c, info))
            if c['machine'] == 'C' and info.get('created'):
                ctor_stats['readers_with_cache_files'] += 1
                ctor_stats['cache_files_created'] += info['created']
                ctor_stats['cache_files_registered_when_init_returned'] += info['registered_at_end_of_construction']
            if info.get('lag'):
                key = f"{c['kind']}:text={c['cfg'].get('text', 0)}:des={c['cfg'].get('des', 0)}"
                lag[key] = lag.get(key, 0) + 1
            # one failure per (history, key) is enough
            seen = set()
            hist_keys = sorted({f['key'] for f in fl})
            for f in fl:
                f['hist_keys'] = hist_keys
                if (f['key'], f['msg'].split(':')[-1][:40]) in seen:
                    continue
                seen.add((f['key'], f['msg'].split(':')[-1][:40]))
                fails.append(f)
            if any(f['key'] for f in fl):
                masked_histories += 1
            kq = c.pop('_k', None)
            if c['machine'] == 'A' and kans is not None and kq is not None:
                dis = c19x.compare_aggregate(kans[kq], trace)
                if dis and not fl:
                    disagreements.append({'case': c, 'msg': '; '.join(dis)})
            if c['machine'] == 'E':
                if ans is not None and q is not None:
                    dis = c19x.compare_exist(ans[q], kans[kq] if (kans is not None and kq is not None) else None, trace)
                    if dis and not fl:
                        disagreements.append({'case': c, 'msg': '; '.join(dis)})
                q = None
            if ans is not None and q is not None:
                line = ans[q]
                if line == 'bad-op':
                    disagreements.append({'case': c, 'msg': 'the model driver rejected the request'})
                else:
                    m = c['machine']
                    if m == 'R':
                        dis = compare_reader(line, trace, fl)
                    elif m == 'W':
                        dis = compare_writer(line, trace, fl)
                    elif m == 'C':
                        dis = c19x.compare_ctor(line, trace, fl)
                    elif m == 'B':
                        dis = c19x.compare_blocked(line, trace, fl)
                    else:
                        dis = c19x.compare_dag(line, trace, info['names'])
                    if dis and not any(not f['key'] for f in fl):
                        disagreements.append({'case': c, 'msg': '; '.join(dis[:3]), 'model': line[:400], 'impl': ' '.join(trace)[:400]})
                    elif dis:
                        pass      # an unkeyed oracle failure on the same history is reported on its own
            if len(wsamples) < 3 and c['machine'] == 'W' and not c.get('witness') and len(c['ops']) > 3:
                wsamples.append(writer_line(c) + '  ->  ' + ' '.join(trace)[:300])
            if len(samples) < 3 and c['machine'] == 'R' and len(preorder(c['root'])) > 3:
                samples.append(reader_line(c) + '  ->  ' + ' '.join(trace)[:300])
            if c['machine'] in 'CBD' and c['machine'] not in xsamples and len(c['ops']) > 3:
                xsamples[c['machine']] = case_line(c) + '  ->  ' + ' '.join(trace)[:300]
        # the conversion route to a writer (Converter / conversion_utility): same existence clause, target built from directory + name
        try:
            aux_fails, aux_n, aux_used = c19x.aux_reads_after_close(scratch, rng)
        except Exception as e_:
            aux_fails, aux_n, aux_used = [{'key': '', 'step': 0, 'case': {'machine': 'R', 'ops': []}, 'msg': f'CPHD product with support arrays could not be written / opened: {type(e_).__name__}: {e_}'}], 0, []
        for f_ in aux_fails:
            f_['hist_keys'] = [f_['key']] if f_['key'] else ['']
        fails.extend(aux_fails)
        try:
            ft_fails, ft_n = c19x.fault_then_retry(scratch, rng)
        except Exception as e_:
            ft_fails, ft_n = [{'key': '', 'step': 0, 'case': {'machine': 'W', 'ops': []}, 'msg': f'fault-then-retry family could not run: {type(e_).__name__}: {e_}'}], 0
        for f_ in ft_fails:
            f_['hist_keys'] = ['']
        fails.extend(ft_fails[:6])
        conv_fails, conv_n = c19x.converter_existence(scratch)
        for f_ in conv_fails:
            f_['hist_keys'] = ['']
        fails.extend(conv_fails)
        conv_cases = conv_n
    finally:
        shutil.rmtree(scratch, ignore_errors=True)
        gc.collect()
        sys.unraisablehook = old_hook

    # ---- written-sample accounting of the segment objects under write AND write_raw (harness/seg_hist.py), SICDWriter write_raw histories
    sh = seg_hist.run_writes(chk, tier, consumers=True)
    for f in sh['fails']:
        c = {k: v for k, v in f.items() if k not in ('msg', 'key', 'step')}
        c.setdefault('ops', c.get('chunks', []))
        c['machine'] = 'H'
        fails.append({'key': f.get('key', ''), 'msg': f['msg'], 'step': f.get('step'), 'fields': [], 'case': c, 'hist_keys': []})
    disagreements += [{'case': {'machine': 'H', 'tree': d['tree'], 'ops': d['ops']}, 'msg': f"{d['tie']}: model {d['model']} / implementation {d['impl']}",
                       'model': d['model'], 'impl': d['impl']} for d in sh['disagreements']]
    broken += sh['broken']

    by_key = {}
    for f in fails:
        by_key.setdefault(f['key'], []).append(f)
    chk.coverage.update({
        'evaluations': len(cases) + conv_cases + sh['evaluations'],
        'converter_existence_cases': conv_cases,
        'file_object_fault_positions_retried': ft_n,
        'reads_after_close_through_other_entry_points': {'count': aux_n, 'entry_points': aux_used},
        'distinct_nontrivial': len(classes),
        'rule': 'random op histories (length <= 12; read / write-chunk / flush / close / context exit with and without '
                'exception / del+gc) over: random segment trees (array, memmap, file-read, HDF5 leaves sharing caller file objects; '
                'reorientation, subset, band and block aggregates with random close_parent / close_children / close_file), '
                'BaseReader / FlatReader / AggregateReader over them with temp files, sarpy file readers (SICD, NITF, SIO, CPHD, CRSD; '
                'path / real file object / BytesIO), and the NITF, SICD, SIDD (two images), CPHD, CRSD, SIO writers to a new path, an '
                'existing path (check on/off), a BytesIO and a caller-opened real file, with complete / incomplete / empty '
                'partitions of the rows in random order, plus a small stream with rewritten chunks. Extension: NITFReader over '
                'generated NITF files with 1-3 image segments each JPEG (one block / 2x2 blocks), JPEG 2000 or uncompressed (path / real '
                'file / BytesIO); BaseReader subclasses with random re-entrant construction plans (own list initialisation, temp files '
                'registered before the base initialisation, BaseReader.__init__ once or several times with delete_files); general '
                'NITFWriter (1-2 image segments, stacked or separate, blocked with padded last blocks, 8/16 bit, optional text / DES '
                'segments), SICDWriter and SIDDWriter with row limit (several image segments) and / or blocked subheaders: rectangular '
                'chunks of a random grid in random / reverse / last-block-first order, histories up to 14 ops (<= 40 directed) with '
                'non-forced flushes, out-of-range writes, every target; one directed history per configuration that completes every '
                'block alone, last block first, with a flush after each chunk; readers sharing children (five DAG shapes) through the '
                'tree unfolding; hand-built Block / Band aggregates with every subset of 2-3 children completed; the existence check of '
                'every path-taking writer family (NITF, SICD, SIDD, CPHD, CRSD, SIO) x {nothing, empty file, non-empty file, directory} '
                'at the path x check_existence {not given, False, True}, and histories on an existing empty file next to the existing '
                'non-empty one; distinct = distinct (machine, object kind, node kinds or target, ownership options, order, '
                'complete?, rewritten?, closed?, use after close?, double close?, flush before close?, del?) tuples',
        'samples': samples + wsamples + [xsamples[k] for k in sorted(xsamples)],
        'traces_validated_against_impl': sum(1 for c in cases if c['machine'] not in 'SA') + (len(agg_cases) if kans is not None else 0),
        'disagreements_checked': len(disagreements),
        'object_kinds': kinds_hist,
        'blocked_configurations': {k: v for k, v in cfgs.items()},
        'reader_construction': ctor_stats,
        'regenerated_kernels_three_way_evaluations': kernel_n,
        'regenerated_kernels_three_way_disagreements': len(kernel_dis),
        'caller_real_file_lags_until_caller_flush_after_close': lag,
        'exception_classes_seen': exc_hist,
        'histories_with_keyed_finding_masked_fields': masked_histories,
        'exceptions_raised_inside_finalisers': {k: unraisable.count(k) for k in sorted(set(unraisable))},
        'failing_inputs': len(fails),
        'write_accounting': sh['stats'],
        'segstate_translator': segstate_info,
        'failing_inputs_by_key': {k or '(unclassified)': len(v) for k, v in by_key.items()},
    })
    chk.assumptions += [
        'the theorems are about the state machines of Spec/Lifecycle.lean; they speak about sarpy only as far as the op-history correspondence of this run reaches (object kinds and counts are in coverage.object_kinds) and as far as the bridge theorems of Bridge/Life.lean tie the regenerated decision kernels (fully-written loops and counters, the hand-over decision of NITFWriter.flush, the construction phases of BaseReader / NITFReader) to the reference definitions',
        'translate/gen_life.py is not proved; its fidelity is what the construction / blocked-writer correspondence of this run observes (a mistranslation shows as a model / implementation disagreement)',
        'garbage collection is exercised only as `del` + gc.collect() of the root object under CPython reference counting; finaliser ordering under a real collector and OS-level handle reuse are outside the model',
        'after `del` the closed flag of the deleted object itself is not observable; the model value is taken',
        'file content of path / real-file targets is observed by re-reading the file (numpy.memmap writes are assumed coherent with read() through the page cache); for blocked writers on a caller-opened real file the caller object is flushed by the harness before the path is read: "the file object holds the output" is read as "everything has been handed to the file object" (how many closes left bytes in the caller buffer is counted in coverage.caller_real_file_lags_until_caller_flush_after_close)',
        'which bytes belong to which row / pixel is learnt from reference outputs written through the same writers to a path (one row at a time; for blocked writers one pixel at a time in bit-coded groups); the byte layout itself is the subject of C02/C03/C09, not of this check',
        'use after close must raise; any exception class is accepted there (classes seen are in coverage.exception_classes_seen), the model output is `refused`',
        'accounting theorems (claims = complete, complete output, hand-over only when complete) carry the hypothesis that no row / pixel is written twice; the counter-example without it is proved (claims_without_fresh_is_false) and replayed on the implementation',
        'objects shared between parents (a DAG) are run against the tree machine through the tree unfolding (an object is closed iff one of its copies is; exact for single-root histories because close is idempotent per object); the reduction itself is validated by this correspondence, not proved; temp files of inner readers are checked by the oracle only',
        'a closed block aggregate has dropped its children, so after close the fully-written claim of an image segment is the last value observed before close (nothing changes after close); per-block claims and counters are read from the children the harness kept',
        'JPEG 2000 / JPEG decoding is PIL; multi-block JPEG pixel values are not compared here (reading is C01); IMODE=S and masked compressed segments, the GFF reader (its own cache-file scheme) and NITF 2.0 are not exercised',
    ]
    unknown_keys = [k for k in by_key if not (k and chk.known(k))]
    # unclassified failures are reported once per machine (object family), the shortest history of each
    groups = {}
    for k in unknown_keys:
        for f in by_key[k]:
            groups.setdefault((k, f['case']['machine'] if not k else ''), []).append(f)
    nviol = 0
    for (k, mach) in sorted(groups, key=lambda g: (g[0], 'BCEWRDSA'.find(g[1]))):
        if nviol >= 5:
            break
        f = min(groups[(k, mach)], key=lambda f: (len(f['hist_keys']), len(f['case']['ops'])))
        chk.violation(f['msg'] + (f' [{k}]' if k else ''),
                      {'key': k, 'case': f['case'], 'count_in_this_run': len(groups[(k, mach)]), 'broken_obligations': broken,
                       'replay_cmd': './check C19 --replay <this file>'}, True)
        nviol += 1
    if len(groups) > 5:
        chk.notes.append(f'{len(groups)} distinct failure classes found, first 5 reported')
    if not unknown_keys and (broken or disagreements):
        chk.violation('proof obligation or correspondence no longer checks: ' + '; '.join(broken[:3] + [d['msg'][:200] for d in disagreements[:2]]),
                      {'broken_obligations': broken, 'disagreements': disagreements[:10]}, False)
    elif disagreements or broken:
        chk.notes.append(f'{len(disagreements)} model/implementation disagreements and {len(broken)} broken obligations besides the reported failing inputs: '
                         + '; '.join(broken[:2] + [d['msg'][:160] for d in disagreements[:2]]))
    return chk.finish()


def exhaustive_cases():
    """all histories of length <= 3 over a small alphabet for every writer family x target and two reader shapes"""
    import itertools
    out = []
    for kind in WKINDS:
        shapes = [list(s) for s in WSHAPES[kind][-1]]
        r = shapes[0][0]
        alpha = [f'w0,0,{r}', 'w0,0,1', 'f', 'c', 'x', 'd']
        for tgt in ('p0', 'm', 'r'):
            for n in (1, 2, 3):
                for ops in itertools.product(alpha, repeat=n):
                    out.append({'machine': 'W', 'kind': kind, 'shapes': shapes, 'target': tgt, 'check': True, 'ops': list(ops)})
    leaf = {'k': 'array', 'prop': True, 'file': None, 'cf': False, 'kids': []}
    fl = {'k': 'fileread', 'prop': True, 'file': 0, 'cf': True, 'kids': []}
    for root in ({'k': 'reader', 'prop': True, 'file': None, 'cf': False, 'kids': [dict(fl), {'k': 'subset', 'prop': False, 'file': None, 'cf': False, 'kids': [dict(leaf)]}]},
                 {'k': 'reorient', 'prop': True, 'file': None, 'cf': False, 'kids': [dict(fl)]}):
        alpha = (['r0', 'r1', 'c', 'x', 'e', 'd'] if root['k'] == 'reader' else ['r', 'c', 'd'])
        for n in (1, 2, 3, 4):
            for ops in itertools.product(alpha, repeat=n):
                out.append({'machine': 'R', 'root': root, 'nfiles': 1, 'ntemp': 2 if root['k'] == 'reader' else 0, 'ops': list(ops)})
    return out


def replay(path):
    sarpy_guard()
    logging.disable(logging.CRITICAL)
    rec = json.load(open(path))
    case = rec.get('case')
    if case is None:
        print(json.dumps(rec, indent=1)[:3000])
        return 1
    if str(case.get('kind', '')).startswith('seghist'):
        import seg_hist
        return seg_hist.replay_case(case)
    print('case:', json.dumps(case))
    if case['machine'] != 'S':
        print('model request:', case_line(case))
    scratch = tempfile.mkdtemp(prefix='c19r_', dir='/var/tmp')
    try:
        refs = Refs(scratch)
        trace, fails, info = run_case(case, scratch, refs)
    finally:
        shutil.rmtree(scratch, ignore_errors=True)
    print('implementation trace:')
    for op, t in zip(['(init)'] * (len(trace) - len(case['ops'])) + case['ops'], trace):
        print('  ', op, '->', t)
    for f in fails:
        print('FAIL', f'[{f["key"]}]' if f['key'] else '', f['msg'])
    return 1 if fails else 0
