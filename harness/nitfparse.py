"""Independent NITF 2.1 structural parser, written from the field tables of MIL-STD-2500C (hand transcription).
It shares no code with sarpy: it is driven only by the standard's field widths and by the length fields found
in the bytes.  Used as the out-of-band oracle for C03 / C02 / C10 / C18."""


class NitfError(Exception):
    pass


def _int(b, what):
    try:
        return int(b.decode('ascii'))
    except Exception:
        raise NitfError(f'{what}: not a decimal field: {b!r}')


SECURITY = 167  # FSCLAS 1, FSCLSY 2, FSCODE 11, FSCTLH 2, FSREL 20, FSDCTP 2, FSDCDT 8, FSDCXM 4, FSDG 1, FSDGDT 8, FSCLTX 43, FSCATP 1, FSCAUT 40, FSCRSN 1, FSSRDT 8, FSCTLN 15


def parse_file_header(buf):
    if buf[:9] != b'NITF02.10':
        raise NitfError(f'not a NITF 2.1 file: {buf[:9]!r}')
    p = 0
    h = {}

    def take(n, name, as_int=False):
        nonlocal p
        v = buf[p:p + n]
        if len(v) != n:
            raise NitfError(f'file header truncated at {name}')
        p += n
        h[name] = _int(v, name) if as_int else v
        return h[name]
    take(4, 'FHDR'); take(5, 'FVER'); take(2, 'CLEVEL', True); take(4, 'STYPE'); take(10, 'OSTAID'); take(14, 'FDT'); take(80, 'FTITLE')
    take(SECURITY, 'SECURITY'); take(5, 'FSCOP'); take(5, 'FSCPYS'); take(1, 'ENCRYP'); take(3, 'FBKGC'); take(24, 'ONAME'); take(18, 'OPHONE')
    take(12, 'FL', True); take(6, 'HL', True)
    segs = {}
    for key, cnt_name, wsub, wdat in (('image', 'NUMI', 6, 10), ('graphic', 'NUMS', 4, 6), ('reserved_x', 'NUMX', 0, 0),
                                      ('text', 'NUMT', 4, 5), ('des', 'NUMDES', 4, 9), ('res', 'NUMRES', 4, 7)):
        n = take(3, cnt_name, True)
        items = []
        if key == 'reserved_x':
            if n != 0:
                raise NitfError('NUMX must be 000')
            continue
        for i in range(n):
            a = take(wsub, f'{cnt_name}_sub{i}', True)
            b = take(wdat, f'{cnt_name}_dat{i}', True)
            items.append((a, b))
        segs[key] = items
    udhdl = take(5, 'UDHDL', True)
    if udhdl > 0:
        take(3, 'UDHOFL'); take(udhdl - 3, 'UDHD')
    xhdl = take(5, 'XHDL', True)
    if xhdl > 0:
        take(3, 'XHDLOFL'); take(xhdl - 3, 'XHD')
    h['parsed_length'] = p
    h['segments'] = segs
    return h


def parse_image_subheader(buf, off, length):
    b = buf[off:off + length]
    if len(b) != length:
        raise NitfError('image subheader extends past end of file')
    p = 0
    h = {}

    def take(n, name, as_int=False):
        nonlocal p
        v = b[p:p + n]
        if len(v) != n:
            raise NitfError(f'image subheader truncated at {name}')
        p += n
        h[name] = _int(v, name) if as_int else v
        return h[name]
    if take(2, 'IM') != b'IM':
        raise NitfError(f'image subheader does not start with IM at offset {off}')
    take(10, 'IID1'); take(14, 'IDATIM'); take(17, 'TGTID'); take(80, 'IID2'); take(SECURITY, 'SECURITY'); take(1, 'ENCRYP'); take(42, 'ISORCE')
    take(8, 'NROWS', True); take(8, 'NCOLS', True); take(3, 'PVTYPE'); take(8, 'IREP'); take(8, 'ICAT'); take(2, 'ABPP', True); take(1, 'PJUST')
    ic = take(1, 'ICORDS')
    if ic != b' ':
        take(60, 'IGEOLO')
    nicom = take(1, 'NICOM', True)
    for i in range(nicom):
        take(80, f'ICOM{i}')
    icmp = take(2, 'IC')
    if icmp not in (b'NC', b'NM'):
        take(4, 'COMRAT')
    nb = take(1, 'NBANDS', True)
    if nb == 0:
        nb = take(5, 'XBANDS', True)
    h['bands'] = nb
    for i in range(nb):
        take(2, f'IREPBAND{i}'); take(6, f'ISUBCAT{i}'); take(1, f'IFC{i}'); take(3, f'IMFLT{i}')
        nl = take(1, f'NLUTS{i}', True)
        if nl > 0:
            ne = take(5, f'NELUT{i}', True)
            take(nl * ne, f'LUTD{i}')
    take(1, 'ISYNC'); take(1, 'IMODE'); take(4, 'NBPR', True); take(4, 'NBPC', True); take(4, 'NPPBH', True); take(4, 'NPPBV', True)
    take(2, 'NBPP', True); take(3, 'IDLVL', True); take(3, 'IALVL', True); take(10, 'ILOC'); take(4, 'IMAG')
    ud = take(5, 'UDIDL', True)
    if ud > 0:
        take(3, 'UDOFL'); take(ud - 3, 'UDID')
    ix = take(5, 'IXSHDL', True)
    if ix > 0:
        take(3, 'IXSOFL'); take(ix - 3, 'IXSHD')
    h['parsed_length'] = p
    return h


def parse_des_subheader(buf, off, length):
    b = buf[off:off + length]
    if len(b) != length:
        raise NitfError('DES subheader extends past end of file')
    if b[:2] != b'DE':
        raise NitfError(f'DES subheader does not start with DE at offset {off}')
    h = {'DESID': b[2:27], 'DESVER': b[27:29]}
    p = 29 + SECURITY
    desid = h['DESID'].strip()
    if desid == b'TRE_OVERFLOW':
        p += 6 + 3
    h['DESSHL'] = _int(b[p:p + 4], 'DESSHL')
    p += 4
    h['DESSHF'] = b[p:p + h['DESSHL']]
    p += h['DESSHL']
    h['parsed_length'] = p
    return h


def parse_text_subheader(buf, off, length):
    b = buf[off:off + length]
    if b[:2] != b'TE':
        raise NitfError(f'text subheader does not start with TE at offset {off}')
    p = 2 + 7 + 3 + 14 + 80 + SECURITY + 1 + 3
    tx = _int(b[p:p + 5], 'TXSHDL')
    p += 5
    if tx > 0:
        p += tx
    return {'parsed_length': p}


def parse_res_subheader(buf, off, length):
    b = buf[off:off + length]
    if b[:2] != b'RE':
        raise NitfError(f'RES subheader does not start with RE at offset {off}')
    p = 2 + 25 + 2 + SECURITY
    n = _int(b[p:p + 4], 'RESSHL')
    p += 4 + n
    return {'parsed_length': p}


def clevel_required(file_length, dims):
    """MIL-STD-2500C table A-10"""
    if file_length < 50 * 1024 ** 2:
        c = 3
    elif file_length < 1024 ** 3:
        c = 5
    elif file_length < 2 * 1024 ** 3:
        c = 6
    elif file_length < 10 * 1024 ** 3:
        c = 7
    else:
        c = 9
    for d in dims:
        c = max(c, 3 if d <= 2048 else 5 if d <= 8192 else 6 if d <= 65536 else 7)
    return c


def check_structure(buf):
    """returns (problems, summary). problems: list of strings (empty = structurally self-consistent)"""
    problems = []
    try:
        h = parse_file_header(buf)
    except NitfError as e:
        return [f'file header: {e}'], None
    if h['FL'] != len(buf):
        problems.append(f'FL = {h["FL"]} but the file has {len(buf)} bytes')
    if h['HL'] != h['parsed_length']:
        problems.append(f'HL = {h["HL"]} but the header parses to {h["parsed_length"]} bytes')
    off = h['HL']
    images = []
    layout = []
    for key, parser in (('image', parse_image_subheader), ('graphic', None), ('text', parse_text_subheader), ('des', parse_des_subheader),
                        ('res', parse_res_subheader)):
        for i, (sub, dat) in enumerate(h['segments'].get(key, [])):
            layout.append((key, i, off, sub, dat))
            if parser is not None:
                try:
                    sh = parser(buf, off, sub)
                    if sh['parsed_length'] != sub:
                        problems.append(f'{key} segment {i}: declared subheader length {sub} but the subheader parses to {sh["parsed_length"]} bytes')
                    if key == 'image':
                        sh['data_offset'] = off + sub
                        sh['data_length'] = dat
                        images.append(sh)
                except NitfError as e:
                    problems.append(f'{key} segment {i} at offset {off}: {e}')
            off += sub + dat
    if off != len(buf):
        problems.append(f'declared lengths sum to {off} but the file has {len(buf)} bytes (gap or overlap)')
    for i, im in enumerate(images):
        nppbh = im['NPPBH'] if im['NPPBH'] != 0 else im['NCOLS']
        nppbv = im['NPPBV'] if im['NPPBV'] != 0 else im['NROWS']
        if im['IC'] == b'NC':
            want = im['NBPR'] * im['NBPC'] * nppbh * nppbv * im['bands'] * (im['NBPP'] // 8)
            if want != im['data_length']:
                problems.append(f'image segment {i}: data length {im["data_length"]} != block-padded pixel size {want}')
            if im['NBPR'] * nppbh < im['NCOLS'] or im['NBPC'] * nppbv < im['NROWS']:
                problems.append(f'image segment {i}: blocks do not cover the image')
        elif im['IC'] == b'NM':
            problems.extend(f'image segment {i}: {p}' for p in check_mask(buf, im, nppbh, nppbv))
    return problems, {'header': h, 'images': images, 'layout': layout}


def check_mask(buf, im, nppbh, nppbv):
    """IC=NM: the image data field starts with the mask table (MIL-STD-2500C table A-3(A)); returns problems"""
    out = []
    d0, dl = im['data_offset'], im['data_length']
    b = buf[d0:d0 + dl]
    if len(b) < 10:
        return ['masked image data shorter than the fixed part of the mask table']
    imdatoff = int.from_bytes(b[0:4], 'big')
    bmrlnth = int.from_bytes(b[4:6], 'big')
    tmrlnth = int.from_bytes(b[6:8], 'big')
    tpxcdlnth = int.from_bytes(b[8:10], 'big')
    nblocks = im['NBPR'] * im['NBPC']
    per_band = im['IMODE'] == b'S'
    nrec = nblocks * (im['bands'] if per_band else 1)
    p = 10 + (tpxcdlnth + 7) // 8
    if bmrlnth not in (0, 4) or tmrlnth not in (0, 4):
        out.append(f'mask record lengths BMRLNTH={bmrlnth} TMRLNTH={tmrlnth} (must be 0 or 4)')
        return out
    bmr = [int.from_bytes(b[p + 4 * k:p + 4 * k + 4], 'big') for k in range(nrec)] if bmrlnth else None
    p += bmrlnth * nrec + tmrlnth * nrec
    if imdatoff != p:
        out.append(f'IMDATOFF = {imdatoff} but the mask table occupies {p} bytes')
    block_bytes = nppbh * nppbv * (im['NBPP'] // 8) * (1 if per_band else im['bands'])
    if bmr is None:
        present = nrec
    else:
        offs = sorted(set(o for o in bmr if o != 0xFFFFFFFF))
        present = len(offs)
        if offs != [k * block_bytes for k in range(present)]:
            out.append(f'block mask offsets {offs[:6]}... are not the consecutive multiples of the block size {block_bytes}')
    want = p + present * block_bytes
    if dl != want:
        out.append(f'data length {dl} != mask table {p} + {present} recorded blocks of {block_bytes} bytes = {want}')
    return out


def reassemble(images):
    """group image segments into product images by attachment chains; returns list of dict(rows, cols, segments=[(row0,row1,col0,col1,index)])"""
    by_dlvl = {im['IDLVL']: (i, im) for i, im in enumerate(images)}
    if len(by_dlvl) != len(images):
        raise NitfError('display levels are not unique')
    loc = {}
    root = {}

    def locate(dl):
        if dl in loc:
            return loc[dl]
        i, im = by_dlvl[dl]
        r, c = int(im['ILOC'][:5]), int(im['ILOC'][5:])
        al = im['IALVL']
        if al == 0 or al not in by_dlvl:
            if al != 0:
                raise NitfError(f'attachment level {al} of segment {i} refers to no display level')
            loc[dl] = (r, c)
            root[dl] = dl
        else:
            if al >= dl:
                raise NitfError(f'segment {i} attached to a higher display level')
            pr, pc = locate(al)
            loc[dl] = (pr + r, pc + c)
            root[dl] = root[al]
        return loc[dl]
    for dl in sorted(by_dlvl):
        locate(dl)
    groups = {}
    for dl in sorted(by_dlvl):
        i, im = by_dlvl[dl]
        r, c = loc[dl]
        groups.setdefault(root[dl], []).append((r, r + im['NROWS'], c, c + im['NCOLS'], i))
    out = []
    for g in groups.values():
        out.append({'rows': max(s[1] for s in g), 'cols': max(s[3] for s in g), 'segments': g})
    return out
