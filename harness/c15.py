"""C15 — chipping a complex image preserves its pixels and its geolocation.

proof side : lean/SarpyModel/Props/C15.lean (windows, chip of chip from C01's compose_spec, subset metadata arithmetic,
             pixel shift, converter row-block tiling from C03/C02's stepTiling lemmas; all windows, any nesting depth)
tie        : correspondence: the Lean model (Spec.Chip through the `chip` driver) and the real code are run on the same
             windows / nestings / block sizes: create_subset_structure (fields, vetted bounds, refusals, nested calls),
             COAProjection.from_sicd shifts, SubsetSegment's composed parent subscripts, Converter._get_rows_per_block and
             the row blocks handed to the writer (observed by wrapping SICDWriter.write_chip at run time)
search     : direct oracle on the implementation: small SICD files of every pixel type, then for random and boundary
             windows (1) SubsetSICDReader pixels == parent[window]; (2) subset structure size fields / First{Row,Col} /
             nothing else changed / corners re-derived; (3) conversion_utility(row_limits, column_limits, max_block_size)
             output reopened == parent[window] bit for bit, metadata == subset structure; (4) chip pixel (r, c) and parent
             pixel (r + r0, c + c0) project to the same ground point (1e-6 m) and every ground point to the same
             chip-relative pixel (1e-6 pixel); (5) chip of chip == composed chip (pixels and metadata)
"""
import json
import logging
import os
import shutil
import tempfile

import numpy

from common import Check, Driver, Infra, VERIF, sarpy_guard
import sargen
from c02 import meta_diff, strip

REQUIRED = ['window_normal', 'window_verify', 'window_indices', 'chip_of_chip', 'compose_assoc', 'compose_full_left',
            'compose_full_right', 'full_window_identity', 'chip_chain', 'subset_refused_iff', 'subset_meta_fields',
            'subset_meta_compose', 'subset_structure_compose', 'subset_chain', 'subset_chain_single', 'pixel_shift',
            'pixel_shift_real', 'transform_arg_shift', 'pixel_shift_chain', 'rowsPerBlock_pos', 'cover_of_consecutive',
            'converter_rows_tile', 'converter_output', 'converter_block_size_independent']

PT_CODE = {'RE32F_IM32F': 0, 'RE16I_IM16I': 1, 'AMP8I_PHS8I': 2}
PIXEL_TYPES = ['RE32F_IM32F', 'RE16I_IM16I', 'AMP8I_PHS8I']
STRUCT_KINDS = ['pfa', 'rma', 'rgazcomp', 'inca', 'plane', 'xctyat']
REFUSED = (ValueError, KeyError, IndexError, TypeError)

# keys of the genuine sarpy defects this oracle reproduces on the pinned tree (see NOTES_C15.md)
K_SQUEEZE = 'SubsetSICDReader:single-row-or-column-window-loses-a-dimension'
K_NESTED = 'SubsetSICDReader:parent-reader-is-a-subset-reader'
K_SEED = 'ground_to_image:chip-iteration-seeded-with-full-image-SCPPixel'

TOL_GROUND = 1e-6   # metres
TOL_PIXEL = 1e-6    # pixels
TIGHT = {'tolerance': 1e-9, 'max_iterations': 60}


# ----------------------------------------------------------------------------------------------------------------------
# generators (everything derives from the rng handed in; arrays through numpy generators seeded from it)

def amp_table(seed):
    g = numpy.random.default_rng(seed + 77)
    return numpy.cumsum(g.uniform(1e-3, 1.0, 256))


def make_pixels(seed, rows, cols, pt, table=None):
    g = numpy.random.default_rng(seed)
    if pt == 'RE32F_IM32F':
        re = g.uniform(-100, 100, (rows, cols)).astype('float32')
        im = g.uniform(-100, 100, (rows, cols)).astype('float32')
        return (re + 1j * im).astype('complex64')
    if pt == 'RE16I_IM16I':
        re = g.integers(-32768, 32768, (rows, cols)).astype('float32')
        im = g.integers(-32768, 32768, (rows, cols)).astype('float32')
        return (re + 1j * im).astype('complex64')
    mag = g.integers(0, 256, (rows, cols))
    ph = g.integers(0, 256, (rows, cols))
    return (table[mag] * numpy.exp(2j * numpy.pi * ph / 256.0)).astype('complex64')


def make_struct(kind, rows, cols, pt='RE32F_IM32F', table=None):
    """a SICD structure of the given image formation kind. pfa / rma come from tests/data; the others are derived
    from them so that the projection equations stay consistent (the iteration of ground_to_image converges)"""
    from sarpy.io.complex.sicd_elements.RgAzComp import RgAzCompType
    from sarpy.io.complex.sicd_elements.RMA import RMAType, INCAType
    if kind in ('pfa', 'rma'):
        return sargen.small_sicd(rows, cols, pt, kind=kind, amp_table=table)
    if kind == 'rgazcomp':
        s = sargen.small_sicd(rows, cols, pt, kind='pfa', amp_table=table)
        s.ImageFormation.ImageFormAlgo = 'RGAZCOMP'
        s.PFA = None
        az_sf = -s.SCPCOA.look * numpy.sin(numpy.deg2rad(s.SCPCOA.DopplerConeAng)) / s.SCPCOA.SlantRange
        s.RgAzComp = RgAzCompType(AzSF=az_sf, KazPoly=[0.0, 1.0])
        return s
    s = sargen.small_sicd(rows, cols, pt, kind='rma', amp_table=table)
    if kind in ('plane', 'xctyat'):
        s.Grid.Type = kind.upper()
        return s
    if kind == 'inca':
        scp = s.GeoData.SCP.ECF.get_array()
        arp = s.Position.ARPPoly
        varp = arp.derivative(der_order=1, return_poly=True)
        t = s.SCPCOA.SCPTime
        for _ in range(30):     # time of closest approach to the SCP
            p, v, a = arp(t), varp(t), arp.derivative_eval(t, der_order=2)
            t -= numpy.dot(p - scp, v) / (numpy.dot(v, v) + numpy.dot(p - scp, a))
        p, v = arp(t), varp(t)
        vm = numpy.linalg.norm(v)
        rca = numpy.linalg.norm(p - scp)
        urow = (scp - p) / rca
        ucol = v / vm - numpy.dot(v / vm, urow) * urow
        ucol /= numpy.linalg.norm(ucol)
        sf = numpy.linalg.norm(scp) / numpy.linalg.norm(p)
        s.Grid.Type = 'RGZERO'
        s.Grid.ImagePlane = 'SLANT'
        s.Grid.Row.UVectECF = urow
        s.Grid.Col.UVectECF = ucol
        s.Grid.TimeCOAPoly = [[t, 1.0 / (vm * sf)], ]
        s.RMA = RMAType(RMAlgoType='OMEGA_K', ImageType='INCA',
                        INCA=INCAType(TimeCAPoly=[t, 1.0 / (vm * sf)], R_CA_SCP=rca, FreqZero=s.RadarCollection.TxFrequency.Min,
                                      DRateSFPoly=[[sf, ], ]))
        s.SCPCOA.SCPTime = t
        return s
    raise ValueError(kind)


def build_parent(spec, tmpdir):
    """spec -> (reader, sicd, formatted pixels as read, raw samples as read). Deterministic in spec."""
    from sarpy.io.complex.converter import open_complex
    from sarpy.io.complex.base import FlatSICDReader
    pt, rows, cols = spec['pixel_type'], spec['rows'], spec['cols']
    table = amp_table(spec['data_seed']) if pt == 'AMP8I_PHS8I' else None
    meta = make_struct(spec['kind'], rows, cols, pt, table)
    data = make_pixels(spec['data_seed'], rows, cols, pt, table)
    if spec['source'] == 'flat':
        rdr = FlatSICDReader(meta, data)
    elif spec['source'] == 'oriented':
        # a sensor-format style parent: the stored layout differs from the image layout by axis reversals / a transposition
        from sarpy.io.complex.base import SICDTypeReader
        from sarpy.io.general.data_segment import NumpyArraySegment
        from sarpy.io.general.format_function import ComplexFormatFunction
        rdt = 'float32' if pt == 'RE32F_IM32F' else 'int16'
        a = numpy.stack([data.real, data.imag], axis=-1).astype(rdt)
        tr = spec.get('transpose')
        if tr:
            a = a.transpose((1, 0, 2))
        rev = tuple(spec.get('reverse') or ())
        a = numpy.ascontiguousarray(a[tuple(slice(None, None, -1) if i in rev else slice(None) for i in range(3))])
        seg = NumpyArraySegment(a, formatted_dtype='complex64', formatted_shape=(rows, cols), reverse_axes=rev or None,
                                transpose_axes=(1, 0, 2) if tr else None,
                                format_function=ComplexFormatFunction(rdt, order='IQ', band_dimension=2), mode='r')
        rdr = SICDTypeReader(seg, meta)
    else:
        sargen.write_sicd(meta, data, 'path', tmpdir, row_limit=spec.get('row_limit'), name=spec['name'])
        rdr = open_complex(os.path.join(tmpdir, spec['name']))
    full = rdr.read(squeeze=False)
    # for an oriented parent the stored layout is not image-aligned: the raw window comparison does not apply
    raw = rdr.read_raw(squeeze=False) if spec['source'] != 'oriented' else None
    problems = []
    if full.shape != (rows, cols):
        problems.append(f'parent reads back with shape {full.shape}')
    elif pt != 'AMP8I_PHS8I' and not numpy.array_equal(full, data):
        problems.append('parent pixels differ from what was written (C02)')
    return rdr, rdr.sicd_meta, full, raw, problems


def resolve(bounds, n):
    return (0, n) if bounds is None else (int(bounds[0]), int(bounds[1]))


def window_class(r0, r1, c0, c1, rows, cols):
    def ax(a, b, n):
        if (a, b) == (0, n):
            return 'full'
        if b - a == 1:
            return 'single-first' if a == 0 else ('single-last' if b == n else 'single')
        return ('at-start' if a == 0 else '') + ('at-end' if b == n else '') or 'interior'
    return ax(r0, r1, rows) + '/' + ax(c0, c1, cols)


def rand_axis(rng, n):
    """a valid (start, end) on an axis of length n"""
    k = rng.random()
    if n == 1 or k < 0.08:
        return (0, n)
    if k < 0.2:
        a = rng.choice([0, n - 1, rng.randrange(n)])
        return (a, a + 1)
    if k < 0.3:
        return (0, rng.randint(1, n))
    if k < 0.4:
        return (rng.randrange(n), n)
    a = rng.randrange(n)
    return (a, rng.randint(a + 1, n))


def rand_window(rng, rows, cols, allow_none=True):
    rb, cb = rand_axis(rng, rows), rand_axis(rng, cols)
    if allow_none and rng.random() < 0.1:
        rb = None
    if allow_none and rng.random() < 0.1:
        cb = None
    return rb, cb


def boundary_windows(rng, rows, cols):
    r, c = rng.randrange(rows), rng.randrange(cols)
    return [(None, None), ((0, rows), (0, cols)), ((r, r + 1), rand_axis(rng, cols)), (rand_axis(rng, rows), (c, c + 1)),
            ((r, r + 1), (c, c + 1)), ((0, 1), None), ((rows - 1, rows), (0, cols)), (None, (cols - 1, cols)), ((0, 1), (0, 1)),
            ((rows - 1, rows), (cols - 1, cols))]


def rand_bad_axis(rng, n):
    k = rng.randrange(6)
    if k == 0:
        return (-rng.randint(1, 3), rng.randint(1, n))
    if k == 1:
        return (rng.randrange(n), n + rng.randint(1, 3))
    if k == 2:
        a = rng.randrange(n + 1)
        return (a, a)
    if k == 3:
        a = rng.randint(1, n)
        return (a, rng.randrange(a))
    if k == 4:
        return (n, n + 1)
    return (-n, -1)


def bstr(b):
    return 'N' if b is None else f'{int(b[0])}:{int(b[1])}'


# ----------------------------------------------------------------------------------------------------------------------
# observation of the converter's block loop (wrapping at run time; nothing inside sarpy is changed)

class BlockRecorder:
    def __init__(self):
        self.calls = []
        self.rpb = []

    def __enter__(self):
        import sarpy.io.complex.sicd as sicdmod
        import sarpy.io.complex.converter as convmod
        self._w, self._c = sicdmod.SICDWriter, convmod.Converter
        self._orig_write = sicdmod.SICDWriter.write_chip
        self._orig_rpb = convmod.Converter._get_rows_per_block
        rec = self

        def write_chip(writer, data, start_indices=None, subscript=None, index=0):
            rec.calls.append((tuple(int(x) for x in start_indices) if start_indices is not None else None, tuple(data.shape)))
            return rec._orig_write(writer, data, start_indices=start_indices, subscript=subscript, index=index)

        def rows_per_block(conv, max_block_size):
            v = rec._orig_rpb(conv, max_block_size)
            rec.rpb.append((int(max_block_size), int(v)))
            return v
        sicdmod.SICDWriter.write_chip = write_chip
        convmod.Converter._get_rows_per_block = rows_per_block
        return self

    def __exit__(self, *a):
        self._w.write_chip = self._orig_write
        self._c._get_rows_per_block = self._orig_rpb
        return False

    def write_ranges(self):
        return [(c[0][0], c[0][0] + c[1][0]) for c in self.calls]


# ----------------------------------------------------------------------------------------------------------------------
# the oracle

class Oracle:
    def __init__(self, tier, rng, tmpdir):
        self.tier, self.rng, self.tmpdir = tier, rng, tmpdir
        self.fails = []          # direct-oracle failures (on the implementation alone)
        self.disagreements = []  # model vs implementation
        self.drv = Driver()
        self.jobs = []           # (driver index, expected-from-implementation string, description)
        self.n = {}
        self.classes = set()
        self.key_counts = {}
        self.nfile = 0

    def count(self, what, k=1):
        self.n[what] = self.n.get(what, 0) + k

    def fail(self, msg, case, key=None):
        if key:
            self.key_counts[key] = self.key_counts.get(key, 0) + 1
            if self.key_counts[key] > 3:      # keep the first three witnesses per known defect class
                return
        f = {'msg': msg, 'case': case}
        if key:
            f['key'] = key
        self.fails.append(f)

    def ask(self, line, expect, desc):
        self.jobs.append((self.drv.ask(line), expect, desc))

    def fname(self):
        self.nfile += 1
        return f'o{self.nfile}.nitf'

    # -- (2) subset structure -----------------------------------------------------------------------------------------
    def check_structure(self, psicd, rb, cb, case):
        """returns the chip structure (or None). Direct statement of the size / first index fields, 'nothing else
        changes', corner re-derivation; model correspondence incl. refusals."""
        pid = psicd.ImageData
        line = (f'chip meta {pid.FirstRow} {pid.NumRows} {pid.SCPPixel.Row} {pid.FullImage.NumRows} '
                f'{pid.FirstCol} {pid.NumCols} {pid.SCPPixel.Col} {pid.FullImage.NumCols} {bstr(rb)} {bstr(cb)}')
        r0, r1 = resolve(rb, pid.NumRows)
        c0, c1 = resolve(cb, pid.NumCols)
        valid = 0 <= r0 < r1 <= pid.NumRows and 0 <= c0 < c1 <= pid.NumCols
        self.count('create_subset_structure')
        try:
            chip, rbo, cbo = psicd.create_subset_structure(rb, cb)
        except REFUSED as e:
            self.ask(line, 'refused', f'create_subset_structure{(rb, cb)} on {pid.NumRows}x{pid.NumCols}')
            if valid:
                self.fail(f'create_subset_structure refuses the valid window rows {rb} cols {cb} of a {pid.NumRows} x {pid.NumCols} image: '
                          f'{type(e).__name__}: {e}', case)
            return None
        if not valid:
            self.ask(line, 'accepted-invalid', f'create_subset_structure{(rb, cb)} on {pid.NumRows}x{pid.NumCols}')
            return None
        cid = chip.ImageData
        from sarpy.geometry.point_projection import COAProjection
        proj = COAProjection.from_sicd(chip)
        got = (f'ok {cid.FirstRow} {cid.NumRows} {cid.SCPPixel.Row} {cid.FullImage.NumRows} {cid.FirstCol} {cid.NumCols} '
               f'{cid.SCPPixel.Col} {cid.FullImage.NumCols} {rbo[0]} {rbo[1]} {cbo[0]} {cbo[1]} {int(proj._row_shift)} {int(proj._col_shift)}')
        self.ask(line, got, f'create_subset_structure{(rb, cb)} on {pid.NumRows}x{pid.NumCols} first ({pid.FirstRow},{pid.FirstCol})')
        want = {'FirstRow': pid.FirstRow + r0, 'NumRows': r1 - r0, 'FirstCol': pid.FirstCol + c0, 'NumCols': c1 - c0}
        have = {k: getattr(cid, k) for k in want}
        if have != want or tuple(rbo) != (r0, r1) or tuple(cbo) != (c0, c1):
            self.fail(f'subset structure for rows {rb} cols {cb}: size / first fields {have} returned bounds {rbo} {cbo}, expected {want} {(r0, r1)} {(c0, c1)}', case)
        # nothing but the window fields and the corners may change, and the parent must be untouched
        a, b = psicd.to_dict(), chip.to_dict()
        for d in (a, b):
            for k in want:
                d['ImageData'].pop(k, None)
            d.get('GeoData', {}).pop('ImageCorners', None)
        m = meta_diff(a, b)
        if m:
            self.fail(f'subset structure for rows {rb} cols {cb} changes metadata outside the window fields: {m}', case)
        if (pid.NumRows, pid.NumCols) != (case['parent_rows'], case['parent_cols']):
            self.fail('create_subset_structure modified the parent structure', case)
        # corners = ground positions of the chip's corner pixels = those of the parent's pixels (r0,c0) ... (geolocation of the metadata)
        try:
            vert = numpy.array([[r0, c0], [r0, c1 - 1], [r1 - 1, c1 - 1], [r1 - 1, c0]], dtype='float64')
            want_c = psicd.project_image_to_ground_geo(vert)
            have_c = chip.GeoData.ImageCorners.get_array(dtype='float64')
            if have_c.shape != (4, 2) or float(numpy.max(numpy.abs(have_c - want_c[:, :2]))) > 1e-9:
                self.fail(f'subset structure for rows {rb} cols {cb}: GeoData.ImageCorners are not the ground positions of the parent pixels at the chip corners '
                          f'(max difference {float(numpy.max(numpy.abs(have_c - want_c[:, :2]))):.3e} deg)', case)
        except Exception as e:
            self.fail(f'corner check raised {type(e).__name__}: {e}', case)
        return chip

    # -- (4) projection -----------------------------------------------------------------------------------------------
    def check_projection(self, psicd, chip, r0, c0, case, npts=3):
        rng = self.rng
        nr, nc = chip.ImageData.NumRows, chip.ImageData.NumCols
        pts = [[0.0, 0.0], [nr - 1.0, nc - 1.0]]
        for _ in range(npts):
            pts.append([float(rng.randrange(nr)), float(rng.randrange(nc))])
        pts.append([rng.uniform(-2, nr + 1), rng.uniform(-2, nc + 1)])      # fractional, may lie just outside
        pc = numpy.array(pts, dtype='float64')
        pp_ = pc + numpy.array([r0, c0], dtype='float64')
        off = numpy.array([r0, c0], dtype='float64')
        self.count('projection_points', len(pts))
        try:
            for ptype in ('HAE', 'PLANE'):
                g_par = psicd.project_image_to_ground(pp_, projection_type=ptype)
                g_chip = chip.project_image_to_ground(pc, projection_type=ptype)
                fin = numpy.all(numpy.isfinite(g_par), axis=1)      # where the parent itself has no ground point the chip must have none
                if not numpy.array_equal(fin, numpy.all(numpy.isfinite(g_chip), axis=1)):
                    self.fail(f'image to ground ({ptype}): chip and parent disagree on which pixels have a ground point', case)
                    return
                if not fin.any():
                    continue
                dist = numpy.linalg.norm(g_par[fin] - g_chip[fin], axis=1)
                if float(numpy.max(dist)) > TOL_GROUND:
                    k = int(numpy.argmax(dist))
                    self.fail(f'image to ground ({ptype}): chip pixel {pc[fin][k].tolist()} and parent pixel {pp_[fin][k].tolist()} land {float(numpy.max(dist)):.3e} m apart',
                              dict(case, point=pc[fin][k].tolist()))
            g = psicd.project_image_to_ground(pp_, projection_type='HAE')
            fin = numpy.all(numpy.isfinite(g), axis=1)
            if not fin.any():
                return
            g, pc, pp_ = g[fin], pc[fin], pp_[fin]
            # ground to image, iteration driven to convergence
            i_par, _, _ = psicd.project_ground_to_image(g, **TIGHT)
            i_chip, res, _ = chip.project_ground_to_image(g, **TIGHT)
            d = float(numpy.max(numpy.abs(i_chip - (i_par - off))))
            if not d <= TOL_PIXEL:
                self.fail(f'ground to image (tolerance 1e-9): chip-relative pixel differs from parent pixel - ({r0}, {c0}) by {d:.3e} pixel', case)
            d = float(numpy.max(numpy.abs(i_chip - pc)))
            dpar = float(numpy.max(numpy.abs(i_par - pp_)))
            if dpar <= TOL_PIXEL / 4 and not d <= TOL_PIXEL:
                self.fail(f'ground to image (tolerance 1e-9) returns the pixel it started from on the parent ({dpar:.1e}) but not on the chip: off by {d:.3e} pixel', case)
            # with the default arguments
            j_par, _, _ = psicd.project_ground_to_image(g)
            j_chip, _, _ = chip.project_ground_to_image(g)
            d = float(numpy.max(numpy.abs(j_chip - (j_par - off))))
            if not d <= TOL_PIXEL:
                self.fail(f'ground to image (default arguments): chip-relative pixel differs from parent pixel - ({r0}, {c0}) by {d:.3e} pixel '
                          f'(same ground points, same iteration; the chip iteration starts ({r0}, {c0}) pixels away from the parent one)', case,
                          key=K_SEED if (r0, c0) != (0, 0) else None)
        except Exception as e:
            self.fail(f'projection raised {type(e).__name__}: {e}', case)

    # -- (1) subset reader --------------------------------------------------------------------------------------------
    def check_reader(self, prdr, full, raw, rb, cb, case, nested=False):
        """SubsetSICDReader(prdr, rb, cb): sizes and pixels against `full[window]`. Returns the subset reader if usable."""
        from sarpy.io.complex.base import SubsetSICDReader
        r0, r1 = resolve(rb, full.shape[0])
        c0, c1 = resolve(cb, full.shape[1])
        want = full[r0:r1, c0:c1]
        self.count('subset_readers')
        try:
            sub = SubsetSICDReader(prdr, rb, cb)
        except Exception as e:
            self.fail(f'SubsetSICDReader(rows {rb}, cols {cb}) of a {"subset reader" if nested else type(prdr).__name__} raised {type(e).__name__}: {e}',
                      case, key=K_NESTED if nested else None)
            return None
        size = tuple(sub.get_data_size_as_tuple()[0])
        sid = sub.sicd_meta.ImageData
        if (sid.NumRows, sid.NumCols) != want.shape:
            self.fail(f'SubsetSICDReader metadata says {sid.NumRows} x {sid.NumCols} for a window of shape {want.shape}', case)
        if size != want.shape:
            squeezed = tuple(x for x in want.shape if x != 1)
            self.fail(f'SubsetSICDReader(rows {rb}, cols {cb}) reports data size {size}; its metadata and the window say {want.shape}',
                      case, key=K_SQUEEZE if size == squeezed else None)
            return None
        try:
            got = sub.read(squeeze=False)
            if got.shape != want.shape or not numpy.array_equal(got, want):
                self.fail(f'SubsetSICDReader(rows {rb}, cols {cb}) pixels differ from parent[{r0}:{r1}, {c0}:{c1}] ({self.first_diff(got, want)})', case)
            if raw is not None:
                graw = sub.read_raw(squeeze=False)
                wraw = raw[r0:r1, c0:c1]
                if graw.shape != wraw.shape or not numpy.array_equal(graw, wraw):
                    self.fail(f'SubsetSICDReader(rows {rb}, cols {cb}) raw samples differ from the parent raw samples of the window', case)
            # a read inside the chip
            a, b = rand_axis(self.rng, want.shape[0])
            c, d = rand_axis(self.rng, want.shape[1])
            part = sub.read((a, b), (c, d), squeeze=False)
            if part.shape != (b - a, d - c) or not numpy.array_equal(part, want[a:b, c:d]):
                self.fail(f'SubsetSICDReader(rows {rb}, cols {cb}).read(({a},{b}),({c},{d})) differs from parent[{r0 + a}:{r0 + b}, {c0 + c}:{c0 + d}]', case)
            self.count('pixels_compared', int(want.size))
        except Exception as e:
            self.fail(f'reading SubsetSICDReader(rows {rb}, cols {cb}) raised {type(e).__name__}: {e}', case, key=K_NESTED if nested else None)
            return None
        return sub

    @staticmethod
    def first_diff(got, want):
        if got.shape != want.shape:
            return f'shape {got.shape} vs {want.shape}'
        bad = numpy.argwhere(got != want)
        if len(bad) == 0:
            return 'no differing element'
        k = tuple(int(x) for x in bad[0])
        return f'{len(bad)} elements, first at {k}: {got[k]!r} vs {want[k]!r}'

    # -- (3) converter ------------------------------------------------------------------------------------------------
    def check_convert(self, source, psicd, full, raw, rb, cb, mbs, case, via='conversion_utility', forced_rpb=None):
        """chip `source` (reader or path) with the converter; reopen; compare with full[window] and the subset structure.
        Returns the path of the chip file."""
        from sarpy.io.complex.converter import conversion_utility, open_complex, Converter
        from sarpy.utils.chip_sicd import create_chip
        r0, r1 = resolve(rb, full.shape[0])
        c0, c1 = resolve(cb, full.shape[1])
        want = full[r0:r1, c0:c1]
        name = self.fname()
        out = os.path.join(self.tmpdir, name)
        self.count('conversions')
        case = dict(case, max_block_size=mbs, via=via, forced_rows_per_block=forced_rpb)
        try:
            with BlockRecorder() as rec:
                if via == 'create_chip':
                    create_chip(source, self.tmpdir, output_file=name, row_limits=rb, col_limits=cb, check_existence=False)
                elif via == 'forced':
                    class Forced(Converter):
                        def _get_rows_per_block(self, max_block_size):
                            return forced_rpb
                    with Forced(source, self.tmpdir, output_file=name, row_limits=rb, col_limits=cb, check_existence=False) as cv:
                        cv.write_data()
                else:
                    conversion_utility(source, self.tmpdir, output_files=name, row_limits=rb, column_limits=cb,
                                       max_block_size=mbs, check_existence=False)
        except Exception as e:
            self.fail(f'{via}(row_limits={rb}, column_limits={cb}, max_block_size={mbs}) raised {type(e).__name__}: {e}', case)
            return None
        try:
            rc = open_complex(out)
        except Exception as e:
            self.fail(f'chip written by {via}(row_limits={rb}, column_limits={cb}) cannot be reopened: {type(e).__name__}: {e}', case)
            return None
        try:
            size = tuple(rc.get_data_size_as_tuple()[0])
            cid = rc.sicd_meta.ImageData
            if size != want.shape or (cid.NumRows, cid.NumCols) != want.shape:
                self.fail(f'{via}(row_limits={rb}, column_limits={cb}): reopened chip has data size {size}, metadata {cid.NumRows} x {cid.NumCols}; window is {want.shape}', case)
            else:
                got = rc.read(squeeze=False)
                if not numpy.array_equal(got, want):
                    self.fail(f'{via}(row_limits={rb}, column_limits={cb}, max_block_size={mbs}): chip pixels differ from parent[{r0}:{r1}, {c0}:{c1}] ({self.first_diff(got, want)}); '
                              f'blocks written {rec.write_ranges()}', case)
                if raw is not None:
                    graw = rc.read_raw(squeeze=False)
                    if graw.shape != raw[r0:r1, c0:c1].shape or not numpy.array_equal(graw, raw[r0:r1, c0:c1]):
                        self.fail(f'{via}(row_limits={rb}, column_limits={cb}): stored samples of the chip differ from the parent stored samples of the window', case)
                self.count('pixels_compared', int(want.size))
            ref, _, _ = psicd.create_subset_structure((r0, r1), (c0, c1))
            ref.derive()             # the reader fills in derivable fields: do the same on both sides (as C02 does)
            back = rc.sicd_meta.copy()
            back.derive()
            m = meta_diff(strip(ref.to_dict()), strip(back.to_dict()))
            if m:
                self.fail(f'{via}(row_limits={rb}, column_limits={cb}): metadata of the chip file differs from the subset structure of the parent: {m}', case)
        finally:
            rc.close()
        # the block loop, against the model
        pt = PT_CODE[psicd.ImageData.PixelType]
        ranges = rec.write_ranges()
        wellformed = all(c[0] is not None and c[0][1] == 0 and len(c[1]) == 2 and c[1][1] == c1 - c0 for c in rec.calls)
        got = ','.join(f'{a}:{b}' for a, b in ranges) or '-'
        if via == 'forced':
            self.ask(f'chip loop {r0} {r1} {forced_rpb}', 'BLOCKS ' + got, f'forced rows_per_block={forced_rpb} rows {r0}:{r1}')
        else:
            rpb = rec.rpb[0][1] if rec.rpb else -1
            self.ask(f'chip blocks {r0} {r1} {pt} {c1 - c0} {"N" if mbs is None else mbs}', f'RPB {rpb} ' + got,
                     f'{via} rows {r0}:{r1} cols {c1 - c0} {psicd.ImageData.PixelType} max_block_size={mbs}')
        if not wellformed:
            self.disagreements.append({'msg': f'converter wrote blocks that are not whole chip rows at column 0: {rec.calls[:4]}', 'case': case})
        self.classes.add(('blocks', min(len(ranges), 4), psicd.ImageData.PixelType))
        return out

    # -- C01 tie: composed subset definitions on plain segments ---------------------------------------------------------
    def check_segments(self, n, chain):
        from sarpy.io.general.data_segment import NumpyArraySegment, SubsetSegment
        arr = numpy.arange(n * 2).reshape(n, 2)
        seg = NumpyArraySegment(arr, mode='r')
        segs = []
        state = 'ok'
        for k, (a, b) in enumerate(chain):
            try:
                seg = SubsetSegment(seg, (slice(a, b), slice(0, 2)), 'formatted', squeeze=False, close_parent=False)
                segs.append(seg)
            except REFUSED:
                state = f'refused {k}'
                break
        if state == 'ok':
            sub = (slice(0, seg.formatted_shape[0], 1), slice(0, 2, 1))
            for s in reversed(segs):
                sub = s.get_parent_formatted_subscript(sub)
            got = seg.read(None, squeeze=False)
            first = int(sub[0].start)
            cnt = int(sub[0].stop) - first
            state = f'ok {first} {cnt} {sub[0].start},{sub[0].stop},{sub[0].step}'
            if not numpy.array_equal(got, arr[first:first + cnt]):
                self.fail(f'nested SubsetSegment chain {chain} on an axis of {n} reads {got[:, 0].tolist()[:6]}..., composed window is [{first}, {first + cnt})', {'n': n, 'chain': chain})
        self.count('segment_chains')
        self.ask(f'chip chain {n} ' + (','.join(f'{a}:{b}' for a, b in chain) or '-'), state, f'SubsetSegment chain {chain} on {n}')

    # -- one parent with pixels ---------------------------------------------------------------------------------------
    def parent_case(self, spec, nwin, mbs_choices, deep=True):
        rng = self.rng
        logging.disable(logging.CRITICAL)
        try:
            prdr, psicd, full, raw, problems = build_parent(spec, self.tmpdir)
        except Exception as e:
            self.fail(f'building the parent image raised {type(e).__name__}: {e}', {'parent': spec})
            return
        for p in problems:
            self.fail(p, {'parent': spec})
        if problems:
            return
        rows, cols = spec['rows'], spec['cols']
        if rng.random() < 0.5:
            psicd.define_coa_projection()      # a cached projection on the parent must not leak into the chip
        wins = boundary_windows(rng, rows, cols)[:max(4, nwin // 2)] if not spec.get('wide') else []
        while len(wins) < nwin:
            wins.append(rand_window(rng, rows, cols))
        ppath = os.path.join(self.tmpdir, spec['name']) if spec['source'] == 'file' else None
        for wi, (rb, cb) in enumerate(wins):
            r0, r1 = resolve(rb, rows)
            c0, c1 = resolve(cb, cols)
            case = {'parent': spec, 'parent_rows': rows, 'parent_cols': cols, 'row_bounds': rb, 'col_bounds': cb}
            wc = window_class(r0, r1, c0, c1, rows, cols)
            self.classes.add((spec['pixel_type'], spec['kind'], spec['source'], wc, 0))
            chip = self.check_structure(psicd, rb, cb, case)
            sub = self.check_reader(prdr, full, raw, rb, cb, case)
            mbs = mbs_choices[wi % len(mbs_choices)]
            src = ppath if (ppath and wi % 3 == 0) else prdr          # file name or reader instance
            via = 'create_chip' if (spec['source'] == 'file' and wi % 7 == 3 and (rb is not None or cb is not None)) else 'conversion_utility'
            fraw = raw if spec['source'] == 'file' else None      # an in-memory parent holds complex samples, the chip file float pairs
            cpath = self.check_convert(prdr if via == 'create_chip' else src, psicd, full, fraw, rb, cb, None if via == 'create_chip' else mbs, case, via=via)
            if chip is not None and not spec.get('wide'):
                self.check_projection(psicd, chip, r0, c0, case)
            if not spec.get('wide') and wi % 4 == 1:
                rpb = rng.choice([1, 2, 3, 5, max(1, (r1 - r0) // 2), r1 - r0, r1 - r0 + 3])
                self.check_convert(prdr, psicd, full, fraw, rb, cb, None, case, via='forced', forced_rpb=rpb)
            if not deep or chip is None:
                continue
            # (5) chip of chip
            nr, nc = r1 - r0, c1 - c0
            irb, icb = rand_window(rng, nr, nc, allow_none=False)
            a0, a1 = irb
            b0, b1 = icb
            comp = ((r0 + a0, r0 + a1), (c0 + b0, c0 + b1))
            ncase = dict(case, inner_row_bounds=irb, inner_col_bounds=icb, composed=comp)
            self.classes.add((spec['pixel_type'], spec['kind'], spec['source'], wc, 1))
            chip2 = self.check_structure(chip, irb, icb, dict(ncase, parent_rows=nr, parent_cols=nc))
            if chip2 is not None:
                once, _, _ = psicd.create_subset_structure(*comp)
                m = meta_diff(once.to_dict(), chip2.to_dict())
                if m:
                    self.fail(f'subset structure of a subset structure differs from the subset structure of the composed window {comp}: {m}', ncase)
                self.count('nested_structures')
                if wi % 2 == 0:
                    self.check_projection(psicd, chip2, comp[0][0], comp[1][0], ncase, npts=1)
            if sub is not None:
                sub2 = self.check_reader(sub, full[r0:r1, c0:c1], None if raw is None else raw[r0:r1, c0:c1], irb, icb, ncase, nested=True)
                # converting out of a subset reader (a parent with non-zero FirstRow/FirstCol held in memory)
                if wi % 2 == 1:
                    self.check_convert(sub, chip, full[r0:r1, c0:c1], None, irb, icb, mbs, ncase)
                if sub2 is not None:
                    sub2.close()
            if cpath is not None and wi % 2 == 0:
                # converting out of the chip file (a parent with non-zero FirstRow/FirstCol on disk)
                p2 = self.check_convert(cpath, chip, full[r0:r1, c0:c1], None if fraw is None else fraw[r0:r1, c0:c1], irb, icb, mbs, ncase)
                if p2 is not None and wi % 4 == 0:
                    n2r, n2c = a1 - a0, b1 - b0
                    jrb, jcb = rand_window(rng, n2r, n2c, allow_none=False)
                    comp3 = ((comp[0][0] + jrb[0], comp[0][0] + jrb[1]), (comp[1][0] + jcb[0], comp[1][0] + jcb[1]))
                    if chip2 is not None:
                        self.classes.add((spec['pixel_type'], spec['kind'], spec['source'], wc, 2))
                        self.check_convert(p2, chip2, full[comp[0][0]:comp[0][1], comp[1][0]:comp[1][1]], None, jrb, jcb, mbs,
                                           dict(ncase, third_row_bounds=jrb, third_col_bounds=jcb, composed3=comp3))
            if sub is not None:
                sub.close()
            # an invalid window must be refused by every entry point (model: refused)
            if wi % 5 == 2:
                bad = (rand_bad_axis(rng, rows), cb) if rng.random() < 0.5 else (rb, rand_bad_axis(rng, cols))
                self.check_structure(psicd, bad[0], bad[1], dict(case, row_bounds=bad[0], col_bounds=bad[1]))
                from sarpy.io.complex.base import SubsetSICDReader
                from sarpy.io.complex.converter import conversion_utility
                for nm, fn in (('SubsetSICDReader', lambda: SubsetSICDReader(prdr, bad[0], bad[1])),
                               ('conversion_utility', lambda: conversion_utility(prdr, self.tmpdir, output_files=self.fname(), row_limits=bad[0],
                                                                                 column_limits=bad[1], check_existence=False))):
                    try:
                        fn()
                        self.disagreements.append({'msg': f'{nm} accepts the invalid window rows {bad[0]} cols {bad[1]} of a {rows} x {cols} image', 'case': case})
                    except REFUSED:
                        pass
                    self.count('invalid_windows')
        prdr.close()
        for f in os.listdir(self.tmpdir):
            if f.startswith('o'):
                os.remove(os.path.join(self.tmpdir, f))

    # -- metadata only: large images, every image formation kind, parents that are chips ------------------------------
    def struct_case(self, kind, depth):
        rng = self.rng
        rows = rng.choice([rng.randint(2, 60), rng.randint(500, 4000), rng.randint(8000, 40000)])
        cols = rng.choice([rng.randint(2, 60), rng.randint(500, 4000), rng.randint(8000, 40000)])
        root = make_struct(kind, rows, cols)
        spec = {'struct_only': True, 'kind': kind, 'rows': rows, 'cols': cols}
        cur, off, chain_r, chain_c = root, (0, 0), [], []
        n_r, n_c = rows, cols
        for level in range(depth):
            rb, cb = rand_window(rng, n_r, n_c, allow_none=(level == 0))
            r0, r1 = resolve(rb, n_r)
            c0, c1 = resolve(cb, n_c)
            case = {'parent': spec, 'parent_rows': n_r, 'parent_cols': n_c, 'row_bounds': rb, 'col_bounds': cb, 'chain_rows': list(chain_r), 'chain_cols': list(chain_c)}
            nxt = self.check_structure(cur, rb, cb, case)
            if nxt is None:
                return
            chain_r.append((r0, r1))
            chain_c.append((c0, c1))
            self.check_projection(cur, nxt, r0, c0, case, npts=1)
            off = (off[0] + r0, off[1] + c0)
            if level > 0:
                comp = ((off[0], off[0] + r1 - r0), (off[1], off[1] + c1 - c0))
                once, _, _ = root.create_subset_structure(*comp)
                m = meta_diff(once.to_dict(), nxt.to_dict())
                if m:
                    self.fail(f'{level + 1} nested create_subset_structure calls {chain_r} x {chain_c} differ from one call with the composed window {comp}: {m}', case)
                self.check_projection(root, nxt, off[0], off[1], dict(case, composed=comp), npts=1)
                self.count('nested_structures')
            self.classes.add(('struct', kind, level, window_class(r0, r1, c0, c1, n_r, n_c).split('/')[0], rows > 4000))
            cur, n_r, n_c = nxt, r1 - r0, c1 - c0
        fid = cur.ImageData
        self.ask(f'chip metachain 0 {rows} {root.ImageData.SCPPixel.Row} {rows} ' + ','.join(f'{a}:{b}' for a, b in chain_r),
                 f'ok {fid.FirstRow} {fid.NumRows} {fid.SCPPixel.Row} {fid.FullImage.NumRows} {fid.SCPPixel.Row - fid.FirstRow}', f'row chain {chain_r} on {rows}')
        self.ask(f'chip metachain 0 {cols} {root.ImageData.SCPPixel.Col} {cols} ' + ','.join(f'{a}:{b}' for a, b in chain_c),
                 f'ok {fid.FirstCol} {fid.NumCols} {fid.SCPPixel.Col} {fid.FullImage.NumCols} {fid.SCPPixel.Col - fid.FirstCol}', f'col chain {chain_c} on {cols}')

    def refusal_case(self):
        """chains with an invalid link: the implementation must refuse at the same level as the model"""
        rng = self.rng
        n = rng.randint(1, 30)
        chain, cur = [], n
        for _ in range(rng.randint(1, 4)):
            if rng.random() < 0.25:
                chain.append(rand_bad_axis(rng, cur))
                break
            a, b = rand_axis(rng, cur)
            chain.append((a, b))
            cur = b - a
        good, cur = [], n
        for a, b in chain:      # SubsetSegment follows numpy slice semantics (negative indices wrap): only the valid prefix is comparable
            if not 0 <= a < b <= cur:
                break
            good.append((a, b))
            cur = b - a
        self.check_segments(n, good)
        s = sargen.small_sicd(n, 7)
        state, cur_s = None, s
        for k, (a, b) in enumerate(chain):
            try:
                cur_s, _, _ = cur_s.create_subset_structure((a, b), None)
            except REFUSED:
                state = 'refused'
                break
        if state is None:
            d = cur_s.ImageData
            state = f'ok {d.FirstRow} {d.NumRows} {d.SCPPixel.Row} {d.FullImage.NumRows} {d.SCPPixel.Row - d.FirstRow}'
        self.count('create_subset_structure', len(chain))
        self.ask(f'chip metachain 0 {n} {s.ImageData.SCPPixel.Row} {n} ' + ','.join(f'{a}:{b}' for a, b in chain), state, f'create_subset_structure chain {chain} on {n}')

    def exhaustive_small(self, maxn):
        """every window of every axis length <= maxn, every inner window: structure fields and refusals vs the model"""
        for n in range(1, maxn + 1):
            s = sargen.small_sicd(n, 3)
            for a in range(-1, n + 1):
                for b in range(-1, n + 2):
                    self.check_structure(s, (a, b), None, {'parent': {'struct_only': True, 'kind': 'pfa', 'rows': n, 'cols': 3}, 'parent_rows': n, 'parent_cols': 3,
                                                           'row_bounds': (a, b), 'col_bounds': None})

    # -- evaluation of the model answers ------------------------------------------------------------------------------
    def compare_model(self, broken):
        try:
            ans = self.drv.run()
        except Infra as e:
            broken.append('model driver does not build/run: ' + str(e)[:300])
            return 0
        nd = 0
        for (i, expect, desc) in self.jobs:
            got = ans[i]
            ok = True
            if expect.startswith('BLOCKS '):
                ok = got.split(' ')[-1] == expect[7:]
            elif expect.startswith('RPB '):
                _, rpb, ranges = expect.split(' ')
                g = got.split(' ')
                ok = len(g) == 3 and g[0] == rpb and g[2] == ranges
            elif expect == 'accepted-invalid':
                ok = False
            else:
                ok = got == expect
            if not ok:
                nd += 1
                self.disagreements.append({'msg': f'model and implementation disagree on {desc}: model `{got}`, implementation `{expect}`', 'case': {'request': self.drv.lines[i]}})
        return len(self.jobs)


def parent_specs(rng, tier):
    specs = []
    nsmall = 2 if tier == 'quick' else 12
    for k in range(nsmall):
        for pt in PIXEL_TYPES:
            rows, cols = rng.randint(12, 48), rng.randint(10, 40)
            specs.append({'rows': rows, 'cols': cols, 'pixel_type': pt, 'kind': rng.choice(['pfa', 'rma']), 'data_seed': rng.getrandbits(30),
                          'source': 'file', 'row_limit': rng.choice([None, None, max(1, rows // 3)]), 'name': 'parent.nitf'})
    # in-memory parents
    for pt in (['RE32F_IM32F', 'RE16I_IM16I'] if tier == 'quick' else PIXEL_TYPES[:2] * 4):
        specs.append({'rows': rng.randint(5, 30), 'cols': rng.randint(5, 30), 'pixel_type': pt, 'kind': rng.choice(['pfa', 'rma']),
                      'data_seed': rng.getrandbits(30), 'source': 'flat', 'name': 'flat'})
    # parents whose stored layout is reversed / transposed relative to the image (sensor-format readers)
    for rev, tr in ([((0,), False), ((1,), False), ((0, 1), True)] if tier == 'quick' else [((0,), False), ((1,), False), ((0, 1), False), ((), True), ((0,), True), ((0, 1), True)]):
        specs.append({'rows': rng.randint(5, 30), 'cols': rng.randint(5, 30), 'pixel_type': rng.choice(['RE32F_IM32F', 'RE16I_IM16I']), 'kind': rng.choice(['pfa', 'rma']),
                      'data_seed': rng.getrandbits(30), 'source': 'oriented', 'reverse': list(rev), 'transpose': tr, 'name': 'oriented'})
    # wide parents: the converter's block loop runs more than once (its block size is at least 2**20 bytes)
    for k in range(1 if tier == 'quick' else 4):
        for pt, cols in (('RE32F_IM32F', 30000), ('RE16I_IM16I', 40000), ('AMP8I_PHS8I', 60000)):
            specs.append({'rows': rng.randint(12, 26), 'cols': cols + rng.randint(-3000, 3000), 'pixel_type': pt, 'kind': rng.choice(['pfa', 'rma']),
                          'data_seed': rng.getrandbits(30), 'source': 'file', 'row_limit': None, 'name': 'wide.nitf', 'wide': True})
    # tiny parents (single row / column images)
    for shape in ([(1, 9), (7, 1)] if tier == 'quick' else [(1, 9), (7, 1), (1, 1), (2, 2), (3, 1), (1, 4)]):
        specs.append({'rows': shape[0], 'cols': shape[1], 'pixel_type': rng.choice(PIXEL_TYPES), 'kind': 'pfa', 'data_seed': rng.getrandbits(30),
                      'source': 'file', 'row_limit': None, 'name': 'tiny.nitf'})
    return specs


MBS = [None, 1, 2 ** 20, 3 * 2 ** 20 + 12345, 2 ** 22]


def run(tier):
    sarpy_guard()
    chk = Check('C15', tier)
    rng = chk.rng
    broken = chk.prove(['SarpyModel.Props.C15', 'SarpyModel.Drivers'], 'SarpyModel.Props.C15', 'Sarpy.Props.C15', REQUIRED)
    tmpdir = tempfile.mkdtemp(prefix='c15_', dir=os.environ.get('VERIF_SCRATCH', '/var/tmp'))
    orc = Oracle(tier, rng, tmpdir)
    try:
        for spec in parent_specs(rng, tier):
            if spec.get('wide'):
                orc.parent_case(spec, 5 if tier == 'quick' else 12, MBS, deep=False)
            elif spec['rows'] * spec['cols'] < 12:
                orc.parent_case(spec, 4, MBS, deep=True)
            else:
                orc.parent_case(spec, 16 if tier == 'quick' else 50, MBS, deep=True)
        for k in range(60 if tier == 'quick' else 1500):
            orc.struct_case(STRUCT_KINDS[k % len(STRUCT_KINDS)], depth=1 + k % 3)
        for _ in range(100 if tier == 'quick' else 3000):
            orc.refusal_case()
        orc.exhaustive_small(5 if tier == 'quick' else 9)
        nmodel = orc.compare_model(broken)
    finally:
        shutil.rmtree(tmpdir, ignore_errors=True)
        logging.disable(logging.NOTSET)

    fails, disagreements = orc.fails, orc.disagreements
    evaluations = sum(orc.n.get(k, 0) for k in ('create_subset_structure', 'subset_readers', 'conversions', 'projection_points', 'nested_structures',
                                                 'segment_chains', 'invalid_windows'))
    chk.coverage.update({
        'evaluations': evaluations,
        'distinct_nontrivial': len(orc.classes),
        'rule': 'parents: SICD files written by sarpy for every pixel type (RE32F_IM32F / RE16I_IM16I / AMP8I_PHS8I with a random strictly increasing table; PFA and RMA '
                'metadata; one or several NITF segments), in-memory FlatSICDReader parents, 12-26 x ~30000-60000 strips (several converter blocks), 1 x n / n x 1 images; '
                'windows: full image (None and explicit), single row / column / pixel, first and last row / column, random; per window: SubsetSICDReader, '
                'create_subset_structure, conversion_utility / chip_sicd.create_chip from reader or file name with max_block_size in {None, 1, 2^20, 3*2^20+12345, 2^22}, '
                'Converter with forced rows_per_block, projection of corner / random / fractional pixels (HAE and PLANE, ground_to_image converged and default), '
                'an inner window (chip of chip through structure, subset reader, converter out of the subset reader and out of the chip file; depth 3 for some), '
                'invalid windows; metadata-only cases: six image formation kinds (PFA, RMA/RMCR, RGAZCOMP, RMA/INCA, PLANE, XCTYAT), sizes up to 40000, nesting depth 1-3; '
                'refusal chains; all windows of axes <= 5 (quick) / 9 (thorough) against the model. distinct = distinct (pixel type, formation kind, parent source, '
                'window class per axis, nesting depth) / (block count, pixel type) / (structure kind, depth, class, size class) tuples met',
        'samples': [fails[0]['case']] if fails else [{'rows': 40, 'cols': 30, 'pixel_type': 'RE16I_IM16I', 'row_bounds': [3, 10], 'col_bounds': [5, 9], 'inner': [[1, 4], [2, 3]]}],
        'stats': dict(orc.n),
        'known_defect_witnesses': dict(orc.key_counts),
        'traces_validated_against_impl': nmodel,
        'disagreements_checked': len(disagreements),
    })
    chk.assumptions += [
        'the Lean model covers the integer core (window validity / composition, First/Num arithmetic, pixel shift, block tiling); that the reader returns '
        'parent[window] for the composed subset definition is C01 (index routing), pixel decoding is C08, file layout C02/C03',
        'projection numerics (R/Rdot contour intersection, ground_to_image iteration) are not proved here (C04): chip and parent are compared on the implementation '
        'within 1e-6 m / 1e-6 pixel; ground_to_image is compared both converged (tolerance 1e-9 m) and with its default tolerance',
        'corner re-derivation (GeoData.ImageCorners) is checked numerically against the projection of the parent pixels at the chip corners (1e-9 deg), not proved',
        'Converter.write_data enforces max_block_size >= 2^20: several blocks are only reachable with wide images (done) or by overriding _get_rows_per_block '
        'in a subclass (done; the loop itself is the unmodified code); Python round() of max_block_size/bytes_per_row is modelled exactly (ties to even) for sizes < 2^50',
        'RGAZCOMP / INCA / PLANE / XCTYAT structures are derived from the two example documents (metadata-only cases); files are written for PFA and RMA metadata',
        'model and implementation are tied by correspondence on generated inputs, not by a translator',
    ]
    unknown = [f for f in fails if not (f.get('key') and chk.known(f['key']))]
    for f in unknown[:5]:
        chk.violation(f['msg'], {'case': f, 'replay_cmd': './check C15 --replay <this file>'}, True)
    if len(unknown) > 5:
        chk.notes.append(f'{len(unknown)} failing inputs found, first 5 reported')
    if not unknown and (broken or disagreements):
        chk.violation('proof obligation or correspondence no longer checks: ' + '; '.join(broken[:3] + [d['msg'][:200] for d in disagreements[:2]]),
                      {'broken_obligations': broken, 'disagreements': disagreements[:10]}, False)
    chk.coverage['failing_inputs'] = len(fails)
    return chk.finish()


def replay(path):
    """re-run the oracle on the parent / window of a replay file, on the implementation alone"""
    import random
    sarpy_guard()
    rec = json.load(open(path))
    if 'case' not in rec:
        print(json.dumps(rec, indent=1)[:3000])
        return 1
    f = rec['case']
    case = f['case']
    print('recorded:', f['msg'])
    print('case    :', json.dumps(case)[:1500])
    tmpdir = tempfile.mkdtemp(prefix='c15_', dir=os.environ.get('VERIF_SCRATCH', '/var/tmp'))
    orc = Oracle('quick', random.Random(0), tmpdir)

    def tb(x):
        return None if x is None else (int(x[0]), int(x[1]))
    try:
        spec = case.get('parent', {})
        logging.disable(logging.CRITICAL)
        if 'n' in case:
            orc.check_segments(case['n'], [tuple(x) for x in case['chain']])
        elif spec.get('struct_only'):
            cur = make_struct(spec['kind'], spec['rows'], spec['cols'])
            off = [0, 0]
            for rb, cb in zip(case.get('chain_rows', []), case.get('chain_cols', [])):
                cur, _, _ = cur.create_subset_structure(tb(rb), tb(cb))
            rb, cb = tb(case['row_bounds']), tb(case['col_bounds'])
            c = dict(case, parent_rows=cur.ImageData.NumRows, parent_cols=cur.ImageData.NumCols)
            chip = orc.check_structure(cur, rb, cb, c)
            if chip is not None:
                orc.check_projection(cur, chip, resolve(rb, cur.ImageData.NumRows)[0], resolve(cb, cur.ImageData.NumCols)[0], c)
        else:
            prdr, psicd, full, raw, problems = build_parent(spec, tmpdir)
            rb, cb = tb(case['row_bounds']), tb(case['col_bounds'])
            c = {'parent': spec, 'parent_rows': spec['rows'], 'parent_cols': spec['cols'], 'row_bounds': rb, 'col_bounds': cb}
            chip = orc.check_structure(psicd, rb, cb, c)
            sub = orc.check_reader(prdr, full, raw, rb, cb, c)
            orc.check_convert(prdr, psicd, full, raw, rb, cb, case.get('max_block_size'), c)
            r0, r1 = resolve(rb, spec['rows'])
            c0, c1 = resolve(cb, spec['cols'])
            if chip is not None:
                orc.check_projection(psicd, chip, r0, c0, c)
            if 'inner_row_bounds' in case and chip is not None:
                irb, icb = tb(case['inner_row_bounds']), tb(case['inner_col_bounds'])
                nc = dict(c, inner_row_bounds=irb, inner_col_bounds=icb)
                chip2 = orc.check_structure(chip, irb, icb, dict(nc, parent_rows=r1 - r0, parent_cols=c1 - c0))
                if chip2 is not None:
                    orc.check_projection(psicd, chip2, r0 + irb[0], c0 + icb[0], nc)
                if sub is not None:
                    orc.check_reader(sub, full[r0:r1, c0:c1], None, irb, icb, nc, nested=True)
                    orc.check_convert(sub, chip, full[r0:r1, c0:c1], None, irb, icb, case.get('max_block_size'), nc)
    finally:
        shutil.rmtree(tmpdir, ignore_errors=True)
        logging.disable(logging.NOTSET)
    for g in orc.fails:
        print('FAIL:', g['msg'], ('[known key ' + g['key'] + ']') if g.get('key') else '')
    if not orc.fails:
        print('no failure reproduced')
    return 1 if orc.fails else 0
