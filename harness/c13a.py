"""C13 extension: the ASSIGNMENT-TIME clause ("a value that cannot be rendered in a field's width is rejected or truncated when assigned,
never written over the neighbouring field"), called from harness/c13.py.

proof side : lean/SarpyModel/Props/C13a.lean - for every descriptor kind (text, enumerated text with / without default, integer,
             bytes), every width / enumeration and EVERY assigned input: what `assign` stores renders to exactly the declared width
             (assign_renderable), the neighbour's bytes are intact (assign_never_overflows), the three enum branches, the integer range;
             lean/SarpyModel/Gen/NitfDescs.lean - the descriptors of the current tree (translate/tables_nitf.py, reflection), kernel-decided
             well formed (every enumerated value / default fits its field), theorems instantiated on all of them
tie        : for EVERY descriptor-backed field of every element class, on live instances, inputs that fit, that are too wide, that lie
             outside the enumeration (narrow and wide), that end in blanks, integers at and beyond both ends of the range, digit and
             non-digit text for integer fields, bytes shorter / equal / longer than the field: accept / refuse, the stored value and the
             rendered field bytes are compared with the Lean model (`nitf assign`)
search     : the property on the implementation alone after every accepted assignment: the field renders to the length the element
             accounts for it, len(to_bytes()) == get_bytes_length(), the bytes before and after the field are those of before the
             assignment (when no length changed), from_bytes(to_bytes()) re-encodes identically; property-backed fixed-width fields
             (no descriptor) and non-ASCII text get the oracle only
"""
import os
import sys

from common import VERIF, ALLOWED_AXIOMS, audit, lake_build

sys.path.insert(0, os.path.join(VERIF, 'translate'))

REQUIRED_A = ['parseStr_length', 'encStr_length_of_le', 'encRaw_length', 'assign_renderable', 'assign_never_overflows', 'assign_text_fits',
              'assign_enum_member', 'assign_enum_default', 'assign_enum_nodefault', 'assign_int_iff']
REQUIRED_GEN = ['descs_wf', 'descs_renderable']
TARGETS = ['SarpyModel.Props.C13a', 'SarpyModel.Gen.NitfDescs']
TRAILER = b'\x07TRAILER'
KEY_WIDTH = '{cls}.{fld}:descriptor-width-{dw}-rendered-in-{rw}-bytes'
KEY_BINARY = '{cls}.{fld}:binary-field-accepts-values-beyond-its-packed-width'


def hx(b):
    return bytes(b).hex() or '-'


def desc_token(d):
    if d['kind'] == 'enum':
        return f"e{d['width']}:" + ','.join(hx(v.encode()) for v in d['values']) + ':' + ('_' if d['default'] is None else hx(d['default'].encode()))
    return {'str': 's', 'int': 'i', 'raw': 'r'}[d['kind']] + str(d['width'])


def inputs_for(d, rng):
    """(python value, protocol token or None when the model has no such input) - fitting, too wide, foreign, edge of range"""
    w, k = d['width'], d['kind']
    out = []

    def text(s):
        out.append((s, 't' + hx(s.encode()) if s.isascii() else None))
    if k == 'str':
        for s in ['X' * w, 'X' * (w + 1), 'AB'[:w] + ' ' * (w + 3), 'Q' * max(w - 1, 0) + ' Z', ''.join(rng.choice('ABCXYZ019 ') for _ in range(w + 5)), '',
                  'é' * w]:
            text(s)
    elif k == 'enum':
        vals = d['values']
        longest = max(vals, key=len) if vals else ''
        for s in [rng.choice(vals) if vals else 'A', (rng.choice(vals) if vals else 'A') + '   ', 'Z' * w, 'Z' * (w + 2), longest + 'Q' * (w + 1 - len(longest)),
                  ''.join(rng.choice('FLOATQZ') for _ in range(w + rng.randint(1, 4))), 'z', 'é' * (w + 1)]:
            text(s)
    elif k == 'int':
        for v in [10 ** w - 1, 10 ** w, -(10 ** (w - 1)) + 1, -(10 ** (w - 1)), rng.randint(-(10 ** w), 10 ** (w + 1))]:
            out.append((v, f'i{v}'))
        for s in [str(rng.randint(0, 10 ** w - 1)), '9' * (w + 1), 'x1']:
            out.append((s, 't' + hx(s.encode())))
    elif k == 'raw':
        for n in [w, w + 1, w + 3, max(w - 1, 0), 0]:
            b = bytes(rng.randrange(1, 256) for _ in range(n))
            out.append((b, 'b' + hx(b)))
    return out


def stored_token(v):
    if isinstance(v, bool) or v is None:
        return repr(v)
    if isinstance(v, int):
        return f'i{v}'
    if isinstance(v, str):
        return 't' + hx(v.encode('utf-8'))
    if isinstance(v, (bytes, bytearray)):
        return 'b' + hx(v)
    return repr(v)


def field_offset(inst, name):
    off = 0
    for fld in inst._ordering:
        if fld == name:
            return off
        off += inst._get_attribute_length(fld)
    return None


class Session:
    def __init__(self, chk, tier, gen, controllers=()):
        """gen = result of tables_nitf.generate (already run by c13.py); controllers = {(class, field)} deciding a conditional part"""
        self.controllers = set(controllers)
        self.chk = chk
        self.tier = tier
        self.rng = chk.rng
        self.descs = gen.get('descriptors', {})
        self.jobs = []
        self.fails = []
        self.disagreements = []
        self.stats = {}

    def prove(self):
        chk = self.chk
        broken = []
        ok, failed, errors, log = lake_build(TARGETS + ['SarpyModel.Drivers'])
        if not ok:
            broken += [f'{m} (lake build failed)' for m in failed] or ['lake build failed (C13a)']
            chk.coverage.setdefault('build_errors', [])
            chk.coverage['build_errors'] += [f'{f}:{l}:{c}: {m}' for f, l, c, m in errors[:20]]
            chk.coverage['obligations'] = chk.coverage.get('obligations', 0) + len(REQUIRED_A) + len(REQUIRED_GEN)
            return broken
        t1 = audit('SarpyModel.Props.C13a', 'Sarpy.Props.C13a')
        t2 = audit('SarpyModel.Gen.NitfDescs', 'Sarpy.Gen.NitfDescs')
        allt = dict(t1)
        allt.update(t2)
        bad = {n: a for n, a in allt.items() if set(a) - ALLOWED_AXIOMS}
        missing = [f'Sarpy.Props.C13a.{r}' for r in REQUIRED_A if f'Sarpy.Props.C13a.{r}' not in t1]
        missing += [f'Sarpy.Gen.NitfDescs.{r}' for r in REQUIRED_GEN if f'Sarpy.Gen.NitfDescs.{r}' not in t2]
        for n, a in bad.items():
            broken.append(f'{n} depends on non-standard axioms {sorted(set(a) - ALLOWED_AXIOMS)}')
        for r in missing:
            broken.append(f'{r} (required theorem missing)')
        chk.coverage['obligations'] = chk.coverage.get('obligations', 0) + len(allt) + len(missing)
        chk.coverage['discharged'] = chk.coverage.get('discharged', 0) + len(allt) - len(bad)
        chk.coverage['theorems'] = sorted(set(chk.coverage.get('theorems', [])) | {'C13a.' + n[len('Sarpy.Props.C13a.'):] for n in t1}
                                          | {'NitfDescs.' + n[len('Sarpy.Gen.NitfDescs.'):] for n in t2})
        chk.coverage['axioms_used'] = sorted(set(chk.coverage.get('axioms_used', [])) | {a for v in allt.values() for a in v})
        return broken

    def key_of(self, d):
        if d is None:
            return None
        if d.get('binary'):
            return KEY_BINARY.format(cls=d['class'], fld=d['field'])
        if d['render_width'] is not None and d['render_width'] != d['width']:
            return KEY_WIDTH.format(cls=d['class'], fld=d['field'], dw=d['width'], rw=d['render_width'])
        return None

    def enqueue(self, drv, instances):
        """instances: list of (label, instance, params) - live elements; every fixed-width field of each is assigned to and restored"""
        from sarpy.io.general.nitf_elements import base as B
        st = self.stats
        per_class = {}
        limit = 1 if self.tier == 'quick' else 3
        for label, inst, params in instances:
            n = inst.__class__.__name__
            if not isinstance(inst, B.NITFElement) or isinstance(inst, B.NITFLoop) or len(per_class.get(n, [])) >= limit:
                continue
            per_class.setdefault(n, []).append((label, inst, params or {}))
        seen_fields = set()
        for cname in sorted(per_class):
            for label, inst, params in per_class[cname]:
                for fld in inst._ordering:
                    if fld not in inst._lengths:
                        continue
                    d = self.descs.get(f'{cname}.{fld}')
                    dd = d or {'kind': 'str', 'width': inst._lengths[fld], 'values': None, 'default': None, 'class': cname, 'field': fld,
                               'render_width': inst._lengths[fld], 'binary': None}
                    if d is None and not isinstance(getattr(type(inst), fld, None), property):
                        continue
                    seen_fields.add(f'{cname}.{fld}')
                    for value, tok in inputs_for(dd, self.rng):
                        self.one(drv, label, inst, params, cname, fld, d, value, tok)
        st['a_fields'] = len(seen_fields)
        st['a_descriptor_fields_not_reached'] = sorted(set(self.descs) - seen_fields)[:40]
        st['a_classes'] = len(per_class)

    def one(self, drv, label, inst, params, cname, fld, d, value, tok):
        st = self.stats
        st['a_assignments'] = st.get('a_assignments', 0) + 1
        key0 = self.key_of(d)
        case = {'class': cname, 'field': fld, 'assigned': value if not isinstance(value, bytes) else value.hex(), 'label': label}

        def fail(msg, kind='decode'):
            # a key only when the case contains that defect's trigger: a field whose descriptor width is not the rendered width / that is
            # packed in binary; a controlling field re-assigned alone (decode-side failures only); non-ASCII text in a property-backed field
            key = key0
            if key is None and kind == 'decode' and (cname, fld) in self.controllers:
                from c13x import KEY_CTRL
                key = KEY_CTRL.format(cls=cname, fld=fld)
            if key is None and d is None and isinstance(value, str) and not value.isascii():
                key = f'{cname}.{fld}:non-ascii-text-counted-in-characters'
            f = {'kind': 'assign', 'msg': f'{cname}.{fld} = {value!r}: {msg}', 'case': case}
            if key:
                f['key'] = key
            self.fails.append(f)
        try:
            old = getattr(inst, fld)
            b0 = inst.to_bytes()
            off = field_offset(inst, fld)
            l0 = inst._get_attribute_length(fld)
        except Exception:
            st['a_skipped_unreadable'] = st.get('a_skipped_unreadable', 0) + 1
            return
        refused = False
        try:
            setattr(inst, fld, value)
        except (ValueError, TypeError):
            refused = True
        except Exception as e:
            fail(f'assignment raised {type(e).__name__}: {str(e)[:120]}')
            refused = True
        stored = None
        fb = None
        if not refused:
            st['a_accepted'] = st.get('a_accepted', 0) + 1
            try:
                stored = getattr(inst, fld)
                fl = inst._get_attribute_length(fld)
                fb = inst._get_attribute_bytes(fld)
                b1 = inst.to_bytes()
                n1 = inst.get_bytes_length()
                if len(fb) != fl:
                    fail(f'accepted (stored {stored!r}) and rendered as {len(fb)} bytes in a field the element accounts {fl} bytes for: '
                         f'the following field is displaced', 'width')
                if len(b1) != n1:
                    fail(f'accepted; len(to_bytes()) = {len(b1)} but get_bytes_length() = {n1}', 'width')
                elif fl == l0 and len(b1) == len(b0) and off is not None and (b1[:off] != b0[:off] or b1[off + fl:] != b0[off + fl:]):
                    fail('accepted; bytes outside the field changed', 'width')
                if len(fb) == fl and len(b1) == n1:
                    try:
                        back = inst.__class__.from_bytes(b1 + TRAILER, 0, **params) if params else inst.__class__.from_bytes(b1 + TRAILER, 0)
                        if back.to_bytes() != b1:
                            fail('accepted; from_bytes(to_bytes()) does not re-encode to the same bytes')
                    except Exception as e:
                        fail(f'accepted; from_bytes(to_bytes()) raised {type(e).__name__}: {str(e)[:120]}')
            except Exception as e:
                fail(f'accepted, but encoding raised {type(e).__name__}: {str(e)[:120]}', 'width')
        else:
            st['a_refused'] = st.get('a_refused', 0) + 1
            try:
                if inst.to_bytes() != b0:
                    fail('refused, but the element changed')
            except Exception as e:
                fail(f'refused, and the element no longer encodes: {type(e).__name__}')
        # model correspondence (descriptor-backed, decimal / text rendering at the descriptor's own width)
        if d is not None and tok is not None and not d.get('binary') and d['render_width'] == d['width']:
            present = fb is None or len(fb) > 0 or d['width'] == 0
            self.jobs.append((case, refused, stored_token(stored) if not refused else None, hx(fb) if fb is not None else None, present,
                              drv.ask(f'nitf assign {desc_token(d)} {tok}'), key0))
        try:
            setattr(inst, fld, old)
        except Exception:
            pass

    def collect(self, ans):
        st = self.stats
        if ans is None:
            return self.fails, [], st
        for case, refused, stored, rendered, present, i, key in self.jobs:
            st['a_model_assignments'] = st.get('a_model_assignments', 0) + 1
            a = ans[i].split()
            msg = None
            if a == ['refused']:
                if not refused:
                    msg = f'the model refuses the assignment, sarpy stores {stored}'
            elif len(a) == 3:
                if refused:
                    msg = f'sarpy refuses the assignment, the model stores {a[0]}'
                elif a[0] != stored:
                    msg = f'the model stores {a[0]}, sarpy stores {stored}'
                elif present and rendered is not None and a[1] != rendered:
                    msg = f'the model renders {a[1]}, sarpy renders {rendered}'
            else:
                msg = 'the model cannot read the request: ' + ans[i][:60]
            if msg:
                d = {'case': f"{case['class']}.{case['field']} = {case['assigned']!r}", 'msg': msg}
                if key:
                    d['key'] = key
                self.disagreements.append(d)
        kept = [x for x in self.disagreements if not (x.get('key') and self.chk.known(x['key']))]
        return self.fails, kept, st


def replay_case(case):
    """an assignment case: the same value is assigned to the same field of a live element of that class, on the implementation alone"""
    import logging
    import random
    logging.disable(logging.CRITICAL)
    import c13x
    cname, fld, value = case['class'], case['field'], case['assigned']
    rng = random.Random(0)
    inst = next((i for _l, _d, i, _p in c13x.build_instances(rng, 'quick') if not isinstance(i, Exception) and i.__class__.__name__ == cname), None)
    if inst is None:
        import c13
        inst = next((i for _l, i in c13.build_instances(rng, 'quick') if not isinstance(i, Exception) and i.__class__.__name__ == cname), None)
    if inst is None:
        print('no live instance of', cname)
        return 1
    n0 = inst.get_bytes_length()
    try:
        setattr(inst, fld, value)
    except (ValueError, TypeError) as e:
        print(f'{cname}.{fld} = {value!r}: refused ({type(e).__name__})')
        return 0
    fb, fl = inst._get_attribute_bytes(fld), inst._get_attribute_length(fld)
    b = inst.to_bytes()
    print(f'{cname}.{fld} = {value!r}: stored {getattr(inst, fld)!r}; field rendered as {len(fb)} bytes, accounted {fl}; '
          f'len(to_bytes()) = {len(b)}, get_bytes_length() = {inst.get_bytes_length()} (before the assignment {n0})')
    bad = len(fb) != fl or len(b) != inst.get_bytes_length()
    try:
        inst.__class__.from_bytes(b + TRAILER, 0)
    except Exception as e:
        print(f'from_bytes(to_bytes()) raised {type(e).__name__}: {e}')
        bad = True
    return 1 if bad else 0
