"""C03 — every NITF file sarpy writes is structurally self-consistent.

proof side : lean/SarpyModel/Props/C03.lean (offset tiling, segmentation, ILOC reassembly, CLEVEL ladders = standard table)
             + C13's record-length theorems for HL / subheader lengths
tie        : translator for the CLEVEL ladders (regenerated each run, bridged by theorem); correspondence of the writer's
             bookkeeping (offsets, FL, segmentation, ILOC chain, CLEVEL) with the Lean layout model
search     : an independent NITF 2.1 parser (harness/nitfparse.py, from MIL-STD-2500C) over the bytes of freshly written files
"""
import json
import logging
import os
import shutil
import sys
import tempfile

import numpy

from common import Check, Driver, Infra, VERIF, sarpy_guard
import nitfparse
import sargen

sys.path.insert(0, os.path.join(VERIF, 'translate'))
REQUIRED = ['maskOffsets_length', 'maskOffsets_recorded', 'maskOffsets_marks', 'masked_le_blocked', 'countPresent_le',
            'offsets_length', 'offsets_chained', 'offsets_end', 'segmentation_tiles', 'decode_headers', 'segmentation_roundtrip',
            'gen_clevel_size', 'gen_clevel_dim', 'clevelRequired_ge_size']
# bridge + property theorems of the regenerated method kernels (row limit of the SICD / SIDD writers, block and image sizes)
K2_REQUIRED = ['gen_sicd_row_limit', 'gen_sidd_row_limit', 'requestedRows_range', 'rowLimit_le', 'rowLimit_bytes', 'rowLimit_pos', 'rowLimit_honours',
               'gen_block_size', 'gen_block_size0', 'gen_full_image_size', 'gen_full_image_size0', 'blockBytes_whole_bytes',
               'gen_image_clevel', 'gen_image_clevel0', 'clevelForDim_mono']


def dms_to_deg(s, is_lat):
    n = 2 if is_lat else 3
    d, m, sec, hem = int(s[:n]), int(s[n:n + 2]), int(s[n + 2:n + 4]), s[n + 4:n + 5]
    v = d + m / 60.0 + sec / 3600.0
    return -v if hem in ('S', 'W') else v


def igeolo_corners(b):
    s = b.decode('ascii')
    out = []
    for k in range(4):
        part = s[15 * k:15 * k + 15]
        out.append((dms_to_deg(part[:7], True), dms_to_deg(part[7:], False)))
    return out


def expected_corners(icp, full_rows, r0, r1, edge):
    """bilinear interpolation of the image corner points (FRFC, FRLC, LRLC, LRFC) to rows r0..r1 of the full image.
    edge=True: corners at pixel edges (row r of `rows` -> r/rows); edge=False: at pixel centres ((r)/(rows-1), last row r1-1)"""
    icp = numpy.asarray(icp, dtype='float64')

    def at(t, first_col):
        a, b = (icp[0], icp[3]) if first_col else (icp[1], icp[2])
        return a + t * (b - a)
    if edge:
        t0, t1 = r0 / float(full_rows), r1 / float(full_rows)
    else:
        d = float(full_rows - 1) if full_rows > 1 else 1.0
        t0, t1 = r0 / d, (r1 - 1) / d
    return [at(t0, True), at(t0, False), at(t1, False), at(t1, True)]


def check_file(buf, expect, fails, label, case):
    """expect: list of (rows, cols) per product image; returns the parsed summary"""
    problems, summ = nitfparse.check_structure(buf)
    for p in problems:
        fails.append({'kind': 'structure', 'msg': f'{label}: {p}', 'case': case})
    if summ is None:
        return None
    try:
        groups = nitfparse.reassemble(summ['images'])
        got = [(g['rows'], g['cols']) for g in groups]
        if got != list(expect):
            fails.append({'kind': 'structure', 'msg': f'{label}: image segments reassemble to {got}, written images are {list(expect)}', 'case': case})
        for g in groups:
            segs = sorted(g['segments'])
            cover = 0
            for (a, b, c0, c1, i) in segs:
                if a != cover or c0 != 0 or c1 != g['cols']:
                    fails.append({'kind': 'structure', 'msg': f'{label}: segment {i} covers rows {a}:{b} cols {c0}:{c1}; expected to start at row {cover} and span all columns', 'case': case})
                cover = b
    except nitfparse.NitfError as e:
        fails.append({'kind': 'structure', 'msg': f'{label}: reassembly failed: {e}', 'case': case})
        groups = []
    need = nitfparse.clevel_required(len(buf), [d for g in groups for d in (g['rows'], g['cols'])])
    if summ['header']['CLEVEL'] < need:
        fails.append({'kind': 'structure', 'msg': f'{label}: CLEVEL {summ["header"]["CLEVEL"]:02d} but file size {len(buf)} and image dimensions {[(g["rows"], g["cols"]) for g in groups]} require at least {need:02d}', 'case': case})
    return summ


def general_case(rng, tmpdir, fails, stats, seen, drv=None, jobs=None):
    """a file written through the general NITFWriter: one blocked (IC=NC) or block-masked (IC=NM) image plus text / DES / RES segments"""
    import io
    from sarpy.io.general.nitf import NITFWritingDetails, NITFWriter, NITFReader, ImageSubheaderManager, DESSubheaderManager, \
        TextSubheaderManager, RESSubheaderManager
    from sarpy.io.general.nitf_elements.nitf_head import NITFHeader
    from sarpy.io.general.nitf_elements.image import ImageSegmentHeader, MaskSubheader, ImageBands, ImageBand
    from sarpy.io.general.nitf_elements.des import DataExtensionHeader
    from sarpy.io.general.nitf_elements.text import TextSegmentHeader
    from sarpy.io.general.nitf_elements.res import ReservedExtensionHeader
    nppbv, nppbh = rng.choice([4, 8, 16]), rng.choice([4, 8, 32])
    nbpc, nbpr = rng.randint(1, 4), rng.randint(1, 3)
    rows = rng.randint((nbpc - 1) * nppbv + 1, nbpc * nppbv)
    cols = rng.randint((nbpr - 1) * nppbh + 1, nbpr * nppbh)
    nbpp = rng.choice([8, 16])
    masked = rng.random() < 0.6
    blocks = nbpc * nbpr
    absent = sorted(rng.sample(range(blocks), rng.randint(0, blocks - 1))) if masked and rng.random() < 0.6 else []
    ntext, ndes, nres = rng.randint(0, 2), rng.randint(0, 2), rng.randint(0, 1)
    target = rng.choice(['path', 'bytesio'])
    case = {'writer': 'NITF', 'rows': rows, 'cols': cols, 'nbpp': nbpp, 'block': [nppbv, nppbh], 'grid': [nbpc, nbpr], 'masked': masked,
            'absent': absent, 'text': ntext, 'des': ndes, 'res': nres, 'target': target}
    seen.add(('NITF', masked, bool(absent), nbpp, min(blocks, 3), ntext > 0, ndes > 0, nres > 0, target))
    block_bytes = nppbv * nppbh * nbpp // 8
    hdr = ImageSegmentHeader(IID1='TEST', NROWS=rows, NCOLS=cols, PVTYPE='INT', IREP='MONO', ICAT='VIS', ABPP=nbpp, NBPP=nbpp,
                             IC='NM' if masked else 'NC', IMODE='B', NBPR=nbpr, NBPC=nbpc, NPPBH=nppbh, NPPBV=nppbv, IDLVL=1, IALVL=0,
                             ILOC='0000000000', ICORDS='', Bands=ImageBands(values=[ImageBand(IREPBAND='M')]))
    if masked:
        offsets, cur = [], 0
        for b in range(blocks):
            if b in absent:
                offsets.append(0xFFFFFFFF)
            else:
                offsets.append(cur)
                cur += block_bytes
        hdr.mask_subheader = MaskSubheader(band_depth=1, blocks=blocks, IMDATOFF=10 + 4 * blocks, BMRLNTH=4, TMRLNTH=0, TPXCDLNTH=0,
                                           BMR=numpy.array([offsets], dtype='uint32'), TMR=None)
    texts = tuple(TextSubheaderManager(TextSegmentHeader(TEXTID=f'T{k}', TXTITL='note'), ('text %d ' % k).encode() * rng.randint(1, 9)) for k in range(ntext))
    dess = tuple(DESSubheaderManager(DataExtensionHeader(), b'<d>' + bytes(rng.randrange(65, 91) for _ in range(rng.randint(0, 40))) + b'</d>') for k in range(ndes))
    ress = tuple(RESSubheaderManager(ReservedExtensionHeader(), bytes(rng.randrange(256) for _ in range(rng.randint(1, 30)))) for k in range(nres))
    data = numpy.array([[rng.randrange(1, 2 ** nbpp) for _ in range(cols)] for _ in range(rows)], dtype='uint8' if nbpp == 8 else 'uint16')
    try:
        details = NITFWritingDetails(NITFHeader(CLEVEL=3, OSTAID='verif', FDT='20200101000000', FTITLE='general', FL=0),
                                     image_managers=(ImageSubheaderManager(hdr), ), image_segment_collections=((0, ), ),
                                     text_managers=texts or None, des_managers=dess or None, res_managers=ress or None)
        path = os.path.join(tmpdir, 'general.ntf')
        if target == 'path':
            with NITFWriter(path, details, check_existence=False) as w:
                w.write(data)
            buf = open(path, 'rb').read()
        else:
            bio = io.BytesIO()
            with NITFWriter(bio, details) as w:
                w.write(data)
            buf = bio.getvalue()
    except Exception as e:
        fails.append({'kind': 'write', 'msg': f'general NITF write raised {type(e).__name__}: {e}', 'case': case})
        return
    stats['files'] = stats.get('files', 0) + 1
    stats['general_files'] = stats.get('general_files', 0) + 1
    summ = check_file(buf, [(rows, cols)], fails, 'NITF', case)
    if summ is None:
        return
    if masked and drv is not None:
        # model correspondence: mask table length, LI and the block mask records of the file vs Spec.Layout.masked*
        im0 = summ['images'][0]
        raw = buf[im0['data_offset']:im0['data_offset'] + 10 + 4 * blocks]
        file_bmr = [int.from_bytes(raw[10 + 4 * k:14 + 4 * k], 'big') for k in range(blocks)]
        impl = (int.from_bytes(raw[0:4], 'big'), im0['data_length'], int(details.image_managers[0].item_size), file_bmr)
        jobs.append(('mask', case, impl, None, drv.ask(f'layout mask {block_bytes} ' + ''.join('0' if b in absent else '1' for b in range(blocks)))))
    # the extra segments carry exactly the bytes handed over, at their declared offsets
    want = {'text': [bytes(m.item_bytes) for m in texts], 'des': [bytes(m.item_bytes) for m in dess], 'res': [bytes(m.item_bytes) for m in ress]}
    for key, i, off, sub, dat in summ['layout']:
        if key in want and buf[off + sub:off + sub + dat] != want[key][i]:
            fails.append({'kind': 'structure', 'msg': f'NITF: {key} segment {i} data at its declared offset {off + sub} is not the data handed to the writer', 'case': case})
    # pixels of the present blocks sit where the mask says
    im = summ['images'][0]
    d0 = im['data_offset'] + (10 + 4 * blocks if masked else 0)
    k = 0
    for b in range(blocks):
        if b in absent:
            continue
        br, bc = divmod(b, nbpr)
        blk = numpy.frombuffer(buf[d0 + k * block_bytes:d0 + (k + 1) * block_bytes], dtype='>u1' if nbpp == 8 else '>u2')
        k += 1
        if blk.size != nppbv * nppbh:
            fails.append({'kind': 'structure', 'msg': f'NITF: block {b} is cut short by the end of the file', 'case': case})
            break
        blk = blk.reshape(nppbv, nppbh)
        r1, c1 = min(rows, (br + 1) * nppbv), min(cols, (bc + 1) * nppbh)
        exp = data[br * nppbv:r1, bc * nppbh:c1]
        if not numpy.array_equal(blk[:exp.shape[0], :exp.shape[1]], exp):
            fails.append({'kind': 'structure', 'msg': f'NITF: pixels of block {b} are not at the offset its mask record / block order gives', 'case': case})
            break


def run(tier):
    sarpy_guard()
    logging.disable(logging.CRITICAL)
    chk = Check('C03', tier)
    rng = chk.rng
    import gen_nitf
    gen_info = gen_nitf.generate(os.path.join(VERIF, 'lean', 'SarpyModel', 'Gen', 'NitfKernels.lean'))
    import kernels2
    k2_info = kernels2.regen()
    gen_info = dict(gen_info, method_kernels=k2_info)
    broken = chk.prove(['SarpyModel.Props.C03', 'SarpyModel.Bridge.Kernels2', 'SarpyModel.Drivers'], 'SarpyModel.Props.C03', 'Sarpy.Props.C03', REQUIRED, gen_info,
                       extra=[('SarpyModel.Bridge.Kernels2', 'Sarpy.Bridge.K2', K2_REQUIRED)])
    if gen_info['unsupported'] or k2_info['unsupported']:
        broken.append('translator could not express: ' + json.dumps(gen_info['unsupported'] + k2_info['unsupported']))

    fails = []
    disagreements = []
    stats = {}
    seen = set()
    drv = Driver()
    jobs = []
    tmpdir = tempfile.mkdtemp(prefix='c03_', dir=os.environ.get('VERIF_SCRATCH', '/var/tmp'))
    try:
        n_sicd = 40 if tier == 'quick' else 400
        for k in range(n_sicd):
            pt = rng.choice(['RE32F_IM32F', 'RE16I_IM16I'])
            shape_kind = rng.choice(['small', 'small', 'small', 'wide', 'tall'])
            if shape_kind == 'small':
                rows, cols = rng.randint(2, 60), rng.randint(2, 50)
            elif shape_kind == 'wide':
                rows, cols = rng.randint(2, 4), rng.choice([2049, 8193, 9000])
            else:
                rows, cols = rng.choice([2049, 8193, 12000]), rng.randint(2, 3)
            row_limit = rng.choice([None, None, rng.randint(1, max(1, rows)), max(1, rows // 3), rows // 2 + 1])
            target = rng.choice(['path', 'bytesio', 'fileobj'])
            case = {'writer': 'SICD', 'rows': rows, 'cols': cols, 'pixel_type': pt, 'row_limit': row_limit, 'target': target}
            nseg = 1 if not row_limit else -(-rows // row_limit)
            if nseg > 999:
                continue
            seen.add(('SICD', pt, shape_kind, min(nseg, 4), target))
            meta = sargen.small_sicd(rows, cols, pt)
            data = numpy.zeros((rows, cols), dtype='complex64')
            data[0, 0] = 1 + 2j
            try:
                buf, det = sargen.write_sicd(meta, data, target, tmpdir, row_limit=row_limit)
            except Exception as e:
                fails.append({'kind': 'write', 'msg': f'SICD write raised {type(e).__name__}: {e}', 'case': case})
                continue
            stats['files'] = stats.get('files', 0) + 1
            summ = check_file(buf, [(rows, cols)], fails, 'SICD', case)
            if summ is None:
                continue
            # IGEOLO per segment vs the metadata corners
            try:
                icp = det.sicd_meta.GeoData.ImageCorners.get_array(dtype='float64')
                for g in nitfparse.reassemble(summ['images']):
                    for (a, b, c0, c1, i) in g['segments']:
                        im = summ['images'][i]
                        if 'IGEOLO' not in im:
                            continue
                        got = igeolo_corners(im['IGEOLO'])
                        wants = [expected_corners(icp, rows, a, b, True), expected_corners(icp, rows, a, b, False)]
                        want = wants[0]
                        okv = [all(abs(glat - w[0]) <= 1.5 / 3600 and abs(glon - w[1]) <= 1.5 / 3600 for (glat, glon), w in zip(got, wv)) for wv in wants]
                        for (glat, glon), w in zip(got, want):
                            if not any(okv):
                                fails.append({'kind': 'igeolo', 'key': 'igeolo-multi-segment-interpolation' if len(g['segments']) > 1 else None,
                                              'msg': f'SICD: IGEOLO of segment {i} (rows {a}:{b} of {rows}) is {got}, metadata corners interpolate to {[tuple(map(float, x)) for x in want]}',
                                              'case': case})
                                raise StopIteration
            except StopIteration:
                pass
            except Exception as e:
                stats['igeolo_errors'] = stats.get('igeolo_errors', 0) + 1
            # model correspondence: writer bookkeeping vs the Lean layout model
            segs = []
            impl_offs = []
            for fam in ('image_managers', 'graphics_managers', 'text_managers', 'des_managers', 'res_managers'):
                for m in (getattr(det, fam) or ()):
                    segs.append((m.subheader_size if hasattr(m, 'subheader_size') else m.subheader.get_bytes_length(), m.item_size))
                    impl_offs.append((m.subheader_offset, m.item_offset, m.end_of_item))
            hl = det.header.get_bytes_length()
            jobs.append(('offsets', case, impl_offs, det.header.FL, drv.ask(f'layout offsets {hl} ' + (','.join(f'{a}:{b}' for a, b in segs) or '-'))))
            eff_limit = det.row_limit if hasattr(det, 'row_limit') else row_limit
            im_segs = [(im.subheader.NROWS, im.subheader.ILOC) for im in det.image_managers]
            jobs.append(('seg', case, im_segs, None, drv.ask(f'layout seg {rows} {eff_limit}')))
            jobs.append(('clevel', case, det.header.CLEVEL, len(buf), drv.ask(f'layout clevel {len(buf)} {rows},{cols}')))
        # SIDD files: one or two images
        n_sidd = 12 if tier == 'quick' else 120
        for k in range(n_sidd):
            nim = rng.choice([1, 1, 2, 3])
            pt = rng.choice(['MONO8I', 'MONO16I', 'RGB24I'])
            shapes = [(rng.randint(2, 40), rng.randint(2, 30)) for _ in range(nim)]
            row_limit = rng.choice([None, rng.randint(1, 20)])
            target = rng.choice(['path', 'bytesio'])
            case = {'writer': 'SIDD', 'shapes': shapes, 'pixel_type': pt, 'row_limit': row_limit, 'target': target}
            seen.add(('SIDD', pt, nim, row_limit is not None, target))
            metas = [sargen.small_sidd(r, c, pt) for r, c in shapes]
            # every product image gets its own corner coordinates (shifted by whole degrees), so that corners taken from the wrong image show
            icps = []
            for k_im, m in enumerate(metas):
                icp = m.GeoData.ImageCorners.get_array(dtype='float64') + numpy.array([1.5 * k_im, -2.25 * k_im])
                m.GeoData.ImageCorners = icp
                icps.append(icp)
            datas = [sargen.sidd_pixels(rng, r, c, pt) for r, c in shapes]
            try:
                buf, det = sargen.write_sidd(metas, datas, target, tmpdir, row_limit=row_limit)
            except Exception as e:
                fails.append({'kind': 'write', 'msg': f'SIDD write raised {type(e).__name__}: {e}', 'case': case})
                continue
            stats['files'] = stats.get('files', 0) + 1
            summ = check_file(buf, shapes, fails, 'SIDD', case)
            if summ is not None:
                try:
                    groups = nitfparse.reassemble(summ['images'])
                    for k_im, g in enumerate(groups[:len(icps)]):
                        bad = None
                        for (a, b, c0, c1, i) in g['segments']:
                            im = summ['images'][i]
                            if 'IGEOLO' not in im:
                                continue
                            got = igeolo_corners(im['IGEOLO'])
                            wants = [expected_corners(icps[k_im], g['rows'], a, b, True), expected_corners(icps[k_im], g['rows'], a, b, False)]
                            okv = [all(abs(glat - w[0]) <= 1.5 / 3600 and abs(glon - w[1]) <= 1.5 / 3600 for (glat, glon), w in zip(got, wv)) for wv in wants]
                            if not any(okv):
                                bad = (i, a, b, got, wants[0])
                                break
                        if bad:
                            i, a, b, got, want = bad
                            fails.append({'kind': 'igeolo', 'msg': f'SIDD: IGEOLO of segment {i} (product image {k_im}, rows {a}:{b} of {g["rows"]}) is {got}, the corners of that image interpolate to '
                                                                   f'{[tuple(map(float, x)) for x in want]}', 'case': case})
                except nitfparse.NitfError:
                    pass
        for k in range(30 if tier == 'quick' else 300):
            general_case(rng, tmpdir, fails, stats, seen, drv, jobs)
    finally:
        shutil.rmtree(tmpdir, ignore_errors=True)
    try:
        ans = drv.run()
    except Infra as e:
        ans = None
        broken.append('model driver does not build/run: ' + str(e)[:300])
    if ans is not None:
        for kind, case, impl, extra, i in jobs:
            stats['model_cases'] = stats.get('model_cases', 0) + 1
            if kind == 'offsets':
                offs, fl = ans[i].split()
                model = [tuple(int(x) for x in t.split(':')) for t in offs.split(',')] if offs else []
                if model != [tuple(int(v) for v in t) for t in impl] or int(fl) != extra:
                    disagreements.append({'case': case, 'what': 'offsets/FL', 'model': ans[i][:200], 'impl': str(impl)[:200] + f' FL={extra}'})
            elif kind == 'seg':
                seg_s, hdr_s, dec_s = ans[i].split()
                hdrs = [tuple(int(x) for x in t.split(':')) for t in hdr_s.split(',')]
                impl_h = [(int(iloc[:5]), n) for n, iloc in impl]
                if hdrs != impl_h:
                    disagreements.append({'case': case, 'what': 'segmentation / ILOC chain', 'model': hdr_s[:200], 'impl': str(impl_h)[:200]})
            elif kind == 'mask':
                tl, li, offs = ans[i].split()
                model = (int(tl), int(li), int(li), [int(x) for x in offs.split(',')])
                if model != tuple(impl):
                    disagreements.append({'case': case, 'what': 'mask table length / LI / block mask records', 'model': str(model)[:200], 'impl': str(impl)[:200]})
            elif kind == 'clevel':
                req, size_c, gen_c = ans[i].split()
                if impl < int(req):
                    disagreements.append({'case': case, 'what': f'CLEVEL written {impl} < model requirement {req}'})
    # method kernels: implementation vs regenerated Lean vs reference definition, and the direct oracle (byte cap, ILOC digits, block bytes)
    nk = kernels2.run_kernels(rng, tier, ['rowlimit', 'blocksize', 'fullsize'], fails, disagreements, stats)
    stats['model_cases'] = stats.get('model_cases', 0) + nk
    chk.coverage.update({
        'evaluations': stats.get('files', 0) + stats.get('model_cases', 0),
        'distinct_nontrivial': len(seen),
        'rule': 'freshly written SICD files (pixel types x small / 2049- / 8193- / 12000-wide or tall shapes x row limits forcing 1..k segments x '
                'path / BytesIO / caller file object), SIDD files (1-3 images x MONO8I/MONO16I/RGB24I x row limits x path / BytesIO) and general NITFWriter files '
                '(blocked or block-masked image with random absent blocks + text / DES / RES segments x path / BytesIO), each parsed by the '
                'independent MIL-STD-2500C parser; distinct = distinct (writer, pixel type, shape class, segment-count class, target) tuples',
        'samples': [j[1] for j in jobs[:3]],
        'stats': stats,
        'traces_validated_against_impl': stats.get('model_cases', 0),
        'disagreements_checked': len(disagreements),
    })
    chk.assumptions += [
        'harness/nitfparse.py is a hand transcription of the MIL-STD-2500C field tables (file header, image, text, DES, RES subheaders)',
        'IGEOLO is compared with a bilinear interpolation of the metadata corner points to 1.5 arc-seconds (field precision is 1 arc-second)',
        'general NITFWriter family: one single-band IMODE=B image, blocked (IC=NC) or block-masked (IC=NM, random absent blocks), 8/16 bit, plus 0-2 text, 0-2 DES, 0-1 RES segments; multi-band / IMODE P,S,R and pad-pixel masks are not generated',
        'row limit / block size / image size kernels are regenerated from the writer and header methods (translate/gen_kernels2.py: attribute reads become parameters) and bridged by theorem; each is also called on the implementation with stand-in objects',
        'loop -> recursion step for default_image_segmentation (stepTiling) is validated by the segmentation correspondence, not proved',
    ]
    unknown = [f for f in fails if not (f.get('key') and chk.known(f['key']))]
    for f in unknown[:5]:
        chk.violation(f['msg'], {'case': f, 'replay_cmd': './check C03 --replay <this file>'}, True)
    if len(unknown) > 5:
        chk.notes.append(f'{len(unknown)} failing inputs found, first 5 reported')
    if not unknown and (broken or disagreements):
        chk.violation('proof obligation or correspondence no longer checks: ' + '; '.join(broken[:3] + [json.dumps(d, default=str)[:300] for d in disagreements[:2]]),
                      {'broken_obligations': broken, 'disagreements': disagreements[:10]}, False)
    chk.coverage['failing_inputs'] = len(fails)
    return chk.finish()


def replay(path):
    logging.disable(logging.CRITICAL)
    case = json.load(open(path))['case']['case']
    print(case)
    if 'kernel' in case:
        import kernels2
        a = case['args']
        fn = {'rowlimit': kernels2.impl_rowlimit, 'blocksize': kernels2.impl_blocksize, 'fullsize': kernels2.impl_fullsize}[case['kernel']]
        print(case['kernel'], a, '->', fn(*a))
        return 1
    tmpdir = tempfile.mkdtemp(prefix='c03r_', dir='/var/tmp')
    fails = []
    try:
        if case['writer'] == 'SICD':
            meta = sargen.small_sicd(case['rows'], case['cols'], case['pixel_type'])
            data = numpy.zeros((case['rows'], case['cols']), dtype='complex64')
            buf, det = sargen.write_sicd(meta, data, case['target'], tmpdir, row_limit=case['row_limit'])
            check_file(buf, [(case['rows'], case['cols'])], fails, 'SICD', case)
    finally:
        shutil.rmtree(tmpdir, ignore_errors=True)
    for f in fails:
        print(f['msg'])
    return 1 if fails else 0
