"""C12 - geodetic / ECF / local-frame conversions are mutually inverse and accurate.

proof side : lean/SarpyModel/Props/C12.lean (over the reals, every latitude / longitude / height / reference point):
             NED and ENU matrices orthogonal with determinant +1, local-frame conversions invert each other in both
             modes and preserve length, wgs_84_norm is a unit vector, height-0 points lie on the ellipsoid, a point of
             height h is the surface point plus h times the ellipsoid normal, the normal is the ENU up axis,
             ordering / shape lemmas.  Props/C12Inj.lean: the forward map is injective on latitude [-90, 90] x height > -b^2/a
             (longitude off the poles).  Props/C12Inv.lean: the closed-form inverse (Heikkinen's formulas exactly as lines 70-92
             write them: Cardano step, sextic relation, factorisation identity, sign of the conjugate factor) inverts the forward
             map over the reals for latitude [-90, 90], longitude (-180, 180], height > -a(1-2e^2), validity flag and poles
             included: `inverse_exact : C12_inverse_exact`.
tie        : translator: translate/gen_geo.py regenerates Gen/Geo.lean from the AST of the imported geocoords.py (constants,
             ecf_to_geodetic, geodetic_to_ecf, the NED / ENU matrices) on every run; Props/C12Bridge.lean proves Gen = Spec by rfl
             for every scalar type, so a semantic change of the Python text breaks an obligation (then the oracles below search).
             correspondence: the same generic definitions (lean/SarpyModel/Spec/Geo.lean) instantiated at Float (driver `geo ...`) are
             compared with sarpy.geometry.geocoords on a seeded grid; floats cross the line protocol as bit patterns;
             tolerances 1e-6 m / 1e-9 deg (the property's own figures), rounding noise is ~1e-9 m (3e-8 m at 1e8 m height)
search     : direct oracles on the implementation alone: geodetic -> ECF -> geodetic round trip; a 50-digit evaluation of
             the WGS-84 forward map in a separate interpreter (`python3-vt`, mpmath, no sarpy) both for sarpy's forward
             results and for the points sarpy's inverse returned (residual split into up / north / east); rotation
             round trips, length preservation and the axes of the local frames against independently computed
             east / north / up vectors; shape, ordering, container and dtype variants against the flat float64 call.
"""
import json
import math
import os
import shutil
import struct
import subprocess
import tempfile

import numpy

from common import Check, Driver, Infra, sarpy_guard

REQUIRED = ['ned_matrix_orthogonal', 'enu_matrix_orthogonal', 'ned_matrix_det', 'enu_matrix_det',
            'ned_roundtrip', "ned_roundtrip'", 'enu_roundtrip', "enu_roundtrip'",
            'ecfToNed_nedToEcf', 'nedToEcf_ecfToNed', 'ecfToEnu_enuToEcf', 'enuToEcf_ecfToEnu',
            'ned_preserves_length', 'enu_preserves_length', 'norm_unit', 'norm_surface_eq_up', 'enu_up_eq_normal',
            'constants_are_wgs84', 'forward_on_ellipsoid', 'forward_on_scaled_ellipsoid', 'forward_denominators_pos',
            'forward_eq_surface_add_up', 'forward_height_along_normal', 'enu_of_raised_point', 'forward_injective_in_height',
            'forward_ordering', 'inverse_ordering', 'forward_arr_get', 'inverse_arr_get', 'forward_nested',
            'inverse_lon_exact_partial', 'inverse_equatorial_plane', 'inverse_exact_on_equator_partial',
            # Props/C12Inj.lean: injectivity of the forward map
            'sq_le_of_scaled_eq', 'zero_of_scaled_eq', 'foot_scale_unique', 'meridian_injective', 'forward_injective_on_domain',
            'forward_injective', 'forward_at_north_pole', 'forward_at_south_pole', 'height_range_in_domain',
            # Props/C12Inv.lean: exactness of the closed-form inverse
            'cardano_sigma', 'heik_P_sextic', 'heik_factor', 'foot_quartic', 'heik_other_factor_neg', 'heik_R0_eq', 'heik_G_pos',
            'heik_chain', 'cE2_lt_small', 'domain_B', 'heikR0_exact', 'inverse_lat_height_exact', 'ecfValid_forward',
            'inverse_exact_on_domain', 'inverse_exact_at_poles', 'height_range_in_inverse_domain', 'inverse_exact',
            'inverse_exact_on_surface', 'inverse_on_polar_axis', 'inverse_unique', 'forward_inverse_on_image',
            # Props/C12Bridge.lean: Gen.Geo (regenerated from geocoords.py on every run) = Spec.Geo, by rfl
            'gen_constants_eq', 'gen_geodeticToEcfLL_eq', 'gen_ecfValid_eq', 'gen_ecfToGeodeticLL_eq', 'gen_nedMatrix_eq',
            'gen_enuMatrix_eq', 'gen_inverse_exact', 'gen_forward_injective']
PROOF_TARGETS = ['SarpyModel.Props.C12', 'SarpyModel.Props.C12Inj', 'SarpyModel.Props.C12Inv', 'SarpyModel.Gen.Geo',
                 'SarpyModel.Props.C12Bridge', 'SarpyModel.Drivers']

TOL_M = 1e-6        # alarm: metres (positions, heights)
TOL_DEG = 1e-9      # alarm: degrees (latitude, longitude)
NOISE_M = 1e-8      # per 1e7 m of coordinate magnitude; differences between NOISE and TOL are counted ("margin band"), not alarmed
NOISE_DEG = 1e-12
KEY_DTYPE = '_validate:non-float64-ndarray'

MP_SCRIPT = r'''
import sys
from mpmath import mp, mpf, sin, cos, sqrt, pi
mp.dps = 50
A = mpf(6378137)
F = 1 / mpf('298.257223563')
E2 = 2 * F - F * F
D2R = pi / 180
out = []
for line in sys.stdin:
    t = line.split()
    if not t:
        continue
    lat, lon, h, x, y, z = [mpf(float.fromhex(s)) for s in t[1:7]]
    sp, cp = sin(lat * D2R), cos(lat * D2R)
    sl, cl = sin(lon * D2R), cos(lon * D2R)
    W = sqrt(1 - E2 * sp * sp)
    N = A / W
    dx, dy, dz = x - (N + h) * cp * cl, y - (N + h) * cp * sl, z - (N * (1 - E2) + h) * sp
    if t[0] == 'F':
        out.append('%r %r %r' % (float(dx), float(dy), float(dz)))
    else:
        du = dx * cp * cl + dy * cp * sl + dz * sp
        dn = -dx * sp * cl - dy * sp * sl + dz * cp
        de = -dx * sl + dy * cl
        M = A * (1 - E2) / W ** 3
        p = (N + h) * cp
        dlon = (de / p / D2R) if (abs(lat) != 90 and p != 0) else mpf('nan')
        out.append('%r %r %r %r' % (float(du), float(dn / (M + h) / D2R), float(dlon), float(sqrt(dx * dx + dy * dy + dz * dz))))
sys.stdout.write('\n'.join(out) + '\n')
'''


def bits(x):
    return str(struct.unpack('>Q', struct.pack('>d', float(x)))[0])


def unbits(s):
    return struct.unpack('>d', struct.pack('>Q', int(s)))[0]


def b3(v):
    return ' '.join(bits(t) for t in v)


def hx(v):
    return [float(t).hex() for t in v]


def unhx(l):
    return [float.fromhex(t) for t in l]


def londiff(a, b):
    return abs((a - b + 180.0) % 360.0 - 180.0)


# ------------------------------------------------------------------ generators (chk.rng only)

def gen_lat(rng):
    c = rng.random()
    if c < 0.12:
        return rng.choice([90.0, -90.0, 0.0]), 'lat-exact'
    if c < 0.32:
        return rng.choice([-1, 1]) * (90.0 - 10 ** rng.uniform(-14, 0)), 'lat-near-pole'
    if c < 0.47:
        return rng.choice([-1, 1]) * 10 ** rng.uniform(-14, 0), 'lat-near-equator'
    return rng.uniform(-90, 90), 'lat-generic'


def gen_lon(rng):
    c = rng.random()
    if c < 0.15:
        return rng.choice([180.0, -180.0, 0.0, 90.0, -90.0]), 'lon-exact'
    if c < 0.35:
        return rng.choice([-1, 1]) * (180.0 - 10 ** rng.uniform(-13, 0)), 'lon-near-antimeridian'
    if c < 0.42:
        return rng.choice([-1, 1]) * 10 ** rng.uniform(-14, 0), 'lon-near-zero'
    return rng.uniform(-180, 180), 'lon-generic'


def gen_h(rng):
    c = rng.random()
    if c < 0.12:
        return rng.choice([0.0, -1e4, 1e8]), 'h-exact'
    if c < 0.45:
        return rng.uniform(-1e4, 1e4), 'h-near-surface'
    if c < 0.55:
        return -10 ** rng.uniform(-3, 4), 'h-below'
    return 10 ** rng.uniform(0, 8), 'h-log-up'


def gen_ecf(rng):
    """a directly chosen ECF point; radius >= a keeps the height in the property's range"""
    c = rng.random()
    rad = 6378137.0 * 10 ** rng.uniform(0, 1.19)      # up to ~1e8
    u = [rng.gauss(0, 1) for _ in range(3)]
    n = math.sqrt(sum(t * t for t in u)) or 1.0
    v = [rad * t / n for t in u]
    if c < 0.12:
        v[2] = 0.0
        return v, 'ecf-z0'
    if c < 0.2:
        return [0.0, 0.0, rng.choice([-1, 1]) * rad], 'ecf-polar-axis'
    if c < 0.27:
        v[0] = 0.0
        return v, 'ecf-x0'
    if c < 0.37:
        return [-abs(v[0]) - 1.0, rng.choice([0.0, -0.0]), v[2]], 'ecf-antimeridian'
    if c < 0.47:
        v[2] = rng.choice([-1, 1]) * 10 ** rng.uniform(-12, 0)
        return v, 'ecf-tiny-z'
    if c < 0.57:
        s = 10 ** rng.uniform(-12, 0)
        return [s * math.cos(u[0]), s * math.sin(u[0]), rng.choice([-1, 1]) * rad], 'ecf-tiny-r'
    if c < 0.62:
        d = 10 ** rng.uniform(0, 5)
        return [d * t / n for t in u], 'ecf-deep'        # validity flag only
    return v, 'ecf-generic'


SHAPES = ['flat', 'single', 'grid', 'grid1', 'list', 'tuple', 'strided', 'fortran', 'empty', 'gridF', 'planesT']


def shaped(rows, kind):
    """returns (argument, function taking the result back to an (n, 3) array)"""
    a = numpy.array(rows, dtype='float64').reshape((-1, 3))
    n = a.shape[0]
    if kind == 'single':
        return a[0].copy(), (lambda r: numpy.asarray(r).reshape((1, 3))), (3,)
    if kind == 'grid' and n % 2 == 0 and n > 0:
        return a.reshape((2, n // 2, 3)).copy(), (lambda r: numpy.asarray(r).reshape((-1, 3))), (2, n // 2, 3)
    if kind == 'grid1' and n > 0:
        return a.reshape((n, 1, 1, 3)).copy(), (lambda r: numpy.asarray(r).reshape((-1, 3))), (n, 1, 1, 3)
    if kind == 'list':
        return a.tolist(), (lambda r: numpy.asarray(r).reshape((-1, 3))), (n, 3)
    if kind == 'tuple':
        return tuple(tuple(r) for r in a.tolist()), (lambda r: numpy.asarray(r).reshape((-1, 3))), (n, 3)
    if kind == 'strided':
        big = numpy.zeros((2 * n, 3), dtype='float64')
        big[::2] = a
        return big[::2], (lambda r: numpy.asarray(r).reshape((-1, 3))), (n, 3)
    if kind == 'fortran':
        return numpy.asfortranarray(a), (lambda r: numpy.asarray(r).reshape((-1, 3))), (n, 3)
    if kind in ('gridF', 'planesT') and n > 0:
        # memory layouts other than C order with two leading axes: a Fortran-ordered copy, and the transposed view of a (3, m, k)
        # stack of coordinate planes (how a caller holding x / y / z planes hands them over); the point at [i, j] is row i * m + j
        k = 2 if n % 2 == 0 else 1
        g = a.reshape((k, n // k, 3))
        arg = numpy.asfortranarray(g) if kind == 'gridF' else numpy.ascontiguousarray(g.T).T
        return arg, (lambda r: numpy.asarray(r).reshape((-1, 3))), (k, n // k, 3)
    if kind == 'empty':
        return numpy.zeros((0, 3)), (lambda r: numpy.asarray(r).reshape((-1, 3))), (0, 3)
    return a.copy(), (lambda r: numpy.asarray(r).reshape((-1, 3))), (n, 3)


class Tally:
    def __init__(self):
        self.maxdiff = {}
        self.band = {}

    def see(self, what, d, noise):
        self.maxdiff.setdefault(what, 0.0)
        self.band.setdefault(what, 0)
        if d != d:
            return
        if d > self.maxdiff.get(what, 0.0):
            self.maxdiff[what] = d
        if d > noise:
            self.band[what] = self.band.get(what, 0) + 1


def run_mp(tmp, lines):
    if not lines:
        return []
    path = os.path.join(tmp, 'mp_forward.py')
    with open(path, 'w') as f:
        f.write(MP_SCRIPT)
    try:
        p = subprocess.run(['python3-vt', path], input='\n'.join(lines) + '\n', capture_output=True, text=True, timeout=3000)
    except FileNotFoundError:
        raise Infra('python3-vt (interpreter with mpmath) not found on PATH')
    if p.returncode != 0:
        raise Infra('high-precision side process failed: ' + p.stderr[-800:])
    out = [l for l in p.stdout.split('\n') if l]
    if len(out) != len(lines):
        raise Infra(f'high-precision side process answered {len(out)} lines for {len(lines)}')
    return [[float(t) for t in l.split()] for l in out]


def run(tier):
    sarpy_guard()
    from sarpy.geometry import geocoords as G
    chk = Check('C12', tier)
    rng = chk.rng
    # translator: regenerate Gen/Geo.lean from the text of the imported geocoords.py (constants, both conversions, matrices)
    import gen_geo
    gen_info = gen_geo.generate(os.path.join(os.path.dirname(os.path.dirname(os.path.abspath(__file__))), 'lean', 'SarpyModel', 'Gen', 'Geo.lean'))
    broken = chk.prove(PROOF_TARGETS, 'SarpyModel.Props.C12Bridge', 'Sarpy.Props.C12', REQUIRED, gen_info)
    if gen_info['unsupported']:
        broken.append('translator could not express: ' + json.dumps(gen_info['unsupported']))
    scale = 1 if tier == 'quick' else 25
    n_g, n_e, n_l = 8000 * scale, 4000 * scale, 2000 * scale

    fails = []            # direct-oracle failures on the implementation
    disagreements = []    # model vs implementation
    per_key = {}
    tally = Tally()
    feats = set()

    def fail(key, msg, case):
        per_key[key] = per_key.get(key, 0) + 1
        if per_key[key] <= 3:
            fails.append({'key': key, 'msg': msg, 'case': case})

    def disagree(what, msg, case):
        if len(disagreements) < 50:
            disagreements.append({'what': what, 'msg': msg, 'case': case})

    tmp = tempfile.mkdtemp(dir='/var/tmp')
    old_err = numpy.seterr(all='ignore')
    try:
        drv = Driver()
        i_const = drv.ask('geo consts')

        # ------------------------------------------------------------ A. geodetic points
        llh = numpy.zeros((n_g, 3))
        cls_g = []
        for k in range(n_g):
            (la, c1), (lo, c2), (h, c3) = gen_lat(rng), gen_lon(rng), gen_h(rng)
            llh[k] = (la, lo, h)
            cls_g.append((c1, c2, c3))
            feats.add(('geodetic', c1, c2, c3))
        ecf = G.geodetic_to_ecf(llh)                       # flat reference call, ordering 'latlong'
        back = G.ecf_to_geodetic(ecf)
        if ecf.shape != (n_g, 3) or back.shape != (n_g, 3):
            fail('shape', f'flat call returns shapes {ecf.shape} / {back.shape} for ({n_g}, 3)', {'kind': 'shape'})
        q_fwd = [drv.ask('geo fwd ll ' + b3(llh[k])) for k in range(n_g)]
        q_inv = [drv.ask('geo inv ll ' + b3(ecf[k])) for k in range(n_g)]
        # ordering through the model as well (every 7th point)
        q_fwd_LL = {k: drv.ask('geo fwd LL ' + b3((llh[k, 1], llh[k, 0], llh[k, 2]))) for k in range(0, n_g, 7)}
        q_inv_LL = {k: drv.ask('geo inv LL ' + b3(ecf[k])) for k in range(0, n_g, 7)}

        # ------------------------------------------------------------ B. directly chosen ECF points
        pts = numpy.zeros((n_e, 3))
        cls_e = []
        for k in range(n_e):
            v, c = gen_ecf(rng)
            pts[k] = v
            cls_e.append(c)
            feats.add(('ecf', c))
        inv_e = G.ecf_to_geodetic(pts)
        nrm_e = G.wgs_84_norm(pts)
        q_inv_e = [drv.ask('geo inv ll ' + b3(pts[k])) for k in range(n_e)]
        q_nrm_e = [drv.ask('geo norm ' + b3(pts[k])) for k in range(n_e)]

        # ------------------------------------------------------------ C. local frames
        loc = []
        for k in range(n_l):
            (la, c1), (lo, c2), (h, c3) = gen_lat(rng), gen_lon(rng), gen_h(rng)
            orp = G.geodetic_to_ecf(numpy.array([la, lo, h]))
            absolute = rng.random() < 0.5
            vk = rng.choice(['near', 'far', 'unit', 'axis'])
            if vk == 'near':
                v = orp + numpy.array([rng.uniform(-1e5, 1e5) for _ in range(3)])
            elif vk == 'far':
                v = numpy.array([rng.uniform(-1e7, 1e7) for _ in range(3)])
            elif vk == 'unit':
                u = numpy.array([rng.gauss(0, 1) for _ in range(3)])
                v = u / (numpy.linalg.norm(u) or 1.0)
            else:
                v = numpy.array(rng.choice([[1.0, 0, 0], [0, 1.0, 0], [0, 0, 1.0], [0.0, 0, 0]]))
            w = numpy.array([rng.uniform(-1e5, 1e5) for _ in range(3)]) if vk != 'unit' else v[::-1].copy()
            feats.add(('local', c1, c2, absolute, vk))
            md = 'abs' if absolute else 'rel'
            qs = [drv.ask(f'geo {op} {md} {b3(x)} {b3(orp)}') for op, x in (('e2n', v), ('n2e', w), ('e2u', v), ('u2e', w))]
            loc.append((la, lo, h, orp, absolute, vk, v, w, qs))
        # matrices from given latitude / longitude (independent of the inverse)
        q_mat = []
        for k in range(0, n_l, 4):
            la, lo = loc[k][0], loc[k][1]
            q_mat.append((k, drv.ask(f'geo nedm {bits(la)} {bits(lo)}'), drv.ask(f'geo enum {bits(la)} {bits(lo)}')))

        try:
            ans = drv.run()
        except Infra as e:
            ans = None
            broken.append('model driver does not build/run: ' + str(e)[:300])

        def model_vec(i):
            if ans is None:
                return None
            t = ans[i].split()
            if t == ['nan']:
                return 'nan'
            if t == ['bad-op'] or len(t) not in (3, 9):
                return 'bad'
            return [unbits(s) for s in t]

        # ------------------------------------------------------------ constants
        consts = [G._A, G._F, G._B, G._A2, G._B2, G._E2, G._E4, G._OME2, G._EB2]
        names = ['_A', '_F', '_B', '_A2', '_B2', '_E2', '_E4', '_OME2', '_EB2']
        if ans is not None:
            t = ans[i_const].split()
            if len(t) != 9:
                disagree('consts', f'model constants answer {ans[i_const][:80]}', {})
            else:
                for nm, cv, s in zip(names, consts, t):
                    mv = unbits(s)
                    rel = abs(mv - cv) / abs(cv)
                    tally.see('constants (relative)', rel, 1e-15)
                    if not rel <= 1e-13:
                        disagree('consts', f'constant {nm}: sarpy {cv!r} vs model {mv!r}', {'name': nm})
        # independent statement of the constants (oracle): WGS-84 defining values
        if G._A != 6378137.0 or abs(G._F - 1 / 298.257223563) > 1e-18 or abs(G._B - 6356752.314245179) > 1e-6 \
                or abs(G._E2 - 6.69437999014e-3) > 1e-13:
            fail('constants', f'module constants are not the WGS-84 values: _A={G._A!r} _F={G._F!r} _B={G._B!r} _E2={G._E2!r}',
                 {'kind': 'constants'})

        # ------------------------------------------------------------ high precision side process
        mp_lines = []
        for k in range(n_g):
            mp_lines.append('F ' + ' '.join(hx(llh[k]) + hx(ecf[k])))
        for k in range(n_g):
            if not numpy.isnan(back[k]).any():
                mp_lines.append('I ' + ' '.join(hx(back[k]) + hx(ecf[k])))
            else:
                mp_lines.append('I ' + ' '.join(hx([0, 0, 0]) + hx(ecf[k])))
        idx_e = [k for k in range(n_e) if cls_e[k] != 'ecf-deep' and not numpy.isnan(inv_e[k]).any()]
        for k in idx_e:
            mp_lines.append('I ' + ' '.join(hx(inv_e[k]) + hx(pts[k])))
        mp_out = run_mp(tmp, mp_lines)
        mp_F, mp_I, mp_E = mp_out[:n_g], mp_out[n_g:2 * n_g], mp_out[2 * n_g:]

        evaluations = 0
        # ------------------------------------------------------------ A. checks
        for k in range(n_g):
            evaluations += 1
            la, lo, h = (float(t) for t in llh[k])
            case = {'kind': 'geodetic', 'llh': hx(llh[k]), 'classes': cls_g[k]}
            e = ecf[k]
            if not numpy.isfinite(e).all():
                fail('forward-nonfinite', f'geodetic_to_ecf({la!r}, {lo!r}, {h!r}) = {e.tolist()}', case)
                continue
            # oracle 1: 50-digit forward evaluation
            d = max(abs(t) for t in mp_F[k])
            tally.see('forward vs 50-digit (m)', d, NOISE_M * max(1.0, abs(h) / 1e7))
            if not d <= TOL_M:
                fail('forward-accuracy', f'geodetic_to_ecf({la!r}, {lo!r}, {h!r}) = {e.tolist()} is {d:.3e} m from the 50-digit WGS-84 value', case)
            # oracle 2: round trip
            b = back[k]
            if numpy.isnan(b).any():
                fail('roundtrip-nan', f'ecf_to_geodetic(geodetic_to_ecf({la!r}, {lo!r}, {h!r})) = {b.tolist()}', case)
                continue
            dlat, dh = abs(b[0] - la), abs(b[2] - h)
            dlon = londiff(b[1], lo) if abs(la) != 90.0 else 0.0
            tally.see('round trip latitude (deg)', dlat, NOISE_DEG)
            tally.see('round trip longitude (deg)', dlon, NOISE_DEG)
            tally.see('round trip height (m)', dh, NOISE_M * max(1.0, abs(h) / 1e7))
            if not (dlat <= TOL_DEG and dlon <= TOL_DEG and dh <= TOL_M):
                fail('roundtrip-accuracy', f'({la!r}, {lo!r}, {h!r}) -> ECF -> {b.tolist()}: |dlat|={dlat:.3e} deg |dlon|={dlon:.3e} deg |dh|={dh:.3e} m', case)
            # oracle 3: the returned geodetic point, pushed through the 50-digit forward map, must be the ECF input
            du, dla, dlo, dist = mp_I[k]
            tally.see('inverse residual up (m)', abs(du), NOISE_M * max(1.0, abs(h) / 1e7))
            tally.see('inverse residual latitude (deg)', abs(dla), NOISE_DEG)
            if dlo == dlo:
                tally.see('inverse residual longitude (deg)', abs(dlo), NOISE_DEG)
            if not (abs(du) <= TOL_M and abs(dla) <= TOL_DEG and (dlo != dlo or abs(dlo) <= TOL_DEG)):
                fail('inverse-accuracy', f'ecf_to_geodetic({e.tolist()}) = {b.tolist()}; 50-digit forward map of that is off by up={du:.3e} m, '
                     f'lat={dla:.3e} deg, lon={dlo:.3e} deg (|d|={dist:.3e} m)', case)
            # correspondence
            if ans is not None:
                m = model_vec(q_fwd[k])
                if not isinstance(m, list):
                    disagree('fwd', f'model forward answered {ans[q_fwd[k]][:60]}', case)
                else:
                    dm = max(abs(m[j] - e[j]) for j in range(3))
                    tally.see('model vs sarpy forward (m)', dm, NOISE_M * max(1.0, abs(h) / 1e7))
                    if not dm <= TOL_M:
                        disagree('fwd', f'forward({la!r}, {lo!r}, {h!r}): model {m} vs sarpy {e.tolist()}', case)
                m = model_vec(q_inv[k])
                if not isinstance(m, list):
                    disagree('inv', f'model inverse answered {ans[q_inv[k]][:60]} where sarpy gives {b.tolist()}', case)
                else:
                    d1, d2, d3 = abs(m[0] - b[0]), londiff(m[1], b[1]), abs(m[2] - b[2])
                    tally.see('model vs sarpy inverse angles (deg)', max(d1, d2), NOISE_DEG)
                    tally.see('model vs sarpy inverse height (m)', d3, NOISE_M * max(1.0, abs(h) / 1e7))
                    if not (d1 <= TOL_DEG and d2 <= TOL_DEG and d3 <= TOL_M):
                        disagree('inv', f'inverse({e.tolist()}): model {m} vs sarpy {b.tolist()}', case)
                if k in q_fwd_LL:
                    m = model_vec(q_fwd_LL[k])
                    if not isinstance(m, list) or not max(abs(m[j] - e[j]) for j in range(3)) <= TOL_M:
                        disagree('fwd-longlat', f'model forward with longlat ordering {m} vs sarpy {e.tolist()}', case)
                    m = model_vec(q_inv_LL[k])
                    if not isinstance(m, list) or not (abs(m[1] - b[0]) <= TOL_DEG and londiff(m[0], b[1]) <= TOL_DEG and abs(m[2] - b[2]) <= TOL_M):
                        disagree('inv-longlat', f'model inverse with longlat ordering {m} vs sarpy latlong {b.tolist()}', case)

        # ordering / shape / container variants against the flat float64 call
        n_groups = 60 * scale
        for gi in range(n_groups):
            evaluations += 1
            size = (1, 2, 3, 4, 5, 6, 10, 50)[gi % 8] if gi < 32 else rng.choice([1, 2, 3, 4, 5, 6, 10, 50])
            start = rng.randrange(0, n_g - size)
            sel = list(range(start, start + size))
            kind = SHAPES[gi % len(SHAPES)]
            order = rng.choice(['latlong', 'longlat', 'LongLat', 'LATLONG'])
            swap = order.lower() == 'longlat'
            feats.add(('variant', kind, order))
            rows_g = llh[sel][:, [1, 0, 2]] if swap else llh[sel]
            case = {'kind': 'variant', 'shape': kind, 'ordering': order, 'rows': [hx(r) for r in llh[sel]]}
            try:
                arg, flat, shp = shaped(rows_g, kind)
                keep = numpy.array(arg, dtype='float64', copy=True) if kind not in ('list', 'tuple') else None
                out = G.geodetic_to_ecf(arg, ordering=order)
                want = ecf[sel] if kind != 'empty' else numpy.zeros((0, 3))
                want = want[:1] if kind == 'single' else want
                if numpy.shape(out) != shp:
                    fail('shape', f'geodetic_to_ecf: input shape {shp} ({kind}) gives output shape {numpy.shape(out)}', case)
                elif flat(out).shape != want.shape or (want.size and not numpy.abs(flat(out) - want).max() <= 1e-9 + 8 * 2.3e-16 * float(numpy.abs(want).max())):
                    fail('ordering-shape', f'geodetic_to_ecf with shape {kind} / ordering {order} differs from the flat latlong call', case)
                if keep is not None and not numpy.array_equal(keep, numpy.asarray(arg), equal_nan=True):
                    fail('mutates-input', f'geodetic_to_ecf modified its argument ({kind})', case)
                arg, flat, shp = shaped(ecf[sel], kind)
                out = G.ecf_to_geodetic(arg, ordering=order)
                want = back[sel][:, [1, 0, 2]] if swap else back[sel]
                want = want if kind != 'empty' else numpy.zeros((0, 3))
                want = want[:1] if kind == 'single' else want
                if numpy.shape(out) != shp:
                    fail('shape', f'ecf_to_geodetic: input shape {shp} ({kind}) gives output shape {numpy.shape(out)}', case)
                elif flat(out).shape != want.shape or (want.size and not numpy.abs(flat(out) - want).max() <= 1e-12):
                    fail('ordering-shape', f'ecf_to_geodetic with shape {kind} / ordering {order} differs from the flat latlong call', case)
                out = G.wgs_84_norm(arg)
                if numpy.shape(out) != shp:
                    fail('shape', f'wgs_84_norm: input shape {shp} ({kind}) gives output shape {numpy.shape(out)}', case)
                elif kind != 'empty':
                    # batch independence: the normals of a batch are the normals of its points taken one at a time
                    pts_b = ecf[sel][:1] if kind == 'single' else ecf[sel]
                    one = numpy.array([G.wgs_84_norm(numpy.array(p_, dtype='float64')) for p_ in pts_b])
                    if flat(out).shape != one.shape or not float(numpy.abs(flat(out) - one).max()) <= 1e-12:
                        fail('normal-batch', f'wgs_84_norm of a batch of {len(pts_b)} points (shape {kind}) differs from the points taken one at a time by '
                                             f'{float(numpy.abs(flat(out) - one).max()):.3e}', case)
            except Exception as ex:
                fail('variant-raises', f'shape {kind} / ordering {order}: raised {type(ex).__name__}: {ex}', case)
        # a last dimension other than 3 is refused
        for bad in (numpy.zeros((4, 2)), numpy.zeros((3, 4)), [1.0, 2.0]):
            evaluations += 1
            for fn in (G.geodetic_to_ecf, G.ecf_to_geodetic, G.wgs_84_norm):
                try:
                    fn(bad)
                    fail('bad-shape-accepted', f'{fn.__name__} accepted an argument of shape {numpy.shape(bad)}', {'kind': 'badshape', 'shape': list(numpy.shape(bad))})
                except (ValueError, IndexError):
                    pass

        # dtype variants: whole-metre ECF points / whole-degree geodetic points are exact in int32 / int64 / float32, so the
        # mathematical input is the same and the answer must be as accurate as for the float64 array
        dt_lines, dt_rows = [], []
        for k in range(0, n_g, max(1, n_g // (40 * scale))):
            if abs(llh[k, 2]) > 1e5 or abs(llh[k, 0]) > 89.0:
                continue
            whole = numpy.round(ecf[k])
            whole_g = numpy.round(llh[k])
            for dt in ('int32', 'int64', 'float32', '>f8'):
                evaluations += 1
                feats.add(('dtype', dt))
                for fn, arg, tag in ((G.ecf_to_geodetic, whole, 'I'), (G.geodetic_to_ecf, whole_g, 'F')):
                    case = {'kind': 'dtype', 'dtype': dt, 'fn': fn.__name__, 'arg': hx(arg)}
                    try:
                        got = fn(arg.astype(dt))
                    except Exception as ex:
                        fail(KEY_DTYPE, f'{fn.__name__}(ndarray of dtype {dt}) raised {type(ex).__name__}: {ex}', case)
                        continue
                    ref = fn(arg.astype('float64'))
                    if numpy.shape(got) != (3,) or not numpy.isfinite(got).all():
                        fail(KEY_DTYPE, f'{fn.__name__}(numpy.array({arg.tolist()}, dtype={dt!r})) = {numpy.asarray(got).tolist()} '
                             f'but the same point as float64 gives {ref.tolist()}', case)
                        continue
                    dt_lines.append(tag + ' ' + ' '.join((hx(got) + hx(arg)) if tag == 'I' else (hx(arg) + hx(got))))
                    dt_rows.append((dt, fn, arg, got, ref, case, tag))
        for (dt, fn, arg, got, ref, case, tag), res in zip(dt_rows, run_mp(tmp, dt_lines)):
            if tag == 'I':
                du, dla, dlo, dist = res
                good = abs(du) <= TOL_M and abs(dla) <= TOL_DEG and (dlo != dlo or abs(dlo) <= TOL_DEG)
                resid = f'up={du:.3e} m lat={dla:.3e} deg lon={dlo:.3e} deg'
            else:
                good = max(abs(t) for t in res) <= TOL_M
                resid = f'{max(abs(t) for t in res):.3e} m'
            if not good:
                fail(KEY_DTYPE, f'{fn.__name__}(numpy.array({arg.tolist()}, dtype={dt!r})) = {got.tolist()} but the same point as float64 gives '
                     f'{ref.tolist()}; 50-digit residual {resid}', case)

        # ------------------------------------------------------------ B. checks
        a2, b2 = 6378137.0 ** 2, 6356752.314245179 ** 2
        pos_e = {k: j for j, k in enumerate(idx_e)}
        for k in range(n_e):
            evaluations += 1
            p, r, c = pts[k], inv_e[k], cls_e[k]
            case = {'kind': 'ecf', 'ecf': hx(p), 'class': c}
            isnan = bool(numpy.isnan(r).any())
            if c != 'ecf-deep':
                if isnan:
                    fail('inverse-nan', f'ecf_to_geodetic({p.tolist()}) = {r.tolist()} for a point above the ellipsoid', case)
                else:
                    du, dla, dlo, dist = mp_E[pos_e[k]]
                    if c in ('ecf-polar-axis',):
                        dlo = float('nan')
                    tally.see('inverse residual up (m)', abs(du), NOISE_M * 10)
                    tally.see('inverse residual latitude (deg)', abs(dla), NOISE_DEG)
                    if dlo == dlo:
                        tally.see('inverse residual longitude (deg)', abs(dlo), NOISE_DEG)
                    if not (abs(du) <= TOL_M and abs(dla) <= TOL_DEG and (dlo != dlo or abs(dlo) <= TOL_DEG)):
                        fail('inverse-accuracy', f'ecf_to_geodetic({p.tolist()}) = {r.tolist()}; 50-digit forward map of that is off by up={du:.3e} m, '
                             f'lat={dla:.3e} deg, lon={dlo:.3e} deg (|d|={dist:.3e} m)', case)
                    if not (-90.0 <= r[0] <= 90.0 and -180.0 <= r[1] <= 180.0):
                        fail('inverse-range', f'ecf_to_geodetic({p.tolist()}) = {r.tolist()} outside [-90,90] x [-180,180]', case)
                    # forward of the returned point (implementation round trip from the ECF side)
                    f2 = G.geodetic_to_ecf(r)
                    d = float(numpy.abs(f2 - p).max())
                    tally.see('ECF round trip (m)', d, NOISE_M * 10)
                    if not d <= TOL_M:
                        fail('roundtrip-accuracy', f'{p.tolist()} -> geodetic {r.tolist()} -> ECF {f2.tolist()}: off by {d:.3e} m', case)
                # ellipsoid normal: unit length, parallel to the gradient of x²/a² + y²/a² + z²/b²
                nv = nrm_e[k]
                grad = numpy.array([p[0] / a2, p[1] / a2, p[2] / b2])
                ln = float(numpy.linalg.norm(nv))
                cr = float(numpy.linalg.norm(numpy.cross(nv, grad)) / numpy.linalg.norm(grad))
                tally.see('normal: |n| - 1', abs(ln - 1.0), 1e-14)
                if not (abs(ln - 1.0) <= 1e-12 and cr <= 1e-12 and float(nv.dot(grad)) > 0):
                    fail('normal', f'wgs_84_norm({p.tolist()}) = {nv.tolist()}: length {ln!r}, sine of angle to the ellipsoid gradient {cr:.3e}', case)
            if ans is not None:
                m = model_vec(q_inv_e[k])
                if (m == 'nan') != isnan or m == 'bad':
                    disagree('inv-valid', f'validity of {p.tolist()}: model {"nan" if m == "nan" else m} vs sarpy {r.tolist()}', case)
                elif not isnan and c != 'ecf-deep':
                    d1, d2, d3 = abs(m[0] - r[0]), londiff(m[1], r[1]), abs(m[2] - r[2])
                    tally.see('model vs sarpy inverse angles (deg)', max(d1, d2), NOISE_DEG)
                    tally.see('model vs sarpy inverse height (m)', d3, NOISE_M * 10)
                    if not (d1 <= TOL_DEG and d2 <= TOL_DEG and d3 <= TOL_M):
                        disagree('inv', f'inverse({p.tolist()}): model {m} vs sarpy {r.tolist()}', case)
                m = model_vec(q_nrm_e[k])
                if not isinstance(m, list) or not max(abs(m[j] - nrm_e[k][j]) for j in range(3)) <= 1e-12:
                    disagree('norm', f'wgs_84_norm({p.tolist()}): model {m} vs sarpy {nrm_e[k].tolist()}', case)
        # normal at height-0 points = geodetic up (independent trigonometric statement)
        for k in range(0, n_g, 5):
            la, lo = math.radians(llh[k, 0]), math.radians(llh[k, 1])
            surf = G.geodetic_to_ecf(numpy.array([llh[k, 0], llh[k, 1], 0.0]))
            upv = numpy.array([math.cos(la) * math.cos(lo), math.cos(la) * math.sin(lo), math.sin(la)])
            d = float(numpy.abs(G.wgs_84_norm(surf) - upv).max())
            tally.see('normal at surface vs up', d, 1e-14)
            if not d <= 1e-12:
                fail('normal-up', f'wgs_84_norm at the height-0 point of lat {llh[k, 0]!r} lon {llh[k, 1]!r} differs from the geodetic up direction by {d:.3e}',
                     {'kind': 'normal-up', 'llh': hx(llh[k])})

        # ------------------------------------------------------------ C. checks
        for (la, lo, h, orp, absolute, vk, v, w, qs) in loc:
            evaluations += 4
            case = {'kind': 'local', 'orp_llh': hx([la, lo, h]), 'orp': hx(orp), 'absolute': absolute, 'v': hx(v), 'w': hx(w)}
            sc = max(1.0, float(numpy.abs(v).max()), float(numpy.abs(w).max()), float(numpy.abs(orp).max()) if absolute else 1.0)
            tol = TOL_M * max(1.0, sc / 1e8) if sc > 10 else 1e-9
            try:
                outs = [G.ecf_to_ned(v, orp, absolute_coords=absolute), G.ned_to_ecf(w, orp, absolute_coords=absolute),
                        G.ecf_to_enu(v, orp, absolute_coords=absolute), G.enu_to_ecf(w, orp, absolute_coords=absolute)]
                # round trips (rigid rotations that invert each other)
                rt = [G.ned_to_ecf(outs[0], orp, absolute_coords=absolute), G.ecf_to_ned(outs[1], orp, absolute_coords=absolute),
                      G.enu_to_ecf(outs[2], orp, absolute_coords=absolute), G.ecf_to_enu(outs[3], orp, absolute_coords=absolute)]
                for nm, got, want in zip(('ned', 'ned-back', 'enu', 'enu-back'), rt, (v, w, v, w)):
                    d = float(numpy.abs(got - want).max())
                    tally.see('local-frame round trip / scale', d / sc, 1e-14)
                    if not d <= tol:
                        fail('local-roundtrip', f'{nm} round trip about {orp.tolist()} ({"absolute" if absolute else "relative"}): {want.tolist()} -> {got.tolist()}', case)
                # length preservation
                base = (v - orp) if absolute else v
                for nm, got in (('ecf_to_ned', outs[0]), ('ecf_to_enu', outs[2])):
                    d = abs(float(numpy.linalg.norm(got)) - float(numpy.linalg.norm(base)))
                    if not d <= tol:
                        fail('local-length', f'{nm} changes the length by {d:.3e}', case)
                # axes against independently computed east / north / up at the reference point
                if abs(la) != 90.0:
                    ph, lm = math.radians(la), math.radians(lo)
                    east = numpy.array([-math.sin(lm), math.cos(lm), 0.0])
                    north = numpy.array([-math.sin(ph) * math.cos(lm), -math.sin(ph) * math.sin(lm), math.cos(ph)])
                    upv = numpy.array([math.cos(ph) * math.cos(lm), math.cos(ph) * math.sin(lm), math.sin(ph)])
                    wantu = numpy.array([base.dot(east), base.dot(north), base.dot(upv)])
                    wantn = numpy.array([base.dot(north), base.dot(east), -base.dot(upv)])
                    tol_ax = max(tol, 1e-9 * float(numpy.linalg.norm(base)))
                    if not (float(numpy.abs(outs[2] - wantu).max()) <= tol_ax and float(numpy.abs(outs[0] - wantn).max()) <= tol_ax):
                        fail('local-axes', f'ecf_to_enu / ecf_to_ned about lat {la!r} lon {lo!r}: {outs[2].tolist()} / {outs[0].tolist()} vs east-north-up '
                             f'components {wantu.tolist()}', case)
                    # the up axis is the ellipsoid normal of the surface point under the reference point
                    nv = G.wgs_84_norm(G.geodetic_to_ecf(numpy.array([la, lo, 0.0])))
                    upl = G.enu_to_ecf(numpy.array([0.0, 0.0, 1.0]), orp, absolute_coords=False)
                    if not float(numpy.abs(upl - nv).max()) <= 1e-9:
                        fail('up-normal', f'ENU up axis at lat {la!r} lon {lo!r} is {upl.tolist()}, ellipsoid normal {nv.tolist()}', case)
                if ans is not None:
                    for nm, q, got in zip(('ecf_to_ned', 'ned_to_ecf', 'ecf_to_enu', 'enu_to_ecf'), qs, outs):
                        m = model_vec(q)
                        if not isinstance(m, list):
                            disagree('local', f'{nm}: model answered {ans[q][:40]} vs sarpy {got.tolist()}', case)
                            continue
                        d = max(abs(m[j] - got[j]) for j in range(3))
                        tally.see('model vs sarpy local frames / scale', d / sc, 1e-14)
                        if not d <= tol:
                            disagree('local', f'{nm} about {orp.tolist()} ({"absolute" if absolute else "relative"}): model {m} vs sarpy {got.tolist()}', case)
            except Exception as ex:
                fail('local-raises', f'local-frame conversion raised {type(ex).__name__}: {ex}', case)
        # batches: (n, 3) and (a, b, 3) arrays of local coordinates against the row-by-row calls; list reference point
        for gi in range(20 * scale):
            evaluations += 1
            (la, lo, h, orp, absolute, vk, v, w, qs) = loc[rng.randrange(n_l)]
            n = rng.choice([1, 2, 6])
            rows = numpy.array([[rng.uniform(-1e6, 1e6) for _ in range(3)] for _ in range(n)])
            case = {'kind': 'local-batch', 'orp': hx(orp), 'absolute': absolute, 'rows': [hx(r) for r in rows]}
            try:
                for fn in (G.ecf_to_ned, G.ned_to_ecf, G.ecf_to_enu, G.enu_to_ecf):
                    one = numpy.array([fn(r, orp, absolute_coords=absolute) for r in rows])
                    k2 = 2 if n % 2 == 0 else 1
                    for arr in (rows, rows.reshape((n, 1, 3)), rows.reshape((1, n, 3)), numpy.asfortranarray(rows.reshape((k2, n // k2, 3))),
                                numpy.ascontiguousarray(rows.reshape((k2, n // k2, 3)).T).T):
                        keep = arr.copy()
                        out = fn(arr, list(orp) if gi % 2 else orp, absolute_coords=absolute)
                        if out.shape != arr.shape:
                            fail('shape', f'{fn.__name__}: input shape {arr.shape} gives output shape {out.shape}', case)
                        elif not float(numpy.abs(out.reshape((-1, 3)) - one).max()) <= 1e-9 + 8 * 2.3e-16 * float(numpy.abs(one).max()):
                            fail('ordering-shape', f'{fn.__name__} on shape {arr.shape} differs from the row-by-row calls', case)
                        if not numpy.array_equal(keep, arr):
                            fail('mutates-input', f'{fn.__name__} modified its argument', case)
                # one reference-point array re-used and updated in place between calls (a tracking loop does this): every call must use the
                # reference point the array holds AT THAT CALL, i.e. equal the call with a fresh array of the same values
                (la2, lo2, h2, orp2, *_r) = loc[rng.randrange(n_l)]
                if not numpy.array_equal(orp, orp2):
                    for fn in (G.ecf_to_ned, G.ned_to_ecf, G.ecf_to_enu, G.enu_to_ecf):
                        o = numpy.array(orp, dtype='float64')
                        first = fn(rows, o, absolute_coords=absolute)
                        o[:] = orp2
                        second = fn(rows, o, absolute_coords=absolute)
                        fresh1 = fn(rows, numpy.array(orp, dtype='float64'), absolute_coords=absolute)
                        fresh2 = fn(rows, numpy.array(orp2, dtype='float64'), absolute_coords=absolute)
                        if not (numpy.array_equal(first, fresh1) and numpy.array_equal(second, fresh2)):
                            fail('reference-history', f'{fn.__name__}: with one reference-point array updated in place between two calls ({orp.tolist()} then {orp2.tolist()}) '
                                 f'the second call differs from a call with a fresh array of the same values by {float(numpy.abs(second - fresh2).max()):.3e}',
                                 dict(case, orp2=hx(orp2)))
                        if not numpy.array_equal(o, orp2):
                            fail('mutates-input', f'{fn.__name__} modified the reference point', case)
            except Exception as ex:
                fail('local-raises', f'batched local-frame conversion raised {type(ex).__name__}: {ex}', case)
        # the matrices from a given latitude / longitude: the model's matrix, applied like the code applies it, matches
        # sarpy's conversion about the reference point with that latitude / longitude
        if ans is not None:
            for k, qn, qe in q_mat:
                (la, lo, h, orp, absolute, vk, v, w, qs) = loc[k]
                mn, me = model_vec(qn), model_vec(qe)
                sn, se = G._ecf_to_ned_matrix(orp), G._ecf_to_enu_matrix(orp)
                for nm, m, s_ in (('ned', mn, sn), ('enu', me, se)):
                    if not isinstance(m, list) or len(m) != 9:
                        disagree('matrix', f'{nm} matrix: model answered {m}', {'orp_llh': hx([la, lo, h])})
                        continue
                    d = float(numpy.abs(numpy.array(m).reshape((3, 3)) - s_).max())
                    tally.see('model vs sarpy matrices', d, 1e-14)
                    if abs(la) != 90.0 and not d <= 1e-9:
                        disagree('matrix', f'{nm} matrix at lat {la!r} lon {lo!r}: model {m} vs sarpy {s_.tolist()}', {'orp_llh': hx([la, lo, h])})

        cls_counts = {}
        for c in cls_g:
            for t in c:
                cls_counts[t] = cls_counts.get(t, 0) + 1
        for c in cls_e:
            cls_counts[c] = cls_counts.get(c, 0) + 1
        chk.coverage.update({
            'evaluations': evaluations,
            'distinct_nontrivial': len(feats),
            'rule': 'geodetic points: latitude in {+-90, 0, 90 - 10^-k (k <= 14), +-10^-k, uniform} x longitude in {+-180, 0, +-90, 180 - 10^-k, '
                    '+-10^-k, uniform} x height in {0, -1e4, 1e8, uniform +-1e4, -10^k, 10^k (k <= 8)}; directly chosen ECF points: z = 0, '
                    'polar axis, x = 0, antimeridian with y = +-0.0, tiny z, tiny distance from the axis, generic (radius a .. 1e8), deep '
                    'points (validity flag only); local frames: reference points from the same geodetic classes x absolute/relative x '
                    '{near, far, unit, axis} vectors; shapes (3,), (n,3), (2,n/2,3), (n,1,1,3), list, tuple, strided, Fortran order, (0,3); '
                    "orderings latlong/longlat in mixed case; ndarray dtypes int32/int64/float32/big-endian float64. "
                    'distinct = distinct (family, class ...) tuples seen. Tolerances 1e-6 m / 1e-9 deg; noise band counted separately.',
            'samples': ['geo fwd ll <bits 34.5> <bits -118.25> <bits 1234.5>', json.dumps({'llh': llh[0].tolist(), 'ecf': ecf[0].tolist()}),
                        json.dumps({'ecf': pts[0].tolist(), 'class': cls_e[0]})],
            'traces_validated_against_impl': (2 * n_g + len(q_fwd_LL) * 2 + 2 * n_e + 4 * n_l + 2 * len(q_mat) + 1) if ans is not None else 0,
            'disagreements_checked': len(disagreements),
            'input_classes': cls_counts,
            'max_observed_difference': {k_: float('%.3e' % v_) for k_, v_ in sorted(tally.maxdiff.items())},
            'above_noise_floor_below_alarm': tally.band,
            'high_precision_evaluations': len(mp_lines) + len(dt_lines),
            'failing_inputs_by_key': per_key,
        })
        chk.assumptions += [
            'exactness of the closed-form inverse is proved over the reals (Props.C12.inverse_exact) for the model definitions '
            '(Spec.Geo.heikF..heikR0, ecfToGeodeticLL); that sarpy evaluates these formulas in IEEE doubles to 1e-6 m / 1e-9 deg is checked '
            'numerically: sarpy inverse -> 50-digit forward map -> residual on the seeded grid, and model-at-Float vs sarpy',
            'IEEE-754 rounding and the libm / numpy elementary functions are not modelled: the Float instance of the model agrees with sarpy '
            'within 1e-6 m / 1e-9 deg on the grid (observed differences are in max_observed_difference)',
            'the local-frame theorems hold for the matrix built from any latitude / longitude; that the code obtains these from the reference point '
            'through the closed-form inverse is covered by correspondence and the east/north/up oracle, not by proof',
            'the 50-digit oracle uses the defining WGS-84 constants a = 6378137, 1/f = 298.257223563 (mpmath in python3-vt)',
            'theorem enu_up_eq_normal is about the height-0 point of the given latitude / longitude: for a reference point off the ellipsoid '
            'wgs_84_norm(reference point) is the gradient direction of x^2/a^2+y^2/a^2+z^2/b^2 there, which is not the geodetic up direction',
        ]
    finally:
        numpy.seterr(**old_err)
        shutil.rmtree(tmp, ignore_errors=True)

    unknown = [f for f in fails if not chk.known(f.get('key', ''))]
    for f in unknown[:5]:
        chk.violation(f['msg'], {'key': f['key'], 'case': f['case'], 'replay_cmd': './check C12 --replay <this file>'}, True)
    if not unknown and (broken or disagreements):
        chk.violation('proof obligation or correspondence no longer checks: ' + '; '.join(broken[:3] + [d['msg'][:200] for d in disagreements[:2]]),
                      {'broken_obligations': broken, 'disagreements': disagreements[:10]}, False)
    chk.coverage['failing_inputs'] = len(fails)
    return chk.finish()


def replay(path):
    """re-runs the recorded case on sarpy alone and prints what it returns"""
    from sarpy.geometry import geocoords as G
    rec = json.load(open(path))
    print(rec.get('what', '')[:600])
    case = rec.get('case')
    if not case:
        print(json.dumps(rec.get('broken_obligations')), json.dumps(rec.get('disagreements'))[:2000])
        return 1
    kind = case.get('kind')
    if kind == 'geodetic':
        llh = numpy.array(unhx(case['llh']))
        e = G.geodetic_to_ecf(llh)
        print('llh', llh.tolist(), '-> ecf', e.tolist(), '-> llh', G.ecf_to_geodetic(e).tolist())
    elif kind == 'ecf':
        p = numpy.array(unhx(case['ecf']))
        r = G.ecf_to_geodetic(p)
        print('ecf', p.tolist(), '-> llh', r.tolist(), '-> ecf', G.geodetic_to_ecf(r).tolist(), 'normal', G.wgs_84_norm(p).tolist())
    elif kind == 'dtype':
        p = numpy.array(unhx(case['arg']))
        fn = getattr(G, case['fn'])
        print(case['fn'], 'dtype', case['dtype'], fn(p.astype(case['dtype'])).tolist(), '| float64', fn(p).tolist())
    elif kind == 'local':
        orp, v, w, a = numpy.array(unhx(case['orp'])), numpy.array(unhx(case['v'])), numpy.array(unhx(case['w'])), case['absolute']
        n = G.ecf_to_ned(v, orp, absolute_coords=a)
        u = G.ecf_to_enu(v, orp, absolute_coords=a)
        print('v', v.tolist(), 'ned', n.tolist(), 'back', G.ned_to_ecf(n, orp, absolute_coords=a).tolist())
        print('enu', u.tolist(), 'back', G.enu_to_ecf(u, orp, absolute_coords=a).tolist())
    else:
        print(json.dumps(case)[:2000])
    return 1
