"""Self-consistent CPHD 1.x metadata and data generators (shared by C09, C18, C19)."""
import logging
import os

import numpy

REPO = os.environ.get('SARPY_REPO', '/repo')
BPS = {'CI2': 2, 'CI4': 4, 'CF8': 8}
SIG_DTYPE = {'CI2': '>i1', 'CI4': '>i2', 'CF8': '>f4'}


def build_meta(fmt, channel_sizes, amp_sf, support, text=None, template='syntax-only-cphd-1.1.0-monostatic-minimal.xml'):
    """channel_sizes: [(vectors, samples)], support: list of (rows, cols, element_format) e.g. ('IAZ=F4;')"""
    from sarpy.io.phase_history.cphd1_elements.CPHD import CPHDType
    from sarpy.io.phase_history.cphd1_elements.Data import ChannelSizeType, SupportArraySizeType
    from sarpy.io.phase_history.cphd1_elements.PVP import PerVectorParameterF8
    from sarpy.io.phase_history.cphd1_elements.SupportArray import SupportArrayType, IAZArrayType
    meta = CPHDType.from_xml_file(os.path.join(REPO, 'tests', 'data', template))
    pvp = meta.PVP
    pvp.AmpSF = PerVectorParameterF8(Offset=0) if amp_sf else None
    pvp.TxAntenna = None
    pvp.RcvAntenna = None
    pvp.AddedPVP = None
    off = 0
    for fld in pvp._fields:
        val = getattr(pvp, fld, None)
        if val is None or not hasattr(val, 'Offset'):
            continue
        val.Offset = off
        off += val.Size
    nbytes = off * 8
    tmpl = meta.Channel.Parameters[0]
    chans, params = [], []
    po = so = 0
    for i, (nv, ns) in enumerate(channel_sizes):
        ident = f'ch{i}'
        chans.append(ChannelSizeType(Identifier=ident, NumVectors=nv, NumSamples=ns, SignalArrayByteOffset=so, PVPArrayByteOffset=po))
        po += nv * nbytes
        so += nv * ns * BPS[fmt]
        p = tmpl.copy()
        p.Identifier = ident
        p.RefVectorIndex = 0
        params.append(p)
    meta.Channel.Parameters = params
    meta.Channel.RefChId = 'ch0'
    d = meta.Data
    d.SignalArrayFormat = fmt
    d.NumBytesPVP = nbytes
    d.SignalCompressionID = None
    d.Channels = chans
    if support:
        import crsdgen
        from sarpy.io.phase_history.cphd1_elements.SupportArray import AntGainPhaseType, DwellTimeArrayType, AddedSupportArrayType
        arrs, iaz, agp, dta, add = [], [], [], [], []
        ao = 0
        for k, entry in enumerate(support):
            r, c = entry[0], entry[1]
            kind = entry[2] if len(entry) > 2 else 'IAZ'
            efmt, _, bpe, _ = crsdgen.SUPPORT_KINDS_CPHD[kind]
            ident = f'iaz{k}' if kind == 'IAZ' else f'sa{k}'
            arrs.append(SupportArraySizeType(Identifier=ident, NumRows=r, NumCols=c, BytesPerElement=bpe, ArrayByteOffset=ao))
            ao += r * c * bpe
            if kind == 'IAZ':
                iaz.append(IAZArrayType(Identifier=ident, ElementFormat=efmt, X0=0.0, Y0=0.0, XSS=1.0, YSS=1.0))
            elif kind == 'AGP':
                agp.append(AntGainPhaseType(Identifier=ident, ElementFormat=efmt, X0=-0.5, Y0=-0.5, XSS=0.25, YSS=0.25))
            elif kind == 'DTA':
                dta.append(DwellTimeArrayType(Identifier=ident, ElementFormat=efmt, X0=0.0, Y0=0.0, XSS=1.0, YSS=1.0))
            else:
                add.append(AddedSupportArrayType(Identifier=ident, ElementFormat=efmt, X0=0.0, Y0=0.0, XSS=1.0, YSS=1.0,
                                                 XUnits='m', YUnits='m', ZUnits='count'))
        d.SupportArrays = arrs
        meta.SupportArray = SupportArrayType(IAZArray=iaz or None, AntGainPhase=agp or None, DwellTimeArray=dta or None, AddedSupportArray=add or None)
    else:
        d.SupportArrays = None
        meta.SupportArray = None
    if text is not None:
        meta.CollectionID.CollectorName = text
    return meta


def make_pvp(meta, rng):
    dt = meta.PVP.get_vector_dtype()
    out = {}
    for ch in meta.Data.Channels:
        arr = numpy.zeros((ch.NumVectors,), dtype=dt)
        for name in dt.names:
            f = arr[name]
            if name == 'AmpSF':
                f[:] = [2.0 ** (-rng.randint(0, 4)) for _ in range(ch.NumVectors)]
            elif f.dtype.kind in 'iu':
                f[...] = numpy.array([rng.randint(-1000, 1000) for _ in range(f.size)]).reshape(f.shape)
            else:
                f[...] = numpy.array([rng.uniform(-5, 5) for _ in range(f.size)]).reshape(f.shape)
        out[ch.Identifier] = arr
    return out


def make_raw(meta, rng):
    fmt = meta.Data.SignalArrayFormat
    out = {}
    for ch in meta.Data.Channels:
        shape = (ch.NumVectors, ch.NumSamples, 2)
        n = int(numpy.prod(shape))
        if fmt == 'CF8':
            a = numpy.array([rng.uniform(-10, 10) for _ in range(n)], dtype='float32')
        else:
            lim = 127 if fmt == 'CI2' else 32767
            a = numpy.array([rng.randint(-lim, lim) for _ in range(n)])
        out[ch.Identifier] = a.reshape(shape).astype(SIG_DTYPE[fmt])
    return out


def make_support(meta, rng):
    import crsdgen
    return crsdgen.make_support(meta, rng)


def formatted(raw, amp):
    v = (raw[..., 0].astype('float32') + 1j * raw[..., 1].astype('float32')).astype('complex64')
    if amp is not None:
        v = (amp.astype('float32')[:, None] * v).astype('complex64')
    return v


def parse_header(buf):
    """independent parse of the CPHD/CRSD file header (KEY := VALUE lines, terminated by \\f\\n)"""
    end = buf.find(b'\f\n')
    if end < 0:
        raise ValueError('no header terminator')
    lines = buf[:end].decode('ascii').split('\n')
    kind, _, ver = lines[0].partition('/')
    kv = {}
    for ln in lines[1:]:
        if not ln:
            continue
        k, sep, v = ln.partition(' := ')
        if not sep:
            raise ValueError(f'malformed header line {ln!r}')
        kv[k] = v
    return kind, ver, kv, end


def check_layout(buf, kind_expected='CPHD'):
    """returns (problems, header dict)"""
    problems = []
    try:
        kind, ver, kv, hend = parse_header(buf)
    except Exception as e:
        return [f'header: {e}'], None
    if kind != kind_expected:
        problems.append(f'file type {kind!r}, expected {kind_expected!r}')
    need = ['XML_BLOCK_SIZE', 'XML_BLOCK_BYTE_OFFSET', 'PVP_BLOCK_SIZE', 'PVP_BLOCK_BYTE_OFFSET', 'SIGNAL_BLOCK_SIZE', 'SIGNAL_BLOCK_BYTE_OFFSET']
    for k in need:
        if k not in kv:
            problems.append(f'header lacks {k}')
    if problems:
        return problems, kv
    g = lambda k: int(kv[k])
    xo, xs = g('XML_BLOCK_BYTE_OFFSET'), g('XML_BLOCK_SIZE')
    if hend + 2 > xo:
        problems.append(f'header text and terminator end at {hend + 2}, after XML_BLOCK_BYTE_OFFSET {xo}')
    xml = buf[xo:xo + xs]
    if not xml.lstrip().startswith(b'<'):
        problems.append('XML block does not start with an XML document at its declared offset')
    if not xml.rstrip().endswith(b'>'):
        problems.append('XML block does not end with the end of an XML document at its declared size')
    if buf[xo + xs:xo + xs + 2] != b'\f\n':
        problems.append(f'XML block is not followed by the section terminator at {xo + xs} (found {buf[xo + xs:xo + xs + 2]!r})')
    try:
        import xml.etree.ElementTree as ET
        root = ET.fromstring(xml)
        ns = root.tag[1:].split('}')[0] if root.tag.startswith('{') else ''
        if ns != f'urn:{kind}:{ver}' and not ns.startswith(f'http://api.nsgreg.nga.mil/schema/{kind.lower()}/{ver}'):
            problems.append(f'XML namespace {ns!r} does not match the declared version {kind}/{ver}')
    except Exception as e:
        problems.append(f'XML block does not parse: {e}')
    prev_end = xo + xs + 2
    blocks = []
    if 'SUPPORT_BLOCK_BYTE_OFFSET' in kv:
        blocks.append(('SUPPORT', g('SUPPORT_BLOCK_BYTE_OFFSET'), g('SUPPORT_BLOCK_SIZE')))
    blocks.append(('PVP', g('PVP_BLOCK_BYTE_OFFSET'), g('PVP_BLOCK_SIZE')))
    blocks.append(('SIGNAL', g('SIGNAL_BLOCK_BYTE_OFFSET'), g('SIGNAL_BLOCK_SIZE')))
    for name, off, size in blocks:
        if off < prev_end:
            problems.append(f'{name} block at {off} overlaps the previous block ending at {prev_end}')
        prev_end = off + size
    if prev_end != len(buf):
        problems.append(f'SIGNAL block ends at {prev_end} but the file has {len(buf)} bytes')
    return problems, kv


def permute_pvp_fields(rng, pvp):
    """the same per-vector parameters, each array declared with its fields in a different order (same names, offsets, item size):
    a legitimate input (the writers compare dtypes sorted by offset); values must still land under their own parameters"""
    out = {}
    for k, v in pvp.items():
        names = list(v.dtype.names)
        rng.shuffle(names)
        dt = numpy.dtype({'names': names, 'formats': [v.dtype.fields[n][0] for n in names],
                          'offsets': [v.dtype.fields[n][1] for n in names], 'itemsize': v.dtype.itemsize})
        w = numpy.zeros(v.shape, dtype=dt)
        for n in names:
            w[n] = v[n]
        out[k] = w
    return out


def relayout_pvp_in_place(meta, rng):
    """edit the per-vector parameter layout of THIS metadata object in place (the parameters keep their sizes, their offsets are
    re-assigned in a shuffled order; NumBytesPVP is unchanged): a metadata object that was already used once - its vector dtype
    requested, a file written from it - must describe the new layout everywhere afterwards"""
    pvp = meta.PVP
    flds = [f for f in pvp._fields if getattr(pvp, f, None) is not None and hasattr(getattr(pvp, f), 'Offset')]
    rng.shuffle(flds)
    off = 0
    for f in flds:
        v = getattr(pvp, f)
        v.Offset = off
        off += v.Size
    assert off * 8 == meta.Data.NumBytesPVP
