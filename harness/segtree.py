"""Random data-segment trees with an independent numpy oracle (shared by C01 / C07 / C15).

A tree is a JSON-able spec.  `build(spec, mode)` returns (segment, oracle) where
oracle.raw / oracle.full are what `read_raw(None)` / `read(None)` must return, computed with
plain numpy calls that share no code with sarpy (flip / transpose / stack / fancy assignment).
Leaf arrays carry their own provenance (distinct small integers), so a read result *is* its
gather map and comparisons are exact.
"""
import io
import os
import tempfile

import numpy

from sarpy.io.general.data_segment import NumpyArraySegment, NumpyMemmapSegment, FileReadDataSegment, \
    SubsetSegment, BandAggregateSegment, BlockAggregateSegment, ReorientationSegment
from sarpy.io.general.format_function import IdentityFunction, ComplexFormatFunction, SingleLUTFormatFunction


class Oracle:
    def __init__(self, raw, full):
        self.raw = raw
        self.full = full


def orient(arr, rev, trans):
    for ax in rev or ():
        arr = numpy.flip(arr, axis=ax)
    if trans is not None:
        arr = numpy.transpose(arr, trans)
    return arr


def complex_of(arr, order, band_dim, collapsed):
    """independent statement of the pair extraction along band_dim (after orientation): IQ / QI real and imaginary
    parts, MP / PM magnitude and phase (unsigned integer phases are fractions of a turn, 2*pi*p / 2**bits)"""
    a = numpy.moveaxis(arr, band_dim, -1)
    first = a[..., 0::2].astype('float64')
    second = a[..., 1::2].astype('float64')
    if order == 'IQ':
        z = first + 1j * second
    elif order == 'QI':
        z = second + 1j * first
    elif order in ('MP', 'PM'):
        mag, ph = (first, second) if order == 'MP' else (second, first)
        if arr.dtype.kind == 'u':
            ph = ph * (2.0 * numpy.pi / float(1 << (8 * arr.dtype.itemsize)))
        z = mag * numpy.exp(1j * ph)
    else:
        raise ValueError(order)
    z = z.astype('complex64')
    if collapsed:
        return z[..., 0]
    return numpy.moveaxis(z, -1, band_dim)


def fmt_shape_dtype(spec, oriented):
    f = spec.get('fmt')
    if f is None:
        return None, oriented.dtype, oriented.shape, oriented
    if f['kind'] == 'complex':
        full = complex_of(oriented, f['order'], f['band_dim'], f['collapsed'])
        return f, numpy.dtype('complex64'), full.shape, full
    if f['kind'] == 'lut':
        lut = numpy.array(f['table'], dtype='uint8')
        full = lut[oriented]
        return f, numpy.dtype('uint8'), full.shape, full
    raise ValueError(f)


def mk_fmt(f, raw_dtype):
    if f is None:
        return None
    if f['kind'] == 'complex':
        return ComplexFormatFunction(raw_dtype, f['order'], band_dimension=f['band_dim'])
    if f['kind'] == 'lut':
        return SingleLUTFormatFunction(numpy.array(f['table'], dtype='uint8'))
    raise ValueError(f)


def sentinel(dt):
    """the value write-mode stores are pre-set to (never a written sample in the generated families)"""
    dt = numpy.dtype(dt)
    return -1 if dt.kind != 'u' else int(numpy.iinfo(dt).max)


def has_polar(spec):
    """does the tree contain a magnitude / phase complex format (float arithmetic: compare with a tolerance)"""
    f = spec.get('fmt')
    if f and f['kind'] == 'complex' and f['order'] in ('MP', 'PM'):
        return True
    if 'parent' in spec and has_polar(spec['parent']):
        return True
    return any(has_polar(c) for c in spec.get('children', []))


def arrays_equal(a, b, approx=False):
    """same shape and same elements; `approx` (magnitude / phase formats only) compares with a relative tolerance far
    below the distance between the values of distinct stored samples"""
    if a.shape != b.shape:
        return False
    if approx:
        return bool(numpy.allclose(a, b, rtol=1e-5, atol=1e-4))
    return bool(numpy.array_equal(a, b))


class Builder:
    def __init__(self, mode='r', tmpdir=None, preset=None):
        self.mode = mode
        self.preset = list(preset) if preset is not None else None   # leaf arrays to read from (in leaf order)
        self.tmpdir = tmpdir
        self.leaves = []   # (spec, underlying array or file) for write-mode inspection
        self.counter = 0
        self.files = []

    def leaf_array(self, spec):
        shape = tuple(spec['shape'])
        n = int(numpy.prod(shape))
        base = spec.get('base', 0)
        dt = numpy.dtype(spec.get('dtype', 'int32'))
        if dt.kind == 'u' and dt.itemsize == 1:
            arr = ((numpy.arange(n) * 7 + base) % 251).astype(dt).reshape(shape)
        else:
            arr = (numpy.arange(n) + base).astype(dt).reshape(shape)
        return arr

    def build(self, spec):
        k = spec['kind']
        rev = tuple(spec['rev']) if spec.get('rev') else None
        trans = tuple(spec['trans']) if spec.get('trans') is not None else None
        if k in ('array', 'memmap', 'fileread'):
            arr = self.leaf_array(spec)
            if self.preset is not None:
                arr = numpy.array(self.preset.pop(0)).astype(arr.dtype).reshape(arr.shape)
            if self.mode == 'w':
                store = numpy.full(arr.shape, sentinel(arr.dtype), dtype=arr.dtype)
            else:
                store = arr
            oriented = orient(arr, rev, trans)
            f, fdt, fshape, full = fmt_shape_dtype(spec, oriented)
            ff = mk_fmt(f, arr.dtype)
            if k == 'array':
                # reverse_axes is a collection of axes: naming an axis twice (flags gathered from independent sources) or in any order
                # means the same as naming it once.  For half of the reversed array leaves the argument carries a repeated axis, unsorted
                rev_arg = rev
                if rev and (int(spec.get('base', 0)) // 10000 + len(rev) + sum(arr.shape)) % 2 == 0:
                    rev_arg = list(rev)[::-1] + [rev[0]]
                seg = NumpyArraySegment(store if self.mode == 'w' else arr.copy(), formatted_dtype=fdt,
                                        formatted_shape=tuple(fshape),
                                        reverse_axes=rev_arg, transpose_axes=trans, format_function=ff, mode=self.mode)
                self.leaves.append((spec, seg.underlying_array))
            elif k == 'memmap':
                path = os.path.join(self.tmpdir, f'leaf{len(self.files)}.bin')
                off = spec.get('offset', 0)
                with open(path, 'wb') as fh:
                    fh.write(b'\xAA' * off)
                    fh.write((store if self.mode == 'w' else arr).tobytes())
                    fh.write(b'\xBB' * spec.get('trail', 0))
                self.files.append(path)
                seg = NumpyMemmapSegment(path, off, arr.dtype, arr.shape, formatted_dtype=fdt,
                                         formatted_shape=tuple(fshape), reverse_axes=rev, transpose_axes=trans,
                                         format_function=ff, mode=self.mode, close_file=True)
                self.leaves.append((spec, seg.underlying_array))
            else:
                off = spec.get('offset', 0)
                bio = io.BytesIO(b'\xAA' * off + arr.tobytes() + b'\xBB' * spec.get('trail', 0))
                seg = FileReadDataSegment(bio, off, arr.dtype, arr.shape, fdt, tuple(fshape), reverse_axes=rev,
                                          transpose_axes=trans, format_function=ff)
            return seg, Oracle(arr, full)
        if k == 'reorient':
            pseg, po = self.build(spec['parent'])
            raw = po.full
            oriented = orient(raw, rev, trans)
            f, fdt, fshape, full = fmt_shape_dtype(spec, oriented)
            ff = mk_fmt(f, raw.dtype)
            seg = ReorientationSegment(pseg, formatted_dtype=fdt if ff else None, formatted_shape=tuple(fshape) if ff else None,
                                       reverse_axes=rev, transpose_axes=trans, format_function=ff)
            return seg, Oracle(raw, full)
        if k == 'subset':
            pseg, po = self.build(spec['parent'])
            d = tuple(slice(*x) for x in spec['def'])
            sq = spec.get('squeeze', True)
            basis = spec.get('basis', 'formatted')
            seg = SubsetSegment(pseg, d, basis, squeeze=sq)
            if basis == 'formatted':
                full = po.full[d]
                if sq:
                    full = full.reshape(tuple(s for s in full.shape if s != 1))
                # raw view of a subset: only asserted for shape (content is checked through .full)
                raw = None
            else:
                # documented meaning of a raw-basis definition: the parent's orientation / format applied to raw[def]
                ps = spec['parent']
                if po.raw is None:
                    raise ValueError('raw-basis subset of a parent without a raw oracle')
                prev = tuple(ps['rev']) if ps.get('rev') else None
                ptrans = tuple(ps['trans']) if ps.get('trans') is not None else None
                _, _, _, full = fmt_shape_dtype(ps, orient(po.raw[d], prev, ptrans))
                if sq:
                    full = full.reshape(tuple(s for s in full.shape if s != 1))
                raw = None
            return seg, Oracle(raw, full)
        if k == 'bands':
            built = [self.build(c) for c in spec['children']]
            bd = spec['band_dim']
            raw = numpy.stack([o.full for _, o in built], axis=bd)
            oriented = orient(raw, rev, trans)
            f, fdt, fshape, full = fmt_shape_dtype(spec, oriented)
            ff = mk_fmt(f, raw.dtype)
            seg = BandAggregateSegment([s for s, _ in built], bd, formatted_dtype=fdt if ff else None,
                                       formatted_shape=tuple(fshape) if ff else None, reverse_axes=rev, transpose_axes=trans,
                                       format_function=ff)
            return seg, Oracle(raw, full)
        if k == 'blocks':
            built = [self.build(c) for c in spec['children']]
            shape = tuple(spec['shape'])
            fill = spec.get('fill', -7)
            dt = built[0][1].full.dtype
            raw = numpy.full(shape, fill, dtype=dt)
            arr = [tuple(slice(*x) for x in a) for a in spec['arrangement']]
            for a, (_, o) in zip(arr, built):
                raw[a] = o.full
            oriented = orient(raw, rev, trans)
            f, fdt, fshape, full = fmt_shape_dtype(spec, oriented)
            ff = mk_fmt(f, raw.dtype)
            # the arrangement may be given in raw or in formatted coordinates (`coordinate_basis`): the same mosaic.  For half of the
            # specs without a format function (decided by the spec itself, so that a replay makes the same choice) the formatted form is
            # used; the formatted position of a block is computed here from the orientation alone (mirror of a reversed axis, then transpose)
            use_fmt = ff is None and spec.get('basis', 'formatted' if (sum(shape) + len(built)) % 2 else 'raw') == 'formatted' and \
                all(e.step in (None, 1) and isinstance(e.start, int) and isinstance(e.stop, int) and 0 <= e.start < e.stop for a in arr for e in a)
            if use_fmt:
                nd = len(shape)
                tr = list(trans) if trans is not None else list(range(nd))
                rv = set(rev or ())
                arr_f = []
                for a in arr:
                    pos = []
                    for j in range(nd):
                        r = tr[j]
                        lo, hi = a[r].start, a[r].stop
                        pos.append(slice(shape[r] - hi, shape[r] - lo, 1) if r in rv else slice(lo, hi, 1))
                    arr_f.append(tuple(pos))
                seg = BlockAggregateSegment([s for s, _ in built], arr_f, 'formatted', fill, shape, fdt, tuple(fshape),
                                            reverse_axes=rev, transpose_axes=trans, format_function=ff)
            else:
                seg = BlockAggregateSegment([s for s, _ in built], arr, 'raw', fill, shape, fdt, tuple(fshape),
                                            reverse_axes=rev, transpose_axes=trans, format_function=ff)
            return seg, Oracle(raw, full)
        raise ValueError(k)

    def cleanup(self):
        for p in self.files:
            try:
                os.remove(p)
            except OSError:
                pass


# ------------------------------------------------------------------ random generation

def rand_orient(rng, ndim, p_rev=0.5, p_trans=0.4):
    rev = None
    if rng.random() < p_rev:
        rev = sorted(rng.sample(range(ndim), rng.randint(1, ndim)))
    trans = None
    if ndim > 1 and rng.random() < p_trans:
        t = list(range(ndim))
        rng.shuffle(t)
        trans = t
    return rev, trans


def rand_shape(rng, ndim, lo=1, hi=7):
    return [rng.randint(lo, hi) for _ in range(ndim)]


def rand_leaf(rng, shape=None, allow_fmt=True, kinds=('array', 'array', 'memmap', 'fileread'), dtype='int32', base=None):
    ndim = len(shape) if shape is not None else rng.choice([1, 2, 2, 2, 3])
    shape = list(shape) if shape is not None else rand_shape(rng, ndim)
    spec = {'kind': rng.choice(kinds), 'shape': shape, 'dtype': dtype,
            'base': base if base is not None else rng.randint(0, 5) * 1000}
    if spec['kind'] in ('memmap', 'fileread'):
        spec['offset'] = rng.choice([0, 3, 16])
        spec['trail'] = rng.choice([0, 0, 5])
    spec['rev'], spec['trans'] = rand_orient(rng, ndim)
    return spec


def oriented_shape(shape, trans):
    return [shape[i] for i in trans] if trans is not None else list(shape)


def rand_complex_leaf(rng):
    """leaf with a ComplexFormatFunction (IQ/QI on int16, MP/PM on uint16) — band axis after transpose, collapsed or kept"""
    ndim = rng.choice([2, 3, 3])
    shape = rand_shape(rng, ndim, 1, 5)
    rev, trans = rand_orient(rng, ndim)
    oshape = oriented_shape(shape, trans)
    bd = rng.randrange(ndim)
    collapsed = rng.random() < 0.5
    # the oriented band axis must have even size (2 if collapsed)
    src_axis = trans[bd] if trans is not None else bd
    shape[src_axis] = 2 if collapsed else 2 * rng.randint(1, 3)
    order = rng.choice(['IQ', 'QI', 'IQ', 'QI', 'MP', 'PM'])
    spec = {'kind': rng.choice(['array', 'memmap', 'fileread']), 'shape': shape, 'dtype': 'int16' if order in ('IQ', 'QI') else 'uint16',
            'base': rng.randint(0, 3) * 100 + 1,
            'rev': rev, 'trans': trans,
            'fmt': {'kind': 'complex', 'order': order, 'band_dim': bd, 'collapsed': collapsed}}
    if spec['kind'] != 'array':
        spec['offset'] = rng.choice([0, 4])
        spec['trail'] = 0
    return spec


def rand_lut_leaf(rng):
    shape = rand_shape(rng, 2, 1, 6)
    rev, trans = rand_orient(rng, 2)
    table = [(i * 37 + 11) % 256 for i in range(256)]
    if rng.random() < 0.35:
        m = rng.randint(2, 3)
        table = [[(i * 37 + 11 + 101 * c) % 256 for c in range(m)] for i in range(256)]
    return {'kind': 'array', 'shape': shape, 'dtype': 'uint8', 'base': rng.randint(0, 100), 'rev': rev, 'trans': trans,
            'fmt': {'kind': 'lut', 'table': table}}


def full_shape_of(spec):
    """formatted shape of a spec, computed structurally (used to build parents)"""
    k = spec['kind']
    if k in ('array', 'memmap', 'fileread', 'reorient', 'bands', 'blocks'):
        if k in ('array', 'memmap', 'fileread', 'blocks'):
            raw = list(spec['shape'])
        elif k == 'reorient':
            raw = full_shape_of(spec['parent'])
        else:
            c = full_shape_of(spec['children'][0])
            raw = list(c)
            raw.insert(spec['band_dim'], len(spec['children']))
        o = oriented_shape(raw, spec.get('trans'))
        f = spec.get('fmt')
        if f is not None and f['kind'] == 'lut' and isinstance(f['table'][0], list):
            return list(o) + [len(f['table'][0])]
        if f is None or f['kind'] == 'lut':
            return o
        if f['kind'] == 'complex':
            if f['collapsed']:
                return o[:f['band_dim']] + o[f['band_dim'] + 1:]
            o = list(o)
            o[f['band_dim']] //= 2
            return o
    if k == 'subset' and spec.get('basis', 'formatted') == 'raw':
        # formatted shape of the parent's orientation / format applied to the raw selection
        ps = spec['parent']
        rawp = raw_shape_of(ps)
        sel = [len(range(*slice(*d).indices(n))) for n, d in zip(rawp, spec['def'])]
        o = oriented_shape(sel, ps.get('trans'))
        f = ps.get('fmt')
        if f is not None and f['kind'] == 'complex':
            o = o[:f['band_dim']] + o[f['band_dim'] + 1:] if f['collapsed'] else \
                o[:f['band_dim']] + [o[f['band_dim']] // 2] + o[f['band_dim'] + 1:]
        elif f is not None and f['kind'] == 'lut' and isinstance(f['table'][0], list):
            o = list(o) + [len(f['table'][0])]
        return [n for n in o if not (spec.get('squeeze', True) and n == 1)]
    if k == 'subset':
        p = full_shape_of(spec['parent'])
        out = []
        for n, d in zip(p, spec['def']):
            ln = len(range(*slice(*d).indices(n)))
            if spec.get('squeeze', True) and ln == 1:
                continue
            out.append(ln)
        return out
    raise ValueError(k)


def raw_shape_of(spec):
    """raw shape of a node that has an orientation of its own (not a subset)"""
    k = spec['kind']
    if k in ('array', 'memmap', 'fileread', 'blocks'):
        return list(spec['shape'])
    if k == 'reorient':
        return full_shape_of(spec['parent'])
    if k == 'bands':
        raw = list(full_shape_of(spec['children'][0]))
        raw.insert(spec['band_dim'], len(spec['children']))
        return raw
    raise ValueError(k)


def rand_norm_slice(rng, n, steps=(1, 1, 1, -1, 2, -2, 3)):
    """a non-empty in-range slice [start, stop, step] on an axis of length n"""
    for _ in range(50):
        step = rng.choice(steps)
        a = rng.randrange(n)
        if step > 0:
            b = rng.randint(a + 1, n)
            return [a, b, step]
        b = rng.choice([None] + list(range(0, a))) if a > 0 else None
        return [a, b, step]
    return [0, n, 1]


def rand_tiling(rng, n):
    """split [0,n) into consecutive blocks"""
    cuts = sorted(set(rng.sample(range(1, n), min(n - 1, rng.randint(0, 2))))) if n > 1 else []
    edges = [0] + cuts + [n]
    return list(zip(edges[:-1], edges[1:]))


def rand_blocks(rng, depth):
    """block aggregate: 1-d or 2-d tiling, optionally with holes and padded (over-sized) raw shape"""
    ndim = rng.choice([1, 2, 2])
    shape = rand_shape(rng, ndim, 2, 8)
    tilings = [rand_tiling(rng, n) for n in shape]
    cells = [[]]
    for t in tilings:
        cells = [c + [list(x)] for c in cells for x in t]
    hole = rng.random() < 0.3 and len(cells) > 1
    if hole:
        cells.pop(rng.randrange(len(cells)))
    children = []
    arrangement = []
    for i, c in enumerate(cells):
        cshape = [b - a for a, b in c]
        ch = rand_tree(rng, depth - 1, shape=cshape, base=10000 * (i + 1))
        children.append(ch)
        if rng.random() < 0.12:
            # block definition running backwards on some axes: slice(b-1, a-1, -1)
            flags = [rng.random() < 0.6 for _ in c]
            if not any(flags):
                flags[rng.randrange(len(flags))] = True
            arrangement.append([[b - 1, (a - 1 if a > 0 else None), -1] if fl else [a, b, 1] for (a, b), fl in zip(c, flags)])
        else:
            arrangement.append([[a, b, 1] for a, b in c])
    spec = {'kind': 'blocks', 'shape': shape, 'children': children, 'arrangement': arrangement, 'fill': -7}
    spec['rev'], spec['trans'] = rand_orient(rng, ndim, 0.4, 0.3)
    if ndim == 2 and rng.random() < 0.5:
        # every combination of reversed axes with the transpose, uniformly (a reversal of exactly one axis together with the transpose is
        # the case in which the raw -> formatted and the formatted -> raw conversions of an arrangement differ)
        spec['rev'] = rng.choice([None, [0], [1], [0, 1]])
        spec['trans'] = rng.choice([None, [1, 0]])
    spec['basis'] = rng.choice(['raw', 'formatted'])      # how the arrangement is handed to the constructor (see SegBuilder.build)
    return spec


def rand_bands(rng, depth):
    ndim_c = rng.choice([1, 2])
    cshape = rand_shape(rng, ndim_c, 1, 6)
    nb = rng.randint(2, 3)
    bd = rng.randint(0, ndim_c)
    children = [rand_tree(rng, depth - 1, shape=cshape, base=10000 * (i + 1)) for i in range(nb)]
    spec = {'kind': 'bands', 'children': children, 'band_dim': bd}
    # band dimension may not move or be reversed
    nd = ndim_c + 1
    rev = None
    if rng.random() < 0.4:
        cand = [i for i in range(nd) if i != bd]
        if cand:
            rev = sorted(rng.sample(cand, rng.randint(1, len(cand))))
    trans = None
    if nd == 3 and rng.random() < 0.3:
        others = [i for i in range(nd) if i != bd]
        others.reverse()
        t = []
        it = iter(others)
        for i in range(nd):
            t.append(bd if i == bd else next(it))
        trans = t
    spec['rev'], spec['trans'] = rev, trans
    return spec


def rand_tree(rng, depth, shape=None, base=None):
    """random tree whose formatted shape is `shape` if given (identity formats only when shape is forced)"""
    if shape is not None:
        # produce the requested formatted shape: leaf with a transposition-compatible raw shape, maybe wrapped
        ndim = len(shape)
        rev, trans = rand_orient(rng, ndim)
        raw = [0] * ndim
        for i in range(ndim):
            raw[(trans[i] if trans is not None else i)] = shape[i]
        leaf = {'kind': rng.choice(['array', 'array', 'memmap', 'fileread']), 'shape': raw, 'dtype': 'int32',
                'base': base if base is not None else 0, 'rev': rev, 'trans': trans}
        if leaf['kind'] != 'array':
            leaf['offset'] = rng.choice([0, 8])
            leaf['trail'] = 0
        if depth > 0 and rng.random() < 0.3:
            r, t = rand_orient(rng, ndim, 0.5, 0.0)
            return {'kind': 'reorient', 'parent': leaf, 'rev': r, 'trans': None}
        return leaf
    r = rng.random()
    if depth <= 0 or r < 0.25:
        q = rng.random()
        if q < 0.2:
            return rand_complex_leaf(rng)
        if q < 0.3:
            return rand_lut_leaf(rng)
        return rand_leaf(rng)
    if r < 0.45:
        parent = rand_tree(rng, depth - 1)
        pshape = full_shape_of(parent)
        if any(n == 0 for n in pshape) or not pshape:
            return parent
        if parent['kind'] != 'subset' and rng.random() < 0.4:
            # raw-basis definition (nitf.py builds its padded blocks this way); over a non-identity format function
            # (transform_raw_slice of the complex / LUT classes, repaired by F2F3 / F4) less often
            f = parent.get('fmt')
            if f is None or rng.random() < 0.3:
                rshape = raw_shape_of(parent)
                if rshape and all(n > 0 for n in rshape):
                    d = [rand_norm_slice(rng, n, steps=(1, 1, 1, -1, 2)) for n in rshape]
                    if f is not None and f['kind'] == 'complex':
                        ax = parent['trans'][f['band_dim']] if parent.get('trans') is not None else f['band_dim']
                        d[ax] = [0, rshape[ax], 1]
                    return {'kind': 'subset', 'parent': parent, 'def': d, 'squeeze': rng.random() < 0.6, 'basis': 'raw'}
        d = [rand_norm_slice(rng, n, steps=(1, 1, 1, -1, 2)) for n in pshape]
        return {'kind': 'subset', 'parent': parent, 'def': d, 'squeeze': rng.random() < 0.7, 'basis': 'formatted'}
    if r < 0.6:
        parent = rand_tree(rng, depth - 1)
        pshape = full_shape_of(parent)
        if not pshape:
            return parent
        rev, trans = rand_orient(rng, len(pshape))
        return maybe_complex(rng, {'kind': 'reorient', 'parent': parent, 'rev': rev, 'trans': trans})
    if r < 0.8:
        return maybe_complex(rng, rand_blocks(rng, depth))
    return maybe_complex(rng, rand_bands(rng, depth))


def _plain(spec):
    if spec.get('fmt'):
        return False
    if 'parent' in spec and not _plain(spec['parent']):
        return False
    return all(_plain(c) for c in spec.get('children', []))


def maybe_complex(rng, spec, p=0.15):
    """now and then a ComplexFormatFunction (IQ / QI, band axis collapsed or kept) on a re-orientation or an aggregate whose
    (integer) raw data has an axis of even length"""
    if rng.random() >= p or not _plain(spec):
        return spec
    try:
        o = oriented_shape(raw_shape_of(spec), spec.get('trans'))
    except Exception:
        return spec
    cand = [j for j, n in enumerate(o) if n >= 2 and n % 2 == 0]
    if not cand or len(o) < 2:
        return spec
    bd = rng.choice(cand)
    spec['fmt'] = {'kind': 'complex', 'order': rng.choice(['IQ', 'QI']), 'band_dim': bd,
                   'collapsed': o[bd] == 2 and rng.random() < 0.6}
    return spec


def tree_class(spec):
    """coarse structural class of a tree (for coverage accounting)"""
    k = spec['kind']
    f = spec.get('fmt')
    tag = k + ('R' if spec.get('rev') else '') + ('T' if spec.get('trans') is not None else '') + \
        ('F' + f['kind'][0] + (f['order'] + ('c' if f['collapsed'] else 'k') if f['kind'] == 'complex' else
                               ('2' if isinstance(f['table'][0], list) else '1')) if f else '') + \
        ('raw' if k == 'subset' and spec.get('basis') == 'raw' else '') + \
        ('rev' if k == 'blocks' and any(x[2] != 1 for a in spec['arrangement'] for x in a) else '')
    if k in ('reorient', 'subset'):
        return tag + '(' + tree_class(spec['parent']) + ')'
    if k in ('bands', 'blocks'):
        return tag + '(' + ','.join(sorted({tree_class(c) for c in spec['children']})) + ')'
    return tag
